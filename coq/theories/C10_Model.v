(* C10_Model.v — executable model of
     internal/app/connectconformance/client_runner.go  (clientProcessRunner: sendRequest,
        closeSend, waitForResponses, isRunning, stop, consumeOutput, runClient's whenDone)
     internal/delimited.go  (the 4-byte length framing read by consumeOutput)
     internal/app/connectconformance/process.go  (what a process exit does to the pipes)
   as a transition system.  One action = one lock region / atomic operation / pipe operation
   of the Go code, so every interleaving of the sender goroutines, the reader goroutine, the
   exit-notice goroutine and the client process is a list of actions.  An action that is not
   enabled (its goroutine is not at that point, or the mutex it needs is held) leaves the state
   unchanged.  No proofs here.

   Local steps that touch no shared variable are merged into the neighbouring shared step of
   the same goroutine (a sound reduction: they commute with every step of the other actors):
     - consumeOutput: read+unmarshal, the pendingMu region that removes the entry, and the
       call of the removed callback (the callback only appends to the harness' record);
     - the deferred clean-up's  err.CompareAndSwap ; terminated.Store(true) ; proc.abort()
       (three different variables; no other actor reads two of them in one step);
     - sendRequest's failed write: the pendingMu region and err.CompareAndSwap (sendMu is
       held throughout, so only SendCheck of other senders and reader steps can interleave,
       and none of them touches both err and pendingOps in one step).

   The write path of sendRequest (internal.WriteDelimitedMessage on c.proc.stdin) can fail in
   three ways, and the code treats all of them in the same region (remove the eagerly registered
   entry if it is still there, CAS err, return the error):
     - proto.Marshal fails before any byte is written (a request that cannot be encoded, e.g.
       invalid UTF-8 in a proto3 string field)                                  -> WMarshal
     - the pipe is closed (io.ErrClosedPipe, reported as errClosed)              -> WClosed
     - the pipe fails with any other error after k bytes (mid-message)           -> WOther
   Which of them can happen to request i is data of the script (`reqkind`, given at SendCheck):
   it is decided by the request itself and by the client's stdin, not by the runner.

   process.go (runInProcess / localProcess): when the client function returns - with nil or
   with an error, at any point, also while a sender is inside its write - the deferred clean-up
   closes its stdin, stdout and stderr and then closes `done` (ProcExit failed: BOTH values of
   `failed` close both pipes; `failed` only decides the process result). *)
From V Require Export Base.
From V Require Import C10_Consts.
Open Scope N_scope.

Definition name := bytes.

(* why consumeOutput returned *)
Inductive reason := REof | RUnexp | ROversize | RGarbled | RUnknown | RDupResp.

(* error values (c.err, results of sendRequest / waitForResponses) *)
Inductive etag :=
| EClosed                 (* errClosed *)
| EDup                    (* errDuplicate *)
| EReason (r : reason)    (* the reader's reasonForReturn *)
| EWrite                  (* the write path's own error (marshal failure / a pipe error that is not ErrClosedPipe) *)
| EStatus                 (* the process's own non-nil result *)
| ETimeout.               (* process did not stop (localProcess.result deadline) *)

(* where the goroutine running sendRequest for request i is *)
Inductive phase :=
| Idle                    (* not called yet *)
| Checked                 (* passed the c.err check, about to take sendMu *)
| Writing                 (* registered, holds sendMu, inside WriteDelimitedMessage *)
| Ret (e : option etag).  (* returned nil / an error *)

(* what the write path will do with request i (decided by the request and by the client's stdin) *)
Inductive reqkind :=
| QOk                     (* can be marshalled; the pipe takes what the client reads *)
| QBad                    (* proto.Marshal fails: no byte is ever written *)
| QFailAt (k : N).        (* the client's stdin fails with an error that is not io.ErrClosedPipe after
                             k bytes of this request (k has no meaning in the model: harness flavour) *)

(* how a write failed *)
Inductive wfail := WClosed | WMarshal | WOther.

(* the reader goroutine *)
Inductive rstate :=
| RRun                    (* in the read loop *)
| RStop1 (r : reason)     (* returned from the loop; err/terminated/abort done; before closeSend *)
| RStop2 (r : reason)     (* closeSend done; before the drain *)
| RDone.                  (* drained; done channel closed *)

(* one invocation of a request's callback: (name passed, response payload) or
   (name passed, wrapped error: None = errNoOutcome) *)
Inductive outcome :=
| OResp (n : name) (tag : bytes)
| OFail (n : name) (e : option reason).

Record st := mkSt {
  err : option etag;            (* c.err *)
  closed : bool;                (* c.closedSend *)
  term : bool;                  (* c.terminated *)
  mu : option N;                (* holder of sendMu *)
  pending : list (name * N);    (* c.pendingOps: name -> callback of request id *)
  rname : N -> name;            (* TestName of request i *)
  req_of : N -> reqkind;        (* what the write path does with request i *)
  phase_of : N -> phase;
  fired : list (N * outcome);   (* callback invocations, oldest first *)
  rd : rstate;
  seen : list name;             (* testCaseNames *)
  (* environment: the client process and the two pipes *)
  buf : bytes;                  (* written by the client to stdout, not yet consumed *)
  out_open : bool;              (* client side of stdout still open *)
  in_open : bool;               (* a write to the client's stdin can still succeed *)
  alive : bool;
  aborted : bool;               (* proc.abort() was called *)
  noticed : bool;               (* the whenDone callback has run *)
  status : bool;                (* process result is a non-nil error *)
  wait_ret : option (option etag) }.   (* what waitForResponses returned *)

Definition init : st :=
  mkSt None false false None [] (fun _ => []) (fun _ => QOk) (fun _ => Idle) [] RRun []
       [] true true true false false false None.

Inductive action :=
| SendCheck (i : N) (n : name) (q : reqkind)   (* sendRequest entry: the c.err check *)
| SendLock (i : N)               (* sendMu.Lock; closedSend check; pendingMu region (register) *)
| WriteOk (i : N)                (* the client consumed the request; return nil; unlock *)
| WriteFail (i : N) (k : wfail)  (* the write failed; pendingMu region (remove if present); CAS err; unlock *)
| COut (bs : bytes)              (* the client writes bytes to stdout *)
| CCloseOut                      (* the client closes its stdout (stays alive) *)
| CCloseIn                       (* the client closes its stdin (stays alive) *)
| ProcExit (failed peek : bool)  (* the process ends (the client function returned nil / an error): all its
                                    pipe ends are closed, whatever `failed` is.  `peek` is a
                                    harness flavour (read the 4-byte prefix of an in-flight request
                                    first); it has no meaning in the model *)
| ExitNotice                     (* runClient's whenDone callback *)
| RStep                          (* reader: next message / EOF / failure, dispatch *)
| RClose                         (* reader clean-up: closeSend *)
| RDrain                         (* reader clean-up: fail everything pending; close(done) *)
| CloseSend
| Stop
| Wait.                          (* waitForResponses *)

(* ---------- small helpers ---------- *)
Definition updf {A} (f : N -> A) (i : N) (v : A) : N -> A := fun j => if j =? i then v else f j.

Fixpoint lookup (n : name) (l : list (name * N)) : option N :=
  match l with
  | [] => None
  | (m, i) :: r => if bytes_eqb m n then Some i else lookup n r
  end.
Fixpoint remove_name (n : name) (l : list (name * N)) : list (name * N) :=
  match l with
  | [] => []
  | (m, i) :: r => if bytes_eqb m n then r else (m, i) :: remove_name n r
  end.
Definition or_else {A} (o : option A) (d : A) : option A := match o with Some _ => o | None => Some d end.

(* ---------- delimited.go: what the reader finds at the head of its input ---------- *)
Inductive item := INeed | IMsg (m rest : bytes) | IOver (rest : bytes).

(* ---------- which reader is handed which size limit (the wiring between the two runner files) ----------
   Both limits are constants of the package (regenerated into C10_Consts.v): maxClientResponseSize is
   declared in client_runner.go, maxServerResponseSize in server_runner.go; each is the last argument
   of one call of internal.ReadDelimitedMessage.  ReadDelimitedMessage refuses a message whose
   declared size is ABOVE the limit it was handed (size > max), right after the 4-byte prefix. *)
Inductive reader_kind :=
| ClientOutputReader        (* consumeOutput (client_runner.go): answers of the client under test *)
| ServerResponseReader.     (* runTestCasesForServer (server_runner.go): the ServerCompatResponse *)
Definition limit_of (k : reader_kind) : N :=
  match k with
  | ClientOutputReader => c10_max_response
  | ServerResponseReader => c10_max_server_response
  end.
Definition reader_accepts (k : reader_kind) (size : N) : bool := size <=? limit_of k.

Definition next_item (b : bytes) : item :=
  if N.of_nat (length b) <? c10_prefix_len then INeed else
  let size := be_decode (firstn 4 b) 0 in
  let body := skipn 4 b in
  if negb (reader_accepts ClientOutputReader size) then IOver body
  else if N.of_nat (length body) <? size then INeed
  else IMsg (firstn (N.to_nat size) body) (skipn (N.to_nat size) body).

(* protobuf varints (at most 5 bytes here) *)
Fixpoint enc_varint (fuel : nat) (v : N) : bytes :=
  match fuel with
  | O => [v mod 128]
  | S f => if v <? 128 then [v] else (128 + v mod 128) :: enc_varint f (v / 128)
  end.
Fixpoint dec_varint (fuel : nat) (l : bytes) : option (N * bytes) :=
  match l with
  | [] => None
  | b :: r =>
    if b <? 128 then Some (b, r) else
    match fuel with
    | O => None
    | S f => match dec_varint f r with Some (v, r') => Some (b - 128 + 128 * v, r') | None => None end
    end
  end.
Definition varint_len (v : N) : N :=
  if v <? 128 then 1 else if v <? 16384 then 2 else if v <? 2097152 then 3 else if v <? 268435456 then 4 else 5.

(* a padding field: field 15 (not a field of ClientCompatResponse: protobuf-go keeps it as an unknown
   field), length-delimited, p bytes.  This is how the harness makes an answer as large as it likes. *)
Definition pad_field (p : N) : bytes := 122 :: enc_varint 4 p ++ repeat 0 (N.to_nat p).
Definition is_pad (l : bytes) : bool :=
  match l with
  | [] => true
  | 122 :: r => match dec_varint 4 r with Some (p, body) => N.of_nat (length body) =? p | None => false end
  | _ => false
  end.

(* proto.Unmarshal into ClientCompatResponse, for the message shapes the harness writes:
   test_name (field 1), optionally error{message} (field 3 / field 1) carrying a marker, optionally
   one padding field at the end.  Anything else is "garbled" here; the generator only emits garbage
   that protobuf-go rejects as well. *)
Definition decode (m : bytes) : option (name * bytes) :=
  match m with
  | [] => Some ([], [])
  | 10 :: l :: r =>
    if (l <? 128) && (l <=? N.of_nat (length r)) then
      let nm := firstn (N.to_nat l) r in
      match skipn (N.to_nat l) r with
      | [] => Some (nm, [])
      | 26 :: l2 :: 10 :: l3 :: t =>
        if (l3 <? 126) && (l2 =? l3 + 2) && (l3 <=? N.of_nat (length t)) && is_pad (skipn (N.to_nat l3) t)
        then Some (nm, firstn (N.to_nat l3) t) else None
      | 122 :: t => if is_pad (122 :: t) then Some (nm, []) else None
      | _ => None
      end
    else None
  | _ => None
  end.

(* the message a well-behaved client writes for (name, marker) *)
Definition encode (n : name) (tag : bytes) : bytes :=
  let ln := N.of_nat (length n) in
  let lt := N.of_nat (length tag) in
  10 :: ln :: n ++ (match tag with [] => [] | _ => 26 :: (lt + 2) :: 10 :: lt :: tag end).
(* ... and the same answer made larger by p bytes of padding *)
Definition encode_padded (n : name) (tag : bytes) (p : N) : bytes := encode n tag ++ pad_field p.
Definition frame (m : bytes) : bytes := be32 (N.of_nat (length m)) ++ m.

(* ---------- the reader leaves its loop with reason r ---------- *)
Definition reader_stops (s : st) (r : reason) (b : bytes) : st :=
  match r with
  | REof =>
    mkSt s.(err) s.(closed) s.(term) s.(mu) s.(pending) s.(rname) s.(req_of) s.(phase_of) s.(fired)
         (RStop1 r) s.(seen) b s.(out_open) s.(in_open) s.(alive) s.(aborted) s.(noticed) s.(status) s.(wait_ret)
  | _ =>
    mkSt (or_else s.(err) (EReason r)) s.(closed) true s.(mu) s.(pending) s.(rname) s.(req_of) s.(phase_of) s.(fired)
         (RStop1 r) s.(seen) b s.(out_open) s.(in_open) s.(alive) true s.(noticed) s.(status) s.(wait_ret)
  end.

Definition reader_step (s : st) : st :=
  match next_item s.(buf) with
  | INeed =>
    if s.(out_open) then s                                    (* blocked in Read *)
    else reader_stops s (match s.(buf) with [] => REof | _ => RUnexp end) []
  | IOver rest => reader_stops s ROversize rest
  | IMsg m rest =>
    match decode m with
    | None => reader_stops s RGarbled rest
    | Some (n, tag) =>
      match lookup n s.(pending) with
      | Some i =>
        mkSt s.(err) s.(closed) s.(term) s.(mu) (remove_name n s.(pending)) s.(rname) s.(req_of) s.(phase_of)
             (s.(fired) ++ [(i, OResp n tag)])
             RRun (n :: s.(seen)) rest s.(out_open) s.(in_open) s.(alive) s.(aborted) s.(noticed) s.(status) s.(wait_ret)
      | None => reader_stops s (if mem_bytes n s.(seen) then RDupResp else RUnknown) rest
      end
    end
  end.

Definition fail_code (r : reason) : option reason := match r with REof => None | _ => Some r end.

(* ---------- the write path ---------- *)
Definition is_ok (q : reqkind) : bool := match q with QOk => true | _ => false end.
(* may the write of a request of kind q fail in way k?  (stdin_open: a write to the pipe can still succeed) *)
Definition can_fail (stdin_open : bool) (q : reqkind) (k : wfail) : bool :=
  match k, q with
  | WMarshal, QBad => true
  | WMarshal, _ => false
  | WClosed, QBad => false                 (* Marshal fails before the pipe is touched *)
  | WClosed, _ => negb stdin_open
  | WOther, QFailAt _ => true
  | WOther, _ => false
  end.
(* the error sendRequest then reports and stores: errClosed for io.ErrClosedPipe, else the error itself *)
Definition wfail_err (k : wfail) : etag := match k with WClosed => EClosed | _ => EWrite end.
(* the failure that ends the write of a request of kind q once the client's stdin is gone *)
Definition wfail_for (q : reqkind) : wfail := match q with QBad => WMarshal | _ => WClosed end.

(* `notice` is the value runClient's whenDone callback stores into `terminated`
   (false on the pinned tree, true after the repair) *)
Definition step_with (notice : bool) (s : st) (a : action) : st :=
  match a with
  | SendCheck i n q =>
    match s.(phase_of) i with
    | Idle =>
      mkSt s.(err) s.(closed) s.(term) s.(mu) s.(pending) (updf s.(rname) i n) (updf s.(req_of) i q)
           (updf s.(phase_of) i (match s.(err) with Some e => Ret (Some e) | None => Checked end))
           s.(fired) s.(rd) s.(seen) s.(buf) s.(out_open) s.(in_open) s.(alive) s.(aborted) s.(noticed) s.(status) s.(wait_ret)
    | _ => s
    end
  | SendLock i =>
    match s.(phase_of) i, s.(mu) with
    | Checked, None =>
      let n := s.(rname) i in
      if s.(closed) then
        mkSt s.(err) s.(closed) s.(term) s.(mu) s.(pending) s.(rname) s.(req_of) (updf s.(phase_of) i (Ret (Some EClosed)))
             s.(fired) s.(rd) s.(seen) s.(buf) s.(out_open) s.(in_open) s.(alive) s.(aborted) s.(noticed) s.(status) s.(wait_ret)
      else match lookup n s.(pending) with
      | Some _ =>
        mkSt s.(err) s.(closed) s.(term) s.(mu) s.(pending) s.(rname) s.(req_of) (updf s.(phase_of) i (Ret (Some EDup)))
             s.(fired) s.(rd) s.(seen) s.(buf) s.(out_open) s.(in_open) s.(alive) s.(aborted) s.(noticed) s.(status) s.(wait_ret)
      | None =>
        mkSt s.(err) s.(closed) s.(term) (Some i) (s.(pending) ++ [(n, i)]) s.(rname) s.(req_of) (updf s.(phase_of) i Writing)
             s.(fired) s.(rd) s.(seen) s.(buf) s.(out_open) s.(in_open) s.(alive) s.(aborted) s.(noticed) s.(status) s.(wait_ret)
      end
    | _, _ => s
    end
  | WriteOk i =>
    match s.(phase_of) i with
    | Writing =>
      if s.(alive) && s.(in_open) && is_ok (s.(req_of) i) then
        mkSt s.(err) s.(closed) s.(term) None s.(pending) s.(rname) s.(req_of) (updf s.(phase_of) i (Ret None))
             s.(fired) s.(rd) s.(seen) s.(buf) s.(out_open) s.(in_open) s.(alive) s.(aborted) s.(noticed) s.(status) s.(wait_ret)
      else s
    | _ => s
    end
  | WriteFail i k =>
    match s.(phase_of) i with
    | Writing =>
      if negb (can_fail s.(in_open) (s.(req_of) i) k) then s else
      let n := s.(rname) i in
      match lookup n s.(pending) with
      | Some _ =>
        mkSt (or_else s.(err) (wfail_err k)) s.(closed) s.(term) None (remove_name n s.(pending)) s.(rname) s.(req_of)
             (updf s.(phase_of) i (Ret (Some (wfail_err k))))
             s.(fired) s.(rd) s.(seen) s.(buf) s.(out_open) s.(in_open) s.(alive) s.(aborted) s.(noticed) s.(status) s.(wait_ret)
      | None =>                          (* "concurrently removed": the client did answer *)
        mkSt s.(err) s.(closed) s.(term) None s.(pending) s.(rname) s.(req_of) (updf s.(phase_of) i (Ret None))
             s.(fired) s.(rd) s.(seen) s.(buf) s.(out_open) s.(in_open) s.(alive) s.(aborted) s.(noticed) s.(status) s.(wait_ret)
      end
    | _ => s
    end
  | COut bs =>
    if s.(alive) && s.(out_open) then
      mkSt s.(err) s.(closed) s.(term) s.(mu) s.(pending) s.(rname) s.(req_of) s.(phase_of) s.(fired) s.(rd) s.(seen)
           (s.(buf) ++ bs) s.(out_open) s.(in_open) s.(alive) s.(aborted) s.(noticed) s.(status) s.(wait_ret)
    else s
  | CCloseOut =>
    if s.(alive) then
      mkSt s.(err) s.(closed) s.(term) s.(mu) s.(pending) s.(rname) s.(req_of) s.(phase_of) s.(fired) s.(rd) s.(seen)
           s.(buf) false s.(in_open) s.(alive) s.(aborted) s.(noticed) s.(status) s.(wait_ret)
    else s
  | CCloseIn =>
    if s.(alive) then
      mkSt s.(err) s.(closed) s.(term) s.(mu) s.(pending) s.(rname) s.(req_of) s.(phase_of) s.(fired) s.(rd) s.(seen)
           s.(buf) s.(out_open) false s.(alive) s.(aborted) s.(noticed) s.(status) s.(wait_ret)
    else s
  | ProcExit failed _ =>
    if s.(alive) then      (* unconsumed output of an unbuffered in-process pipe is lost *)
      mkSt s.(err) s.(closed) s.(term) s.(mu) s.(pending) s.(rname) s.(req_of) s.(phase_of) s.(fired) s.(rd) s.(seen)
           [] false false false s.(aborted) s.(noticed) failed s.(wait_ret)
    else s
  | ExitNotice =>
    if negb s.(alive) && negb s.(noticed) then
      mkSt s.(err) s.(closed) notice s.(mu) s.(pending) s.(rname) s.(req_of) s.(phase_of) s.(fired) s.(rd) s.(seen)
           s.(buf) s.(out_open) s.(in_open) s.(alive) s.(aborted) true s.(status) s.(wait_ret)
    else s
  | RStep => match s.(rd) with RRun => reader_step s | _ => s end
  | RClose =>
    match s.(rd), s.(mu) with
    | RStop1 r, None =>
      mkSt s.(err) true s.(term) s.(mu) s.(pending) s.(rname) s.(req_of) s.(phase_of) s.(fired) (RStop2 r) s.(seen)
           s.(buf) s.(out_open) false s.(alive) s.(aborted) s.(noticed) s.(status) s.(wait_ret)
    | _, _ => s
    end
  | RDrain =>
    match s.(rd) with
    | RStop2 r =>
      mkSt s.(err) s.(closed) s.(term) s.(mu) [] s.(rname) s.(req_of) s.(phase_of)
           (s.(fired) ++ map (fun p => (snd p, OFail (fst p) (fail_code r))) s.(pending)) RDone s.(seen)
           s.(buf) s.(out_open) s.(in_open) s.(alive) s.(aborted) s.(noticed) s.(status) s.(wait_ret)
    | _ => s
    end
  | CloseSend =>
    match s.(mu) with
    | None =>
      mkSt s.(err) true s.(term) s.(mu) s.(pending) s.(rname) s.(req_of) s.(phase_of) s.(fired) s.(rd) s.(seen)
           s.(buf) s.(out_open) false s.(alive) s.(aborted) s.(noticed) s.(status) s.(wait_ret)
    | Some _ => s
    end
  | Stop =>
    mkSt s.(err) s.(closed) true s.(mu) s.(pending) s.(rname) s.(req_of) s.(phase_of) s.(fired) s.(rd) s.(seen)
         s.(buf) s.(out_open) s.(in_open) s.(alive) true s.(noticed) s.(status) s.(wait_ret)
  | Wait =>
    match s.(rd) with
    | RDone =>
      mkSt s.(err) s.(closed) s.(term) s.(mu) s.(pending) s.(rname) s.(req_of) s.(phase_of) s.(fired) s.(rd) s.(seen)
           s.(buf) s.(out_open) s.(in_open) s.(alive) s.(aborted) s.(noticed) s.(status)
           (Some (match s.(err) with
                  | Some e => Some e
                  | None => if s.(alive) then Some ETimeout else if s.(status) then Some EStatus else None
                  end))
    | _ => s
    end
  end.

(* the repaired code: the exit notice stores true *)
Definition step := step_with true.
Definition run_with (notice : bool) (h : list action) : st := fold_left (step_with notice) h init.
Definition run (h : list action) : st := fold_left step h init.

Definition is_running (s : st) : bool := negb s.(term).

(* ====================================================================== *)
(* case decoding / result encoding (extracted glue)                       *)
(* ====================================================================== *)
(* ---------- answers of a chosen ENCODED SIZE (action code 15) ----------
   `(15 name marker base delta)`: the client writes, in one piece, the framed answer
   encode_padded name marker p whose encoded size is  total = <base> + delta,  where base 0 is 0,
   base 1 the limit of the server-response reader and base 2 the limit of the client-output reader
   (so the case file names sizes relative to the constants the code has NOW).
   The model does not build the megabytes: by C10_LimitProofs.padded_answer_read_like_plain the reader,
   standing at a frame boundary, does with such a frame exactly what it does with the plain answer
   frame (encode name marker) when the wiring lets the size through, and it stops at the 4-byte
   prefix otherwise (the harness writes nothing but the prefix then). *)
Definition pad_for (base total : N) : option N :=
  let try := fun k : N =>
    if base + 1 + k <=? total then
      let p := total - base - 1 - k in if varint_len p =? k then Some p else None
    else None in
  match try 1, try 2, try 3, try 4 with
  | Some p, _, _, _ => Some p
  | _, Some p, _, _ => Some p
  | _, _, Some p, _ => Some p
  | _, _, _, Some p => Some p
  | _, _, _, _ => None
  end.
Definition limit_base (b : Z) : option N :=
  match b with
  | 0%Z => Some 0
  | 1%Z => Some (limit_of ServerResponseReader)
  | 2%Z => Some (limit_of ClientOutputReader)
  | _ => None
  end.
Definition padded_total (base delta : Z) : option N :=
  match limit_base base with
  | Some lb => let t := (Z.of_N lb + delta)%Z in
               if (t <? 0)%Z || (4294967296 <=? t)%Z then None else Some (Z.to_N t)
  | None => None
  end.
Definition padded_out (n tag : bytes) (base delta : Z) : option bytes :=
  match padded_total base delta with
  | Some total =>
    if (0 <? N.of_nat (length n)) && (N.of_nat (length n) <? 100) && (N.of_nat (length tag) <? 100) then
      match pad_for (N.of_nat (length (encode n tag))) total with
      | Some _ => Some (if reader_accepts ClientOutputReader total then frame (encode n tag) else be32 total)
      | None => None
      end
    else None
  | None => None
  end.

Definition un_action (s : sx) : option action :=
  match s with
  | L [I 0%Z; I i; B n] => Some (SendCheck (Z.to_N i) n QOk)
  | L [I 0%Z; I i; B n; I 1%Z] => Some (SendCheck (Z.to_N i) n QBad)
  | L [I 0%Z; I i; B n; I 2%Z; I k] => Some (SendCheck (Z.to_N i) n (QFailAt (Z.to_N k)))
  | L [I 1%Z; I i] => Some (SendLock (Z.to_N i))
  | L [I 2%Z; I i] => Some (WriteOk (Z.to_N i))
  | L [I 3%Z; I i] => Some (WriteFail (Z.to_N i) WClosed)
  | L [I 3%Z; I i; I 1%Z] => Some (WriteFail (Z.to_N i) WMarshal)
  | L [I 3%Z; I i; I 2%Z] => Some (WriteFail (Z.to_N i) WOther)
  | L [I 4%Z; B bs] => Some (COut bs)
  | L [I 5%Z] => Some CCloseOut
  | L [I 6%Z] => Some CCloseIn
  | L [I 7%Z; I f; I p] => Some (ProcExit (negb (Z.eqb f 0)) (negb (Z.eqb p 0)))
  | L [I 8%Z] => Some ExitNotice
  | L [I 9%Z] => Some RStep
  | L [I 10%Z] => Some RClose
  | L [I 11%Z] => Some RDrain
  | L [I 12%Z] => Some CloseSend
  | L [I 13%Z] => Some Stop
  | L [I 14%Z] => Some Wait
  | L [I 15%Z; B n; B tag; I base; I delta] =>
    match padded_out n tag base delta with Some bs => Some (COut bs) | None => None end
  | _ => None
  end.

(* projected error classes: the harness can tell errClosed, errDuplicate, io.ErrUnexpectedEOF,
   errNoOutcome and "some other error" apart without looking at texts *)
Definition reason_code (r : reason) : Z := match r with RUnexp => 3 | _ => 4 end%Z.
Definition etag_code (e : etag) : Z :=
  match e with EClosed => 1 | EDup => 2 | EReason r => reason_code r | EWrite => 4 | EStatus => 6 | ETimeout => 7 end%Z.
Definition sx_ret (o : option etag) : sx := match o with None => I 0%Z | Some e => I (etag_code e) end.
Definition sx_phase (p : phase) : sx := match p with Ret e => L [sx_ret e] | _ => L [] end.
Definition sx_outcome (o : outcome) : sx :=
  match o with
  | OResp n t => L [I 0%Z; B n; B t]
  | OFail n None => L [I 1%Z; B n; I 5%Z]
  | OFail n (Some r) => L [I 1%Z; B n; I (reason_code r)]
  end.
Definition fired_of (i : N) (l : list (N * outcome)) : list outcome :=
  map snd (filter (fun p => fst p =? i) l).

Definition sx_final (s : st) (ids : list N) : sx :=
  L [ L (map (fun i => L [sx_N i; sx_phase (s.(phase_of) i); L (map sx_outcome (fired_of i s.(fired)))]) ids);
      sx_bool (match s.(rd) with RDone => true | _ => false end);
      sx_opt sx_ret s.(wait_ret) ].

(* is_running after every action *)
Fixpoint trace_running (notice : bool) (s : st) (h : list action) : list sx * st :=
  match h with
  | [] => ([], s)
  | a :: r =>
    let s' := step_with notice s a in
    let (l, sf) := trace_running notice s' r in
    (sx_bool (is_running s') :: l, sf)
  end.

(* (actions) (request ids) -> ((isRunning after each action) (per id: return, callbacks) done wait) *)
Definition run_c10_script (args : list sx) : sx :=
  or_bad (match args with
  | [acts; ids] =>
    do acts <- un_listof un_action acts; do ids <- un_listof un_N ids;
    let (tr, s) := trace_running true init acts in
    ret (L [L tr; sx_final s ids])
  | _ => None end).

(* ---------- whenDone of localProcess (process.go): who is told that the process has ended ----------
   localProcess.whenDone(action) parks a goroutine on the `done` channel, runInProcess's goroutine closes
   `done` when the client function has returned.  State: has the process exited, the callbacks registered
   and not yet run, the callbacks run.  A registration AFTER the exit runs its callback at once (the parked
   goroutine finds `done` closed), a registration before it runs the callback at the exit.  runClient
   registers its callback (terminated.Store(true)) after start() has returned, so both orders occur. *)
Inductive wd_action := WdRegister (k : N) | WdExit.

Record wd_st := mkWd {
  wd_exited : bool;
  wd_waiting : list N;          (* registered, parked *)
  wd_fired : list N             (* callbacks that have run *)
}.

Definition wd_init : wd_st := mkWd false [] [].

Definition wd_step (s : wd_st) (a : wd_action) : wd_st :=
  match a with
  | WdRegister k =>
    if s.(wd_exited) then mkWd true s.(wd_waiting) (s.(wd_fired) ++ [k])
    else mkWd false (s.(wd_waiting) ++ [k]) s.(wd_fired)
  | WdExit =>
    if s.(wd_exited) then s else mkWd true [] (s.(wd_fired) ++ s.(wd_waiting))
  end.

Definition wd_run (acts : list wd_action) : wd_st := fold_left wd_step acts wd_init.

Definition wd_count (k : N) (l : list N) : nat := length (filter (N.eqb k) l).
Definition wd_is_reg (k : N) (a : wd_action) : bool :=
  match a with WdRegister j => N.eqb k j | WdExit => false end.
Definition wd_regs (k : N) (acts : list wd_action) : nat := length (filter (wd_is_reg k) acts).
Definition wd_is_exit (a : wd_action) : bool := match a with WdExit => true | _ => false end.

(* runClient's callback is registration 0; `early` = the client function had returned before runClient
   reached proc.whenDone.  The notice is part of a schedule iff the whenDone model runs callback 0. *)
Definition runner_notice (early : bool) : list action :=
  let acts := if early then [WdExit; WdRegister 0] else [WdRegister 0; WdExit] in
  if Nat.eqb (wd_count 0 (wd_fired (wd_run acts))) 1 then [ExitNotice] else [].

(* ---------- c10.proc: a free-running in-process client (runInProcess, no instrumentation) ----------
   One sender hands requests 0 .. n-1 (distinct names) to the runner one after the other.  The client
   function reads the first r of them, answers those listed in `answers` (in that order, each with the
   marker "r-" ++ name), reads `peek` bytes of the next request if there is one, and RETURNS - nil or an
   error - while the sender is inside the write of request r.  Then closeSend, waitForResponses.
   The Go side runs this freely; all its interleavings end in the state of this canonical schedule. *)
Definition proc_script (names : list name) (r : N) (answers : list N) (failed : bool) : list action :=
  let n := N.of_nat (length names) in
  let nm := fun i : N => nth (N.to_nat i) names [] in
  let ids := map N.of_nat (seq 0 (length names)) in
  flat_map (fun i => [SendCheck i (nm i) QOk; SendLock i; WriteOk i]) (filter (fun i => i <? r) ids) ++
  flat_map (fun j => [COut (frame (encode (nm j) (bs "r-" ++ nm j))); RStep]) answers ++
  (if r <? n then [SendCheck r (nm r) QOk; SendLock r] else []) ++
  [ProcExit failed false] ++
  (if r <? n then [WriteFail r WClosed] else []) ++
  flat_map (fun i => [SendCheck i (nm i) QOk; SendLock i]) (filter (fun i => r <? i) ids) ++
  [RStep; RClose; RDrain] ++ runner_notice false ++ [CloseSend; Wait].

(* the client function returns at once (nil / an error, no output), start() hands the process to runClient
   only after that; the reader meets the end of the output and cleans up; then n sends, closeSend,
   waitForResponses *)
Definition proc_script_early (names : list name) (failed : bool) : list action :=
  let nm := fun i : N => nth (N.to_nat i) names [] in
  let ids := map N.of_nat (seq 0 (length names)) in
  [ProcExit failed false] ++ runner_notice true ++ [RStep; RClose; RDrain] ++
  flat_map (fun i => [SendCheck i (nm i) QOk; SendLock i]) ids ++
  [CloseSend; Wait].

Fixpoint distinct_bytes (l : list bytes) : bool :=
  match l with [] => true | x :: r => negb (mem_bytes x r) && distinct_bytes r end.
Fixpoint distinct_N (l : list N) : bool :=
  match l with [] => true | x :: r => negb (existsb (N.eqb x) r) && distinct_N r end.

(* (names) r (answers) failed peek [early] -> (isRunning at the end, (per id: return, callbacks) done wait)
   early = 1: the client function returns before runClient registers its whenDone callback (r = 0, no answers) *)
Definition run_c10_proc_with (names r answers failed : sx) (early : bool) : option sx :=
    do names <- un_listof un_B names; do r <- un_N r; do answers <- un_listof un_N answers; do failed <- un_bool failed;
    if distinct_bytes names && distinct_N answers && forallb (fun j => j <? r) answers
       && (r <=? N.of_nat (length names)) && forallb (fun n => (0 <? N.of_nat (length n)) && (N.of_nat (length n) <? 100)) names
       && (negb early || (r =? 0))
    then
      let s := run (if early then proc_script_early names failed else proc_script names r answers failed) in
      ret (L [sx_bool (is_running s); sx_final s (map N.of_nat (seq 0 (length names)))])
    else None.

Definition run_c10_proc (args : list sx) : sx :=
  or_bad (match args with
  | [names; r; answers; failed; _peek] => run_c10_proc_with names r answers failed false
  | [names; r; answers; failed; _peek; early] =>
    do early <- un_bool early; run_c10_proc_with names r answers failed early
  | _ => None end).

(* c10.whendone: a script of registrations and the exit on a real localProcess.
   ((0 k) | (1))... -> per registered k (ascending, each once): how often its callback ran *)
Definition un_wd_action (x : sx) : option wd_action :=
  match x with
  | L [I 0%Z; k] => do k <- un_N k; ret (WdRegister k)
  | L [I 1%Z] => Some WdExit
  | _ => None end.

Fixpoint wd_keys (acts : list wd_action) (acc : list N) : list N :=
  match acts with
  | [] => acc
  | WdRegister k :: r => wd_keys r (if existsb (N.eqb k) acc then acc else acc ++ [k])
  | WdExit :: r => wd_keys r acc
  end.

Definition run_c10_whendone (args : list sx) : sx :=
  or_bad (match args with
  | [acts] =>
    do acts <- un_listof un_wd_action acts;
    if forallb (fun k => k <? 64) (wd_keys acts []) && (Nat.leb (length acts) 64) then
      let s := wd_run acts in
      ret (L [sx_bool s.(wd_exited);
              L (map (fun k => L [I (Z.of_N k); I (Z.of_nat (wd_count k s.(wd_fired)))]) (wd_keys acts []))])
    else None
  | _ => None end).

Definition c10_table : list (bytes * (list sx -> sx)) :=
  [ (bs "c10.script", run_c10_script); (bs "c10.proc", run_c10_proc); (bs "c10.whendone", run_c10_whendone) ].
