(* C02_Spec.v — what the property demands, written from the property text, service.proto and
   docs/testing_servers.md; independent of how the generator, the handlers and the clients are coded.

   1. The verdict: for a well-formed test case of the deterministic fragment and every permutation of it (the codec
      and the compression of the config case it is expanded under) the result the runner expects FOR THAT
      PERMUTATION and the result the client reports AGREE in the sense of C03_Spec.agree (equivalently, by C03's
      assert_iff, results.go's assert records nothing), for every pair of reference peers that runs the case.
      Connect GET cases (IdempotentUnary with use_get_http_method) are inside this statement: their expectation
      depends on the permutation's codec (the echoed query param "encoding").
   2. Robustness: deriving expectations and loading a suite never crash; they return a result or an error.
   3. What is assumed of the RPC libraries and HTTP between the peers (connect-go, grpc-go, net/http): the
      TRANSPORT HYPOTHESES below.  They are hypotheses of the theorems, not theorems; every check run samples them
      on the real peers (c02.live). *)
From V Require Export C02_Model C03_Spec.
Open Scope N_scope.

(* ---------- the four peer pairs ---------- *)
Inductive server_impl := RefServer | GrpcServer.
Inductive client_impl := RefClient | GrpcClient.
Definition server_of (s : server_impl) := match s with RefServer => ref_server | GrpcServer => grpc_server_q end.
Definition client_of (c : client_impl) := match c with RefClient => ref_client | GrpcClient => grpc_client end.

(* ---------- transport hypotheses ---------- *)
(* names (lower case) a response sets as header or as trailer *)
Definition all_names (w : wire) : list bytes := map lname (w_headers w) ++ map lname (w_trailers w).

(* Connect protocol, unary GET requests: the query string carries "encoding" = the name of the codec the message
   param is encoded with, and "connect" = "v1" (next to "message" and, as the case may be, "base64" and
   "compression", of which nothing is required here).  Codec enum: 1 proto, 2 json. *)
Definition codec_param (codec : N) : bytes := if codec =? 1 then bs "proto" else bs "json".
Definition connect_get_params (codec : N) : list header :=
  [mkH (bs "connect") [bs "v1"]; mkH (bs "encoding") [codec_param codec]].
Definition known_codec (codec : N) : Prop := codec = 1 \/ codec = 2.

Record transport_ok (tr_req : list header -> list header) (tr_query : bool -> N -> N -> list header)
       (tr_rsp : wire -> wire) : Prop := {
  (* a call that goes out as a Connect GET under a codec and a compression: the handler sees the params the
     protocol prescribes (possibly among others); nothing is assumed of the query of any other call *)
  tk_query : forall codec comp, known_codec codec -> included (connect_get_params codec) (tr_query true codec comp);
  (* the handler sees every header the client set: under its name (case-insensitively), values in order, possibly
     joined or split at commas, possibly among other headers *)
  tk_req : forall hs, wf_headers hs = true -> included hs (tr_req hs);
  (* messages (bytes, order) and the error (code, message, details) arrive unchanged *)
  tk_msgs : forall w, w_msgs (tr_rsp w) = w_msgs w;
  tk_err : forall w, w_err (tr_rsp w) = w_err w;
  (* response headers and trailers: as for request headers *)
  tk_hdrs : forall w, wf_headers (w_headers w) = true -> included (w_headers w) (w_headers (tr_rsp w));
  tk_trls : forall w, wf_headers (w_trailers w) = true -> included (w_trailers w) (w_trailers (tr_rsp w));
  (* a failed call whose metadata the client library hands over as ONE bag (connect-go, unary and client-stream
     calls): under every name the response set, the bag carries the header values followed by the trailer values *)
  tk_meta : forall w, wf_headers (w_headers w) = true -> wf_headers (w_trailers w) = true -> w_err w <> None ->
            forall n, In n (all_names w) ->
            exists vs, carries (meta_merge (w_headers (tr_rsp w)) (w_trailers (tr_rsp w))) n vs
                       /\ same_values (all_vals (w_headers w) n ++ all_vals (w_trailers w) n) vs }.

(* ---------- 1. the verdict ---------- *)
(* which pairs run a case: a Connect GET case runs under the Connect protocol only, which the grpc-go peers do not
   speak ("the gRPC reference peers give the same verdict wherever they apply") *)
Definition peers_apply (sv : server_impl) (cl : client_impl) (tc : tcase) : Prop :=
  t_get tc = true -> sv = RefServer /\ cl = RefClient.

Definition passes tr_req tr_query tr_rsp (sv : server_impl) (cl : client_impl) (codec comp : N) (tc : tcase) (e : result) : Prop :=
  agree (case_def tc) e (observed tr_req tr_query tr_rsp (server_of sv) (client_of cl) codec comp tc).

(* [e] is the expectation derived for the permutation under [codec]; the run is the one under the same [codec]
   (and any compression) *)
Definition expectation_met_statement : Prop :=
  forall tr_req tr_query tr_rsp, transport_ok tr_req tr_query tr_rsp ->
  forall tc codec comp e, wf tc = true -> fd_immediate_error_multi tc = false -> known_codec codec ->
  expected codec tc = Ok e ->
  forall sv cl, peers_apply sv cl tc -> passes tr_req tr_query tr_rsp sv cl codec comp tc e.

(* ---------- 2. robustness ---------- *)
Definition expected_total_statement : Prop := forall codec tc, expected codec tc <> Crash.
Definition load_total_statement : Prop := forall codecs tcs, load codecs tcs <> Crash.
