(* C01_Proofs.v — the composition proofs.  Everything substantial is a lemma of the composed
   properties (C06_Proofs.parse_ok_iff_proof, C07_Proofs.perm_iff_proof / names_unique_proof /
   grpc_filter_iff_proof / all_permutations_proof, C08_Proofs.trie_match_iff_proof /
   unmatched_sound_proof / trie_length_pos, C04_Proofs.run_verdict_iff_proof / on_record_last_proof);
   new here: the batching of run() loses and repeats nothing (executed_exact), the sorted-list
   decision of name distinctness is sound, and the glue. *)
From Coq Require Import Lia Permutation Sorted RelationClasses.
From V Require Import C01_Spec C07_Spec C07_Proofs.
From V Require C06_Spec C06_Proofs C08_Spec C08_Proofs C04_Spec C04_Proofs.
Open Scope N_scope.

(* ====================================================================== *)
(* 1. the loops of run() execute exactly allPermutations                   *)
(* ====================================================================== *)
Lemma add_to_group_perm k p g :
  Permutation (flat_map snd (add_to_group k p g)) (p :: flat_map snd g).
Proof.
  induction g as [|[k' l] r IH]; simpl; [reflexivity|].
  destruct (inst_eqb k k'); simpl.
  - rewrite <- app_assoc. simpl. symmetry. apply Permutation_middle.
  - etransitivity; [apply Permutation_app_head; exact IH|]. symmetry. apply Permutation_middle.
Qed.

Lemma group_fold_perm order : forall g,
  Permutation (flat_map snd (fold_left (fun g p => add_to_group (server_instance p) p g) order g))
              (flat_map snd g ++ order).
Proof.
  induction order as [|p o IH]; intros g; simpl; [rewrite app_nil_r; reflexivity|].
  etransitivity; [apply IH|].
  etransitivity; [apply Permutation_app_tail; apply add_to_group_perm|].
  simpl. apply Permutation_middle.
Qed.

(* the groups together are the library: nothing lost, nothing twice *)
Lemma groups_partition lib : Permutation (flat_map snd (group_cases lib)) lib.
Proof. unfold group_cases. apply (group_fold_perm lib []). Qed.

Lemma grpc_filter_app ci si a b : grpc_filter ci si (a ++ b) = grpc_filter ci si a ++ grpc_filter ci si b.
Proof.
  unfold grpc_filter. destruct (negb ci && negb si); [reflexivity|].
  rewrite filter_app, map_app. reflexivity.
Qed.

Lemma grpc_filter_groups ci si (G : list (inst * list perm)) :
  flat_map (fun g => grpc_filter ci si (snd g)) G = grpc_filter ci si (flat_map snd G).
Proof.
  induction G as [|g G IH]; simpl.
  - unfold grpc_filter. destruct (negb ci && negb si); reflexivity.
  - rewrite grpc_filter_app, IH. reflexivity.
Qed.

Lemma filter_perm {A} (f : A -> bool) l l' : Permutation l l' -> Permutation (filter f l) (filter f l').
Proof.
  induction 1; simpl.
  - constructor.
  - destruct (f x); [constructor|]; assumption.
  - destruct (f x), (f y); try reflexivity. constructor.
  - etransitivity; eassumption.
Qed.

Lemma grpc_filter_perm ci si a b : Permutation a b -> Permutation (grpc_filter ci si a) (grpc_filter ci si b).
Proof.
  intros H. unfold grpc_filter. destruct (negb ci && negb si); [exact H|].
  apply Permutation_map, filter_perm, H.
Qed.

Lemma batch_perm ci si lib :
  Permutation (flat_map (fun g => grpc_filter ci si (snd g)) (group_cases lib)) (grpc_filter ci si lib).
Proof. rewrite grpc_filter_groups. apply grpc_filter_perm, groups_partition. Qed.

Lemma executed_exact_proof cl sv lib : Permutation (executed cl sv lib) (all_permutations cl sv lib).
Proof.
  unfold executed, all_permutations, peers.
  assert (B := fun ci si => batch_perm ci si lib).
  assert (E : grpc_filter false false lib = lib) by reflexivity.
  destruct cl, sv; simpl; rewrite ?app_nil_r.
  - (* both reference: (ff ++ ft) ++ (tf ++ tt)  vs  lib ++ tf ++ ft ++ tt *)
    rewrite (B false false), (B false true), (B true false), (B true true), E.
    rewrite <- app_assoc. apply Permutation_app_head.
    rewrite !app_assoc. apply Permutation_app_tail. apply Permutation_app_comm.
  - rewrite (B false false), (B true false), E. reflexivity.
  - rewrite (B false false), (B false true), E. reflexivity.
  - rewrite (B false false), E. reflexivity.
Qed.

(* ====================================================================== *)
(* 2. pairwise distinct names, decided on the sorted list                   *)
(* ====================================================================== *)
Lemma bytes_leb_trans : forall a b c,
  bytes_leb a b = true -> bytes_leb b c = true -> bytes_leb a c = true.
Proof.
  induction a as [|x a IH]; intros [|y b] [|z c]; simpl; try reflexivity; try discriminate.
  destruct (N.ltb_spec x y) as [Lxy|Lxy].
  - intros _. destruct (N.ltb_spec y z) as [Lyz|Lyz].
    + intros _. destruct (N.ltb_spec x z); [reflexivity|lia].
    + destruct (N.eqb_spec y z) as [->|]; [|discriminate]. intros _.
      destruct (N.ltb_spec x z); [reflexivity|lia].
  - destruct (N.eqb_spec x y) as [->|]; [|discriminate]. intros Hab.
    destruct (N.ltb_spec y z) as [Lyz|Lyz]; [reflexivity|].
    destruct (N.eqb_spec y z) as [->|]; [|discriminate]. apply IH; assumption.
Qed.

Lemma bytes_leb_antisym : forall a b, bytes_leb a b = true -> bytes_leb b a = true -> a = b.
Proof.
  induction a as [|x a IH]; intros [|y b]; simpl; try reflexivity; try discriminate.
  destruct (N.ltb_spec x y) as [L|L], (N.ltb_spec y x) as [L'|L']; try lia.
  - intros _. destruct (N.eqb_spec y x); [lia|discriminate].
  - destruct (N.eqb_spec x y); [lia|discriminate].
  - destruct (N.eqb_spec x y) as [->|]; [|discriminate]. rewrite N.eqb_refl.
    intros H1 H2. f_equal. apply IH; assumption.
Qed.

Lemma sorted_distinct_nodup l :
  StronglySorted (fun a b => is_true (bytes_leb a b)) l -> adjacent_distinct l = true -> NoDup l.
Proof.
  induction 1 as [|a l SS IH FA]; intros AD; constructor.
  - destruct l as [|b r]; [intros []|]. simpl in AD. apply andb_true_iff in AD. destruct AD as [NE _].
    apply negb_true_iff in NE.
    assert (Hab : a <> b) by (intros ->; rewrite bytes_eqb_refl in NE; discriminate).
    intros [E|Hin]; [congruence|].
    apply Hab. apply bytes_leb_antisym.
    + inversion FA; assumption.
    + inversion SS as [|? ? _ FB]; subst. rewrite Forall_forall in FB. apply FB, Hin.
  - apply IH. destruct l as [|b r]; [reflexivity|]. simpl in AD. apply andb_true_iff in AD. apply AD.
Qed.

Lemma distinct_names_sound l : distinct_names l = true -> NoDup l.
Proof.
  unfold distinct_names, sort_names. intros H.
  eapply Permutation_NoDup; [symmetry; apply BSort.Permuted_sort|].
  apply sorted_distinct_nodup; [|exact H].
  apply BSort.StronglySorted_sort. intros a b c. unfold BytesLeb.leb, is_true. apply bytes_leb_trans.
Qed.

(* ====================================================================== *)
(* 3. the predicted names are the specified ones                           *)
(* ====================================================================== *)
Lemma parsed_members cfg cs : C06_Model.parse_config cfg = C06_Model.Ok cs ->
  forall c, In c cs <-> C06_Spec.spec_member cfg c.
Proof. intros H c. unfold C06_Spec.spec_member. apply (C06_Proofs.parse_ok_iff_proof cfg cs H c). Qed.

Lemma lib_members cfg cs ss mode lib :
  C06_Model.parse_config cfg = C06_Model.Ok cs -> new_library ss (map conv cs) mode = Ok lib ->
  forall p, In p lib <-> base_perm cfg ss mode p.
Proof.
  intros HC HL p. rewrite (perm_iff_proof _ _ _ _ HL p). unfold base_perm. split.
  - intros (s & t & c' & Hs & Ht & Hc & Hm & Ha & Hst & ->).
    apply in_map_iff in Hc. destruct Hc as (c & <- & Hc).
    exists s, t, c. rewrite <- (parsed_members _ _ HC).
    exact (conj Hs (conj Ht (conj Hc (conj Hm (conj Ha (conj Hst eq_refl)))))).
  - intros (s & t & c & Hs & Ht & Hc & Hm & Ha & Hst & ->).
    exists s, t, (conv c). rewrite <- (parsed_members _ _ HC) in Hc.
    refine (conj Hs (conj Ht (conj _ (conj Hm (conj Ha (conj Hst eq_refl)))))).
    apply in_map_iff. exists c. split; [reflexivity|exact Hc].
Qed.

Lemma base_protocol cfg ss mode p :
  (forall c, C06_Spec.spec_member cfg c -> In (C06_Model.c_protocol c) c07_all_protocols) ->
  base_perm cfg ss mode p -> In (p_protocol p) c07_all_protocols.
Proof. intros H (s & t & c & _ & _ & Hc & _ & _ & _ & ->). simpl. apply H, Hc. Qed.

Lemma all_perm_members cfg ss cl sv lib :
  (forall c, C06_Spec.spec_member cfg c -> In (C06_Model.c_protocol c) c07_all_protocols) ->
  (forall p, In p lib <-> base_perm cfg ss (run_mode cl sv) p) ->
  forall q, In q (all_permutations cl sv lib) <-> expected_perm cfg ss cl sv q.
Proof.
  intros HP HL q. rewrite all_permutations_proof. unfold expected_perm.
  assert (HD : forall p, In p lib -> In (p_protocol p) c07_all_protocols)
    by (intros p Hp; eapply base_protocol; [exact HP|apply HL, Hp]).
  rewrite !(grpc_filter_iff_proof _ _ lib HD). rewrite HL. split.
  - intros [H|[(Hc & [(D & _)|(_ & p & Hp & Ha & ->)])|[(Hs & [(_ & D & _)|(_ & p & Hp & Ha & ->)])
           |(Hc & Hs & [(D & _)|(_ & p & Hp & Ha & ->)])]]]; try discriminate; [left; exact H| | |];
      right; exists p; (split; [apply HL, Hp|]).
    + left. auto.
    + right; left. auto.
    + right; right. auto.
  - intros [H|(p & Hp & [(Hc & Ha & ->)|[(Hs & Ha & ->)|(Hc & Hs & Ha & ->)]])]; [auto| | |];
      rewrite <- HL in Hp.
    + right; left. split; [exact Hc|]. right. split; [auto|]. exists p; auto.
    + right; right; left. split; [exact Hs|]. right. split; [auto|]. exists p; auto.
    + right; right; right. split; [exact Hc|]. split; [exact Hs|]. right. split; [auto|]. exists p; auto.
Qed.

Lemma kf_marks_iff ps n : kf_marks ps n = true <-> C08_Spec.some_glob ps n.
Proof. apply C08_Proofs.trie_match_iff_proof. Qed.

Theorem predicted_names_spec_proof : forall cfg ss cl sv ps pr,
  predicted_run cfg ss cl sv ps = Good pr ->
  (forall c, C06_Spec.spec_member cfg c -> In (C06_Model.c_protocol c) c07_all_protocols) ->
  NoDup (pr_names pr) /\
  (forall n, In n (pr_names pr) <-> exists q, expected_perm cfg ss cl sv q /\ p_name q = n) /\
  (forall n, In n (pr_checked pr) <-> In n (pr_names pr)) /\
  (forall n, In n (pr_marked pr) <-> In n (pr_names pr) /\ C08_Spec.some_glob ps n) /\
  length (pr_names pr) = length (pr_checked pr).
Proof.
  intros cfg ss cl sv ps pr H HP. unfold predicted_run in H.
  destruct (C06_Model.parse_config cfg) as [cs|] eqn:HC; [|discriminate].
  destruct (new_library ss (map conv cs) (run_mode cl sv)) as [lib|] eqn:HL; [|discriminate].
  destruct (distinct_names (map p_name (executed cl sv lib))) eqn:HD; [|discriminate].
  injection H as <-. simpl.
  pose proof (executed_exact_proof cl sv lib) as EX.
  pose proof (all_perm_members cfg ss cl sv lib HP (lib_members _ _ _ _ _ HC HL)) as AM.
  assert (NM : forall n, In n (map p_name (all_permutations cl sv lib)) <->
                         In n (map p_name (executed cl sv lib))).
  { intros n. split; apply Permutation_in, Permutation_map; [symmetry|]; exact EX. }
  split; [apply distinct_names_sound, HD|]. split; [|split; [exact NM|split]].
  - intros n. rewrite <- NM, in_map_iff. split; intros (q & Hq & Hn); exists q.
    + split; [apply AM, Hn|exact Hq].
    + split; [exact Hn|apply AM, Hq].
  - intros n. rewrite filter_In, kf_marks_iff. reflexivity.
  - rewrite !map_length. apply Permutation_length, EX.
Qed.

(* ====================================================================== *)
(* 4. the verdict: known-failing lists are exact                            *)
(* ====================================================================== *)
Definition mark_of (ps : list bytes) (n : bytes) : C04_Spec.marking :=
  if kf_marks ps n then C04_Spec.KnownFailing else C04_Spec.Unmarked.

Lemma marked_by_kf ps names : C04_Spec.marked_by (kf_cfg ps names) (mark_of ps).
Proof. intros n. unfold mark_of, kf_cfg; simpl. destruct (kf_marks ps n); constructor. Qed.

Lemma mentioned_history names out : C04_Spec.mentioned (history names out) = names.
Proof.
  unfold C04_Spec.mentioned, history. induction names as [|n l IH]; simpl; [reflexivity|]. rewrite IH. reflexivity.
Qed.

Lemma selection_history ps names out : NoDup names ->
  C04_Spec.selection (kf_cfg ps names) (history names out) names.
Proof.
  intros ND. split; [exact ND|]. split; [reflexivity|]. rewrite mentioned_history. apply incl_refl.
Qed.

Lemma on_record_history names out n : NoDup names -> In n names ->
  C04_Spec.on_record (history names out) n = Some (out n).
Proof.
  intros ND Hn. destruct (in_split _ _ Hn) as (l1 & l2 & ->).
  unfold history. rewrite map_app. simpl.
  apply C04_Proofs.on_record_last_proof.
  - simpl. auto.
  - intros o Ho (r & Hr). apply in_map_iff in Ho. destruct Ho as (m & <- & Hm). simpl in Hr.
    destruct Hr as [-> _]. apply NoDup_remove_2 in ND. apply ND. apply in_or_app. right; exact Hm.
Qed.

Lemma no_feedback names out n : C04_Spec.has_feedback (history names out) n = false.
Proof.
  unfold C04_Spec.has_feedback, history. apply not_true_iff_false. rewrite existsb_exists.
  intros (o & Ho & E). apply in_map_iff in Ho. destruct Ho as (m & <- & _). discriminate.
Qed.

Lemma met_unmarked r : C04_Spec.met C04_Spec.Unmarked (C04_Spec.fate_of (Some r)) false = true <-> passed r.
Proof.
  unfold passed. destruct r as [|s k]; simpl; [tauto|].
  split; [|discriminate]. destruct s, k; simpl; discriminate.
Qed.

Lemma met_failing r :
  C04_Spec.met C04_Spec.KnownFailing (C04_Spec.fate_of (Some r)) false = true <-> ran_and_failed r.
Proof.
  unfold ran_and_failed. destruct r as [|s k]; simpl.
  - split; [discriminate|]. intros (k & E & _); discriminate.
  - split.
    + intros H. destruct s, k; simpl in H; try discriminate;
        (eexists; split; [reflexivity|discriminate]).
    + intros (k' & E & NE). injection E as -> ->. destruct k'; simpl; try reflexivity. congruence.
Qed.

Lemma run_verdict_iff ps names out : NoDup names ->
  (run_verdict ps names out = true <->
     forall n, In n names ->
       (C08_Spec.some_glob ps n -> ran_and_failed (out n)) /\ (~ C08_Spec.some_glob ps n -> passed (out n))).
Proof.
  intros ND. unfold run_verdict.
  rewrite (C04_Proofs.run_verdict_iff_proof _ (mark_of ps) _ names false (marked_by_kf ps names)
             (selection_history ps names out ND)).
  unfold C04_Spec.success, C04_Spec.case_met, C04_Spec.case_fate. split.
  - intros [H _] n Hn. specialize (H n Hn).
    rewrite (on_record_history _ _ _ ND Hn), no_feedback in H. unfold mark_of in H.
    destruct (kf_marks ps n) eqn:K.
    + apply met_failing in H. split; [auto|]. intros NG. exfalso. apply NG, kf_marks_iff, K.
    + apply met_unmarked in H. split; [|auto]. intros G. apply kf_marks_iff in G. congruence.
  - intros H. split; [|reflexivity]. intros n Hn. destruct (H n Hn) as [HF HP].
    rewrite (on_record_history _ _ _ ND Hn), no_feedback. unfold mark_of.
    destruct (kf_marks ps n) eqn:K.
    + apply met_failing, HF, kf_marks_iff, K.
    + apply met_unmarked, HP. intros G. apply kf_marks_iff in G. congruence.
Qed.

Lemma patterns_ok_iff ps chk :
  patterns_ok ps chk = true <-> ps = [] \/ C08_Model.unmatched (C08_Model.build ps) chk = [].
Proof.
  unfold patterns_ok, C08_Model.run_checks.
  change (C08_Model.trie_length (C08_Model.build [])) with 0%nat.
  change (0 <? 0)%nat with false. rewrite andb_false_r. simpl.
  destruct ps as [|p ps].
  - change (C08_Model.trie_length (C08_Model.build [])) with 0%nat. simpl. tauto.
  - rewrite C08_Proofs.trie_length_pos by discriminate. simpl.
    unfold C08_Model.has_unmatched.
    destruct (C08_Model.unmatched (C08_Model.build (p :: ps)) chk); split; auto; try discriminate.
    intros [?|?]; discriminate.
Qed.

(* globs is decidable (through the matcher of a one-pattern trie) *)
Lemma globs_dec p n : {C08_Spec.globs p n} + {~ C08_Spec.globs p n}.
Proof.
  destruct (C08_Model.match_pattern (C08_Model.build [p]) n) eqn:E.
  - left. apply C08_Proofs.trie_match_iff_proof in E. destruct E as (q & [<-|[]] & G). exact G.
  - right. intros G. apply not_true_iff_false in E. apply E.
    apply C08_Proofs.trie_match_iff_proof. exists p. split; [left; reflexivity|exact G].
Qed.

Lemma exists_glob_dec p names :
  (exists n, In n names /\ C08_Spec.globs p n) \/ (forall n, In n names -> ~ C08_Spec.globs p n).
Proof.
  induction names as [|m l IH].
  - right. intros n [].
  - destruct (globs_dec p m) as [G|NG].
    + left. exists m. split; [left; reflexivity|exact G].
    + destruct IH as [(n & Hn & G)|H].
      * left. exists n. split; [right; exact Hn|exact G].
      * right. intros n [<-|Hn]; [exact NG|apply H, Hn].
Qed.

Lemma unmatched_nil_all_match ps chk :
  C08_Model.unmatched (C08_Model.build ps) chk = [] ->
  forall p, In p ps -> exists n, In n chk /\ C08_Spec.globs p n.
Proof.
  intros U p Hp. destruct (exists_glob_dec p chk) as [H|H]; [exact H|].
  pose proof (C08_Proofs.unmatched_sound_proof ps chk p Hp H) as Hin. rewrite U in Hin. destruct Hin.
Qed.

Lemma passed_not_failed r : passed r -> ~ ran_and_failed r.
Proof. unfold passed. intros -> (k & E & _). discriminate. Qed.

Theorem lists_exact_iff_proof : forall ps chk names out,
  NoDup names -> (forall n, In n chk <-> In n names) ->
  (run_ok ps chk names out = true <->
     (ps = [] \/ C08_Model.unmatched (C08_Model.build ps) chk = []) /\ list_exact ps names out).
Proof.
  intros ps chk names out ND SAME. unfold run_ok.
  rewrite andb_true_iff, patterns_ok_iff, (run_verdict_iff _ _ _ ND). unfold list_exact. split.
  - intros [PO V]. split; [exact PO|]. split; [|split].
    + intros p Hp. destruct PO as [->|U]; [destruct Hp|].
      destruct (unmatched_nil_all_match _ _ U p Hp) as (n & Hn & G). exists n. split; [apply SAME, Hn|exact G].
    + intros n Hn. destruct (V n Hn) as [HF HP]. split; [exact HF|].
      intros RF. destruct (kf_marks ps n) eqn:K; [apply kf_marks_iff, K|].
      exfalso. apply (passed_not_failed (out n)); [|exact RF]. apply HP. intros G.
      apply kf_marks_iff in G. congruence.
    + intros n Hn. destruct (V n Hn) as [HF HP]. split; [exact HP|].
      intros P G. apply (passed_not_failed _ P), HF, G.
  - intros (PO & _ & HF & HP). split; [exact PO|]. intros n Hn. split.
    + apply (HF n Hn).
    + apply (HP n Hn).
Qed.

(* what an accepted run means, without any reference to the trie's counters *)
Theorem lists_exact_sound_proof : forall ps chk names out,
  NoDup names -> (forall n, In n chk <-> In n names) ->
  run_ok ps chk names out = true -> list_exact ps names out.
Proof. intros ps chk names out ND SAME H. apply (lists_exact_iff_proof ps chk names out ND SAME), H. Qed.

Theorem empty_lists_mean_all_pass_proof : forall chk names out,
  NoDup names ->
  (run_ok [] chk names out = true <-> forall n, In n names -> passed (out n)).
Proof.
  intros chk names out ND. unfold run_ok. rewrite andb_true_iff, patterns_ok_iff, (run_verdict_iff _ _ _ ND).
  assert (NG : forall n, ~ C08_Spec.some_glob [] n) by (intros n (p & [] & _)).
  split.
  - intros [_ V] n Hn. apply (V n Hn), NG.
  - intros H. split; [left; reflexivity|]. intros n Hn. split; [intros G; destruct (NG n G)|intros _; apply H, Hn].
Qed.

(* exit status of main: 0 exactly for run_ok *)
Lemma run_status_ok_proof ps chk names out : run_status ps chk names out = 0 <-> run_ok ps chk names out = true.
Proof.
  unfold run_status, run_ok. destruct (patterns_ok ps chk), (run_verdict ps names out); simpl; split; auto; discriminate.
Qed.

(* ====================================================================== *)
(* 5. runs restricted with --run / --skip (the slices of the quick tier)    *)
(* ====================================================================== *)
Lemma filter_flat_map {A B} (f : B -> bool) (g : A -> list B) l :
  filter f (flat_map g l) = flat_map (fun x => filter f (g x)) l.
Proof. induction l as [|x l IH]; simpl; [reflexivity|]. rewrite filter_app, IH. reflexivity. Qed.

Lemma flat_map_ext' {A B} (f g : A -> list B) l : (forall x, f x = g x) -> flat_map f l = flat_map g l.
Proof. intros H. induction l as [|x l IH]; simpl; [reflexivity|]. rewrite H, IH. reflexivity. Qed.

Lemma selector_accept rs sk n : selector rs sk n = C08_Model.accept rs sk n.
Proof. reflexivity. Qed.

(* filtering batch by batch = filtering what an unrestricted run would send *)
Lemma batches_sel_filter f cl sv lib :
  batches_sel f cl sv (group_cases lib) = filter (fun p => f (p_name p)) (executed cl sv lib).
Proof.
  unfold batches_sel, executed. rewrite filter_flat_map. apply flat_map_ext'. intros ci.
  rewrite filter_flat_map. apply flat_map_ext'. intros si.
  rewrite filter_flat_map. reflexivity.
Qed.

Lemma executed_sel_filter rs sk cl sv lib :
  executed_sel rs sk cl sv lib = filter (fun p => C08_Model.accept rs sk (p_name p)) (executed cl sv lib).
Proof. unfold executed_sel. rewrite batches_sel_filter. reflexivity. Qed.

Lemma filter_map_name (f : bytes -> bool) (l : list perm) :
  map p_name (filter (fun p => f (p_name p)) l) = filter f (map p_name l).
Proof.
  induction l as [|p l IH]; simpl; [reflexivity|].
  destruct (f (p_name p)); simpl; rewrite IH; reflexivity.
Qed.

Lemma NoDup_filter' {A} (f : A -> bool) l : NoDup l -> NoDup (filter f l).
Proof.
  induction 1 as [|x l NI ND IH]; simpl; [constructor|].
  destruct (f x); [constructor|]; auto. intros H. apply NI. apply filter_In in H. apply H.
Qed.

Theorem slice_names_spec_proof : forall cfg ss cl sv ps rs sk pr total,
  predicted_slice cfg ss cl sv ps rs sk = Good (pr, total) ->
  (forall c, C06_Spec.spec_member cfg c -> In (C06_Model.c_protocol c) c07_all_protocols) ->
  NoDup (pr_names pr) /\
  (forall n, In n (pr_names pr) <->
     (exists q, expected_perm cfg ss cl sv q /\ p_name q = n) /\
     (rs = [] \/ C08_Spec.some_glob rs n) /\ ~ C08_Spec.some_glob sk n) /\
  (forall n, In n (pr_checked pr) <-> exists q, expected_perm cfg ss cl sv q /\ p_name q = n) /\
  (forall n, In n (pr_marked pr) <-> In n (pr_names pr) /\ C08_Spec.some_glob ps n) /\
  total = length (pr_names pr).
Proof.
  intros cfg ss cl sv ps rs sk pr total H HP. unfold predicted_slice, predicted_slices in H.
  destruct (C06_Model.parse_config cfg) as [cs|] eqn:HC; [|discriminate].
  destruct (new_library ss (map conv cs) (run_mode cl sv)) as [lib|] eqn:HL; [|discriminate].
  destruct (distinct_names (map p_name (executed cl sv lib))) eqn:HD; [|discriminate].
  simpl in H. unfold slice_view in H. injection H as <- <-. simpl.
  change (selector rs sk) with (C08_Model.accept rs sk).
  pose proof (executed_exact_proof cl sv lib) as EX.
  pose proof (all_perm_members cfg ss cl sv lib HP (lib_members _ _ _ _ _ HC HL)) as AM.
  assert (CHK : forall n, In n (map p_name (all_permutations cl sv lib)) <->
                          exists q, expected_perm cfg ss cl sv q /\ p_name q = n).
  { intros n. rewrite in_map_iff. split; intros (q & A & B); exists q.
    - split; [apply AM, B|exact A].
    - split; [exact B|apply AM, A]. }
  assert (NM : forall n, In n (map p_name (all_permutations cl sv lib)) <->
                         In n (map p_name (executed cl sv lib))).
  { intros n. split; apply Permutation_in, Permutation_map; [symmetry|]; exact EX. }
  rewrite batches_sel_filter, filter_map_name.
  split; [apply NoDup_filter', distinct_names_sound, HD|]. split; [|split; [exact CHK|split]].
  - intros n. rewrite filter_In, <- NM, CHK, C08_Proofs.accept_iff_proof. tauto.
  - intros n. rewrite filter_In, kf_marks_iff. reflexivity.
  - apply Permutation_length, filter_perm, Permutation_map. symmetry. exact EX.
Qed.

(* without --run / --skip a slice is the whole run *)
Lemma filter_all {A} (f : A -> bool) l : (forall x, f x = true) -> filter f l = l.
Proof. intros H. induction l as [|x l IH]; simpl; [reflexivity|]. rewrite H, IH. reflexivity. Qed.

Theorem slice_nil_proof : forall cfg ss cl sv ps,
  predicted_slice cfg ss cl sv ps [] [] =
  match predicted_run cfg ss cl sv ps with
  | Good pr => Good (pr, length (pr_checked pr))
  | Bad e => Bad e
  end.
Proof.
  intros. unfold predicted_slice, predicted_slices, predicted_run.
  destruct (C06_Model.parse_config cfg) as [cs|]; [|reflexivity].
  destruct (new_library ss (map conv cs) (run_mode cl sv)) as [lib|]; [|reflexivity].
  destruct (distinct_names (map p_name (executed cl sv lib))); [|reflexivity].
  simpl. unfold slice_view. simpl. rewrite batches_sel_filter.
  rewrite (filter_all (fun p => selector [] [] (p_name p))) by reflexivity.
  rewrite (filter_all (selector [] [])) by reflexivity. reflexivity.
Qed.

(* several selections at once = each of them alone (the library is shared, nothing else) *)
Theorem slices_each_proof : forall cfg ss cl sv ps sels l,
  predicted_slices cfg ss cl sv ps sels = Good l ->
  Forall2 (fun sel x => predicted_slice cfg ss cl sv ps (fst sel) (snd sel) = Good x) sels l.
Proof.
  intros cfg ss cl sv ps sels l H. unfold predicted_slice, predicted_slices in *.
  destruct (C06_Model.parse_config cfg) as [cs|]; [|discriminate].
  destruct (new_library ss (map conv cs) (run_mode cl sv)) as [lib|]; [|discriminate].
  destruct (distinct_names (map p_name (executed cl sv lib))); [|discriminate].
  injection H as <-. induction sels as [|[rs sk] sels IH]; simpl; constructor; [reflexivity|exact IH].
Qed.

Lemma patterns_ok_sel_nil rs sk chk :
  patterns_ok_sel [] rs sk chk = true <->
  (rs = [] \/ C08_Model.unmatched (C08_Model.build rs) chk = []) /\
  (sk = [] \/ C08_Model.unmatched (C08_Model.build sk) chk = []).
Proof.
  unfold patterns_ok_sel, C08_Model.run_checks.
  change (C08_Model.trie_length (C08_Model.build [])) with 0%nat.
  change (0 <? 0)%nat with false. simpl. unfold C08_Model.has_unmatched.
  destruct rs as [|r rs].
  - destruct sk as [|s sk]; [tauto|].
    destruct (C08_Model.unmatched (C08_Model.build (s :: sk)) chk); split; auto; try discriminate.
    intros [_ [?|?]]; discriminate.
  - destruct (C08_Model.unmatched (C08_Model.build (r :: rs)) chk).
    + destruct sk as [|s sk]; [tauto|].
      destruct (C08_Model.unmatched (C08_Model.build (s :: sk)) chk); split; auto; try discriminate.
      intros [_ [?|?]]; discriminate.
    + split; [discriminate|]. intros [[?|?] _]; discriminate.
Qed.

(* the verdict of a restricted run: every pattern list is well-formed against the whole space, and each
   SENT case meets its listing *)
Theorem slice_ok_iff_proof : forall ps rs sk chk names out,
  NoDup names ->
  (slice_ok ps rs sk chk names out = true <->
     patterns_ok_sel ps rs sk chk = true /\
     forall n, In n names ->
       (C08_Spec.some_glob ps n <-> ran_and_failed (out n)) /\ (~ C08_Spec.some_glob ps n <-> passed (out n))).
Proof.
  intros ps rs sk chk names out ND. unfold slice_ok.
  rewrite andb_true_iff, (run_verdict_iff _ _ _ ND). split; intros [PO V]; (split; [exact PO|]); intros n Hn.
  - destruct (V n Hn) as [HF HP]. split; split; auto.
    + intros RF. destruct (kf_marks ps n) eqn:K; [apply kf_marks_iff, K|].
      exfalso. apply (passed_not_failed (out n)); [|exact RF]. apply HP. intros G.
      apply kf_marks_iff in G. congruence.
    + intros P G. apply (passed_not_failed _ P), HF, G.
  - destruct (V n Hn) as [HF HP]. split; [apply HF|apply HP].
Qed.

(* with the empty list of the reference pair: success = run/skip patterns each match something of the
   whole space, and every sent case passed *)
Theorem slice_all_pass_proof : forall rs sk chk names out,
  NoDup names ->
  (slice_ok [] rs sk chk names out = true <->
     (rs = [] \/ C08_Model.unmatched (C08_Model.build rs) chk = []) /\
     (sk = [] \/ C08_Model.unmatched (C08_Model.build sk) chk = []) /\
     forall n, In n names -> passed (out n)).
Proof.
  intros rs sk chk names out ND. rewrite (slice_ok_iff_proof _ _ _ _ _ _ ND), patterns_ok_sel_nil.
  assert (NG : forall n, ~ C08_Spec.some_glob [] n) by (intros n (p & [] & _)).
  split.
  - intros [[A B] V]. split; [exact A|split; [exact B|]]. intros n Hn. apply (V n Hn), NG.
  - intros (A & B & V). split; [tauto|]. intros n Hn. split; split.
    + intros G. destruct (NG n G).
    + intros RF. exfalso. exact (passed_not_failed _ (V n Hn) RF).
    + intros _. apply V, Hn.
    + intros _. apply NG.
Qed.

Lemma slice_status_ok_proof ps rs sk chk names out :
  slice_status ps rs sk chk names out = 0 <-> slice_ok ps rs sk chk names out = true.
Proof.
  unfold slice_status, slice_ok.
  destruct (patterns_ok_sel ps rs sk chk), (run_verdict ps names out); simpl; split; auto; discriminate.
Qed.
