(* C19_Proofs.v — lemmas and proofs for C19_Props.v. *)
From Coq Require Import Lia.
From V Require Import C19_Spec.
Open Scope Z_scope.

(* ---------- varints ---------- *)
Lemma log2_bounds n k1 k2 : 0 <= k1 -> 0 <= k2 -> 2^k1 <= n < 2^k2 -> k1 <= Z.log2 n < k2.
Proof.
  intros K1 K2 [Lo Up].
  assert (0 < n) by (pose proof (Z.pow_pos_nonneg 2 k1); lia).
  split; [apply Z.log2_le_pow2; lia|apply Z.log2_lt_pow2; lia].
Qed.

Lemma varint_len_class n k : 1 <= k <= 9 -> 2^(7*(k-1)) <= n < 2^(7*k) -> varint_len n = k.
Proof.
  intros Hk Hn. unfold varint_len, bit_len.
  assert (0 < n) by (pose proof (Z.pow_pos_nonneg 2 (7*(k-1))); lia).
  destruct (Z.leb_spec n 0); [lia|].
  pose proof (log2_bounds n (7*(k-1)) (7*k) ltac:(lia) ltac:(lia) Hn).
  Z.div_mod_to_equations. lia.
Qed.

Lemma vl_at n k lo hi :
  1 <= k <= 9 -> lo = 2^(7*(k-1)) -> hi = 2^(7*k) -> lo <= n < hi -> varint_len n = k.
Proof. intros; subst; apply varint_len_class; assumption. Qed.

Lemma varint_len_zero : varint_len 0 = 1.
Proof. reflexivity. Qed.

Lemma varint_len_nonneg n : 0 <= varint_len n.
Proof.
  unfold varint_len, bit_len. destruct (Z.leb_spec n 0).
  - Z.div_mod_to_equations. lia.
  - pose proof (Z.log2_nonneg n). Z.div_mod_to_equations. lia.
Qed.

(* the nine classes of a Go int *)
Lemma varint_len_cases n : 0 <= n <= go_int_max ->
  (n < 128 /\ varint_len n = 1) \/ (128 <= n < 16384 /\ varint_len n = 2) \/
  (16384 <= n < 2097152 /\ varint_len n = 3) \/ (2097152 <= n < 268435456 /\ varint_len n = 4) \/
  (268435456 <= n < 34359738368 /\ varint_len n = 5) \/
  (34359738368 <= n < 4398046511104 /\ varint_len n = 6) \/
  (4398046511104 <= n < 562949953421312 /\ varint_len n = 7) \/
  (562949953421312 <= n < 72057594037927936 /\ varint_len n = 8) \/
  (72057594037927936 <= n /\ varint_len n = 9).
Proof.
  unfold go_int_max. intros Hn.
  destruct (Z.eqb_spec n 0) as [->|NZ]; [left; split; [lia|reflexivity]|].
  destruct (Z.lt_ge_cases n 128); [left; split; [lia|apply (vl_at n 1 1 128); (reflexivity || lia)]|right].
  destruct (Z.lt_ge_cases n 16384); [left; split; [lia|apply (vl_at n 2 128 16384); (reflexivity || lia)]|right].
  destruct (Z.lt_ge_cases n 2097152); [left; split; [lia|apply (vl_at n 3 16384 2097152); (reflexivity || lia)]|right].
  destruct (Z.lt_ge_cases n 268435456); [left; split; [lia|apply (vl_at n 4 2097152 268435456); (reflexivity || lia)]|right].
  destruct (Z.lt_ge_cases n 34359738368); [left; split; [lia|apply (vl_at n 5 268435456 34359738368); (reflexivity || lia)]|right].
  destruct (Z.lt_ge_cases n 4398046511104); [left; split; [lia|apply (vl_at n 6 34359738368 4398046511104); (reflexivity || lia)]|right].
  destruct (Z.lt_ge_cases n 562949953421312); [left; split; [lia|apply (vl_at n 7 4398046511104 562949953421312); (reflexivity || lia)]|right].
  destruct (Z.lt_ge_cases n 72057594037927936); [left; split; [lia|apply (vl_at n 8 562949953421312 72057594037927936); (reflexivity || lia)]|right].
  split; [lia|apply (vl_at n 9 72057594037927936 9223372036854775808); (reflexivity || lia)].
Qed.

Lemma varint_len_correct_proof : forall n, 0 <= n <= go_int_max -> varint_len_spec n (varint_len n).
Proof.
  intros n Hn. unfold varint_len_spec.
  destruct (varint_len_cases n Hn) as [[? ->]|[[? ->]|[[? ->]|[[? ->]|[[? ->]|[[? ->]|[[? ->]|[[? ->]|[? ->]]]]]]]]];
    unfold go_int_max in *;
    repeat match goal with |- context [2 ^ ?e] => let v := eval vm_compute in (2 ^ e) in change (2 ^ e) with v end;
    lia.
Qed.

(* ---------- the overhead step function ---------- *)
Definition h (n : Z) : Z := field_size n - n.

Lemma h_cases n : 0 <= n <= go_int_max ->
  (n = 0 /\ h n = 0) \/ (1 <= n < 128 /\ h n = 2) \/ (128 <= n < 16384 /\ h n = 3) \/
  (16384 <= n < 2097152 /\ h n = 4) \/ (2097152 <= n < 268435456 /\ h n = 5) \/
  (268435456 <= n < 34359738368 /\ h n = 6) \/ (34359738368 <= n /\ 7 <= h n <= 10).
Proof.
  intros Hn. unfold h, field_size.
  destruct (Z.eqb_spec n 0) as [->|NZ]; [left; lia|right].
  destruct (varint_len_cases n Hn) as [[? ->]|[[? ->]|[[? ->]|[[? ->]|[[? ->]|[[? ->]|[[? ->]|[[? ->]|[? ->]]]]]]]]]; lia.
Qed.

Lemma h_nonneg n : 0 <= n -> 0 <= h n.
Proof.
  intros Hn. unfold h, field_size. destruct (Z.eqb_spec n 0); [lia|].
  pose proof (varint_len_nonneg n). lia.
Qed.

Lemma msg_size_h base n T : msg_size base n = T <-> n + h n = T - base.
Proof. unfold msg_size, h. lia. Qed.

(* The heart of expand_complete.  One adjustment sends n to max 0 (D - h n) with D the wanted
   field size; a solution m is a fixed point.  h is a step function (0,2,3,4,5,6 below 2^35)
   whose jumps are at least 127 apart, h n0 <= 10, so n1 lies within 10 of m, at most one jump
   lies between them, and the third iterate is m.  The case split is on the classes of m, n1,
   n2, n3 in turn; `lia` closes each combination from the explicit thresholds (all but a
   handful are contradictory after the first two splits). *)
Lemma complete_core D a0 n1 n2 n3 m :
  0 <= a0 <= 10 -> 0 <= m -> D < 4294967296 -> m + h m = D ->
  n1 = Z.max 0 (D - a0) -> n2 = Z.max 0 (D - h n1) -> n3 = Z.max 0 (D - h n2) ->
  n1 + h n1 <> D -> n2 + h n2 <> D -> n3 + h n3 <> D -> False.
Proof.
  intros A0 M DU HM E1 E2 E3 X1 X2 X3.
  pose proof (h_nonneg m M) as HMn.
  assert (Hm : 0 <= m <= go_int_max) by (unfold go_int_max; lia).
  destruct (h_cases m Hm) as [[? Cm]|[[? Cm]|[[? Cm]|[[? Cm]|[[? Cm]|[[? Cm]|[? Cm]]]]]]];
    try lia; rewrite Cm in HM;
    (assert (Q1 : 0 <= n1 <= go_int_max) by (unfold go_int_max; lia));
    destruct (h_cases n1 Q1) as [[? C1]|[[? C1]|[[? C1]|[[? C1]|[[? C1]|[[? C1]|[? C1]]]]]]];
    try lia; rewrite C1 in *;
    (assert (Q2 : 0 <= n2 <= go_int_max) by (unfold go_int_max; lia));
    destruct (h_cases n2 Q2) as [[? C2]|[[? C2]|[[? C2]|[[? C2]|[[? C2]|[[? C2]|[? C2]]]]]]];
    try lia; rewrite C2 in *;
    (assert (Q3 : 0 <= n3 <= go_int_max) by (unfold go_int_max; lia));
    destruct (h_cases n3 Q3) as [[? C3]|[[? C3]|[[? C3]|[[? C3]|[[? C3]|[[? C3]|[? C3]]]]]]];
    lia.
Qed.

(* ---------- the loop ---------- *)
Lemma pad_loop_exact left clamp base T : forall n r,
  pad_loop left clamp base T n = POk r -> msg_size base r = T.
Proof.
  induction left as [|l IH]; intros n r; cbn [pad_loop]; cbv zeta.
  - destruct (Z.eqb_spec (T - msg_size base n) 0); [intros [= <-]; lia|discriminate].
  - destruct (Z.eqb_spec (T - msg_size base n) 0); [intros [= <-]; lia|].
    destruct (0 <? T - msg_size base n); [apply IH|].
    destruct (slice_to _ _); [apply IH|discriminate].
Qed.

Lemma slice_to_some len k k' : slice_to len k = Some k' -> k' = k /\ 0 <= k <= len.
Proof.
  unfold slice_to. destruct (Z.leb_spec 0 k), (Z.leb_spec k len); cbn; intros [= <-]; lia.
Qed.

Lemma pad_loop_nonneg left clamp base T : forall n r,
  0 <= n -> pad_loop left clamp base T n = POk r -> 0 <= r.
Proof.
  induction left as [|l IH]; intros n r Hn; cbn [pad_loop]; cbv zeta.
  - destruct (Z.eqb_spec (T - msg_size base n) 0); [intros [= <-]; lia|discriminate].
  - destruct (Z.eqb_spec (T - msg_size base n) 0); [intros [= <-]; lia|].
    destruct (Z.ltb_spec 0 (T - msg_size base n)); [apply IH; lia|].
    destruct (slice_to _ _) eqn:E; [|discriminate].
    apply slice_to_some in E. apply IH; lia.
Qed.

Definition adj (base T n : Z) : Z := Z.max 0 (T - base - h n).

(* one turn of the repaired loop: never a crash, and the new length is max 0 (D - h n) *)
Lemma pad_step l base T n :
  0 <= n -> msg_size base n <> T ->
  pad_loop (S l) true base T n = pad_loop l true base T (adj base T n).
Proof.
  intros Hn NE. cbn [pad_loop]; cbv zeta.
  destruct (Z.eqb_spec (T - msg_size base n) 0); [lia|].
  unfold adj, h, msg_size in *.
  destruct (Z.ltb_spec 0 (T - (base + field_size n))).
  - f_equal. lia.
  - unfold slice_to.
    destruct (Z.leb_spec 0 (Z.max 0 (n + (T - (base + field_size n))))); [|lia].
    destruct (Z.leb_spec (Z.max 0 (n + (T - (base + field_size n)))) n); [|lia].
    cbn. f_equal. lia.
Qed.

Lemma adj_nonneg base T n : 0 <= adj base T n.
Proof. unfold adj. lia. Qed.

Lemma pad_loop_total left base T : forall n, 0 <= n -> pad_loop left true base T n <> PCrash.
Proof.
  induction left as [|l IH]; intros n Hn.
  - cbn. destruct (_ =? 0); discriminate.
  - destruct (Z.eq_dec (msg_size base n) T) as [E|NE].
    + cbn [pad_loop]; cbv zeta. rewrite E, Z.sub_diag. cbn. discriminate.
    + rewrite pad_step by assumption. apply IH, adj_nonneg.
Qed.

Lemma pad_loop_0 clamp base T n :
  pad_loop 0 clamp base T n = if T - msg_size base n =? 0 then POk n else PErr (msg_size base n).
Proof. reflexivity. Qed.

Lemma expand_exact_proof : forall base n0 T n, expand base n0 T = POk n -> msg_size base n = T.
Proof. intros base n0 T n. apply pad_loop_exact. Qed.

Lemma expand_nonneg base n0 T n : 0 <= n0 -> expand base n0 T = POk n -> 0 <= n.
Proof. apply pad_loop_nonneg. Qed.

Lemma expand_total_proof : forall base n0 T, 0 <= n0 -> expand base n0 T <> PCrash.
Proof. intros. apply pad_loop_total. assumption. Qed.

Lemma expand_complete_proof : forall base n0 T c,
  0 <= base -> 0 <= n0 <= go_int_max -> T <= max_uint32 ->
  expand base n0 T = PErr c -> ~ reachable base T.
Proof.
  intros base n0 T c Hb Hn HT E [m [Hm Sm]].
  unfold expand, max_adjust in E.
  destruct (Z.eq_dec (msg_size base n0) T) as [E0|N0].
  { cbn [pad_loop] in E; cbv zeta in E. rewrite E0, Z.sub_diag in E. discriminate. }
  rewrite pad_step in E by lia.
  set (n1 := adj base T n0) in *. pose proof (adj_nonneg base T n0) as P1. fold n1 in P1.
  destruct (Z.eq_dec (msg_size base n1) T) as [E1|N1].
  { cbn [pad_loop] in E; cbv zeta in E. rewrite E1, Z.sub_diag in E. discriminate. }
  rewrite pad_step in E by lia.
  set (n2 := adj base T n1) in *. pose proof (adj_nonneg base T n1) as P2. fold n2 in P2.
  destruct (Z.eq_dec (msg_size base n2) T) as [E2|N2].
  { cbn [pad_loop] in E; cbv zeta in E. rewrite E2, Z.sub_diag in E. discriminate. }
  rewrite pad_step in E by lia.
  set (n3 := adj base T n2) in *.
  destruct (Z.eq_dec (msg_size base n3) T) as [E3|N3].
  { rewrite pad_loop_0, E3, Z.sub_diag in E. discriminate. }
  rewrite msg_size_h in Sm, N1, N2, N3.
  assert (A0 : 0 <= h n0 <= 10).
  { destruct (h_cases n0 Hn) as [[? ->]|[[? ->]|[[? ->]|[[? ->]|[[? ->]|[[? ->]|[? ?]]]]]]]; lia. }
  apply (complete_core (T - base) (h n0) n1 n2 n3 m); try assumption; try reflexivity.
  unfold max_uint32 in HT. lia.
Qed.

(* which sizes cannot be reached at all: below the smallest non-empty field and one value at
   every varint boundary of the length *)
Definition gaps : list Z := [1; 2; 130; 16387; 2097156; 268435461].

Lemma unreachable_char_proof : forall base T,
  0 <= T - base <= max_uint32 -> (~ reachable base T <-> In (T - base) gaps).
Proof.
  intros base T HD. unfold max_uint32 in HD. set (D := T - base) in *.
  assert (W : forall k, 0 <= D - k <= go_int_max -> h (D - k) = k -> reachable base T).
  { intros k Hk Hh. exists (D - k). split; [lia|]. apply msg_size_h. fold D. lia. }
  split.
  - intros NR. unfold gaps. cbn [In].
    destruct (Z.eq_dec D 1); [lia|]. destruct (Z.eq_dec D 2); [lia|].
    destruct (Z.eq_dec D 130); [lia|]. destruct (Z.eq_dec D 16387); [lia|].
    destruct (Z.eq_dec D 2097156); [lia|]. destruct (Z.eq_dec D 268435461); [lia|].
    exfalso. apply NR.
    destruct (Z.eq_dec D 0).
    { apply (W 0); [unfold go_int_max; lia|]. replace (D - 0) with 0 by lia. reflexivity. }
    destruct (Z.lt_ge_cases D 130).
    { apply (W 2); [unfold go_int_max; lia|].
      destruct (h_cases (D - 2)) as [[? ?]|[[? ?]|[[? ?]|[[? ?]|[[? ?]|[[? ?]|[? ?]]]]]]]; unfold go_int_max; lia. }
    destruct (Z.lt_ge_cases D 16387).
    { apply (W 3); [unfold go_int_max; lia|].
      destruct (h_cases (D - 3)) as [[? ?]|[[? ?]|[[? ?]|[[? ?]|[[? ?]|[[? ?]|[? ?]]]]]]]; unfold go_int_max; lia. }
    destruct (Z.lt_ge_cases D 2097156).
    { apply (W 4); [unfold go_int_max; lia|].
      destruct (h_cases (D - 4)) as [[? ?]|[[? ?]|[[? ?]|[[? ?]|[[? ?]|[[? ?]|[? ?]]]]]]]; unfold go_int_max; lia. }
    destruct (Z.lt_ge_cases D 268435461).
    { apply (W 5); [unfold go_int_max; lia|].
      destruct (h_cases (D - 5)) as [[? ?]|[[? ?]|[[? ?]|[[? ?]|[[? ?]|[[? ?]|[? ?]]]]]]]; unfold go_int_max; lia. }
    apply (W 6); [unfold go_int_max; lia|].
    destruct (h_cases (D - 6)) as [[? ?]|[[? ?]|[[? ?]|[[? ?]|[[? ?]|[[? ?]|[? ?]]]]]]]; unfold go_int_max; lia.
  - intros G [m [Hm Sm]]. apply msg_size_h in Sm. fold D in Sm.
    pose proof (h_nonneg m Hm).
    assert (Q : 0 <= m <= go_int_max) by (unfold go_int_max; lia).
    unfold gaps in G. cbn [In] in G.
    destruct (h_cases m Q) as [[? ?]|[[? ?]|[[? ?]|[[? ?]|[[? ?]|[[? ?]|[? ?]]]]]]]; lia.
Qed.

(* ---------- the whole function ---------- *)
Lemma c_cons_ok m r ms' : c_cons m r = COk ms' -> exists t, r = COk t /\ ms' = m :: t.
Proof. destruct r; cbn; intros [= <-]. eauto. Qed.
Lemma c_cons_err m r e : c_cons m r = CErr e -> r = CErr e.
Proof. destruct r; cbn; congruence. Qed.
Lemma c_cons_crash m r : c_cons m r = CCrash -> r = CCrash.
Proof. destruct r; cbn; congruence. Qed.

Lemma range_test limit d :
  ((limit + d <? 0) || (max_uint32 <? limit + d) = false) <-> 0 <= limit + d <= max_uint32.
Proof.
  destruct (Z.ltb_spec (limit + d) 0), (Z.ltb_spec max_uint32 (limit + d)); cbn; split; (lia || congruence).
Qed.

Lemma expand_msgs_sound limit : forall dirs ms ms',
  Forall wf_msg ms -> expand_msgs limit dirs ms = COk ms' -> expanded limit dirs ms ms'.
Proof.
  induction dirs as [|[d|] ds IH]; intros ms ms' WF E.
  - destruct ms; cbn in E; injection E as <-; constructor.
  - destruct ms as [|m ms]; [discriminate|]. cbn [expand_msgs] in E. cbv zeta in E.
    destruct ((limit + d <? 0) || (max_uint32 <? limit + d)) eqn:R; [discriminate|].
    apply range_test in R. inversion WF as [|? ? Wm Wms]; subst.
    destruct m as [b n0|s]; [|discriminate].
    destruct (expand b n0 (limit + d)) as [n| |] eqn:X; try discriminate.
    apply c_cons_ok in E. destruct E as (t & Et & ->).
    cbn in Wm. constructor; auto.
    + eapply expand_nonneg; [|exact X]. lia.
    + eapply expand_exact_proof; exact X.
  - destruct ms as [|m ms]; [discriminate|]. cbn [expand_msgs] in E.
    apply c_cons_ok in E. destruct E as (t & Et & ->).
    inversion WF; subst. constructor; auto.
Qed.

Lemma expand_case_sound_proof : forall limit dirs ms ms',
  Forall wf_msg ms -> expand_case limit dirs ms = COk ms' -> expanded limit dirs ms ms'.
Proof.
  intros limit dirs ms ms' WF. unfold expand_case.
  destruct (length ms <? length dirs)%nat; [discriminate|]. apply expand_msgs_sound; assumption.
Qed.

Lemma expanded_only_padding limit dirs ms ms' :
  expanded limit dirs ms ms' ->
  Forall2 same_but_padding ms ms' /\
  skipn (length dirs) ms' = skipn (length dirs) ms /\
  (forall i, nth_error dirs i = Some None -> nth_error ms' i = nth_error ms i).
Proof.
  induction 1 as [ms|ds m ms ms' _ (F & S & N)|d ds b n0 n ms ms' _ _ _ _ (F & S & N)].
  - split; [|split].
    + induction ms as [|m ms IH]; constructor; [destruct m; reflexivity|assumption].
    + reflexivity.
    + intros [|i]; discriminate.
  - split; [|split].
    + constructor; [destruct m; reflexivity|assumption].
    + exact S.
    + intros [|i]; cbn; [reflexivity|apply N].
  - split; [|split].
    + constructor; [reflexivity|assumption].
    + exact S.
    + intros [|i]; cbn; [discriminate|apply N].
Qed.

Lemma only_padding_proof : forall limit dirs ms ms',
  Forall wf_msg ms -> expand_case limit dirs ms = COk ms' ->
  Forall2 same_but_padding ms ms' /\
  skipn (length dirs) ms' = skipn (length dirs) ms /\
  (forall i, nth_error dirs i = Some None -> nth_error ms' i = nth_error ms i).
Proof. intros. eapply expanded_only_padding, expand_case_sound_proof; eassumption. Qed.

Lemma expanded_exact limit dirs ms ms' :
  expanded limit dirs ms ms' ->
  forall i d, nth_error dirs i = Some (Some d) ->
  exists m', nth_error ms' i = Some m' /\ size_of m' = limit + d /\ 0 <= limit + d <= max_uint32.
Proof.
  induction 1 as [ms|ds m ms ms' _ IH|d0 ds b n0 n ms ms' R _ S _ IH]; intros i d Hi.
  - destruct i; discriminate.
  - destruct i as [|i]; [discriminate|]. cbn in *. apply IH; assumption.
  - destruct i as [|i]; cbn in *.
    + injection Hi as ->. exists (Padded b n). auto.
    + apply IH; assumption.
Qed.

Lemma case_exact_proof : forall limit dirs ms ms',
  Forall wf_msg ms -> expand_case limit dirs ms = COk ms' ->
  forall i d, nth_error dirs i = Some (Some d) ->
  exists m', nth_error ms' i = Some m' /\ size_of m' = limit + d /\ 0 <= limit + d <= max_uint32.
Proof. intros until 2. eapply expanded_exact, expand_case_sound_proof; eassumption. Qed.

Lemma expand_msgs_total limit : forall dirs ms, Forall wf_msg ms -> expand_msgs limit dirs ms <> CCrash.
Proof.
  induction dirs as [|[d|] ds IH]; intros ms WF E.
  - destruct ms; discriminate.
  - destruct ms as [|m ms]; [discriminate|]. cbn [expand_msgs] in E. cbv zeta in E.
    destruct ((limit + d <? 0) || (max_uint32 <? limit + d)); [discriminate|].
    inversion WF as [|? ? Wm Wms]; subst.
    destruct m as [b n0|s]; [|discriminate].
    destruct (expand b n0 (limit + d)) eqn:X; try discriminate.
    + apply c_cons_crash in E. exact (IH ms Wms E).
    + cbn in Wm. exact (expand_total_proof b n0 (limit + d) ltac:(lia) X).
  - destruct ms as [|m ms]; [discriminate|]. cbn [expand_msgs] in E.
    apply c_cons_crash in E. inversion WF; subst. eapply IH; eassumption.
Qed.

Lemma case_total_proof : forall limit dirs ms, Forall wf_msg ms -> expand_case limit dirs ms <> CCrash.
Proof.
  intros limit dirs ms WF. unfold expand_case.
  destruct (length ms <? length dirs)%nat; [discriminate|]. apply expand_msgs_total; assumption.
Qed.

Lemma expand_msgs_rejections limit : forall dirs ms e,
  Forall wf_msg ms -> expand_msgs limit dirs ms = CErr e -> rejection_justified limit dirs ms e.
Proof.
  induction dirs as [|[d|] ds IH]; intros ms e WF E.
  - destruct ms; discriminate.
  - destruct ms as [|m ms].
    { cbn in E. injection E as <-. cbn. lia. }
    cbn [expand_msgs] in E. cbv zeta in E.
    destruct ((limit + d <? 0) || (max_uint32 <? limit + d)) eqn:R.
    { injection E as <-. exists 0%nat, d. split; [reflexivity|]. intros C. apply range_test in C. congruence. }
    apply range_test in R. inversion WF as [|? ? Wm Wms]; subst.
    destruct m as [b n0|s].
    2:{ injection E as <-. exists 0%nat, d, s. split; reflexivity. }
    destruct (expand b n0 (limit + d)) as [n|c|] eqn:X; try discriminate.
    + apply c_cons_err in E. specialize (IH ms e Wms E).
      destruct e; cbn in *.
      * lia.
      * destruct IH as (i & d' & ? & ?). exists (S i), d'. auto.
      * destruct IH as (i & d' & s & ? & ?). exists (S i), d', s. auto.
      * destruct IH as (i & d' & b' & n' & ? & ? & ?). exists (S i), d', b', n'. auto.
    + injection E as <-. exists 0%nat, d, b, n0. cbn in Wm.
      repeat split; try reflexivity; try lia.
      eapply expand_complete_proof; [| |  |exact X]; lia.
  - destruct ms as [|m ms].
    { cbn in E. injection E as <-. cbn. lia. }
    cbn [expand_msgs] in E. apply c_cons_err in E.
    inversion WF as [|? ? Wm Wms]; subst. specialize (IH ms e Wms E).
    destruct e; cbn in *.
    + lia.
    + destruct IH as (i & d' & ? & ?). exists (S i), d'. auto.
    + destruct IH as (i & d' & s & ? & ?). exists (S i), d', s. auto.
    + destruct IH as (i & d' & b' & n' & ? & ? & ?). exists (S i), d', b', n'. auto.
Qed.

Lemma case_complete_proof : forall limit dirs ms e,
  Forall wf_msg ms -> expand_case limit dirs ms = CErr e -> rejection_justified limit dirs ms e.
Proof.
  intros limit dirs ms e WF. unfold expand_case.
  destruct (Nat.ltb_spec (length ms) (length dirs)).
  - intros [= <-]. cbn. assumption.
  - apply expand_msgs_rejections; assumption.
Qed.

(* the range check comes first: whatever the message is, however it could be padded *)
Lemma range_checked_proof : forall limit d ds m ms,
  ~ (0 <= limit + d <= max_uint32) ->
  expand_msgs limit (Some d :: ds) (m :: ms) = CErr ERange.
Proof.
  intros limit d ds m ms R. cbn [expand_msgs]. cbv zeta.
  destruct ((limit + d <? 0) || (max_uint32 <? limit + d)) eqn:T; [reflexivity|].
  apply range_test in T. contradiction.
Qed.

(* with the compiled-in limit and an int32 directive the upper end of the range cannot be hit *)
Lemma range_upper_dead_proof : forall d,
  -2147483648 <= d <= 2147483647 -> c19_server_receive_limit + d <= max_uint32.
Proof.
  intros d Hd. assert (L : c19_server_receive_limit <= 2147483648) by (vm_compute; discriminate).
  unfold max_uint32. lia.
Qed.

(* the request types' padding fields have one-byte tags (wire type 2) *)
Lemma tag_one_byte_proof : forall k, In k c19_pad_field_numbers -> varint_len (k * 8 + 2) = 1.
Proof.
  assert (F : forallb (fun k => varint_len (k * 8 + 2) =? 1) c19_pad_field_numbers = true) by (vm_compute; reflexivity).
  rewrite forallb_forall in F. intros k Hk. apply Z.eqb_eq, F, Hk.
Qed.

(* the specification the live runs are compared with is sharp, and it ties the directive to
   the verdict: the message built for offset d is acceptable iff d <= 0 *)
Lemma accepts_sharp_proof : forall limit, sharp_at limit (accepts limit).
Proof. intros limit size. unfold accepts. apply Z.leb_le. Qed.

Lemma expanded_verdict_proof : forall limit dirs ms ms',
  Forall wf_msg ms -> expand_case limit dirs ms = COk ms' ->
  forall i d, nth_error dirs i = Some (Some d) ->
  exists m', nth_error ms' i = Some m' /\ accepts limit (size_of m') = (d <=? 0).
Proof.
  intros limit dirs ms ms' WF E i d Hi.
  destruct (case_exact_proof limit dirs ms ms' WF E i d Hi) as (m' & Hm & S & _).
  exists m'. split; [assumption|]. unfold accepts. rewrite S.
  destruct (Z.leb_spec (limit + d) limit), (Z.leb_spec d 0); (reflexivity || lia).
Qed.

(* ---------- the runner's own path (kind c19.wiring) ---------- *)
(* what the model predicts for a suite of single size directives: each request gets exactly the
   size limit + off, and is accepted iff off <= 0; the prediction fails (suite rejected) only for
   a size that no padding reaches *)
Lemma wiring_one_proof : forall limit off r,
  wiring_one limit off = Some r -> r = L [I limit; I (limit + off); sx_bool (off <=? 0)].
Proof.
  intros limit off r. unfold wiring_one.
  destruct (expand 0 0 (limit + off)) eqn:E; try discriminate.
  intros H. injection H as <-.
  apply expand_exact_proof in E.
  change (field_size n) with (msg_size 0 n). rewrite !E. unfold accepts.
  replace (limit + off <=? limit) with (off <=? 0); [reflexivity|].
  destruct (Z.leb_spec off 0), (Z.leb_spec (limit + off) limit); try reflexivity; lia.
Qed.

Lemma wiring_none_proof : forall limit off,
  0 <= limit + off <= max_uint32 -> wiring_one limit off = None -> ~ reachable 0 (limit + off).
Proof.
  intros limit off Hr. unfold wiring_one.
  destruct (expand 0 0 (limit + off)) eqn:E; try discriminate; intros _.
  - eapply expand_complete_proof; [| |apply (proj2 Hr)|exact E]; unfold go_int_max; lia.
  - exfalso. eapply expand_total_proof; [|exact E]. lia.
Qed.
