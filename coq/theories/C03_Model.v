(* C03_Model.v — executable model of the result assertion in
     internal/app/connectconformance/results.go
       assert, checkError, checkPayloads, checkRequestInfo, checkHeaders,
       canonicalizeHeaderVals, mergeHeaders, timeoutCheckGracePeriodMillis
   The assertion is modelled as a function from (test-case definition, expected
   result, actual result) to the list of discrepancies it reports; the outcome
   recorded for the case is nil iff that list is empty.
   One deliberate difference from the code as first found: the query-parameter
   comparison is NOT skipped when the actual result carries no query parameter
   at all (finding #14, see KNOWN_FINDINGS.txt).
   No proofs here. *)
From V Require Export Base C03_Consts.
Open Scope N_scope.

(* ---------- data ---------- *)
Record header := mkH { h_name : bytes; h_vals : list bytes }.

(* google.protobuf.Any as the harness produces it: a message type (by index into
   a fixed table of type URLs) and its content.  Types below [n_resolvable] are
   linked into the binary (anypb.UnmarshalNew succeeds, protocmp compares the
   decoded messages); the others are unknown URLs whose raw bytes are compared.
   The Go side marshals deterministically, so (type, content) equality is the
   proto equality the code computes. *)
Record any := mkAny { a_ty : N; a_data : bytes }.
Definition n_resolvable : N := 4.
Definition resolvable (a : any) : bool := a_ty a <? n_resolvable.
Definition any_eqb (x y : any) : bool := N.eqb (a_ty x) (a_ty y) && bytes_eqb (a_data x) (a_data y).

(* ConformancePayload.RequestInfo; a nil message behaves exactly like the empty
   one in every branch of checkRequestInfo (getters on nil), likewise a nil
   ConnectGetInfo and an empty parameter list. *)
Record reqinfo := mkRI {
  ri_headers : list header;
  ri_timeout : option Z;
  ri_requests : list any;
  ri_query : list header }.
Definition empty_ri : reqinfo := mkRI [] None [] [].

Record payload := mkP { p_data : bytes; p_info : reqinfo }.

Inductive detail := DReq (r : reqinfo) | DOther (a : any).

Record rpc_error := mkE { e_code : N; e_msg : option bytes; e_details : list detail }.

Record result := mkR {
  r_headers : list header;
  r_trailers : list header;
  r_payloads : list payload;
  r_error : option rpc_error;
  r_status : option Z;
  r_unsent : Z }.

(* the parts of the TestCase that assert reads besides ExpectedResponse *)
Record def := mkD { d_stream : N; d_other_codes : list N }.
Definition stream_unary : N := 1.
Definition stream_client : N := 2.

(* ---------- what is reported ---------- *)
Inductive what := WRespHeaders | WRespTrailers | WRespMeta | WReqHeaders | WQuery.

Inductive errkind :=
| EUnexpectedError | EMissingError | ECode | EMessage | EDetailCount
| EDetail (i : nat)                    (* "actual error detail #i does not match" (1-based) *)
| EPayloadCount
| EPayloadData (i : nat)               (* "response #i: expecting data" (1-based) *)
| EReqCount
| EReqUnmarshalActual (n : nat) | EReqUnmarshalExpected (n : nat)
| EReqMismatch (n : nat)               (* "request #n: did not survive round-trip" (1-based) *)
| EHdrMissing (w : what) (name : bytes)
| EHdrValues (w : what) (name : bytes)
| ETimeoutMissing | ETimeoutMismatch | ETimeoutUnexpected
| EStatus.

(* ---------- canonicalizeHeaderVals ---------- *)
Definition comma : N := 44.
Definition space : N := 32.

Definition trim_lead1 (p : bytes) : bytes :=
  match p with c :: r => if N.eqb c space then r else p | [] => [] end.
Definition trim_trail1 (p : bytes) : bytes :=
  match rev p with c :: r => if N.eqb c space then rev r else p | [] => [] end.

(* the inner loop over strings.Split(val, ","): [later] is i > 0, "i < last" is
   "another part follows" *)
Fixpoint canon_parts (later : bool) (parts : list bytes) : list bytes :=
  match parts with
  | [] => []
  | p :: rest =>
    let p1 := if later then trim_lead1 p else p in
    let p2 := match rest with [] => p1 | _ :: _ => trim_trail1 p1 end in
    p2 :: canon_parts true rest
  end.

Definition canon_vals (vals : list bytes) : list bytes :=
  flat_map (fun v => canon_parts false (split_on comma v)) vals.

(* ---------- checkHeaders ---------- *)
Definition lname (h : header) : bytes := lower (h_name h).

(* actualHeaders[strings.ToLower(hdr.Name)] = hdr.Value for every entry in order,
   then a lookup: the last entry with the name wins *)
Fixpoint lookup_last (a : list header) (name : bytes) : option (list bytes) :=
  match a with
  | [] => None
  | h :: a' =>
    match lookup_last a' name with
    | Some v => Some v
    | None => if bytes_eqb (lname h) name then Some (h_vals h) else None
    end
  end.

Definition check_header (w : what) (a : list header) (h : header) : list errkind :=
  let name := lname h in
  match lookup_last a name with
  | None => [EHdrMissing w name]
  | Some av =>
    if lbytes_eqb (canon_vals (h_vals h)) (canon_vals av) then [] else [EHdrValues w name]
  end.

Definition check_headers (w : what) (e a : list header) : list errkind :=
  flat_map (check_header w a) e.

(* ---------- mergeHeaders ----------
   Go: m[lower a.name] = a.value (overwrite) for a's entries, then
       m[lower b.name] = append(m[lower b.name], b.value...) for b's entries;
   the result is ranged over in map order.  Closed form of the two loops: every
   name of a or b once, carrying a's last value list for it followed by all of
   b's value lists for it.  Only the emptiness of the resulting error list is
   ever used by assert, so the (random) order of the map is immaterial. *)
Definition last_vals (a : list header) (name : bytes) : list bytes :=
  match lookup_last a name with Some v => v | None => [] end.
Definition all_vals (b : list header) (name : bytes) : list bytes :=
  flat_map (fun h => if bytes_eqb (lname h) name then h_vals h else []) b.
Definition merge_headers (a b : list header) : list header :=
  map (fun k => mkH k (last_vals a k ++ all_vals b k)) (dedup (map lname a ++ map lname b)).

(* ---------- checkRequestInfo ---------- *)
(* The grace constant is handed from its declaration to checkRequestInfo, which
   computes in MILLISECONDS.  TestVerifConsts regenerates the declaration as it
   stands in the source: its numeric value and the unit that value is counted in
   (nanoseconds per unit: 10^6 for an untyped "...Millis" number, 1 for a
   time.Duration).  The window of the model is the declared duration expressed in
   milliseconds - whatever the code does with the number it was handed. *)
Definition ns_per_ms : Z := 1000000.
Definition grace : Z := (c03_grace_value * c03_grace_unit_ns / ns_per_ms)%Z.

Definition check_timeout (e a : option Z) : list errkind :=
  match e, a with
  | Some _, None => [ETimeoutMissing]
  | Some t, Some x =>
    let max_allowed := t in
    let min_allowed := (if t - grace <? 0 then 0 else t - grace)%Z in
    if (x >? max_allowed)%Z || (x <? min_allowed)%Z then [ETimeoutMismatch] else []
  | None, Some _ => [ETimeoutUnexpected]
  | None, None => []
  end.

Fixpoint check_requests_from (n : nat) (e a : list any) : list errkind :=
  match e, a with
  | x :: e', y :: a' =>
    (if negb (resolvable y) then [EReqUnmarshalActual n]
     else if negb (resolvable x) then [EReqUnmarshalExpected n]
     else if any_eqb x y then [] else [EReqMismatch n])
    ++ check_requests_from (S n) e' a'
  | _, _ => []
  end.

Definition check_requests (e a : list any) : list errkind :=
  (if Nat.eqb (length a) (length e) then [] else [EReqCount]) ++ check_requests_from 1 e a.

Definition check_reqinfo (verify_headers : bool) (e a : reqinfo) : list errkind :=
  (if verify_headers then
     check_headers WReqHeaders (ri_headers e) (ri_headers a)
     ++ check_timeout (ri_timeout e) (ri_timeout a)
     ++ (if (0 <? length (ri_query e))%nat
         then check_headers WQuery (ri_query e) (ri_query a) else [])
   else [])
  ++ check_requests (ri_requests e) (ri_requests a).

(* ---------- checkPayloads ---------- *)
Fixpoint check_payloads_from (i : nat) (e a : list payload) : list errkind :=
  match e, a with
  | x :: e', y :: a' =>
    (if bytes_eqb (p_data y) (p_data x) then [] else [EPayloadData (S i)])
    ++ check_reqinfo (Nat.eqb i 0) (p_info x) (p_info y)
    ++ check_payloads_from (S i) e' a'
  | _, _ => []
  end.

Definition check_payloads (e a : list payload) : list errkind :=
  (if Nat.eqb (length a) (length e) then [] else [EPayloadCount]) ++ check_payloads_from 0 e a.

(* ---------- checkError ---------- *)
Definition msg_text (m : option bytes) : bytes := match m with Some s => s | None => [] end.

Definition check_detail (i : nat) (e a : detail) : list errkind :=
  match e, a with
  | DReq re, DReq ra => check_reqinfo true re ra
  | DOther x, DOther y => if any_eqb x y then [] else [EDetail i]
  | _, _ => [EDetail i]         (* different type URLs: the straight diff is never empty *)
  end.

Fixpoint check_details_from (i : nat) (e a : list detail) : list errkind :=
  match e, a with
  | x :: e', y :: a' => check_detail i x y ++ check_details_from (S i) e' a'
  | _, _ => []
  end.

Definition check_error (e a : option rpc_error) (other : list N) : list errkind :=
  match e, a with
  | None, None => []
  | None, Some _ => [EUnexpectedError]
  | Some _, None => [EMissingError]
  | Some e, Some a =>
    (if negb (N.eqb (e_code e) (e_code a)) && negb (existsb (N.eqb (e_code a)) other) then [ECode] else [])
    ++ (match e_msg e with
        | Some m => if bytes_eqb m (msg_text (e_msg a)) then [] else [EMessage]
        | None => []
        end)
    ++ (if Nat.eqb (length (e_details e)) (length (e_details a)) then [] else [EDetailCount])
    ++ check_details_from 1 (e_details e) (e_details a)
  end.

(* ---------- assert ---------- *)
Definition is_some {A} (o : option A) : bool := match o with Some _ => true | None => false end.
Definition is_nil {A} (l : list A) : bool := match l with [] => true | _ => false end.

(* len(expected.Payloads) == 0 && expected.Error != nil && (unary || client stream) *)
Definition lenient_metadata (d : def) (e : result) : bool :=
  is_nil (r_payloads e) && is_some (r_error e)
  && (N.eqb (d_stream d) stream_unary || N.eqb (d_stream d) stream_client).

Definition check_metadata (d : def) (e a : result) : list errkind :=
  let normal := check_headers WRespHeaders (r_headers e) (r_headers a)
                ++ check_headers WRespTrailers (r_trailers e) (r_trailers a) in
  if lenient_metadata d e then
    if is_nil normal then []
    else
      let merged := merge_headers (r_headers e) (r_trailers e) in
      let all_h := check_headers WRespMeta merged (r_headers a) in
      let all_t := check_headers WRespMeta merged (r_trailers a) in
      if negb (is_nil all_h) && negb (is_nil all_t) then normal else []
  else normal.

Definition check_status (e a : option Z) : list errkind :=
  match e, a with
  | Some x, Some y => if Z.eqb x y then [] else [EStatus]
  | _, _ => []
  end.

Definition assert_errs (d : def) (e a : result) : list errkind :=
  check_error (r_error e) (r_error a) (d_other_codes d)
  ++ check_payloads (r_payloads e) (r_payloads a)
  ++ check_metadata d e a
  ++ check_status (r_status e) (r_status a).

Definition assert_passes (d : def) (e a : result) : bool := is_nil (assert_errs d e a).

(* ---------- case decoding / result encoding (extracted glue) ---------- *)
Definition un_header (s : sx) : option header :=
  match s with
  | L [B n; vs] => do vs <- un_listof un_B vs; ret (mkH n vs)
  | _ => None
  end.
Definition un_any (s : sx) : option any :=
  match s with L [I t; B d] => Some (mkAny (Z.to_N t) d) | _ => None end.
Definition un_Zopt (s : sx) : option (option Z) := un_opt un_I s.

(* query? : () = nil ConnectGetInfo, ((h...)) = ConnectGetInfo with that list *)
Definition un_query (s : sx) : option (list header) :=
  match s with
  | L [] => Some []
  | L [q] => un_listof un_header q
  | _ => None
  end.

Definition un_reqinfo (s : sx) : option reqinfo :=
  match s with
  | L [hs; t; rs; q] =>
    do hs <- un_listof un_header hs; do t <- un_Zopt t;
    do rs <- un_listof un_any rs; do q <- un_query q;
    ret (mkRI hs t rs q)
  | _ => None
  end.

(* info? : () = nil RequestInfo, (ri) = present *)
Definition un_info (s : sx) : option reqinfo :=
  match s with
  | L [] => Some empty_ri
  | L [r] => un_reqinfo r
  | _ => None
  end.

Definition un_payload (s : sx) : option payload :=
  match s with
  | L [B d; i] => do i <- un_info i; ret (mkP d i)
  | _ => None
  end.

Definition un_detail (s : sx) : option detail :=
  match s with
  | L [I 0%Z; r] => do r <- un_reqinfo r; ret (DReq r)
  | L [I 1%Z; a] => do a <- un_any a; ret (DOther a)
  | _ => None
  end.

Definition un_error (s : sx) : option rpc_error :=
  match s with
  | L [I c; m; ds] =>
    do m <- un_opt un_B m; do ds <- un_listof un_detail ds;
    ret (mkE (Z.to_N c) m ds)
  | _ => None
  end.

Definition un_result (s : sx) : option result :=
  match s with
  | L [hs; ts; ps; e; st; I u] =>
    do hs <- un_listof un_header hs; do ts <- un_listof un_header ts;
    do ps <- un_listof un_payload ps; do e <- un_opt un_error e; do st <- un_Zopt st;
    ret (mkR hs ts ps e st u)
  | _ => None
  end.

Definition un_def (s : sx) : option def :=
  match s with
  | L [I st; cs] => do cs <- un_listof un_N cs; ret (mkD (Z.to_N st) cs)
  | _ => None
  end.

Definition what_tag (w : what) : bytes :=
  match w with
  | WRespHeaders => bs "rh" | WRespTrailers => bs "rt" | WRespMeta => bs "rm"
  | WReqHeaders => bs "qh" | WQuery => bs "qp"
  end.

Definition idx (tag : bytes) (n : nat) : bytes := tag ++ be32 (N.of_nat n).

Definition kind_tag (k : errkind) : bytes :=
  match k with
  | EUnexpectedError => bs "err-unexpected"
  | EMissingError => bs "err-missing"
  | ECode => bs "code"
  | EMessage => bs "message"
  | EDetailCount => bs "detail-count"
  | EDetail i => idx (bs "detail:") i
  | EPayloadCount => bs "payload-count"
  | EPayloadData i => idx (bs "data:") i
  | EReqCount => bs "req-count"
  | EReqUnmarshalActual n => idx (bs "req-ua:") n
  | EReqUnmarshalExpected n => idx (bs "req-ue:") n
  | EReqMismatch n => idx (bs "req:") n
  | EHdrMissing w n => bs "missing:" ++ what_tag w ++ 58 :: n
  | EHdrValues w n => bs "values:" ++ what_tag w ++ 58 :: n
  | ETimeoutMissing => bs "timeout-missing"
  | ETimeoutMismatch => bs "timeout-mismatch"
  | ETimeoutUnexpected => bs "timeout-unexpected"
  | EStatus => bs "status"
  end.

(* (def expected actual) -> (pass (sorted kinds)) : the multiset of discrepancies *)
(* ---------- the way from the client's report to assert (server_runner.go) ----------
   The response callback of runTestCasesForServer hands the ClientResponseResult
   the client reported to results.assert.  Nothing of it is the runner's to change,
   whoever the client is (the reference client's feedback is recorded on the side,
   not taken out of the result): the glue is the identity. *)
Definition handed_to_assert (reference_client : bool) (reported : result) : result := reported.

(* ... and the DEFINITION it hands to assert is the library's test case itself: every
   part of it that assert reads (the other allowed error codes, the request's stream
   type; the expected response is [e] below) arrives as the library holds it, although
   the request that went out to the client is a modified copy (target, credentials,
   added headers).  The glue is the identity here as well. *)
Definition def_handed_to_assert (reference_client : bool) (d : def) : def := d.

Definition run_errs (reference_client : bool) (d : def) (e reported : result) : list errkind :=
  assert_errs (def_handed_to_assert reference_client d) e (handed_to_assert reference_client reported).

(* Probes that read the definition back out of the recorded verdicts: the expected
   result reported with each error code in turn (message and details of the expected
   error kept: only the code decides) - the codes that do not draw [ECode] are the
   primary code and the alternatives of the definition that reached assert; and the
   expected result with all its metadata reported as headers / as trailers - accepted
   only where the stream type that reached assert allows the merged form. *)
Definition probe_code (e : result) (c : N) : result :=
  let '(m, ds) := match r_error e with Some ee => (e_msg ee, e_details ee) | None => (None, []) end in
  mkR (r_headers e) (r_trailers e) (r_payloads e) (Some (mkE c m ds)) (r_status e) (r_unsent e).
Definition probe_all_headers (e : result) : result :=
  mkR (r_headers e ++ r_trailers e) [] (r_payloads e) (r_error e) (r_status e) (r_unsent e).
Definition probe_all_trailers (e : result) : result :=
  mkR [] (r_headers e ++ r_trailers e) (r_payloads e) (r_error e) (r_status e) (r_unsent e).
Definition probe_codes : list N := [1;2;3;4;5;6;7;8;9;10;11;12;13;14;15;16].
Definition def_probes (e : result) : list result :=
  map (probe_code e) probe_codes ++ [probe_all_headers e; probe_all_trailers e].

Definition run_c03_assert (args : list sx) : sx :=
  or_bad (match args with
  | [d; e; a] =>
    do d <- un_def d; do e <- un_result e; do a <- un_result a;
    let errs := assert_errs d e a in
    ret (L [sx_bool (is_nil errs); L (map B (sort_bytes (map kind_tag errs)))])
  | _ => None end).

(* (reference-client def expected reported) -> (pass (sorted kinds)), the outcome
   recorded by the real runTestCasesForServer for a client that reports [reported] *)
Definition run_c03_run (args : list sx) : sx :=
  or_bad (match args with
  | [ref; d; e; a] =>
    do ref <- un_bool ref; do d <- un_def d; do e <- un_result e; do a <- un_result a;
    let errs := run_errs ref d e a in
    ret (L [sx_bool (is_nil errs); L (map B (sort_bytes (map kind_tag errs)))])
  | _ => None end).

(* (reference-client def expected) -> one (pass (sorted kinds)) per probe of [def_probes]:
   the definition that reached assert, as far as assert reads it *)
Definition run_c03_rundef (args : list sx) : sx :=
  or_bad (match args with
  | [ref; d; e] =>
    do ref <- un_bool ref; do d <- un_def d; do e <- un_result e;
    ret (L (map (fun a => let errs := run_errs ref d e a in
                          L [sx_bool (is_nil errs); L (map B (sort_bytes (map kind_tag errs)))])
                (def_probes e)))
  | _ => None end).

(* ((vals...)) -> (canonical vals) *)
Definition run_c03_canon (args : list sx) : sx :=
  or_bad (match args with
  | [vs] => do vs <- un_listof un_B vs; ret (L (map B (canon_vals vs)))
  | _ => None end).

(* (a-headers b-headers probe-headers) -> does the merged expectation hold on probe *)
Definition run_c03_merge (args : list sx) : sx :=
  or_bad (match args with
  | [a; b; x] =>
    do a <- un_listof un_header a; do b <- un_listof un_header b; do x <- un_listof un_header x;
    let m := merge_headers a b in
    ret (L [ L (map (fun h => L [B (h_name h); L (map B (h_vals h))])
                    (map (fun k => mkH k (last_vals m k)) (sort_bytes (map lname m))));
             sx_bool (is_nil (check_headers WRespMeta m x)) ])
  | _ => None end).

Definition c03_table : list (bytes * (list sx -> sx)) :=
  [ (bs "c03.assert", run_c03_assert);
    (bs "c03.run", run_c03_run);
    (bs "c03.rundef", run_c03_rundef);
    (bs "c03.canon", run_c03_canon);
    (bs "c03.merge", run_c03_merge) ].
