(* C18_Wiring.v — which peer decodes with which codec.

   C18 states what the strict codecs do (internal/codec.go).  WHICH codec a peer installs is set-up
   code of the peers (createServer in referenceserver/server.go, invoke in referenceclient/client.go;
   the grpc-go peers use grpc-go's own proto codec) and is not part of the property: nothing in the
   property text or in the repository's documentation says where the codecs are installed, and
   StrictProtoCodec is installed by no peer at all.  The table below is therefore DESCRIPTIVE: it is
   regenerated from the peers' sources into C18_Consts.v on every run and recorded in the evidence,
   and the theorem says what C18's codec theorems give for a peer, whatever the table is: a peer
   that installs a strict codec on every path through its set-up code rejects unknown fields in
   that format, and nothing is claimed of a peer that does not.  No statement pins the table. *)
From V Require Import C18_Spec C18_Proofs.
From V Require Export C18_Consts.
Open Scope Z_scope.

(* (peer, codec, guards): peer 1 reference server, 2 reference client, 3 gRPC server, 4 gRPC client;
   codec 1 StrictJSONCodec, 2 StrictProtoCodec; guards = number of conditions the registration sits under *)
Definition registration := (Z * Z * Z)%type.
Definition always_installs (t : list registration) (peer codec : Z) : bool :=
  existsb (fun r => (fst (fst r) =? peer) && (snd (fst r) =? codec) && (snd r =? 0)) t.
Definition sometimes_installs (t : list registration) (peer codec : Z) : bool :=
  existsb (fun r => (fst (fst r) =? peer) && (snd (fst r) =? codec)) t.

Section PeerDecode.
  Variable wire : Type.
  Variable marshal_bin : pmsg -> wire.
  Variable unmarshal_bin : wire -> option pmsg.
  Variable marshal_json : pmsg -> wire.
  Variable unmarshal_json : bool -> wire -> option pmsg.
  Variable json_unknown : wire -> Prop.
  Hypothesis H_bin : bin_contract marshal_bin unmarshal_bin.
  Hypothesis H_json : json_contract marshal_json unmarshal_json json_unknown.

  (* the library codecs a peer falls back to: connect-go's / grpc-go's, which discard unknown JSON
     fields and keep unknown binary fields without complaint *)
  Definition lenient (r : option pmsg) : codec_result :=
    match r with Some m => COk m | None => CErrMalformed end.
  Definition peer_unmarshal_json (t : list registration) (peer : Z) (d : wire) : codec_result :=
    if always_installs t peer 1 then strict_json_unmarshal wire unmarshal_json d
    else lenient (unmarshal_json true d).
  Definition peer_unmarshal_proto (t : list registration) (peer : Z) (d : wire) : codec_result :=
    if always_installs t peer 2 then strict_proto_unmarshal wire unmarshal_bin d
    else lenient (unmarshal_bin d).

  Lemma strict_where_installed_proof : forall t peer,
    (always_installs t peer 1 = true ->
       forall w, json_unknown w -> peer_unmarshal_json t peer w = CErrMalformed) /\
    (always_installs t peer 2 = true ->
       forall w m, unmarshal_bin w = Some m -> has_unknown m -> peer_unmarshal_proto t peer w = CErrUnknown).
  Proof.
    intros t peer.
    destruct (codec_rejects_unknown_proof wire marshal_bin unmarshal_bin marshal_json unmarshal_json json_unknown H_bin H_json)
      as (PB & _ & _ & PJ & _).
    split; intros A.
    - intros w JU. unfold peer_unmarshal_json. rewrite A. apply PJ, JU.
    - intros w m E HU. unfold peer_unmarshal_proto. rewrite A. apply (PB w m E HU).
  Qed.
End PeerDecode.
