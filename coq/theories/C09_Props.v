From V Require Import C09_Spec C09_Proofs.
