(* C09_Props.v — the property theorems of C09 and nothing else.
   Each is closed by `exact <lemma>` and followed by Print Assumptions. *)
From Coq Require Import Lia.
From V Require Import C09_Spec C09_Proofs.
Open Scope N_scope.

(* Chunking never matters: for EVERY byte string, read schedule, error-delivery mode and
   ending (EOF / other error / stall), the runner's reader returns what the schedule-free
   whole-stream parse `expected` says. *)
Theorem any_sched : forall max d sch eg t,
  read_all max (mk_src d sch eg t) = expected (Some max) t d.
Proof. exact any_sched_proof. Qed.
Print Assumptions any_sched.

(* what was written is read back, message for message, then a clean end *)
Theorem roundtrip_any_sched : forall max msgs sch eg,
  Forall (fun m => N.of_nat (length m) <= max) msgs -> max < 4294967296 ->
  read_all max (mk_src (write_all msgs) sch eg TEOF) = (msgs, FErr MEOF 0).
Proof. exact roundtrip_any_sched_proof. Qed.
Print Assumptions roundtrip_any_sched.

(* a stream cut strictly inside a prefix or a body: the messages before it, then
   unexpected EOF - never a clean end, never a shorter message *)
Theorem truncation : forall max msgs m j sch eg,
  Forall (fun m => N.of_nat (length m) <= max) msgs -> N.of_nat (length m) <= max -> max < 4294967296 ->
  (0 < j < length (write_msg m))%nat ->
  read_all max (mk_src (write_all msgs ++ firstn j (write_msg m)) sch eg TEOF) = (msgs, FErr MUnexpected 0).
Proof. exact truncation_proof. Qed.
Print Assumptions truncation.

(* a length above the limit is refused with the source exactly past the 4-byte prefix
   (all of `rest` unread), whatever follows and however the stream ends *)
Theorem oversize_early : forall max msgs size rest sch eg t,
  Forall (fun m => N.of_nat (length m) <= max) msgs -> max < size -> size < 4294967296 ->
  read_all max (mk_src (write_all msgs ++ be32 size ++ rest) sch eg t) = (msgs, FErr MOversize (length rest)).
Proof. exact oversize_early_proof. Qed.
Print Assumptions oversize_early.

Theorem zero_length_ok : forall max a b sch eg,
  Forall (fun m => N.of_nat (length m) <= max) (a ++ b) -> max < 4294967296 ->
  read_all max (mk_src (write_all (a ++ [] :: b)) sch eg TEOF) = (a ++ [] :: b, FErr MEOF 0).
Proof. exact zero_length_ok_proof. Qed.
Print Assumptions zero_length_ok.

(* conversely, for ANY byte string: a clean end is reported only when the stream is
   exactly the frames of the messages returned *)
Theorem clean_end_is_eof : forall max d sch eg ms n,
  Forall (fun b => b < 256) d ->
  read_all max (mk_src d sch eg TEOF) = (ms, FErr MEOF n) -> d = write_all ms /\ n = 0%nat.
Proof. exact clean_end_is_eof_proof. Qed.
Print Assumptions clean_end_is_eof.

(* a peer that stalls after j bytes of a frame: timeout naming the unit (prefix/message),
   the bytes of it received and the bytes expected *)
Theorem stall_reports : forall max msgs m j sch eg,
  Forall (fun m => N.of_nat (length m) <= max) msgs -> N.of_nat (length m) <= max -> max < 4294967296 ->
  (j < length (write_msg m))%nat ->
  read_all max (mk_src (write_all msgs ++ firstn j (write_msg m)) sch eg TBlock) =
  (msgs, FTimeout (4 <=? j)%nat (if (j <? 4)%nat then j else (j - 4)%nat)
                  (if (j <? 4)%nat then 4 else N.of_nat (length m))).
Proof. exact stall_reports_proof. Qed.
Print Assumptions stall_reports.

(* the peers' decoder (io.ReadFull, no limit): same reads, same results *)
Theorem readfull_same : forall want s, read_full want s = read_n want s.
Proof. exact read_full_same. Qed.
Print Assumptions readfull_same.

Theorem peer_decoder_any_sched : forall d sch eg t,
  decode_all (mk_src d sch eg t) = expected None t d.
Proof. exact decoder_any_sched_proof. Qed.
Print Assumptions peer_decoder_any_sched.

Theorem peer_decoder_same : forall max s,
  (forall n, snd (read_all max s) <> FErr MOversize n) -> decode_all s = read_all max s.
Proof. exact peer_decoder_same_proof. Qed.
Print Assumptions peer_decoder_same.

(* JSON variant, RELATIVE TO THE ORACLE: `scan` stands for encoding/json's scanner; the two
   hypotheses are what is asked of it (exercised by the differential run, not proved). *)
Theorem json_roundtrip_any_sched_partial : forall scan, scanner_skips_newline scan ->
  forall vs sch eg, Forall (scanner_ok scan) vs ->
  json_all scan (mk_src (json_write_all vs) sch eg TEOF) = (vs, JFErr MEOF).
Proof. exact json_roundtrip_any_sched_proof. Qed.
Print Assumptions json_roundtrip_any_sched_partial.

(* the constants regenerated from the compiled code satisfy the theorems' hypotheses *)
Theorem real_constants :
  c09_prefix_len = 4 /\ c09_prefix_of_258 = be32 258 /\
  c09_max_client_response < 4294967296 /\ c09_max_server_response < 4294967296.
Proof. vm_compute. repeat split; reflexivity. Qed.
Print Assumptions real_constants.

(* ---- non-vacuity ---- *)
Example ex_roundtrip :
  read_all 16 (mk_src (write_all [[1; 2; 3]; []; [9]]) [1; 0; 2; 7; 1]%nat true TEOF) = ([[1; 2; 3]; []; [9]], FErr MEOF 0).
Proof. vm_compute. reflexivity. Qed.
Example ex_cut_after_prefix :
  read_all 16 (mk_src [0; 0; 0; 2] [] false TEOF) = ([], FErr MUnexpected 0).
Proof. vm_compute. reflexivity. Qed.
Example ex_exact_limit_ok_one_more_not :
  fst (read_all 2 (mk_src (write_all [[7; 7]]) [3]%nat false TEOF)) = [[7; 7]] /\
  read_all 1 (mk_src (write_all [[7; 7]]) [3]%nat false TEOF) = ([], FErr MOversize 2).
Proof. vm_compute. auto. Qed.
Example ex_stall :
  read_all 16 (mk_src [0; 0; 0; 5; 1; 2] [1; 1]%nat false TBlock) = ([], FTimeout true 2 5).
Proof. vm_compute. reflexivity. Qed.
(* the scanner used to run the model meets the oracle's hypotheses on a sample value *)
Example ex_jscan_skips : scanner_skips_newline jscan.
Proof. split; [reflexivity|intros; reflexivity]. Qed.
Example ex_jscan_ok : scanner_ok jscan (bs "{""a"":[]}").
Proof.
  split; [intros; reflexivity|]. intros k Hk. cbn in Hk.
  do 8 (destruct k as [|k]; [reflexivity|]). exfalso. lia.
Qed.
