(* C09_Props.v — the property theorems of C09 and nothing else.
   Each is closed by `exact <lemma>` and followed by Print Assumptions. *)
From Coq Require Import Lia.
From V Require Import C09_Spec C09_Proofs C09_ProofsW C09_ProofsJ C09_ProofsS C09_ProofsC C09_ProofsL C09_ProofsG.
Open Scope N_scope.

(* Chunking never matters: for EVERY byte string, read schedule, error-delivery mode and
   ending (EOF / other error / stall), the runner's reader returns what the schedule-free
   whole-stream parse `expected` says. *)
Theorem any_sched : forall max d sch eg t,
  read_all max (mk_src d sch eg t) = expected (Some max) t d.
Proof. exact any_sched_proof. Qed.
Print Assumptions any_sched.

(* what was written is read back, message for message, then a clean end *)
Theorem roundtrip_any_sched : forall max msgs sch eg,
  Forall (fun m => N.of_nat (length m) <= max) msgs -> max < 4294967296 ->
  read_all max (mk_src (write_all msgs) sch eg TEOF) = (msgs, FErr MEOF 0).
Proof. exact roundtrip_any_sched_proof. Qed.
Print Assumptions roundtrip_any_sched.

(* a stream cut strictly inside a prefix or a body: the messages before it, then
   unexpected EOF - never a clean end, never a shorter message *)
Theorem truncation : forall max msgs m j sch eg,
  Forall (fun m => N.of_nat (length m) <= max) msgs -> N.of_nat (length m) <= max -> max < 4294967296 ->
  (0 < j < length (write_msg m))%nat ->
  read_all max (mk_src (write_all msgs ++ firstn j (write_msg m)) sch eg TEOF) = (msgs, FErr MUnexpected 0).
Proof. exact truncation_proof. Qed.
Print Assumptions truncation.

(* a length above the limit is refused with the source exactly past the 4-byte prefix
   (all of `rest` unread), whatever follows and however the stream ends *)
Theorem oversize_early : forall max msgs size rest sch eg t,
  Forall (fun m => N.of_nat (length m) <= max) msgs -> max < size -> size < 4294967296 ->
  read_all max (mk_src (write_all msgs ++ be32 size ++ rest) sch eg t) = (msgs, FErr MOversize (length rest)).
Proof. exact oversize_early_proof. Qed.
Print Assumptions oversize_early.

Theorem zero_length_ok : forall max a b sch eg,
  Forall (fun m => N.of_nat (length m) <= max) (a ++ b) -> max < 4294967296 ->
  read_all max (mk_src (write_all (a ++ [] :: b)) sch eg TEOF) = (a ++ [] :: b, FErr MEOF 0).
Proof. exact zero_length_ok_proof. Qed.
Print Assumptions zero_length_ok.

(* conversely, for ANY byte string: a clean end is reported only when the stream is
   exactly the frames of the messages returned *)
Theorem clean_end_is_eof : forall max d sch eg ms n,
  Forall (fun b => b < 256) d ->
  read_all max (mk_src d sch eg TEOF) = (ms, FErr MEOF n) -> d = write_all ms /\ n = 0%nat.
Proof. exact clean_end_is_eof_proof. Qed.
Print Assumptions clean_end_is_eof.

(* a peer that stalls after j bytes of a frame: timeout naming the unit (prefix/message),
   the bytes of it received and the bytes expected *)
Theorem stall_reports : forall max msgs m j sch eg,
  Forall (fun m => N.of_nat (length m) <= max) msgs -> N.of_nat (length m) <= max -> max < 4294967296 ->
  (j < length (write_msg m))%nat ->
  read_all max (mk_src (write_all msgs ++ firstn j (write_msg m)) sch eg TBlock) =
  (msgs, FTimeout (4 <=? j)%nat (if (j <? 4)%nat then j else (j - 4)%nat)
                  (if (j <? 4)%nat then 4 else N.of_nat (length m))).
Proof. exact stall_reports_proof. Qed.
Print Assumptions stall_reports.

(* the peers' decoder (io.ReadFull, no limit): same reads, same results *)
Theorem readfull_same : forall want s, read_full want s = read_n want s.
Proof. exact read_full_same. Qed.
Print Assumptions readfull_same.

Theorem peer_decoder_any_sched : forall d sch eg t,
  decode_all (mk_src d sch eg t) = expected None t d.
Proof. exact decoder_any_sched_proof. Qed.
Print Assumptions peer_decoder_any_sched.

Theorem peer_decoder_same : forall max s,
  (forall n, snd (read_all max s) <> FErr MOversize n) -> decode_all s = read_all max s.
Proof. exact peer_decoder_same_proof. Qed.
Print Assumptions peer_decoder_same.

(* JSON variant, RELATIVE TO THE ORACLE: `scan` stands for encoding/json's scanner; the two
   hypotheses are what is asked of it (exercised by the differential run, not proved). *)
Theorem json_roundtrip_any_sched_partial : forall scan, scanner_skips_newline scan ->
  forall vs sch eg, Forall (scanner_ok scan) vs ->
  json_all scan (mk_src (json_write_all vs) sch eg TEOF) = (vs, JFErr MEOF).
Proof. exact json_roundtrip_any_sched_proof. Qed.
Print Assumptions json_roundtrip_any_sched_partial.

(* ---------- JSON: cuts, other endings (relative to the same oracle) ---------- *)
(* the stream stops after j bytes of a value (j = 0: between values): the values before it, then
   unexpected EOF when inside the value / clean EOF between values / the I/O error / the decoder blocks *)
Theorem json_cut_any_sched_partial : forall scan, scanner_skips_newline scan ->
  forall vs v j sch eg t,
  Forall (scanner_ok scan) vs -> scanner_ok scan v -> ((0 < j)%nat -> starts_nonspace v) -> (j < length v)%nat ->
  json_all scan (mk_src (json_write_all vs ++ firstn j v) sch eg t) = (vs, json_end t j).
Proof. exact json_cut_proof. Qed.
Print Assumptions json_cut_any_sched_partial.

(* a complete last value without its newline is still delivered *)
Theorem json_last_unterminated_partial : forall scan, scanner_skips_newline scan ->
  forall vs v sch eg t, Forall (scanner_ok scan) vs -> scanner_ok scan v ->
  json_all scan (mk_src (json_write_all vs ++ v) sch eg t) = (vs ++ [v], json_end t 0).
Proof. exact json_last_unterminated_proof. Qed.
Print Assumptions json_last_unterminated_partial.

(* JSON, EVERY byte string: the result is the schedule-free `json_expected`, provided the scanner
   never revises a verdict when more bytes arrive (still an oracle hypothesis for encoding/json) *)
Theorem json_any_sched_partial : forall scan, scanner_stable scan ->
  forall d sch eg t, json_all scan (mk_src d sch eg t) = json_expected scan t d.
Proof. exact json_any_sched_proof. Qed.
Print Assumptions json_any_sched_partial.

(* ... and for the bracket scanner the model is RUN with in the differential check, nothing is assumed *)
Theorem jscan_stable : scanner_stable jscan.
Proof. exact jscan_stable_proof. Qed.
Print Assumptions jscan_stable.

Theorem json_any_sched_jscan : forall d sch eg t,
  json_all jscan (mk_src d sch eg t) = json_expected jscan t d.
Proof. exact json_any_sched_jscan_proof. Qed.
Print Assumptions json_any_sched_jscan.

(* under stability a value need only be recognised exactly at its end *)
Theorem stable_ok : forall scan, scanner_stable scan -> forall v, scan v = SComplete v [] -> scanner_ok scan v.
Proof. exact stable_ok_proof. Qed.
Print Assumptions stable_ok.

(* round trip through jsonEncoder -> JSON decoder and every cut / ending, no oracle hypothesis left *)
Theorem json_roundtrip_jscan : forall vs sch eg, Forall jscan_value vs ->
  json_all jscan (mk_src (wire_of json_encode vs None) sch eg TEOF) = (vs, JFErr MEOF).
Proof. exact json_roundtrip_jscan_proof. Qed.
Print Assumptions json_roundtrip_jscan.

Theorem json_cut_jscan : forall vs v j sch eg t, Forall jscan_value vs -> jscan_value v -> (j < length v)%nat ->
  json_all jscan (mk_src (json_write_all vs ++ firstn j v) sch eg t) = (vs, json_end t j).
Proof. exact json_cut_jscan_proof. Qed.
Print Assumptions json_cut_jscan.

(* ---------- "rejected before allocating it" ---------- *)
(* no call of read() - hence no make([]byte, n) and no buffer handed to Read - is ever made for more
   than max(4, limit) bytes, for every byte string and schedule *)
Theorem no_oversize_buffer : forall max s, Forall (fun b => b <= N.max 4 max) (all_bufs max s).
Proof. exact no_oversize_buffer_proof. Qed.
Print Assumptions no_oversize_buffer.

(* the call that meets an oversize announcement allocates the 4-byte prefix buffer and nothing else *)
Theorem oversize_no_body_buffer : forall max size rest sch eg t,
  max < size -> size < 4294967296 ->
  msg_bufs max (mk_src (be32 size ++ rest) sch eg t) = [4].
Proof. exact oversize_no_body_buffer_proof. Qed.
Print Assumptions oversize_no_body_buffer.

(* ---------- the writer side ---------- *)
(* whatever the point at which the writer fails, the wire carries exactly the first `room` bytes of the
   proper stream and nothing behind the failure point - for the writer that keeps failing (heals = false)
   AND for the one that fails once and then accepts everything again (heals = true), which would have
   taken whatever the encoder went on to write *)
Theorem writer_wire : forall heals ms room, wire_of_h heals write_delimited ms room = wire_spec ms room.
Proof. exact writer_wire_h_proof. Qed.
Print Assumptions writer_wire.

(* an error is reported iff something did not fit; every Encode reported successful is on the wire in full *)
Theorem writer_reports : forall heals ms room n failed k,
  write_stream write_delimited ms (sink_of_h heals room) = (n, failed, k) ->
  failed = failed_spec room (length (write_all ms)) /\
  (n <= length ms)%nat /\ (failed = false -> n = length ms) /\
  match room with None => True | Some r => (length (write_all (firstn n ms)) <= r)%nat end.
Proof. exact writer_reports_proof. Qed.
Print Assumptions writer_reports.

(* encode -> decode, both directions, every read schedule *)
Theorem encode_decode_roundtrip : forall max ms sch eg,
  Forall (fun m => N.of_nat (length m) <= max) ms -> max < 4294967296 ->
  read_all max (mk_src (wire_of write_delimited ms None) sch eg TEOF) = (ms, FErr MEOF 0) /\
  decode_all (mk_src (wire_of write_delimited ms None) sch eg TEOF) = (ms, FErr MEOF 0).
Proof. exact encode_decode_roundtrip_proof. Qed.
Print Assumptions encode_decode_roundtrip.

(* the writer fails anywhere (the peer died mid-write) and the pipe is closed: the reader gets the first k
   messages sent, unchanged, and a clean end iff the writer failed exactly between two frames *)
Theorem pipe_to_runner : forall max ms room sch eg,
  Forall (fun m => N.of_nat (length m) <= max) ms -> max < 4294967296 ->
  exists k e, read_all max (mk_src (wire_of write_delimited ms room) sch eg TEOF) = (firstn k ms, FErr e 0) /\
    (k <= length ms)%nat /\
    (failed_spec room (length (write_all ms)) = false -> k = length ms /\ e = MEOF) /\
    (e = MEOF \/ e = MUnexpected) /\
    (e = MEOF <-> wire_of write_delimited ms room = write_all (firstn k ms)).
Proof. exact pipe_to_runner_proof. Qed.
Print Assumptions pipe_to_runner.

Theorem pipe_to_peer : forall ms room sch eg,
  Forall ok32 ms ->
  exists k e, decode_all (mk_src (wire_of write_delimited ms room) sch eg TEOF) = (firstn k ms, FErr e 0) /\
    (k <= length ms)%nat /\
    (failed_spec room (length (write_all ms)) = false -> k = length ms /\ e = MEOF) /\
    (e = MEOF \/ e = MUnexpected) /\
    (e = MEOF <-> wire_of write_delimited ms room = write_all (firstn k ms)).
Proof. exact pipe_to_peer_proof. Qed.
Print Assumptions pipe_to_peer.

(* jsonEncoder: a prefix of value-newline-value-newline... whatever the failure point (the dropped
   newline error included) *)
Theorem json_writer_wire : forall vs room, wire_of json_encode vs room = json_wire_spec vs room.
Proof. exact json_writer_wire_proof. Qed.
Print Assumptions json_writer_wire.

Theorem json_encode_decode_roundtrip_partial : forall scan, scanner_skips_newline scan ->
  forall vs sch eg, Forall (scanner_ok scan) vs ->
  json_all scan (mk_src (wire_of json_encode vs None) sch eg TEOF) = (vs, JFErr MEOF).
Proof. exact json_encode_decode_roundtrip_proof. Qed.
Print Assumptions json_encode_decode_roundtrip_partial.

(* JSON writer fails anywhere: the reader gets the first k values, and unexpected EOF iff the cut is
   strictly inside value number k *)
Theorem json_pipe_partial : forall scan, scanner_skips_newline scan ->
  forall vs room sch eg,
  Forall (scanner_ok scan) vs -> Forall starts_nonspace vs ->
  exists k e, json_all scan (mk_src (wire_of json_encode vs room) sch eg TEOF) = (firstn k vs, JFErr e) /\
    (k <= length vs)%nat /\ (room = None -> k = length vs /\ e = MEOF) /\
    (e = MEOF \/ e = MUnexpected) /\
    (e = MUnexpected <-> exists j v, nth_error vs k = Some v /\ (0 < j < length v)%nat /\
                                    wire_of json_encode vs room = json_write_all (firstn k vs) ++ firstn j v).
Proof. exact json_pipe_proof. Qed.
Print Assumptions json_pipe_partial.

(* ---------- the peers' MAIN LOOPS ----------
   referenceclient.run creates its decoder ONCE and asks it for request after request until io.EOF;
   referenceserver.run reads its one request with one decoder.  peer_loop / peer_first are those loops
   over the decoders the theorems above speak about (protoDecoder = decode_all, the JSON decoder =
   json_all with the buffer carried from one DecodeNext to the next); json = the --json flag. *)

(* the loop's result does not depend on how stdin is split across reads, whatever the bytes and the ending *)
Theorem peer_loop_any_chunking : forall json d sch eg sch' eg' t,
  peer_loop jscan json (mk_src d sch eg t) = peer_loop jscan json (mk_src d sch' eg' t).
Proof. exact peer_loop_any_chunking_proof. Qed.
Print Assumptions peer_loop_any_chunking.

(* ... relative to the oracle: any scanner that never revises a verdict *)
Theorem peer_loop_any_chunking_partial : forall scan, scanner_stable scan ->
  forall json d sch eg sch' eg' t,
  peer_loop scan json (mk_src d sch eg t) = peer_loop scan json (mk_src d sch' eg' t).
Proof. exact peer_loop_any_chunking_stable_proof. Qed.
Print Assumptions peer_loop_any_chunking_partial.

(* the sequence answered IS the sequence sent - every request once, in order, then the loop returns nil -
   for EVERY chunking of stdin, in both variants *)
Theorem peer_loop_answers_all : forall json msgs sch eg,
  Forall (peer_msg_ok json) msgs ->
  peer_loop jscan json (mk_src (peer_wire json msgs) sch eg TEOF) = (msgs, StopEOF).
Proof. exact peer_loop_answers_all_proof. Qed.
Print Assumptions peer_loop_answers_all.

Theorem peer_loop_answers_all_partial : forall scan, scanner_skips_newline scan ->
  forall (json : bool) msgs sch eg,
  Forall (fun m => if json then scanner_ok scan m else ok32 m) msgs ->
  peer_loop scan json (mk_src (peer_wire json msgs) sch eg TEOF) = (msgs, StopEOF).
Proof. exact peer_loop_answers_all_oracle_proof. Qed.
Print Assumptions peer_loop_answers_all_partial.

(* stdin stops after j bytes of a request (EOF, an I/O error, or the runner stalls): the requests in front
   of it are all answered; the loop then ends with unexpected EOF (j > 0) / nil (j = 0) / the error / waits *)
Theorem peer_loop_cut : forall json msgs m j sch eg t,
  Forall (peer_msg_ok json) msgs -> peer_msg_ok json m -> (j < length (peer_frame json m))%nat ->
  peer_loop jscan json (mk_src (peer_wire json msgs ++ firstn j (peer_frame json m)) sch eg t) =
  (msgs, peer_stop t j).
Proof. exact peer_loop_cut_proof. Qed.
Print Assumptions peer_loop_cut.

(* the reference server: its request is decoded whatever the chunking and whatever follows it ... *)
Theorem server_reads_request : forall json m rest sch eg t,
  peer_msg_ok json m ->
  peer_first jscan json (mk_src (peer_frame json m ++ rest) sch eg t) = FirstMsg m.
Proof. exact server_reads_request_proof. Qed.
Print Assumptions server_reads_request.

(* ... and a truncated one is an error exit (with EOF: unexpected EOF, or EOF when nothing arrived) *)
Theorem server_truncated_request : forall json m j sch eg t,
  peer_msg_ok json m -> (j < length (peer_frame json m))%nat ->
  peer_first jscan json (mk_src (firstn j (peer_frame json m)) sch eg t) = FirstStop (peer_stop t j).
Proof. exact server_truncated_request_proof. Qed.
Print Assumptions server_truncated_request.

(* REFUTED VARIANT - a decoder built inside the loop, one per request (peer_loop_fresh).  Binary: no
   difference, the decoder holds nothing between two calls. *)
Theorem fresh_decoder_binary_same : forall scan s, peer_loop_fresh scan false s = peer_loop scan false s.
Proof. exact fresh_decoder_binary_same_proof. Qed.
Print Assumptions fresh_decoder_binary_same.

(* JSON: whenever ONE read delivers the whole stream, only the first request is answered and the loop
   returns nil all the same - for every stream of one or more requests (below 4 GiB) *)
Theorem fresh_decoder_one_read_loses_all_but_first : forall v vs,
  jscan_value v -> N.of_nat (length (json_write_all (v :: vs))) < 4294967296 ->
  peer_loop_fresh jscan true (mk_src (json_write_all (v :: vs)) [] false TEOF) = ([v], StopEOF).
Proof. exact fresh_decoder_one_read_proof. Qed.
Print Assumptions fresh_decoder_one_read_loses_all_but_first.

(* ---------- the gRPC reference peers ----------
   grpcclient.RunWithTrace has the loop of referenceclient.run (decoder created ONCE per stream, DecodeNext
   until io.EOF), grpcserver.RunWithTrace reads its one request with one decoder: the kinds c09.grpcclient /
   c09.grpcserver are decided by the SAME model functions as c09.client / c09.server, so every theorem above
   about peer_loop / peer_first (any chunking, answers all, cut, refuted decoder-per-request variant) is a
   statement about what those kinds compare the gRPC peers with. *)
Theorem grpc_peers_run_the_same_loops :
  In (bs "c09.grpcclient", run_c09_client) c09_table /\ In (bs "c09.client", run_c09_client) c09_table /\
  In (bs "c09.grpcserver", run_c09_server) c09_table /\ In (bs "c09.server", run_c09_server) c09_table.
Proof. exact grpc_peers_run_the_same_loops_proof. Qed.
Print Assumptions grpc_peers_run_the_same_loops.

(* ---------- the runner's wiring of the two limits ----------
   reader_limit is the table "which reader hands which regenerated constant to ReadDelimitedMessage"
   (ReadsClientOutput = clientProcessRunner.consumeOutput, ReadsServerResponse = runTestCasesForServer);
   documented_limit is the specification (16 MB for a client's output, 1 MB for a server's response).
   Each reader rejects EXACTLY the announcements above ITS documented limit, at the prefix: the whole body
   is left unread and the only buffer made is the 4-byte prefix buffer; every announcement up to the limit
   is taken (two buffers: 4 and size; a complete body comes back as the message) - for every body,
   schedule, error-delivery mode and ending. *)
Theorem limits_wired : forall r size body sch eg t,
  size < 4294967296 ->
  let s := mk_src (be32 size ++ body) sch eg t in
  (documented_limit r < size ->
     (exists sch', reader_read r s = MErr MOversize (mk_src body sch' eg t)) /\ reader_bufs r s = [4]) /\
  (size <= documented_limit r ->
     (forall s', reader_read r s <> MErr MOversize s') /\ reader_bufs r s = [4; size] /\
     (size <= N.of_nat (length body) ->
        exists sch', reader_read r s =
          Msg (firstn (N.to_nat size) body) (mk_src (skipn (N.to_nat size) body) sch' eg t))).
Proof. exact limits_wired_proof. Qed.
Print Assumptions limits_wired.

(* the closed form run_c09_limits evaluates (kind c09.limits: announcements of up to 4 GiB without building
   a body) IS the reader, for every body of avail <= size bytes ending in EOF or an I/O error *)
Theorem limits_closed_form : forall r size body sch eg t,
  size < 4294967296 -> N.of_nat (length body) <= size -> t <> TBlock ->
  let s := mk_src (be32 size ++ body) sch eg t in
  let avail := N.of_nat (length body) in
  rm_class (reader_read r s) =
    Some (limit_verdict r size avail,
          match limit_verdict r size avail with
          | LvShort => Some (match t with TFail => MIO | _ => MUnexpected end)
          | _ => None end) /\
  reader_bufs r s = limit_bufs r size.
Proof. exact limits_closed_form_proof. Qed.
Print Assumptions limits_closed_form.

(* the constants regenerated from the compiled code satisfy the theorems' hypotheses *)
Theorem real_constants :
  c09_prefix_len = 4 /\ c09_prefix_of_258 = be32 258 /\
  c09_max_client_response < 4294967296 /\ c09_max_server_response < 4294967296.
Proof. vm_compute. repeat split; reflexivity. Qed.
Print Assumptions real_constants.

(* ---- non-vacuity ---- *)
Example ex_roundtrip :
  read_all 16 (mk_src (write_all [[1; 2; 3]; []; [9]]) [1; 0; 2; 7; 1]%nat true TEOF) = ([[1; 2; 3]; []; [9]], FErr MEOF 0).
Proof. vm_compute. reflexivity. Qed.
Example ex_cut_after_prefix :
  read_all 16 (mk_src [0; 0; 0; 2] [] false TEOF) = ([], FErr MUnexpected 0).
Proof. vm_compute. reflexivity. Qed.
Example ex_exact_limit_ok_one_more_not :
  fst (read_all 2 (mk_src (write_all [[7; 7]]) [3]%nat false TEOF)) = [[7; 7]] /\
  read_all 1 (mk_src (write_all [[7; 7]]) [3]%nat false TEOF) = ([], FErr MOversize 2).
Proof. vm_compute. auto. Qed.
Example ex_stall :
  read_all 16 (mk_src [0; 0; 0; 5; 1; 2] [1; 1]%nat false TBlock) = ([], FTimeout true 2 5).
Proof. vm_compute. reflexivity. Qed.
(* the scanner used to run the model meets the oracle's hypotheses on a sample value *)
Example ex_jscan_skips : scanner_skips_newline jscan.
Proof. split; [reflexivity|intros; reflexivity]. Qed.
Example ex_jscan_ok : scanner_ok jscan (bs "{""a"":[]}").
Proof.
  split; [intros; reflexivity|]. intros k Hk. cbn in Hk.
  do 8 (destruct k as [|k]; [reflexivity|]). exfalso. lia.
Qed.
Example ex_writer_fails_mid_body :
  write_stream write_delimited [[1; 2]; [3; 4; 5]] (sink_of (Some 12%nat)) = (1%nat, true, mk_sink [0; 0; 0; 2; 1; 2; 0; 0; 0; 3; 3; 4] (Some 0%nat) false) /\
  read_all 16 (mk_src (wire_of write_delimited [[1; 2]; [3; 4; 5]] (Some 12%nat)) [5; 5]%nat true TEOF) = ([[1; 2]], FErr MUnexpected 0) /\
  read_all 16 (mk_src (wire_of write_delimited [[1; 2]; [3; 4; 5]] (Some 6%nat)) [5; 5]%nat true TEOF) = ([[1; 2]], FErr MEOF 0).
Proof. vm_compute. auto. Qed.
(* a writer that fails once inside the second prefix and then heals: the data of that message is not
   written behind the failure point, the error is reported, and the healed state is what is left *)
Example ex_writer_heals_nothing_after_failure :
  write_stream write_delimited [[1; 2]; [3; 4; 5]] (sink_of_h true (Some 7%nat)) = (1%nat, true, mk_sink [0; 0; 0; 2; 1; 2; 0] None true) /\
  sink_write [3; 4; 5] (mk_sink [0; 0; 0; 2; 1; 2; 0] None true) = WOk (mk_sink [0; 0; 0; 2; 1; 2; 0; 3; 4; 5] None true).
Proof. vm_compute. auto. Qed.
Example ex_json_cut :
  json_all jscan (mk_src (bs "{}" ++ [10] ++ bs "{""a""") [3]%nat false TEOF) = ([bs "{}"], JFErr MUnexpected) /\
  json_all jscan (mk_src (bs "{}" ++ [10] ++ bs "{""a""") [3]%nat false TBlock) = ([bs "{}"], JFBlock) /\
  json_all jscan (mk_src (bs "{}" ++ [10] ++ bs "[]") [1; 1]%nat true TEOF) = ([bs "{}"; bs "[]"], JFErr MEOF).
Proof. vm_compute. auto. Qed.
Example ex_json_newline_error_dropped :
  write_stream json_encode [bs "{}"; bs "[]"] (sink_of (Some 2%nat)) = (1%nat, true, mk_sink (bs "{}") (Some 0%nat) false).
Proof. vm_compute. reflexivity. Qed.
Example ex_starts_nonspace : starts_nonspace (bs "{}").
Proof. exists 123, [125]. split; reflexivity. Qed.
Example ex_bufs :
  all_bufs 2 (mk_src (write_all [[7; 7]] ++ be32 3 ++ [1; 2; 3]) [3]%nat false TEOF) = [4; 2; 4] /\
  all_bufs 3 (mk_src (write_all [[7; 7]] ++ be32 3) [3]%nat false TEOF) = [4; 2; 4; 3].
Proof. vm_compute. auto. Qed.
Example ex_json_expected_garbage :
  json_all jscan (mk_src (bs "{} ]") [1; 1; 1]%nat false TEOF) = ([bs "{}"], JFSyntax) /\
  json_expected jscan TEOF (bs "{} ]") = ([bs "{}"], JFSyntax).
Proof. vm_compute. auto. Qed.
Example ex_jscan_value : jscan_value (bs "{""k{"":[""]"",{}]}") /\ ~ jscan_value (bs " {}") /\ ~ jscan_value (bs "{}{}").
Proof. unfold jscan_value. split; [vm_compute; reflexivity|split; intro H; vm_compute in H; discriminate]. Qed.
(* the main loops: three requests in ONE read, split at every byte, two-then-one; both variants *)
Example ex_peer_loop_three_requests :
  let js := [bs "{""testName"":""a""}"; bs "{ }"; bs "[{""k"":""}""}]"] in
  let bn := [[10; 1; 97]; []; [10; 1; 98; 16; 1]] in
  Forall (peer_msg_ok true) js /\ Forall (peer_msg_ok false) bn /\
  peer_loop jscan true (mk_src (peer_wire true js) [] false TEOF) = (js, StopEOF) /\
  peer_loop jscan true (mk_src (peer_wire true js) (repeat 1%nat 40) true TEOF) = (js, StopEOF) /\
  peer_loop jscan false (mk_src (peer_wire false bn) [] false TEOF) = (bn, StopEOF) /\
  peer_loop jscan false (mk_src (peer_wire false bn) (repeat 1%nat 40) true TEOF) = (bn, StopEOF) /\
  peer_loop jscan false (mk_src (peer_wire false bn) [11; 99]%nat false TEOF) = (bn, StopEOF).
Proof.
  cbv zeta. split; [repeat constructor|]. split; [repeat constructor|]. vm_compute. repeat split; reflexivity.
Qed.
(* the decoder-per-request variant on the same JSON stream: one read -> 1 of 3 answered, clean exit;
   two requests then one -> the second is lost; one request per read or one byte per read -> all three
   (which is why tests that feed a pipe one write per read cannot see it) *)
Example ex_fresh_decoder_loses_requests :
  let js := [bs "{""testName"":""a""}"; bs "{ }"; bs "[{""k"":""}""}]"] in
  peer_loop_fresh jscan true (mk_src (peer_wire true js) [] false TEOF) = ([bs "{""testName"":""a""}"], StopEOF) /\
  peer_loop_fresh jscan true (mk_src (peer_wire true js) [21; 99]%nat false TEOF) =
    ([bs "{""testName"":""a""}"; bs "[{""k"":""}""}]"], StopEOF) /\
  peer_loop_fresh jscan true (mk_src (peer_wire true js) [17; 4; 99]%nat false TEOF) = (js, StopEOF) /\
  peer_loop_fresh jscan true (mk_src (peer_wire true js) (repeat 1%nat 40) false TEOF) = (js, StopEOF).
Proof. vm_compute. repeat split; reflexivity. Qed.
Example ex_server_request :
  peer_first jscan true (mk_src (bs "{""httpVersion"":2}" ++ [10]) [3; 1; 1]%nat false TEOF) = FirstMsg (bs "{""httpVersion"":2}") /\
  peer_first jscan true (mk_src (bs "{""httpVers") [3; 1; 1]%nat false TEOF) = FirstStop StopUnexpected /\
  peer_first jscan false (mk_src (write_msg [16; 2] ++ [1; 2; 3]) [1; 1; 2]%nat true TEOF) = FirstMsg [16; 2] /\
  peer_first jscan false (mk_src [0; 0; 0; 2; 16] [1; 1; 2]%nat true TEOF) = FirstStop StopUnexpected /\
  peer_first jscan false (mk_src [] [] true TEOF) = FirstStop StopEOF.
Proof. vm_compute. repeat split; reflexivity. Qed.

(* the two readers differ exactly on the announcements between the two limits: 2 MB is a client response
   the runner takes and a server response it refuses at the prefix; both sides of limits_wired occur *)
Example ex_limits_between :
  limit_verdict ReadsClientOutput 2097152 0 = LvShort /\ limit_verdict ReadsServerResponse 2097152 0 = LvOversize /\
  limit_verdict ReadsServerResponse 1048576 1048576 = LvMsg /\ limit_verdict ReadsServerResponse 1048577 1048577 = LvOversize /\
  limit_verdict ReadsClientOutput 16777216 16777216 = LvMsg /\ limit_verdict ReadsClientOutput 16777217 16777217 = LvOversize /\
  documented_limit ReadsServerResponse < 2097152 <= documented_limit ReadsClientOutput.
Proof. vm_compute. repeat split; try reflexivity; discriminate. Qed.
Example ex_limits_run :
  run_c09_limits [I 0%Z; I 1048577%Z; I 0%Z; L []; I 0%Z] = L [B (bs "oversize"); I 0%Z; I 4%Z] /\
  run_c09_limits [I 1%Z; I 1048577%Z; I 0%Z; L []; I 0%Z] = L [B (bs "unexpected-eof"); I 0%Z; I 1048577%Z].
Proof. vm_compute. split; reflexivity. Qed.
