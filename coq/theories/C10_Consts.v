(* C10_Consts.v - REGENERATED on every run from the compiled Go code by TestVerifConsts
   (harness/C10); do not edit. *)
From Coq Require Import ZArith NArith List.
Import ListNotations.
Definition c10_max_response : N := 16777216%N.
Definition c10_max_server_response : N := 1048576%N.
Definition c10_prefix_len : N := 4%N.
