(* C07_Names.v — the name is an injective function of the open axes.
   The enum String() tables are regenerated from the compiled code (C07_Consts.v); their
   injectivity is decided by computation on those finite tables, so a renamed or duplicated
   enum value name makes this file fail to check.  From it: within one suite, two admitted
   config cases with declared axis values and two tests whose name components coincide are the
   same case (all ten fields) and bear the same test name — i.e. the components spell every axis
   the suite leaves open, and nothing the suite fixes is lost by leaving it out.
   (The step from components to the joined string - path.Join is injective on well-formed
   segments - is C07_Join.v; the full statement, across suites, is full_name_injective in
   C07_Unique.v; uniqueness of the joined names in every library that is built is
   `names_unique`, unconditionally.) *)
From Coq Require Import Lia.
From V Require Import C07_Model C07_Spec C07_Proofs.
Open Scope N_scope.

Definition declared (table : list (N * bytes)) : list N := map fst table.
Definition declared_versions : list N := 0 :: c07_all_versions.

Definition inj_on (f : N -> bytes) (dom : list N) : bool :=
  forallb (fun a => forallb (fun b => implb (bytes_eqb (f a) (f b)) (a =? b)) dom) dom.

Lemma inj_on_sound f dom : inj_on f dom = true ->
  forall a b, In a dom -> In b dom -> f a = f b -> a = b.
Proof.
  unfold inj_on. rewrite forallb_forall. intros H a b Ha Hb E.
  specialize (H a Ha). rewrite forallb_forall in H. specialize (H b Hb).
  rewrite (proj2 (bytes_eqb_eq _ _) E) in H. simpl in H. apply N.eqb_eq; exact H.
Qed.

Lemma protocol_names_inj : inj_on (enum_name c07_protocol_names) (declared c07_protocol_names) = true.
Proof. vm_compute. reflexivity. Qed.
Lemma codec_names_inj : inj_on (enum_name c07_codec_names) (declared c07_codec_names) = true.
Proof. vm_compute. reflexivity. Qed.
Lemma compression_names_inj : inj_on (enum_name c07_compression_names) (declared c07_compression_names) = true.
Proof. vm_compute. reflexivity. Qed.
Lemma version_names_inj : inj_on dec declared_versions = true.
Proof. vm_compute. reflexivity. Qed.

(* the loops only ever visit declared values when a relevant list is empty *)
Lemma all_values_declared :
  incl c07_all_protocols (declared c07_protocol_names) /\ incl c07_all_codecs (declared c07_codec_names) /\
  incl c07_all_compressions (declared c07_compression_names) /\ incl c07_all_versions declared_versions.
Proof.
  repeat split; intros x H; vm_compute in H; vm_compute;
    repeat (destruct H as [<-|H]; [tauto|]); destruct H.
Qed.

Theorem axis_names_injective_proof :
  (forall a b, In a (declared c07_protocol_names) -> In b (declared c07_protocol_names) ->
     enum_name c07_protocol_names a = enum_name c07_protocol_names b -> a = b) /\
  (forall a b, In a (declared c07_codec_names) -> In b (declared c07_codec_names) ->
     enum_name c07_codec_names a = enum_name c07_codec_names b -> a = b) /\
  (forall a b, In a (declared c07_compression_names) -> In b (declared c07_compression_names) ->
     enum_name c07_compression_names a = enum_name c07_compression_names b -> a = b) /\
  (forall a b, In a declared_versions -> In b declared_versions -> dec a = dec b -> a = b).
Proof.
  repeat split; apply inj_on_sound;
    [apply protocol_names_inj|apply codec_names_inj|apply compression_names_inj|apply version_names_inj].
Qed.

Definition case_declared (c : case) : Prop :=
  In (c_version c) declared_versions /\ In (c_protocol c) (declared c07_protocol_names) /\
  In (c_codec c) (declared c07_codec_names) /\ In (c_compression c) (declared c07_compression_names).

Lemma opt_split (b : bool) (u u' : bytes) R R' :
  (if b then [] else [u]) ++ R = (if b then [] else [u']) ++ R' -> (b = false -> u = u') /\ R = R'.
Proof.
  destruct b; simpl; intros H; [split; [discriminate|exact H]|]. inversion H; split; auto.
Qed.

Lemma axis_value_eq all rel f dom label x x' :
  axis_admits all rel x -> axis_admits all rel x' -> In x dom -> In x' dom -> inj_on f dom = true ->
  (axis_fixed rel = false -> label ++ f x = label ++ f x') -> x = x'.
Proof.
  intros A A' D D' Hi H. destruct (axis_fixed rel) eqn:F.
  - destruct rel as [|v [|? ?]]; try discriminate.
    destruct A as [[E _]|[E|[]]]; [discriminate E|]. destruct A' as [[E' _]|[E'|[]]]; [discriminate E'|]. congruence.
  - apply (inj_on_sound f dom Hi); auto. eapply app_inv_head. apply H. reflexivity.
Qed.

(* name components are an injective function of (open axes, test name) on the cases a suite admits *)
Theorem components_injective_proof : forall s c c' t t',
  admits s c -> admits s c' -> case_declared c -> case_declared c' ->
  t_stream t = c_stream c -> t_stream t' = c_stream c' ->
  spec_components s c t = spec_components s c' t' ->
  t_name t = t_name t' /\ (t_stream t = t_stream t' -> c = c').
Proof.
  intros s c c' t t' A A' D D' Es Es' H.
  destruct A as (Ap & Av & Ac & Az & At & E1 & E2 & E3 & E4 & _).
  destruct A' as (Ap' & Av' & Ac' & Az' & At' & E1' & E2' & E3' & E4' & _).
  destruct D as (Dv & Dp & Dc & Dz). destruct D' as (Dv' & Dp' & Dc' & Dz').
  unfold spec_components in H. cbn [app] in H. injection H as H.
  apply opt_split in H. destruct H as (Hv & H).
  apply opt_split in H. destruct H as (Hp & H).
  apply opt_split in H. destruct H as (Hc & H).
  apply opt_split in H. destruct H as (Hz & H).
  apply opt_split in H. rename H into Ht'.
  assert (Ht := Ht').
  destruct Ht as (Ht & Hn). injection Hn as Hn. split; [exact Hn|]. intros Est.
  assert (Xv : c_version c = c_version c') by (eapply (axis_value_eq _ _ dec _ (bs "HTTPVersion:")); [exact Av|exact Av'|exact Dv|exact Dv'|apply version_names_inj|exact Hv]).
  assert (Xp : c_protocol c = c_protocol c') by (eapply (axis_value_eq _ _ (enum_name c07_protocol_names) _ (bs "Protocol:")); [exact Ap|exact Ap'|exact Dp|exact Dp'|apply protocol_names_inj|exact Hp]).
  assert (Xc : c_codec c = c_codec c') by (eapply (axis_value_eq _ _ (enum_name c07_codec_names) _ (bs "Codec:")); [exact Ac|exact Ac'|exact Dc|exact Dc'|apply codec_names_inj|exact Hc]).
  assert (Xz : c_compression c = c_compression c') by (eapply (axis_value_eq _ _ (enum_name c07_compression_names) _ (bs "Compression:")); [exact Az|exact Az'|exact Dz|exact Dz'|apply compression_names_inj|exact Hz]).
  assert (Xt : c_tls c = c_tls c').
  { destruct (s_tls s) eqn:T; [rewrite (At eq_refl), (At' eq_refl); reflexivity|].
    assert (Ht2 : bs "TLS:" ++ (if c_tls c then bs "true" else bs "false") =
                  bs "TLS:" ++ (if c_tls c' then bs "true" else bs "false")) by exact (Ht eq_refl).
    apply app_inv_head in Ht2.
    destruct (c_tls c), (c_tls c'); try reflexivity; vm_compute in Ht2; discriminate. }
  destruct c, c'; simpl in *. subst. f_equal. congruence.
Qed.
