(* C15_SpecL3.v — what a WELL-FORMED stream is and which trace it must yield, written from the property
   text (and RFC 9113 section 8.1: a request is HEADERS, DATA*, optional trailers HEADERS; a response the
   same; END_STREAM closes a direction; RST_STREAM from either peer ends the stream at any point), not
   from http2.go.

   `exchange sid frames o` is a grammar over decoded frames (a header block continued in CONTINUATION
   frames is ONE FHeaders here: C15_Model.parse_buf/collect join them, chunking_independent covers how
   the bytes arrive).  It generates the frame list of ONE stream (both directions, in the order the
   frames were completed on the connection) together with what must come out:
       Done t   the stream ended (response END_STREAM, or a reset by either peer): exactly the trace t
       Open x   the stream is still open: no trace yet; x is what has been gathered so far.
   The expected trace is accumulated production by production: request line and headers from the
   request HEADERS, the messages of each direction as the envelope parser (dataTracer of reader.go, C14's
   subject: dt_trace / dt_flush) cuts them out of the DATA payloads, numbered per direction in order,
   the response status and headers, trailers of either direction, and how the stream ended. *)
From V Require Export C15_Spec.
Open Scope N_scope.

(* every trace an action list hands to the collector, whatever stream completed it *)
Definition all_completions (acts : list cact) : list btrace :=
  flat_map (fun a => match a with CComplete _ t => [t] | _ => [] end) acts.

(* the frames of stream s alone (GOAWAY is a connection frame: see `concerns`) *)
Definition own (s : N) (e : bool * dframe) : bool :=
  match fsid (snd e) with Some s' => s' =? s | None => false end.

Definition is_goaway (f : dframe) : bool := match f with FGoAway _ _ => true | _ => false end.

(* ---------------------------------------------------------------------------------------- *)
(* what has been gathered of a stream so far                                                *)
(* ---------------------------------------------------------------------------------------- *)
Record xst := mkX {
  x_tr : btrace;            (* the trace so far: name, request, trailers, response, events *)
  x_nq : N; x_np : N;       (* request / response messages seen so far *)
  x_dq : dt; x_dp : dt;     (* envelope parser of the request / response body *)
  x_qopen : bool;           (* the request direction has not seen END_STREAM *)
  x_popen : bool }.         (* response headers have arrived *)

Definition t_push (t : btrace) (l : list tev) : btrace :=
  mkTr (t_name t) (t_req t) (t_reqtrailer t) (t_resp t) (t_err t) (t_events t ++ l).

(* the parser's message events become trace events, numbered per direction in the order they complete *)
Fixpoint number (iq ip : N) (evs : list bev) : list tev * (N * N) :=
  match evs with
  | [] => ([], (iq, ip))
  | e :: r =>
    match e with
    | BReqData v n => let '(l, c) := number (iq + 1) ip r in (TReqData iq v n :: l, c)
    | BRespData v n => let '(l, c) := number iq (ip + 1) r in (TRespData ip v n :: l, c)
    | BRespEndStream c0 => let '(l, c) := number iq ip r in (TRespEndStream c0 :: l, c)
    | _ => number iq ip r
    end
  end.

Definition x_msgs (x : xst) (evs : list bev) : xst :=
  let '(l, (iq, ip)) := number (x_nq x) (x_np x) evs in
  mkX (t_push (x_tr x) l) iq ip (x_dq x) (x_dp x) (x_qopen x) (x_popen x).

(* a DATA payload of the request / response direction *)
Definition x_req_data (x : xst) (data : bytes) : xst :=
  match dt_trace (x_dq x) data with
  | (d, evs) => x_msgs (mkX (x_tr x) (x_nq x) (x_np x) d (x_dp x) (x_qopen x) (x_popen x)) evs
  end.
Definition x_resp_data (x : xst) (data : bytes) : xst :=
  match dt_trace (x_dp x) data with
  | (d, evs) => x_msgs (mkX (x_tr x) (x_nq x) (x_np x) (x_dq x) d (x_qopen x) (x_popen x)) evs
  end.

(* when a direction ends in the middle of a message, the bytes seen of it are reported as a last message *)
Definition partial_msg (d : dt) : list bev := match dt_flush d with Some (_, evs) => evs | None => [] end.
Definition rewound (d : dt) : dt := match dt_flush d with Some (d', _) => d' | None => d end.

Definition x_flush_req (x : xst) : xst :=
  x_msgs (mkX (x_tr x) (x_nq x) (x_np x) (rewound (x_dq x)) (x_dp x) (x_qopen x) (x_popen x)) (partial_msg (x_dq x)).
Definition x_flush_resp (x : xst) : xst :=
  x_msgs (mkX (x_tr x) (x_nq x) (x_np x) (x_dq x) (rewound (x_dp x)) (x_qopen x) (x_popen x)) (partial_msg (x_dp x)).

(* END_STREAM on the request direction *)
Definition x_req_end (x : xst) : xst :=
  let x1 := x_flush_req x in
  mkX (t_push (x_tr x1) [TReqEnd ENil]) (x_nq x1) (x_np x1) (x_dq x1) (x_dp x1) false (x_popen x1).

Definition x_set_reqtrailer (x : xst) (tr : list field) : xst :=
  let t := x_tr x in
  mkX (mkTr (t_name t) (t_req t) tr (t_resp t) (t_err t) (t_events t))
      (x_nq x) (x_np x) (x_dq x) (x_dp x) (x_qopen x) (x_popen x).

Definition x_set_trailer (x : xst) (tr : list field) : xst :=
  let t := x_tr x in
  mkX (mkTr (t_name t) (t_req t) (t_reqtrailer t)
            (match t_resp t with Some (s, h, _) => Some (s, h, tr) | None => None end) (t_err t) (t_events t))
      (x_nq x) (x_np x) (x_dq x) (x_dp x) (x_qopen x) (x_popen x).

(* response HEADERS: status, headers, and the body parser the content-type asks for *)
Definition x_resp_start (x : xst) (fs : list field) : xst :=
  let t := x_tr x in
  let h := make_headers fs in
  mkX (mkTr (t_name t) (t_req t) (t_reqtrailer t) (Some (status_of fs, h, [])) (t_err t)
            (t_events t ++ [TRespStart (status_of fs) h]))
      (x_nq x) (x_np x) (x_dq x) (dt_new false (is_stream_proto h)) (x_qopen x) true.

Definition x_done (x : xst) (last : tev) (e : terr) : btrace :=
  let t := x_tr x in mkTr (t_name t) (t_req t) (t_reqtrailer t) (t_resp t) e (t_events t ++ [last]).

(* the response ends (e = ENil: END_STREAM) or the server resets the stream / the connection goes away
   (e = the error): what was cut off in either direction is reported, then the end *)
Definition x_resp_end (x : xst) (e : terr) : btrace :=
  let x1 := x_flush_req x in
  let x2 := if x_popen x then x_flush_resp x1 else x1 in
  x_done x2 (TRespEnd e) e.

(* the client resets the stream *)
Definition x_client_reset (x : xst) (code : N) : btrace :=
  x_done (x_flush_req x) (TReqEnd (EStream code)) (EStream code).

(* after the request HEADERS (without END_STREAM) *)
Definition x_start (fs : list field) : xst :=
  mkX (mkTr (test_name fs) (make_request fs) [] None ENil [TReqStart]) 0 0
      (dt_new true (is_stream_proto (make_headers fs))) dt_zero true false.

Inductive outcome := Done (t : btrace) | Open (x : xst).

(* frames that may still arrive for a stream that is over (the peer had them in flight): they change nothing *)
Definition late (sid : N) (f : bool * dframe) : Prop :=
  match snd f with
  | FData s _ _ => s = sid
  | FRst s _ => s = sid
  | _ => False
  end.

(* ---------------------------------------------------------------------------------------- *)
(* the grammar                                                                              *)
(* ---------------------------------------------------------------------------------------- *)
Inductive steps (sid : N) : xst -> list (bool * dframe) -> outcome -> Prop :=
| S_open x :
    steps sid x [] (Open x)
(* request direction: DATA* then END_STREAM on a DATA or on trailers *)
| S_req_data x data r o :
    x_qopen x = true -> steps sid (x_req_data x data) r o ->
    steps sid x ((true, FData sid false data) :: r) o
| S_req_data_end x data r o :
    x_qopen x = true -> steps sid (x_req_end (x_req_data x data)) r o ->
    steps sid x ((true, FData sid true data) :: r) o
| S_req_trailers x fs r o :
    x_qopen x = true -> steps sid (x_req_end (x_set_reqtrailer x (make_headers fs))) r o ->
    steps sid x ((true, FHeaders sid true fs) :: r) o
(* response direction: HEADERS, DATA*, END_STREAM on a DATA, on trailers, or on the HEADERS (trailers-only) *)
| S_resp_headers x fs r o :
    x_popen x = false -> steps sid (x_resp_start x fs) r o ->
    steps sid x ((false, FHeaders sid false fs) :: r) o
| S_resp_only x fs r :
    x_popen x = false -> Forall (late sid) r ->
    steps sid x ((false, FHeaders sid true fs) :: r) (Done (x_resp_end (x_resp_start x fs) ENil))
| S_resp_data x data r o :
    x_popen x = true -> steps sid (x_resp_data x data) r o ->
    steps sid x ((false, FData sid false data) :: r) o
| S_resp_data_end x data r :
    x_popen x = true -> Forall (late sid) r ->
    steps sid x ((false, FData sid true data) :: r) (Done (x_resp_end (x_resp_data x data) ENil))
| S_resp_trailers x fs r :
    x_popen x = true -> Forall (late sid) r ->
    steps sid x ((false, FHeaders sid true fs) :: r) (Done (x_resp_end (x_set_trailer x (make_headers fs)) ENil))
(* RST_STREAM by either peer, at any point *)
| S_rst_server x code r :
    Forall (late sid) r ->
    steps sid x ((false, FRst sid code) :: r) (Done (x_resp_end x (EStream code)))
| S_rst_client x code r :
    Forall (late sid) r ->
    steps sid x ((true, FRst sid code) :: r) (Done (x_client_reset x code)).

(* a stream: request HEADERS (with END_STREAM: a request without body), then the rest *)
Inductive exchange (sid : N) : list (bool * dframe) -> outcome -> Prop :=
| X_headers fs r o :
    steps sid (x_start fs) r o -> exchange sid ((true, FHeaders sid false fs) :: r) o
| X_headers_end fs r o :
    steps sid (x_req_end (x_start fs)) r o -> exchange sid ((true, FHeaders sid true fs) :: r) o.

(* what the collector must get from a stream with this outcome: the one trace of a finished stream that
   carries a test name; nothing for a stream without test name or one still open *)
Definition traces_of (o : outcome) : list btrace :=
  match o with
  | Done t => if is_nil (t_name t) then [] else [t]
  | Open _ => []
  end.

(* a stream still open when the connection is told to go away with a lower last-stream-id *)
Definition x_abandoned (x : xst) (e : terr) : list btrace :=
  if is_nil (t_name (x_tr x)) then [] else [x_resp_end x e].

(* ---------------------------------------------------------------------------------------- *)
(* GOAWAY                                                                                   *)
(* ---------------------------------------------------------------------------------------- *)
(* stream s may not be opened any more: a GOAWAY with a lower (non-zero) last-stream-id is in force *)
Definition cut_off (max s : N) : bool := negb (max =? 0) && (max <? s).

(* no GOAWAY among these frames has cut s off *)
Definition spares (s : N) (f : bool * dframe) : Prop :=
  match snd f with FGoAway l _ => s <= l | _ => True end.

(* no request HEADERS on stream s carries a test name *)
Definition no_name_on (s : N) (fs : list (bool * dframe)) : Prop :=
  forall es fields, In (true, FHeaders s es fields) fs -> is_nil (test_name fields) = true.

(* ---------------------------------------------------------------------------------------- *)
(* several streams on one connection                                                        *)
(* ---------------------------------------------------------------------------------------- *)
Record xch := mkXch { xc_sid : N; xc_frames : list (bool * dframe); xc_out : outcome }.

(* fs is an interleaving of the exchanges xs (plus frames handleFrame ignores: SETTINGS, PING, ...):
   the streams have distinct ids, the frames of each stream, in order, are an exchange of the grammar,
   every stream frame belongs to one of them, and there is no GOAWAY (for GOAWAY see goaway_keeps_lower) *)
Definition interleaving_of (xs : list xch) (fs : list (bool * dframe)) : Prop :=
  NoDup (map xc_sid xs) /\
  Forall (fun e => exchange (xc_sid e) (xc_frames e) (xc_out e) /\ filter (own (xc_sid e)) fs = xc_frames e) xs /\
  Forall (fun f => is_goaway (snd f) = false /\ forall t, fsid (snd f) = Some t -> In t (map xc_sid xs)) fs.

(* ---------------------------------------------------------------------------------------- *)
(* L1/L2: every byte the caller gets goes through the frame tracer, error or not            *)
(* ---------------------------------------------------------------------------------------- *)
(* what the inner conn's Reads delivered / what the caller handed to Write, call by call *)
Definition read_chunks (ops : list op) : list bytes :=
  flat_map (fun o => match o with ORead d _ => [d] | _ => [] end) ops.
Definition write_chunks (ops : list op) : list bytes :=
  flat_map (fun o => match o with OWrite d _ _ => [d] | _ => [] end) ops.

(* the error classes after which the connection is given up (everything but nil and, for Read, a timeout) *)
Definition read_fatal (e : N) : bool := negb ((e =? 0) || (e =? 2)).
