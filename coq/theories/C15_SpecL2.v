(* C15_SpecL2.v — what the frames of a direction ARE, as a one-shot function of the direction's whole byte
   stream, written from RFC 9113 (section 3.4: the client connection preface; 4.1: a frame is a 9-byte header
   whose first three bytes give the payload length, followed by that many bytes; 4.3/6.10: a header block is a
   HEADERS frame followed by CONTINUATION frames up to END_HEADERS and is decoded as one unit), not from the
   tracer's incremental state machine (no prefix / expecting / actual counters here). *)
From V Require Export C15_Spec.
Open Scope N_scope.

(* the length of the first frame of s, header included, if s holds a complete one *)
Definition raw_len (s : bytes) : option N :=
  if len s <? 9 then None
  else let n := 9 + h_len (parse_hdr (firstn 9 s)) in
       if len s <? n then None else Some n.

(* the byte stream cut into raw frames; an incomplete frame at the end is not a frame (yet) *)
Fixpoint split_frames (fuel : nat) (s : bytes) : list bytes :=
  match fuel with
  | O => []
  | S fuel' =>
    match raw_len s with
    | None => []
    | Some n => firstn (N.to_nat n) s :: split_frames fuel' (skipn (N.to_nat n) s)
    end
  end.

(* a raw frame that leaves a header block open: HEADERS, or CONTINUATION inside a block, without END_HEADERS *)
Definition continues (inblock : bool) (raw : bytes) : bool :=
  let h := parse_hdr (firstn 9 raw) in
  ((h_typ h =? 1) || ((h_typ h =? 9) && inblock)) && negb (flag h 2).

Section Dec.
Variable dec : list bytes -> bytes -> option (list field).

(* the raw frames are handed to the framer (parse_buf = Framer.ReadFrame) one by one, a header block as a whole;
   acc = the frames of the block that is open; once the framer rejects something the direction is given up *)
Fixpoint decode_frames (hist : list bytes) (acc : bytes) (inblock : bool) (raws : list bytes) : list dframe :=
  match raws with
  | [] => []
  | r :: rest =>
    if continues inblock r then decode_frames hist (acc ++ r) true rest
    else match parse_buf dec hist (acc ++ r) with
         | None => []
         | Some (f, hist') => f :: decode_frames hist' [] false rest
         end
  end.

(* the request direction starts with the 24-byte client preface; anything else there: no frames at all *)
Definition spec_frames (isreq : bool) (s : bytes) : list dframe :=
  if isreq then
    if len s <? 24 then []
    else if bytes_eqb (firstn 24 s) preface
         then decode_frames [] [] false (split_frames (length s) (skipn 24 s))
         else []
  else decode_frames [] [] false (split_frames (length s) s).
End Dec.
