(* C04_Props.v — the property theorems of C04 and nothing else.
   Histories are ARBITRARY lists of testResults operations (any number of cases, any
   order, overwrites, failRemaining before or after results, feedback at any point);
   report() is applied once at the end, as Run does. *)
From V Require Import C04_Spec C04_Proofs.
Open Scope nat_scope.

(* The outcome map holds, for every name, exactly what the history has on record. *)
Theorem outcome_on_record : forall c h n,
  lookup (outcomes (run c h)) n = option_map (mk_outcome c n) (on_record h n).
Proof. exact outcome_on_record_proof. Qed.
Print Assumptions outcome_on_record.

(* ... where "on record" reads: the LATEST result reported for the case, *)
Theorem on_record_last : forall h1 o h2 n r,
  reports o n r -> (forall o', In o' h2 -> ~ reports_on o' n) ->
  on_record (h1 ++ o :: h2) n = Some r.
Proof. exact on_record_last_proof. Qed.
Print Assumptions on_record_last.

(* failRemaining fills in a case nothing was reported for (and never replaces a result), *)
Theorem on_record_filled : forall h1 ns k h2 n,
  (forall o, In o h1 -> ~ touches o n) -> In n ns ->
  (forall o, In o h2 -> ~ reports_on o n) ->
  on_record (h1 ++ OFailRemaining ns k :: h2) n = Some (Fail true k).
Proof. exact on_record_filled_proof. Qed.
Print Assumptions on_record_filled.

(* and nothing is on record exactly when no operation touched the case. *)
Theorem on_record_none_iff : forall h n,
  on_record h n = None <-> forall o, In o h -> ~ touches o n.
Proof. exact on_record_none_iff_proof. Qed.
Print Assumptions on_record_none_iff.

(* report() returns true exactly when every selected case produced an outcome and met its
   expectation (the truth table `met` of C04_Spec). *)
Theorem verdict_iff : forall c mark h sel,
  marked_by c mark -> selection c h sel ->
  (r_ok (report c (run c h)) = true <-> success mark h sel).
Proof. exact verdict_iff_proof. Qed.
Print Assumptions verdict_iff.

(* Run's verdict `report() && err == nil`, and the exit status of main *)
Theorem run_verdict_iff : forall c mark h sel err,
  marked_by c mark -> selection c h sel ->
  (verdict c (run c h) err = true <-> success mark h sel /\ err = false).
Proof. exact run_verdict_iff_proof. Qed.
Print Assumptions run_verdict_iff.

Theorem exit_status_iff : forall c mark h sel err,
  marked_by c mark -> selection c h sel ->
  (exit_status (verdict c (run c h) err) = 0 <-> success mark h sel /\ err = false).
Proof. exact exit_status_iff_proof. Qed.
Print Assumptions exit_status_iff.

(* A case that could not be set up or run (set-up error, request not sent, nothing ever
   reported) makes the run fail WHATEVER its marking — no hypothesis on the markings. *)
Theorem setup_always_bad : forall c h sel n err,
  selection c h sel -> In n sel ->
  did_not_run (case_fate h n) (has_feedback h n) = true ->
  verdict c (run c h) err = false.
Proof. exact setup_always_bad_proof. Qed.
Print Assumptions setup_always_bad.

(* Peer feedback turns a passing unmarked case into a named failure. *)
Theorem feedback_fails : forall c h sel n,
  selection c h sel -> In n sel -> c_kf c n = false -> c_kfl c n = false ->
  on_record h n = Some Ok -> has_feedback h n = true ->
  In n (r_failed_names (report c (run c h))) /\ r_ok (report c (run c h)) = false.
Proof. exact feedback_fails_proof. Qed.
Print Assumptions feedback_fails.

(* The FAILED lines name exactly the selected cases of the failed bucket, the INFO lines
   exactly the expected failures, each once, and as many as the totals say. *)
Theorem named : forall c mark h sel,
  marked_by c mark -> selection c h sel ->
  let r := report c (run c h) in
  (forall n, In n (r_failed_names r) <-> In n sel /\ case_bucket mark h n = CFailed) /\
  (forall n, In n (r_info_names r) <-> In n sel /\ case_bucket mark h n = CExpected) /\
  NoDup (r_failed_names r) /\ NoDup (r_info_names r) /\
  length (r_failed_names r) = r_failed r /\ length (r_info_names r) = r_expected r.
Proof. exact named_proof. Qed.
Print Assumptions named.

(* Every selected case that did not meet its expectation is named in a FAILED line, or is
   one of those counted in the "could not be run" line (those are not named individually). *)
Theorem failing_named : forall c mark h sel n,
  marked_by c mark -> selection c h sel -> In n sel -> case_met mark h n = false ->
  In n (r_failed_names (report c (run c h))) \/ case_bucket mark h n = CNotRun.
Proof. exact failing_named_proof. Qed.
Print Assumptions failing_named.

(* Each printed number is the number of selected cases in that bucket; the four numbers
   account for every selected case exactly once. *)
Theorem totals_once : forall c mark h sel,
  marked_by c mark -> selection c h sel ->
  let r := report c (run c h) in
  r_passed r = count_bucket mark h CPassed sel /\
  r_failed r = count_bucket mark h CFailed sel /\
  r_expected r = count_bucket mark h CExpected sel /\
  r_notrun r = count_bucket mark h CNotRun sel /\
  r_passed r + r_failed r + r_expected r + r_notrun r = length sel.
Proof. exact totals_once_proof. Qed.
Print Assumptions totals_once.

(* Reporting again (sideband already merged and cleared) prints the same. *)
Theorem report_idempotent : forall c st, report c (after_report c st) = report c st.
Proof. exact report_idempotent_proof. Qed.
Print Assumptions report_idempotent.

(* A whole run, batch by batch: servers that do not start, a client that answers, answers
   wrongly, reports an error, stays silent, and ends (cleanly or not) before all requests
   were sent.  The verdict is true exactly when the client's own result was nil and every
   case, given what it went through, met its expectation. *)
Theorem flow_verdict_iff : forall kf kfl mark s,
  (forall n, marks_agree (kf n) (kfl n) (mark n)) ->
  NoDup (scen_names s) ->
  (scen_verdict kf kfl s = true <-> scen_success mark s).
Proof. exact flow_verdict_iff_proof. Qed.
Print Assumptions flow_verdict_iff.

(* ---- peer feedback of the in-process reference server (client mode) ---- *)
(* A line the reference server prints about a case of the batch is recognised by the
   runner's stderr reader as feedback for that case (names do not contain ": "). *)
Theorem feedback_line_recognised : forall names n msg,
  has_sep n = false -> In n names -> read_line names (fb_line n msg) = Some n.
Proof. exact feedback_line_recognised_proof. Qed.
Print Assumptions feedback_line_recognised.

(* What reaches testResults as peer feedback: exactly the cases of batches run against the
   reference server about whose request that server printed something - the feedback
   printer stands on the writer whose other end the runner reads. *)
Theorem peer_feedback_iff : forall ps n,
  (forall m, In m (pscen_names ps) -> has_sep m = false) ->
  (In n (peer_feedback ps) <->
   exists b c, In b ps /\ pb_reference b = true /\ In c (pb_cases b) /\ pc_name c = n /\
               pc_msgs c <> []).
Proof. exact peer_feedback_iff_proof. Qed.
Print Assumptions peer_feedback_iff.

(* A client-mode run: the verdict is true exactly when the client's own result was nil and
   every case met its expectation given its reply AND whether the server complained. *)
Theorem peer_verdict_iff : forall kf kfl mark ps e,
  (forall n, marks_agree (kf n) (kfl n) (mark n)) ->
  NoDup (pscen_names ps) ->
  (peer_verdict kf kfl ps e = true <->
   e = false /\
   forall n w, In (n, w) (scen_went (strip ps e)) ->
     met (mark n) (went_fate w) (mem_bytes n (peer_feedback ps)) = true).
Proof. intros kf kfl mark ps e M ND. exact (peer_verdict_iff_proof kf kfl mark M ps e ND). Qed.
Print Assumptions peer_verdict_iff.

(* The reference server saw something wrong with the request of an unmarked case whose
   reported result matches the expectation: the case is named FAILED and the run fails. *)
Theorem server_feedback_fails_run : forall kf kfl ps e b pc,
  NoDup (pscen_names ps) ->
  (forall m, In m (pscen_names ps) -> has_sep m = false) ->
  In b ps -> pb_reference b = true -> In pc (pb_cases b) ->
  rc_reply (pc_rc pc) = RPass -> pc_msgs pc <> [] ->
  kf (pc_name pc) = false -> kfl (pc_name pc) = false ->
  In (pc_name pc) (r_failed_names (report (peer_cfg kf kfl ps)
                                     (run (peer_cfg kf kfl ps) (peer_ops ps e)))) /\
  peer_verdict kf kfl ps e = false.
Proof. intros kf kfl ps e b pc ND. exact (server_feedback_fails_run_proof kf kfl ps e ND b pc). Qed.
Print Assumptions server_feedback_fails_run.

(* ---- non-vacuity: hypotheses are inhabited, both sides of the iffs occur ---- *)
Definition a := bs "S/a".
Definition b := bs "S/b".
Definition d := bs "S/d".
Definition c0 (total : nat) : cfg := mkCfg total (marks [b]) (marks [d]).
Definition mark0 (n : name) : marking :=
  if bytes_eqb n b then KnownFailing else if bytes_eqb n d then KnownFlaky else Unmarked.

Example ex_marked : forall total, marked_by (c0 total) mark0.
Proof.
  intros total n. unfold c0, mark0, marks; simpl.
  destruct (bytes_eqb_spec n b) as [->|Hb]; [vm_compute; constructor|].
  destruct (bytes_eqb_spec n d) as [->|Hd]; simpl; constructor.
Qed.

Definition h_good : list op := [OAssert a true; OFailed b; OAssert d false].
Example ex_selection : selection (c0 3) h_good [a; b; d].
Proof.
  split; [|split; [reflexivity|]].
  - repeat constructor; simpl; intuition discriminate.
  - vm_compute. intros x H. exact H.
Qed.
Example ex_success_true : r_ok (report (c0 3) (run (c0 3) h_good)) = true.
Proof. vm_compute. reflexivity. Qed.
Example ex_success_holds : success mark0 h_good [a; b; d].
Proof. apply (verdict_iff (c0 3) mark0 h_good [a; b; d] (ex_marked 3) ex_selection). exact ex_success_true. Qed.
(* the known-flaky failure is an INFO line, nothing is FAILED, 1 passed / 2 expected *)
Example ex_good_report :
  let r := report (c0 3) (run (c0 3) h_good) in
  (r_passed r, r_failed r, r_expected r, r_notrun r, r_failed_names r, r_info_names r)
  = (1, 0, 2, 0, [], [b; d]).
Proof. vm_compute. reflexivity. Qed.

(* the other side: a known-failing case that passes; a flaky case whose server did not start;
   a known-failing case that could not be run; a case nobody answered *)
Example ex_stale_known_failing : r_ok (report (c0 3) (run (c0 3) [OAssert a true; OAssert b true; OAssert d true])) = false.
Proof. vm_compute. reflexivity. Qed.
Example ex_flaky_setup : r_ok (report (c0 3) (run (c0 3) [OAssert a true; OFailed b; OFailedToStart [d] ESetup])) = false.
Proof. vm_compute. reflexivity. Qed.
Example ex_known_failing_not_run :
  r_ok (report (c0 3) (run (c0 3) [OAssert a true; OSet b (Fail true ECouldNotRun); OAssert d true])) = false.
Proof. vm_compute. reflexivity. Qed.
Example ex_never_answered : r_ok (report (c0 3) (run (c0 3) [OAssert a true; OFailed b])) = false.
Proof. vm_compute. reflexivity. Qed.
Example ex_feedback :
  let r := report (c0 3) (run (c0 3) [OAssert a true; OSideband a; OFailed b; OAssert d true]) in
  (r_ok r, r_failed_names r) = (false, [a]).
Proof. vm_compute. reflexivity. Qed.
(* last result wins; failRemaining only fills gaps *)
Example ex_last_wins :
  on_record [OAssert a false; OFailRemaining [a; b] ENoOutcome; OAssert a true] a = Some Ok /\
  on_record [OAssert a false; OFailRemaining [a; b] ENoOutcome; OAssert a true] b = Some (Fail true ENoOutcome).
Proof. vm_compute. auto. Qed.

(* Recorded: the formula of the pinned code (`failed == 0`) is refuted — a run in which a
   request could not be sent, and one in which a case never got an outcome, "succeed".
   Repaired in /repo (fix: report() does not succeed while cases could not be run). *)
Example pinned_verdict_refuted :
  exists c mark h sel, marked_by c mark /\ selection c h sel /\
    r_ok (report_pinned c (run c h)) = true /\ ~ success mark h sel.
Proof.
  exists (c0 2), mark0, [OAssert a true; OSet d (Fail true ECouldNotRun)], [a; d].
  split; [apply ex_marked|]. split.
  - split; [|split; [reflexivity|]].
    + repeat constructor; simpl; intuition discriminate.
    + vm_compute. intros x H. exact H.
  - split; [vm_compute; reflexivity|]. intros S. specialize (S d (or_intror (or_introl eq_refl))).
    vm_compute in S. discriminate.
Qed.

(* a run as batches: the client ends cleanly after its 2nd request; the 3rd case could not
   be run and the run fails although nothing is FAILED *)
Definition s_exit : scen :=
  mkSc [mkB true [mkRC a RPass; mkRC b RErr; mkRC d RPass]] (Some 2) false.
Example ex_flow_exit : scen_verdict (marks [b]) (marks [d]) s_exit = false.
Proof. vm_compute. reflexivity. Qed.
Example ex_flow_went : scen_went s_exit = [(a, WAnswered RPass); (b, WAnswered RErr); (d, WNotSent)].
Proof. vm_compute. reflexivity. Qed.
Definition s_ok : scen :=
  mkSc [mkB true [mkRC a RPass; mkRC b RErr]; mkB true [mkRC d RWrong]] None false.
Example ex_flow_ok : scen_verdict (marks [b]) (marks [d]) s_ok = true.
Proof. vm_compute. reflexivity. Qed.
Example ex_flow_exit_status : scen_verdict (marks [b]) (marks [d]) (mkSc (s_batches s_ok) None true) = false.
Proof. vm_compute. reflexivity. Qed.

(* client mode: the client reports the expected result for `a` but the reference server
   did not like its request; for `d` the same happens against the gRPC reference server,
   which has no feedback channel *)
Definition ps_fb : list pbatch :=
  [mkPB true [mkPC (mkRC a RPass) [bs "expected codec proto; instead got json"]];
   mkPB false [mkPC (mkRC d RPass) [bs "x"]]].
Example ex_peer_feedback : peer_feedback ps_fb = [a].
Proof. vm_compute. reflexivity. Qed.
Example ex_peer_fails : peer_verdict (marks []) (marks []) ps_fb false = false.
Proof. vm_compute. reflexivity. Qed.
Example ex_peer_named :
  r_failed_names (report (peer_cfg (marks []) (marks []) ps_fb)
                    (run (peer_cfg (marks []) (marks []) ps_fb) (peer_ops ps_fb false))) = [a].
Proof. vm_compute. reflexivity. Qed.
Example ex_peer_ok :
  peer_verdict (marks []) (marks []) [mkPB true [mkPC (mkRC a RPass) []]; mkPB false [mkPC (mkRC d RPass) [bs "x"]]] false = true.
Proof. vm_compute. reflexivity. Qed.
(* a line that is not about a case of the batch is not feedback *)
Example ex_other_line : read_line [a] (bs "listening: on port 1") = None.
Proof. vm_compute. reflexivity. Qed.

(* A server under test that exits with status 0 in the middle of its batch (c04.srvexit): the cases after
   the exit end as set-up errors, so the run fails although every one of them is known-failing and would
   have "failed as expected" had its request still been sent (setup_always_bad is the general statement). *)
Example ex_server_exit_zero_mid_batch :
  let cs := [mkRC (bs "B0/a") RWrong; mkRC (bs "B0/b") RWrong; mkRC (bs "B0/c") RWrong] in
  let c := mkCfg 3 (fun _ => true) (fun _ => false) in
  verdict c (run c (srvexit_ops cs 0)) false = false /\
  verdict c (run c (map reply_op cs ++ [OFailRemaining (map rc_name cs) ENoOutcome])) false = true.
Proof. vm_compute. auto. Qed.
