(* C03_Consts.v - REGENERATED on every run from the compiled Go code by TestVerifConsts
   (harness/C03); do not edit. *)
From Coq Require Import ZArith NArith List.
Import ListNotations.
(* results.go: timeoutCheckGracePeriodMillis *)
Definition c03_grace : Z := 500%Z.
