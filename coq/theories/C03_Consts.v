(* C03_Consts.v - REGENERATED on every run from the compiled Go code by TestVerifConsts
   (harness/C03); do not edit. *)
From Coq Require Import ZArith NArith List.
Import ListNotations.
(* results.go: const timeoutCheckGracePeriodMillis = 500 *)
Definition c03_grace_value : Z := 500%Z.
Definition c03_grace_unit_ns : Z := 1000000%Z.
