(* C06_LoadProofs.v — proofs about the loader glue (C06_Load.v) against C06_LoadSpec.v. *)
From V Require Import C06_LoadSpec C06_Proofs.
Open Scope N_scope.

(* ---------- strings.Contains = substring ---------- *)
Lemma has_prefix_iff p s : has_prefix p s = true <-> exists b, s = p ++ b.
Proof.
  revert s; induction p as [|x p IH]; intros s; simpl.
  - split; [intros _; exists s; reflexivity|reflexivity].
  - destruct s as [|y s].
    + split; [discriminate|intros [b E]; discriminate].
    + rewrite andb_true_iff, N.eqb_eq, IH. split.
      * intros [-> [b ->]]. exists b. reflexivity.
      * intros [b E]. injection E as -> ->. split; [reflexivity|exists b; reflexivity].
Qed.

Lemma contains_sub_iff s p : contains_sub s p = true <-> substring p s.
Proof.
  unfold substring. induction s as [|y s IH]; simpl.
  - rewrite orb_false_r, has_prefix_iff. split.
    + intros [b E]. exists [], b. exact E.
    + intros [a [b E]]. destruct a; [exists b; exact E|discriminate].
  - rewrite orb_true_iff, has_prefix_iff, IH. split.
    + intros [[b E]|[a [b E]]].
      * exists [], b. exact E.
      * exists (y :: a), b. simpl. rewrite E. reflexivity.
    + intros [a [b E]]. destruct a as [|z a].
      * left. exists b. exact E.
      * right. simpl in E. injection E as _ E. exists a, b. exact E.
Qed.

Lemma is_nil_iff {A} (l : list A) : is_nil l = true <-> l = [].
Proof. destruct l; simpl; split; congruence. Qed.

Lemma is_nil_false {A} (l : list A) : l <> [] -> is_nil l = false.
Proof. destruct l; simpl; congruence. Qed.

(* ---------- EnsureFileName ---------- *)
Lemma ensure_file_name_keeps_error_proof : forall msg filename,
  exists m', ensure_file_name msg filename = Some m' /\ substring filename m' /\ substring msg m'.
Proof.
  intros msg f. unfold ensure_file_name. destruct (contains_sub msg f) eqn:C.
  - exists msg. split; [reflexivity|]. split.
    + apply contains_sub_iff. exact C.
    + exists [], []. rewrite app_nil_r. reflexivity.
  - exists (f ++ bs ": " ++ msg). split; [reflexivity|]. split.
    + exists [], (bs ": " ++ msg). reflexivity.
    + exists (f ++ bs ": "), []. rewrite app_nil_r, <- app_assoc. reflexivity.
Qed.

Lemma returned_error {A} (v : A) msg f : returned_with v (ensure_file_name msg f) = Err.
Proof.
  destruct (ensure_file_name_keeps_error_proof msg f) as [m' [E _]]. rewrite E. reflexivity.
Qed.

Section LoadProofs.
  Variable decode : bytes -> bytes -> config + bytes.

  (* ---------- the bytes parsed are the bytes of the named file ---------- *)
  Lemma config_bytes_are_file_bytes_proof : forall conf fs size data,
    conf <> [] -> fs conf = Node size data ->
    run_load decode conf fs = parse_config_data decode conf data.
  Proof.
    intros conf fs size data Hc Hf. unfold run_load. rewrite (is_nil_false _ Hc), Hf. reflexivity.
  Qed.

  Lemma no_conf_is_empty_config_proof : forall fs,
    run_load decode [] fs = parse_config empty_config.
  Proof. reflexivity. Qed.

  Lemma decode_error_is_error_proof : forall name data,
    undecodable decode name data -> parse_config_data decode name data = Err.
  Proof.
    intros name data [Hd [msg E]]. unfold parse_config_data.
    rewrite (is_nil_false _ Hd), E. apply returned_error.
  Qed.

  Lemma unreadable_is_error_proof : forall conf fs,
    unreadable conf fs -> run_load decode conf fs = Err.
  Proof.
    intros conf fs [Hc H]. unfold run_load. rewrite (is_nil_false _ Hc).
    destruct H as [-> | ->]; simpl; apply returned_error.
  Qed.

  (* ---------- parseConfig on data = parse_config on what the data denote ---------- *)
  Lemma data_cases : forall name data,
    undecodable decode name data \/ exists cfg, denotes decode name data cfg.
  Proof.
    intros name data. destruct data as [|x data].
    - right. exists empty_config. apply dn_empty. reflexivity.
    - destruct (decode name (x :: data)) as [cfg|msg] eqn:E.
      + right. exists cfg. apply dn_doc; [discriminate|exact E].
      + left. split; [discriminate|exists msg; exact E].
  Qed.

  Lemma denotes_fun : forall name data cfg cfg',
    denotes decode name data cfg -> denotes decode name data cfg' -> cfg = cfg'.
  Proof.
    intros name data cfg cfg' H H'. destruct H as [H|cfg H E]; destruct H' as [H'|cfg' H' E']; congruence.
  Qed.

  Lemma denotes_not_undecodable : forall name data cfg,
    denotes decode name data cfg -> ~ undecodable decode name data.
  Proof.
    intros name data cfg H [Hd [msg E]]. destruct H as [H|cfg H E']; congruence.
  Qed.

  Lemma parse_data_denoted : forall name data cfg,
    denotes decode name data cfg -> parse_config_data decode name data = parse_config cfg.
  Proof.
    intros name data cfg H. unfold parse_config_data. destruct H as [->|cfg Hd E].
    - reflexivity.
    - rewrite (is_nil_false _ Hd), E. reflexivity.
  Qed.

  Lemma file_cases : forall conf fs,
    unreadable conf fs \/ exists data, file_bytes conf fs data.
  Proof.
    intros conf fs. destruct conf as [|x conf].
    - right. exists []. apply fb_none. reflexivity.
    - destruct (fs (x :: conf)) as [| |size data] eqn:E.
      + left. split; [discriminate|left; exact E].
      + left. split; [discriminate|right; exact E].
      + right. exists data. apply (fb_file _ _ size); [discriminate|exact E].
  Qed.

  Lemma run_load_file : forall conf fs data,
    file_bytes conf fs data -> run_load decode conf fs = parse_config_data decode conf data.
  Proof.
    intros conf fs data H. destruct H as [->|size data Hc Hf].
    - reflexivity.
    - apply (config_bytes_are_file_bytes_proof _ _ size); assumption.
  Qed.

  Lemma file_bytes_fun : forall conf fs d d', file_bytes conf fs d -> file_bytes conf fs d' -> d = d'.
  Proof.
    intros conf fs d d' H H'. destruct H as [H|s d H E]; destruct H' as [H'|s' d' H' E']; congruence.
  Qed.

  Lemma file_bytes_readable : forall conf fs d, file_bytes conf fs d -> ~ unreadable conf fs.
  Proof.
    intros conf fs d H [Hc U]. destruct H as [H|s d H E]; [congruence|]. destruct U; congruence.
  Qed.

  (* ---------- end to end: file -> set ---------- *)
  Lemma load_exact_proof : forall conf fs cs,
    run_load decode conf fs = Ok cs ->
    exists data cfg, file_bytes conf fs data /\ denotes decode conf data cfg /\
                     cs <> [] /\ forall c, In c cs <-> spec_member cfg c.
  Proof.
    intros conf fs cs H. destruct (file_cases conf fs) as [U|[data Hf]].
    - rewrite (unreadable_is_error_proof _ _ U) in H. discriminate.
    - rewrite (run_load_file _ _ _ Hf) in H. destruct (data_cases conf data) as [U|[cfg Hd]].
      + rewrite (decode_error_is_error_proof _ _ U) in H. discriminate.
      + rewrite (parse_data_denoted _ _ _ Hd) in H. exists data, cfg.
        split; [exact Hf|]. split; [exact Hd|]. split.
        * apply (parse_valid_proof _ _ H).
        * exact (parse_ok_iff_proof _ _ H).
  Qed.

  Lemma load_err_iff_proof : forall conf fs,
    run_load decode conf fs = Err <->
    unreadable conf fs \/
    exists data, file_bytes conf fs data /\
      (undecodable decode conf data \/
       exists cfg, denotes decode conf data cfg /\ (contradictory cfg \/ forall c, ~ spec_member cfg c)).
  Proof.
    intros conf fs. split.
    - intros H. destruct (file_cases conf fs) as [U|[data Hf]]; [left; exact U|right].
      exists data. split; [exact Hf|]. rewrite (run_load_file _ _ _ Hf) in H.
      destruct (data_cases conf data) as [U|[cfg Hd]]; [left; exact U|right].
      exists cfg. split; [exact Hd|]. rewrite (parse_data_denoted _ _ _ Hd) in H.
      apply parse_err_iff_proof. exact H.
    - intros [U|[data [Hf [U|[cfg [Hd Hc]]]]]].
      + apply unreadable_is_error_proof. exact U.
      + rewrite (run_load_file _ _ _ Hf). apply decode_error_is_error_proof. exact U.
      + rewrite (run_load_file _ _ _ Hf), (parse_data_denoted _ _ _ Hd).
        apply parse_err_iff_proof. exact Hc.
  Qed.
End LoadProofs.
