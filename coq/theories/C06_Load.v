(* C06_Load.v — executable model of the glue between the file named by --conf and
   parseConfig's result:
     internal/app/connectconformance/connectconformance.go  Run (first block: reading the file)
     internal/app/connectconformance/config.go              parseConfig (first block: decoding)
     internal/errors.go                                     EnsureFileName
   The YAML text syntax is not modelled: protoyaml's Unmarshal is the parameter `decode`
   of the section (any function; the theorems need no hypothesis on it).  The file system is a
   function from paths to objects; an object that can be opened has the size a stat call
   reports and the bytes a reader gets until end-of-file - two independent things (a named
   pipe, a process substitution, /dev/stdin and /proc files report 0 and have contents).
   A Go error value is `option bytes` (None = nil, Some m = an error with message m).
   No proofs here. *)
From V Require Export C06_Model.
Open Scope N_scope.

(* ---------- strings.Contains ---------- *)
Fixpoint has_prefix (p s : bytes) : bool :=
  match p, s with
  | [], _ => true
  | x :: p', y :: s' => (x =? y) && has_prefix p' s'
  | _ :: _, [] => false
  end.

Fixpoint contains_sub (s p : bytes) : bool :=
  has_prefix p s || match s with [] => false | _ :: s' => contains_sub s' p end.

(* ---------- internal.EnsureFileName(err, filename), err not nil, msg = err.Error() ---------- *)
Definition goerr := option bytes.

Definition ensure_file_name (msg filename : bytes) : goerr :=
  if contains_sub msg filename
  then Some msg                                   (* return err *)
  else Some (filename ++ bs ": " ++ msg).         (* fmt.Errorf("%s: %w", filename, err) *)

(* `return nil, e` / `return false, e` as the caller sees it: it tests e against nil *)
Definition returned_with {A} (v : A) (e : goerr) : res A :=
  match e with None => Ok v | Some _ => Err end.

(* ---------- the file system as os.ReadFile sees it ---------- *)
Inductive fsobj :=
| Absent                                        (* open fails *)
| Directory                                     (* open succeeds, read fails *)
| Node (reported_size : N) (content : bytes).   (* anything readable *)

(* os.ReadFile: the reported size is a capacity hint only; it reads until end-of-file *)
Definition read_file (path : bytes) (o : fsobj) : bytes + bytes :=
  match o with
  | Absent => inr (bs "open " ++ path ++ bs ": no such file or directory")
  | Directory => inr (bs "read " ++ path ++ bs ": is a directory")
  | Node _ content => inl content
  end.

Definition empty_features : features := mkFeatures [] [] [] [] [] None None None None None None None.
(* the zero Config message; parseConfig replaces the nil Features by &Features{} *)
Definition empty_config : config := mkConfig empty_features [] [].

Section Load.
  (* protoyaml.UnmarshalOptions{Path: name}.Unmarshal(data, &config): the message or the error text *)
  Variable decode : bytes -> bytes -> config + bytes.

  (* parseConfig(configFileName, data) *)
  Definition parse_config_data (name data : bytes) : res (list case) :=
    if is_nil data then parse_config empty_config                      (* len(data) > 0 is false *)
    else match decode name data with
         | inr msg => returned_with [] (ensure_file_name msg name)     (* return nil, internal.EnsureFileName(err, configFileName) *)
         | inl cfg => parse_config cfg
         end.

  (* Run, up to `configCases, err := parseConfig(flags.ConfigFile, configData)` *)
  Definition run_load (conf : bytes) (fs : bytes -> fsobj) : res (list case) :=
    if is_nil conf then parse_config_data conf []                      (* flags.ConfigFile == "": configData stays nil *)
    else match read_file conf (fs conf) with
         | inr msg => returned_with [] (ensure_file_name msg conf)     (* return false, internal.EnsureFileName(err, flags.ConfigFile) *)
         | inl data => parse_config_data conf data
         end.
End Load.

(* ---------- case decoding / result encoding (extracted glue) ---------- *)

(* The differential run does not carry YAML text through the model: a case says what the
   document IS (nothing / the rendering of a message / a text protoyaml rejects) and the Go
   side renders it and checks that protoyaml indeed reads it that way.  So the content is a
   token and `decode` is instantiated per case. *)
Inductive doc := DEmpty | DMsg (c : config) | DBad.

Definition doc_bytes (d : doc) : bytes :=
  match d with DEmpty => [] | DMsg _ => [1] | DBad => [2] end.

Definition decode_for (d : doc) (name data : bytes) : config + bytes :=
  match d with
  | DMsg c => inl c
  | _ => inr (name ++ bs ": cannot be decoded")
  end.

Definition un_doc (s : sx) : option doc :=
  match s with
  | L [I 0%Z] => Some DEmpty
  | L [I 1%Z; _; fe; inc; exc] => do c <- un_config fe inc exc; ret (DMsg c)
  | L [I 2%Z; _] => Some DBad
  | _ => None
  end.

(* file names the harness can create in a scratch directory (both sides answer bad-case otherwise) *)
Definition name_byte_ok (b : N) : bool :=
  ((48 <=? b) && (b <=? 57)) || ((65 <=? b) && (b <=? 90)) || ((97 <=? b) && (b <=? 122)) ||
  (b =? 32) || (b =? 45) || (b =? 46) || (b =? 95).
Definition name_ok (n : bytes) : bool :=
  negb (is_nil n) && forallb name_byte_ok n && match n with 46 :: _ => false | _ => true end.

Definition sx_load_result (r : res (list case)) : sx :=
  match r with
  | Ok cs => L [B (bs "ok"); sx_nat (length (case_keys cs))]
  | Err => sx_err "config"
  end.

(* ("c06.load" id how name doc) -> (ok n) | (err "config")
   how: 0 = no --conf (the document exists but is not named), 1 = regular file, 2 = named pipe
   (reported size 0), 3 = the named file does not exist, 4 = the name is a directory,
   5 = parseConfig called directly with the document as data *)
Definition run_c06_load (args : list sx) : sx :=
  or_bad (match args with
  | [how; name; d] =>
    do how <- un_N how; do name <- un_B name; do d <- un_doc d;
    let data := doc_bytes d in
    let dec := decode_for d in
    if negb (name_ok name) then None else
    let fs_with (o : fsobj) := fun p => if bytes_eqb p name then o else Absent in
    match how with
    | 0 => ret (sx_load_result (run_load dec [] (fs_with (Node (N.of_nat (length data)) data))))
    | 1 => ret (sx_load_result (run_load dec name (fs_with (Node (N.of_nat (length data)) data))))
    | 2 => ret (sx_load_result (run_load dec name (fs_with (Node 0 data))))
    | 3 => ret (sx_load_result (run_load dec name (fs_with Absent)))
    | 4 => ret (sx_load_result (run_load dec name (fs_with Directory)))
    | 5 => ret (sx_load_result (parse_config_data dec name data))
    | _ => None
    end
  | _ => None end).

(* ("c06.efn" id msg filename) -> (non-nil mentions-file mentions-msg) *)
Definition run_c06_efn (args : list sx) : sx :=
  or_bad (match args with
  | [m; f] =>
    do m <- un_B m; do f <- un_B f;
    ret (match ensure_file_name m f with
         | None => L [I 0%Z; I 0%Z; I 0%Z]
         | Some m' => L [I 1%Z; sx_bool (contains_sub m' f); sx_bool (contains_sub m' m)]
         end)
  | _ => None end).

Definition c06_table : list (bytes * (list sx -> sx)) :=
  c06_parse_table ++ [ (bs "c06.load", run_c06_load); (bs "c06.efn", run_c06_efn) ].
