(* C02_Consts.v - REGENERATED on every run from the compiled Go code by TestVerifConsts
   (harness/C02); do not edit. *)
From Coq Require Import ZArith NArith List.
Import ListNotations.
Definition c02_client_get_options : list Z := [1]%Z.
