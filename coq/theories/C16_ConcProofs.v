(* C16_ConcProofs.v — proofs about C16_Conc.v: the interleaving enumeration is exact, the
   two oracles accept exactly the outcomes of some interleaving, the two-step builder
   with the code's choice (clear inside the lock) delivers what the one-step builder
   delivers, nothing follows a finishing event in a delivered trace. *)
From Coq Require Import Lia.
From V Require Import C16_Spec C16_Proofs C16_Conc.
Open Scope N_scope.

(* ====================================================================== *)
(* shuffles / interleavings                                               *)
(* ====================================================================== *)
Section Shuf.
Context {A : Type}.
Implicit Types l : list A.

Lemma shuffle_nil_l l2 : forall l, Shuffle [] l2 l -> l = l2.
Proof.
  induction l2 as [|b l2 IH]; intros l H; inversion H; subst; [reflexivity|].
  f_equal. apply IH. assumption.
Qed.
Lemma shuffle_nil_r l1 : forall l, Shuffle l1 [] l -> l = l1.
Proof.
  induction l1 as [|a l1 IH]; intros l H; inversion H; subst; [reflexivity|].
  f_equal. apply IH. assumption.
Qed.
Lemma shuffle_l_refl l2 : Shuffle [] l2 l2.
Proof. induction l2; constructor; assumption. Qed.
Lemma shuffle_r_refl l1 : Shuffle l1 [] l1.
Proof. induction l1; constructor; assumption. Qed.

Lemma shuffles_cons (a : A) r1 (b : A) r2 :
  shuffles (a :: r1) (b :: r2) =
  map (cons a) (shuffles r1 (b :: r2)) ++ map (cons b) (shuffles (a :: r1) r2).
Proof. reflexivity. Qed.

Lemma shuffles_sound l1 : forall l2 l, In l (shuffles l1 l2) -> Shuffle l1 l2 l.
Proof.
  induction l1 as [|a r1 IH1]; intros l2 l H.
  - simpl in H. destruct H as [<-|[]]. apply shuffle_l_refl.
  - induction l2 as [|b r2 IH2] in l, H |- *.
    + simpl in H. destruct H as [<-|[]]. apply shuffle_r_refl.
    + rewrite shuffles_cons in H. apply in_app_or in H as [H|H];
        apply in_map_iff in H as (x & <- & Hx).
      * apply Sh_l. apply IH1. exact Hx.
      * apply Sh_r. apply IH2. exact Hx.
Qed.

Lemma shuffles_complete l1 l2 l : Shuffle l1 l2 l -> In l (shuffles l1 l2).
Proof.
  induction 1 as [|a l1 l2 l H IH|a l1 l2 l H IH].
  - left. reflexivity.
  - destruct l2 as [|b r2].
    + apply shuffle_nil_r in H. subst. left. reflexivity.
    + rewrite shuffles_cons. apply in_or_app. left. apply in_map. exact IH.
  - destruct l1 as [|x r1].
    + apply shuffle_nil_l in H. subst. left. reflexivity.
    + rewrite shuffles_cons. apply in_or_app. right. apply in_map. exact IH.
Qed.

Lemma interleavings_iff_proof : forall (ss : list (list A)) l,
  In l (interleavings ss) <-> Interleave ss l.
Proof.
  induction ss as [|s ss IH]; intros l; simpl.
  - split; [intros [<-|[]]; reflexivity|intros ->; left; reflexivity].
  - rewrite in_flat_map. split.
    + intros (m & Hm & Hl). exists m. split; [apply IH, Hm|apply shuffles_sound, Hl].
    + intros (m & Hm & Hl). exists m. split; [apply IH, Hm|apply shuffles_complete, Hl].
Qed.

Lemma existsb_interleavings (p : list A -> bool) ss :
  existsb p (interleavings ss) = true <-> exists l, Interleave ss l /\ p l = true.
Proof.
  rewrite existsb_exists. split; intros (l & H & P); exists l; (split; [|exact P]);
    apply interleavings_iff_proof; exact H.
Qed.
End Shuf.

(* ====================================================================== *)
(* the oracles                                                            *)
(* ====================================================================== *)
Lemma calls_eqb_eq x y : calls_eqb x y = true <-> x = y.
Proof. unfold calls_eqb. destruct (list_eq_dec btrace_eq_dec x y); split; congruence. Qed.

Lemma builder_allowed_iff_proof : forall nm pre ss tail obs,
  ballowed nm pre ss tail obs = true <->
  exists l, Interleave ss l /\ (brun nm (pre ++ l ++ tail)).(b_calls) = obs.
Proof.
  intros. unfold ballowed. rewrite existsb_interleavings.
  split; intros (l & H & E); exists l; (split; [exact H|]); apply calls_eqb_eq; exact E.
Qed.

Lemma tracer_allowed_iff_proof : forall pre ss tail ws ns obs,
  tallowed pre ss tail ws ns obs = true <->
  exists l, Interleave ss l /\ observe (run (pre ++ l ++ tail)) ws ns = obs.
Proof.
  intros. unfold tallowed. rewrite existsb_interleavings.
  split; intros (l & H & E); exists l; (split; [exact H|]);
    destruct (tobs_eq_dec (observe (run (pre ++ l ++ tail)) ws ns) obs); congruence.
Qed.

(* the codes are the ones the scripted kind prints *)
Lemma un_code_wstate s : un_code (sx_wstate s) = Some (wcode s).
Proof. destruct s; reflexivity. Qed.
Lemma un_code_slot o : un_code (sx_slot o) = Some (scode o).
Proof. destruct o as [s|]; [|reflexivity]. simpl. destruct (s_done s); reflexivity. Qed.

(* ====================================================================== *)
(* nothing after the finishing event                                      *)
(* ====================================================================== *)
Lemma recorded_finishing before e : tev_finishing (recorded before e) = finishing e.
Proof. destruct e; reflexivity. Qed.

Lemma numbered_nonfinishing evs : forall before,
  forallb (fun e => negb (finishing e)) evs = true ->
  forallb (fun e => negb (tev_finishing e)) (numbered before evs) = true.
Proof.
  induction evs as [|e evs IH]; intros before H; [reflexivity|].
  simpl in *. apply andb_true_iff in H as [H1 H2]. rewrite recorded_finishing, H1. simpl. apply IH, H2.
Qed.

Lemma adds_nonterminal l : nonterminal l -> forallb (fun e => negb (finishing e)) (adds l) = true.
Proof.
  unfold nonterminal. induction l as [|a l IH]; intros H; [reflexivity|].
  simpl in H. apply andb_true_iff in H as [H1 H2]. destruct a as [e|]; simpl in *.
  - rewrite H1. simpl. apply IH, H2.
  - discriminate.
Qed.

(* a list whose finishing element, if any, is the last one *)
Lemma nothing_after_shape xs ys :
  forallb (fun e => negb (tev_finishing e)) xs = true -> (length ys <= 1)%nat ->
  nothing_after_finish (xs ++ ys).
Proof.
  revert ys. induction xs as [|x xs IH]; intros ys NF LE pre e post E F.
  - destruct ys as [|y [|y2 ys]]; simpl in *; try lia.
    + destruct pre; discriminate.
    + destruct pre as [|p pre]; simpl in E; [inversion E; reflexivity|].
      inversion E. destruct pre; discriminate.
  - simpl in NF. apply andb_true_iff in NF as [N1 N2].
    destruct pre as [|p pre]; simpl in E; inversion E; subst.
    + rewrite F in N1. discriminate.
    + eapply IH; eauto.
Qed.

Lemma no_event_after_finish_proof : forall nm l t,
  In t (brun nm l).(b_calls) -> nothing_after_finish t.(t_events).
Proof.
  intros nm l t H. destruct (frozen_proof nm l) as (_ & F). destruct (F t H) as (_ & ->).
  change (TReqStart :: numbered [] (adds (cut l))) with ([TReqStart] ++ numbered [] (adds (cut l))).
  destruct (split_terminal l) as [(N & _ & C)|(l1 & a & l2 & _ & N & Ta & C & _)]; rewrite C.
  - rewrite <- (app_nil_r ([TReqStart] ++ numbered [] (adds l))).
    apply (nothing_after_shape ([TReqStart] ++ numbered [] (adds l)) []); [|simpl; lia].
    simpl. apply numbered_nonfinishing, adds_nonterminal, N.
  - rewrite adds_app, numbered_app, app_assoc.
    apply (nothing_after_shape ([TReqStart] ++ numbered [] (adds l1))).
    + simpl. apply numbered_nonfinishing, adds_nonterminal, N.
    + destruct a; simpl; lia.
Qed.

(* ====================================================================== *)
(* two-step builder = one-step builder when the trace is cleared in the lock *)
(* ====================================================================== *)
Lemma bstep_add b e :
  bstep b (Add e) =
  if is_nil b.(b_trace).(t_name) then b else
  let '(t', req', resp') := applied b.(b_trace) b.(b_req) b.(b_resp) e in
  if finishing e then mkB empty_trace req' resp' (deliver t' b.(b_calls))
  else mkB t' req' resp' b.(b_calls).
Proof. reflexivity. Qed.

Lemma applied_name t req resp e : t_name (fst (fst (applied t req resp e))) = t_name t.
Proof. reflexivity. Qed.

(* the relation between the two-step state and the one-step state on the same schedule *)
Definition frel (st : fbuilder) (b : builder) : Prop :=
  st.(f_trace) = b.(b_trace) /\ st.(f_req) = b.(b_req) /\ st.(f_resp) = b.(b_resp) /\
  st.(f_calls) ++ ready_traces st.(f_pend) = b.(b_calls) /\
  (forall k, find_pend k st.(f_pend) <> Some NeedBuild) /\
  (st.(f_pend) <> [] -> st.(f_trace) = empty_trace) /\
  (length (ready_traces st.(f_pend)) = length st.(f_pend)) /\
  (length st.(f_pend) <= 1)%nat.

Lemma ready_traces_app l1 l2 : ready_traces (l1 ++ l2) = ready_traces l1 ++ ready_traces l2.
Proof. unfold ready_traces. apply flat_map_app. Qed.

Lemma frel_step st b a : frel st b ->
  frel (fstep true st a) (fold_left bstep (atomic_of [a]) b).
Proof.
  intros (T & RQ & RS & C & NB & PE & LR & L1).
  destruct st as [t req resp pend calls nx]. destruct b as [bt breq bresp bcalls].
  simpl in *. subst bt breq bresp.
  destruct a as [e| |j]; simpl.
  - (* add *)
    destruct (is_nil (t_name t)) eqn:NM.
    + unfold frel; simpl. repeat split; auto.
    + assert (PN : pend = []).
      { destruct pend as [|p pend]; [reflexivity|]. rewrite PE in NM by discriminate. discriminate. }
      subst pend. simpl in *. rewrite app_nil_r in C. subst bcalls.
      destruct (finishing e) eqn:FE; unfold frel; simpl.
      * repeat split; auto.
        -- unfold deliver. simpl. rewrite NM. reflexivity.
        -- intros k. destruct (nx =? k); discriminate.
      * rewrite app_nil_r. repeat split; auto. intros X; congruence.
  - (* build *)
    unfold frel; simpl. destruct (is_nil (t_name t)) eqn:NM.
    + unfold deliver. rewrite NM. repeat split; auto.
    + assert (PN : pend = []).
      { destruct pend as [|p pend]; [reflexivity|]. rewrite PE in NM by discriminate. discriminate. }
      subst pend. simpl in *. rewrite app_nil_r in C. subst bcalls.
      unfold deliver. rewrite NM. repeat split; auto.
      intros k. destruct (nx =? k); discriminate.
  - (* the deferred collector call *)
    destruct (find_pend j pend) as [[d|]|] eqn:FP.
    + destruct pend as [|[j0 p0] [|p1 pend]]; simpl in *; try discriminate; try lia.
      destruct (j0 =? j); [|discriminate]. inversion FP; subst p0. simpl in *.
      unfold frel; simpl. rewrite app_nil_r. repeat split; auto.
      intros X; congruence.
    + exfalso. eapply NB; eauto.
    + unfold frel; simpl. repeat split; auto.
Qed.

Lemma frel_fold l : forall st b, frel st b ->
  frel (fold_left (fstep true) l st) (fold_left bstep (atomic_of l) b).
Proof.
  induction l as [|a l IH]; intros st b R; [exact R|].
  replace (atomic_of (a :: l)) with (atomic_of [a] ++ atomic_of l)
    by (unfold atomic_of; simpl; rewrite app_nil_r; reflexivity).
  rewrite fold_left_app. simpl fold_left at 1. apply IH. apply frel_step. exact R.
Qed.

Lemma two_step_add_proof : forall nm sched,
  (frun true nm sched).(f_calls) ++ ready_traces (frun true nm sched).(f_pend)
  = (brun nm (atomic_of sched)).(b_calls).
Proof.
  intros nm sched. unfold frun, brun.
  assert (R : frel (new_fbuilder nm) (new_builder nm)).
  { unfold frel; simpl. repeat split; auto; try discriminate. intros X; congruence. }
  destruct (frel_fold sched _ _ R) as (_ & _ & _ & C & _). exact C.
Qed.

(* once every deferred call has been made, the collector has seen exactly the one-step calls *)
Lemma two_step_flushed_proof : forall nm sched,
  (frun true nm sched).(f_pend) = [] ->
  (frun true nm sched).(f_calls) = (brun nm (atomic_of sched)).(b_calls).
Proof.
  intros nm sched E. rewrite <- two_step_add_proof, E. simpl. rewrite app_nil_r. reflexivity.
Qed.

(* what acceptance by the builder oracle entails for the observation itself *)
Lemma accepted_calls_sound_proof : forall nm pre ss tail obs,
  ballowed nm pre ss tail obs = true ->
  (length obs <= 1)%nat /\
  (forall t, In t obs ->
     nm <> [] /\ t.(t_name) = nm /\ nothing_after_finish t.(t_events) /\
     req_indices t.(t_events) = upto (length (req_indices t.(t_events))) /\
     resp_indices t.(t_events) = upto (length (resp_indices t.(t_events)))).
Proof.
  intros nm pre ss tail obs H. apply builder_allowed_iff_proof in H as (l & _ & <-).
  set (h := pre ++ l ++ tail). split; [apply (once_per_op_proof nm h)|].
  intros t IN. repeat split.
  - intros ->. rewrite not_delivered in IN by (left; reflexivity). exact IN.
  - apply (proj2 (frozen_proof nm h) t IN).
  - apply (no_event_after_finish_proof nm h t IN).
  - apply (indices_proof nm h t IN).
  - apply (indices_proof nm h t IN).
Qed.
