(* C19_Props.v — the property theorems of C19 and nothing else.
   Each is closed by `exact <lemma>` and followed by Print Assumptions.

   Property text -> theorem:
     "padded so that its serialized size equals the server receive limit plus the requested
      offset exactly"                              expand_exact, case_sound, case_exact
     "or the suite is rejected with an error if that size is unreachable"
                                                   expand_complete, case_complete, unreachable_char
                                                   (rejected ONLY if unreachable / out of range / not paddable)
     "changing nothing but the padding field"      only_padding, case_sound
     (no crash on any directive)                   expand_total, case_total
     (range of the target)                         range_checked, range_upper_dead
     (one-byte tag assumption of field_size)       tag_one_byte        — over the regenerated field numbers
     (Go's SizeVarint formula = protobuf varint)   varint_len_correct
     "A request marked for expansion is padded ... or the suite is rejected", for a whole suite
      file, whatever its other directives            marked_is_expanded_or_rejected, load_only_marking
     (the limit is per message of a stream)          accepts_sharp (2nd half), stream_fails_at, stream_verdict_total
     (the readers the set-up code installs: the limit goes to a per-message reader, nothing bounds the body)
                                                   documented_chain_sharp, per_message_chain_sharp, body_cap_not_sharp,
                                                   installed_readers_documented  — over the regenerated call-site tables
     "the reference server accepts a message of exactly the limit and rejects one byte more ...
      and the reference client does the same"      accepts_sharp / expanded_verdict are statements about the
                                                   SPECIFICATION `accepts`; the real peers (connect-go's
                                                   WithReadMaxBytes) are compared with it by live RPCs on every
                                                   check (kind c19.sharp).  Nothing is proved about connect-go. *)
From V Require Import C19_Spec C19_Proofs C19_StreamProofs.
Open Scope Z_scope.

(* a successful expansion has exactly the wanted size *)
Theorem expand_exact : forall base n0 T n, expand base n0 T = POk n -> msg_size base n = T.
Proof. exact expand_exact_proof. Qed.
Print Assumptions expand_exact.

(* the loop gives up only on sizes that no padding length reaches *)
Theorem expand_complete : forall base n0 T c,
  0 <= base -> 0 <= n0 <= go_int_max -> T <= max_uint32 ->
  expand base n0 T = PErr c -> ~ reachable base T.
Proof. exact expand_complete_proof. Qed.
Print Assumptions expand_complete.

(* no slice-bounds panic, for any base, any existing padding, any target (negative, huge) *)
Theorem expand_total : forall base n0 T, 0 <= n0 -> expand base n0 T <> PCrash.
Proof. exact expand_total_proof. Qed.
Print Assumptions expand_total.

(* exactly which sizes are unreachable: 1, 2 and one value per varint boundary of the length *)
Theorem unreachable_char : forall base T,
  0 <= T - base <= max_uint32 ->
  (~ reachable base T <-> In (T - base) [1; 2; 130; 16387; 2097156; 268435461]).
Proof. exact unreachable_char_proof. Qed.
Print Assumptions unreachable_char.

(* whole function: an accepted test case satisfies the declarative relation `expanded` *)
Theorem case_sound : forall limit dirs ms ms',
  Forall wf_msg ms -> expand_case limit dirs ms = COk ms' -> expanded limit dirs ms ms'.
Proof. exact expand_case_sound_proof. Qed.
Print Assumptions case_sound.

Theorem case_exact : forall limit dirs ms ms',
  Forall wf_msg ms -> expand_case limit dirs ms = COk ms' ->
  forall i d, nth_error dirs i = Some (Some d) ->
  exists m', nth_error ms' i = Some m' /\ size_of m' = limit + d /\ 0 <= limit + d <= max_uint32.
Proof. exact case_exact_proof. Qed.
Print Assumptions case_exact.

(* nothing but padding lengths changes; messages without a directive are untouched *)
Theorem only_padding : forall limit dirs ms ms',
  Forall wf_msg ms -> expand_case limit dirs ms = COk ms' ->
  Forall2 same_but_padding ms ms' /\
  skipn (length dirs) ms' = skipn (length dirs) ms /\
  (forall i, nth_error dirs i = Some None -> nth_error ms' i = nth_error ms i).
Proof. exact only_padding_proof. Qed.
Print Assumptions only_padding.

(* every rejection is justified: too many directives, target out of range, a message that
   has no padding field, or a size that no padding reaches *)
Theorem case_complete : forall limit dirs ms e,
  Forall wf_msg ms -> expand_case limit dirs ms = CErr e -> rejection_justified limit dirs ms e.
Proof. exact case_complete_proof. Qed.
Print Assumptions case_complete.

Theorem case_total : forall limit dirs ms, Forall wf_msg ms -> expand_case limit dirs ms <> CCrash.
Proof. exact case_total_proof. Qed.
Print Assumptions case_total.

(* the range check precedes everything else about the message *)
Theorem range_checked : forall limit d ds m ms,
  ~ (0 <= limit + d <= max_uint32) -> expand_msgs limit (Some d :: ds) (m :: ms) = CErr ERange.
Proof. exact range_checked_proof. Qed.
Print Assumptions range_checked.

(* with the limit compiled into the code and int32 directives the upper bound is dead code *)
Theorem range_upper_dead : forall d,
  -2147483648 <= d <= 2147483647 -> c19_server_receive_limit + d <= max_uint32.
Proof. exact range_upper_dead_proof. Qed.
Print Assumptions range_upper_dead.

Theorem tag_one_byte : forall k, In k c19_pad_field_numbers -> varint_len (k * 8 + 2) = 1.
Proof. exact tag_one_byte_proof. Qed.
Print Assumptions tag_one_byte.

Theorem varint_len_correct : forall n, 0 <= n <= go_int_max -> varint_len_spec n (varint_len n).
Proof. exact varint_len_correct_proof. Qed.
Print Assumptions varint_len_correct.

(* the specification of the limit is sharp, and it is sharp PER MESSAGE of a stream: a stream of
   requests (client stream, bidi) or of responses (server stream, bidi) is accepted iff each
   message in it is within the limit - independent of the number of messages and of what their
   sizes add up to, i.e. of the length of the body that carries them (declared or not).  A limit
   on the body (Content-Length > limit + envelope prefix => resource_exhausted) is NOT this
   specification: see ex_body_length_is_not_the_measure below. *)
Theorem accepts_sharp : forall limit,
  sharp_at limit (accepts limit) /\ stream_sharp_at limit (stream_accepts limit).
Proof. exact accepts_sharp_full_proof. Qed.
Print Assumptions accepts_sharp.

(* a rejected stream fails at the first message above the limit (every earlier one was taken) *)
Theorem stream_fails_at : forall limit sizes i,
  first_rejected limit sizes = Some i <-> fails_at limit sizes i.
Proof. exact stream_fails_at_proof. Qed.
Print Assumptions stream_fails_at.

Theorem stream_verdict_total : forall limit sizes,
  (stream_accepts limit sizes = true /\ first_rejected limit sizes = None) \/
  (stream_accepts limit sizes = false /\ exists i, first_rejected limit sizes = Some i /\ (i < length sizes)%nat).
Proof. exact stream_verdict_total_proof. Qed.
Print Assumptions stream_verdict_total.

Theorem expanded_verdict : forall limit dirs ms ms',
  Forall wf_msg ms -> expand_case limit dirs ms = COk ms' ->
  forall i d, nth_error dirs i = Some (Some d) ->
  exists m', nth_error ms' i = Some m' /\ accepts limit (size_of m') = (d <=? 0).
Proof. exact expanded_verdict_proof. Qed.
Print Assumptions expanded_verdict.

(* ---- non-vacuity and recorded refutations ---- *)
Example ex_boundary_128 : expand 0 0 128 = POk 126 /\ msg_size 0 126 = 128.
Proof. vm_compute. auto. Qed.
Example ex_shrink_below_zero : expand 26 6 10 = PErr 26.    (* clamped, rejected: 10 < base *)
Proof. vm_compute. reflexivity. Qed.
Example ex_gap : expand 7 0 137 = PErr 138 /\ In (137 - 7) [1; 2; 130; 16387; 2097156; 268435461].
Proof. split; [vm_compute; reflexivity|]. right. right. left. reflexivity. Qed.
Example ex_case :
  expand_case 204800 [Some 0; None; Some (-123)] [Padded 22 8; Padded 0 8; Padded 5 300; Opaque 9]
  = COk [Padded 22 204774; Padded 0 8; Padded 5 204668; Opaque 9].
Proof. vm_compute. reflexivity. Qed.
Example ex_range : expand_case 204800 [Some (-300000)] [Opaque 0] = CErr ERange.
Proof. vm_compute. reflexivity. Qed.
Example ex_wf : Forall wf_msg [Padded 22 8; Opaque 9].
Proof. repeat constructor; cbn; unfold go_int_max; try discriminate. Qed.

(* The loop as it stood on the pinned tree (two adjustments, no clamp) violated both
   expand_total and expand_complete; repaired in /repo (see KNOWN_FINDINGS.txt). *)
Example pinned_crash : expand_pinned 0 0 1 = PCrash.
Proof. vm_compute. reflexivity. Qed.
Example pinned_rejects_reachable : expand_pinned 0 0 128 = PErr 127 /\ reachable 0 128.
Proof. split; [vm_compute; reflexivity|]. exists 126. split; [discriminate|vm_compute; reflexivity]. Qed.

(* the prediction the runner's own path is compared with (kind c19.wiring): exact size, accepted
   iff the offset is <= 0; no prediction only where the size is unreachable *)
Theorem wiring_verdict : forall limit off r,
  wiring_one limit off = Some r -> r = L [I limit; I (limit + off); sx_bool (off <=? 0)].
Proof. exact wiring_one_proof. Qed.
Print Assumptions wiring_verdict.

Theorem wiring_defined : forall limit off,
  0 <= limit + off <= max_uint32 -> wiring_one limit off = None -> ~ reachable 0 (limit + off).
Proof. exact wiring_none_proof. Qed.
Print Assumptions wiring_defined.

Example ex_wiring : wiring_all 204800 [-1; 0; 1] =
  Some [L [I 204800; I 204799; I 1]; L [I 204800; I 204800; I 1]; L [I 204800; I 204801; I 0]].
Proof. vm_compute. reflexivity. Qed.

(* ---- streams: non-vacuity ---- *)
Example ex_stream_at_limit : stream_accepts 204800 [204800; 204800; 204800] = true /\
  first_rejected 204800 [204800; 204801; 204800] = Some 1%nat /\
  first_rejected 204800 [204800; 204800; 204801] = Some 2%nat.
Proof. vm_compute. auto. Qed.
(* three messages of exactly the limit: every message is acceptable although the body that carries
   them (5 bytes of envelope prefix each) is three times the limit *)
Example ex_body_length_is_not_the_measure :
  let sizes := [204800; 204800; 204800] in
  stream_accepts 204800 sizes = true /\ 204800 + 5 < fold_right (fun s a => 5 + s + a) 0 sizes.
Proof. vm_compute. auto. Qed.

(* ---- the readers the set-up code installs (kind c19.stream, 2-16 messages per stream) ---- *)
(* the documented chain - the limit handed to the per-message reader and nothing round the body - is sharp
   per message: any number of messages of exactly the limit is accepted *)
Theorem documented_chain_sharp : forall limit,
  stream_sharp_at limit (chain_accepts (documented_chain limit)).
Proof. exact documented_chain_sharp_proof. Qed.
Print Assumptions documented_chain_sharp.

Theorem per_message_chain_sharp : forall limit kinds cap,
  kinds <> [] -> Forall (fun k => k = 0) kinds ->
  stream_sharp_at limit (chain_accepts (chain_of kinds limit cap)).
Proof. exact per_message_chain_sharp_proof. Qed.
Print Assumptions per_message_chain_sharp.

(* no bound on the body, whatever its size, can stand in the chain: it refuses some stream of messages
   that are each of exactly the limit *)
Theorem body_cap_not_sharp : forall limit cap rs,
  0 <= limit -> In (PerBody cap) rs -> ~ stream_sharp_at limit (chain_accepts rs).
Proof. exact body_cap_not_sharp_proof. Qed.
Print Assumptions body_cap_not_sharp.

(* the read-limiting call sites of internal/app/referenceserver and internal/app/referenceclient as the
   code has them now (C19_Consts.v, regenerated from the sources on every run) are the documented chain *)
Theorem installed_readers_documented : forall limit cap,
  chain_of c19_server_read_limiters limit cap = documented_chain limit /\
  chain_of c19_client_read_limiters limit cap = documented_chain limit.
Proof. exact installed_readers_documented_proof. Qed.
Print Assumptions installed_readers_documented.

Example ex_body_cap_refuses_at_limit :
  chain_accepts [PerMessage 204800; PerBody (4 * 204800)] (repeat 204800 3) = true /\
  chain_accepts [PerMessage 204800; PerBody (4 * 204800)] (repeat 204800 4) = false /\
  chain_accepts (documented_chain 204800) (repeat 204800 16) = true.
Proof. vm_compute. auto. Qed.

(* ---- the loader (kind c19.load, and c19.wiring end to end) ---- *)
(* For EVERY suite - relies_on_message_receive_limit set or not, any mode, any stream types, any
   codecs - a load that succeeds has expanded every test case exactly as its directives say, and
   a load that fails names a test case with directives and a justified reason.  There is no third
   outcome (a marked request left un-padded in a loaded suite). *)
Theorem marked_is_expanded_or_rejected : forall limit s,
  wf_suite s ->
  match load_suite limit s with
  | LOk out => suite_loaded limit s out
  | LErr i e => load_rejection_justified limit s i e
  | LCrash => False
  end.
Proof. exact marked_is_expanded_or_rejected_proof. Qed.
Print Assumptions marked_is_expanded_or_rejected.

(* the decision is a function of the codecs and of (directives, messages) of the cases alone *)
Theorem load_only_marking : forall limit s s',
  same_marking s s' -> load_suite limit s = load_suite limit s'.
Proof. exact load_only_marking_proof. Qed.
Print Assumptions load_only_marking.

Example ex_load_unflagged :
  load_suite 204800 {| s_flag := false; s_mode := 2; s_codecs := [1];
     s_cases := [ {| t_stream := 2; t_dirs := [Some 0; None; Some 1]; t_msgs := [Padded 17 0; Padded 0 12; Padded 0 12] |};
                  {| t_stream := 1; t_dirs := []; t_msgs := [Padded 3 4] |} ] |}
  = LOk [[Padded 17 204779; Padded 0 12; Padded 0 204797]; [Padded 3 4]].
Proof. vm_compute. reflexivity. Qed.
Example ex_load_unreachable_unflagged :
  load_suite 204800 {| s_flag := false; s_mode := 2; s_codecs := [1];
     s_cases := [ {| t_stream := 1; t_dirs := []; t_msgs := [Padded 3 4] |};
                  {| t_stream := 1; t_dirs := [Some (-204799)]; t_msgs := [Padded 0 0] |} ] |}
  = LErr 1 (LExpand EUnreachable).
Proof. vm_compute. reflexivity. Qed.
Example ex_load_codec :
  load_suite 204800 {| s_flag := true; s_mode := 1; s_codecs := [1; 2];
     s_cases := [ {| t_stream := 1; t_dirs := []; t_msgs := [Padded 3 4] |};
                  {| t_stream := 1; t_dirs := [None]; t_msgs := [Padded 0 0] |} ] |}
  = LErr 1 LCodec.
Proof. vm_compute. reflexivity. Qed.
Example ex_wf_suite : wf_suite {| s_flag := false; s_mode := 0; s_codecs := [];
     s_cases := [ {| t_stream := 1; t_dirs := [Some 0]; t_msgs := [Padded 3 4; Opaque 2] |} ] |}.
Proof. repeat constructor; cbn; unfold go_int_max; try discriminate. Qed.

(* ---------- fourth wave ---------- *)
(* the reference client hands its limit to the library for EVERY codec: the readers it installs are the
   documented chain, sharp per message, whatever the codec of the RPC *)
Theorem client_limit_any_codec : forall codec limit,
  0 < limit -> client_readers codec limit = documented_chain limit /\
               stream_sharp_at limit (chain_accepts (client_readers codec limit)).
Proof. exact client_limit_any_codec_proof. Qed.
Print Assumptions client_limit_any_codec.

(* fifth wave.  One reference client process serves a HISTORY of requests, each carrying its own limit: the outcome of
   a request inside any history (whatever came before and comes after it) is its outcome alone *)
Theorem client_limit_is_per_request : forall codec before r after,
  nth_error (client_seq_outcomes codec (before ++ r :: after)) (length before)
  = nth_error (client_seq_outcomes codec [r]) 0.
Proof. exact client_limit_is_per_request_proof. Qed.
Print Assumptions client_limit_is_per_request.

(* ... the loop started after ANY history gives the same outcomes *)
Theorem client_history_irrelevant : forall codec seen1 seen2 reqs,
  client_process codec seen1 reqs = client_process codec seen2 reqs.
Proof. exact client_history_irrelevant_proof. Qed.
Print Assumptions client_history_irrelevant.

(* ... and the k-th request of every history is held to exactly ITS limit: accepted iff size <= its own limit when it
   carries one, accepted when it carries none *)
Theorem client_seq_sharp_at_own_limit : forall codec reqs k limit size,
  nth_error reqs k = Some (limit, size) ->
  (0 < limit -> exists b, nth_error (client_seq_outcomes codec reqs) k = Some b /\ (b = true <-> size <= limit)) /\
  (limit <= 0 -> nth_error (client_seq_outcomes codec reqs) k = Some true).
Proof. exact client_seq_sharp_at_own_limit_proof. Qed.
Print Assumptions client_seq_sharp_at_own_limit.

Example ex_client_history_small_default_large :
  client_seq_outcomes 1 [(1024, 1024); (1024, 1025); (1048576, 1048576); (1048576, 1048577); (3145728, 3145728);
                         (3145728, 3145729); (0, 4194304); (1024, 1025)]
  = [true; false; true; false; true; false; true; false].
Proof. reflexivity. Qed.

(* the reference server's ClientStream handler answers resource_exhausted iff SOME message is above the limit -
   whatever the response definition asks for - and what the definition asks for iff every message is within it *)
Theorem receive_error_comes_first : forall limit def sizes,
  (client_stream_handler limit def sizes = OExhausted <-> exists s, In s sizes /\ limit < s) /\
  (client_stream_handler limit def sizes = match def with DefData => OResponse | DefError => ODefinedError end
     <-> forall s, In s sizes -> s <= limit).
Proof. exact receive_error_comes_first_proof. Qed.
Print Assumptions receive_error_comes_first.

Example ex_error_definition_does_not_hide_the_limit :
  client_stream_handler 204800 DefError [14; 204801] = OExhausted /\
  client_stream_handler 204800 DefError [14; 204800] = ODefinedError /\
  chain_accepts (client_readers 2 1048576) [1048577] = false.
Proof. repeat split; reflexivity. Qed.

(* the code's padding source (a fresh make([]byte, delta) per step) is unbounded: the loop with it is the proved loop *)
Theorem unbounded_source_is_expand : forall left base T n,
  pad_loop_src padding_source left base T n = pad_loop left true base T n.
Proof. exact unbounded_source_is_expand_proof. Qed.
Print Assumptions unbounded_source_is_expand.

(* ... and it has to be: with ANY source of bounded length c, clamped per step, the three adjustments allowed
   reject a reachable size (3 c + 11 bytes of padding more than there are), for every message and existing padding *)
Theorem bounded_source_rejects_reachable : forall c base n0,
  0 <= c -> 0 <= n0 -> n0 + 3 * c + 11 <= go_int_max ->
  let T := msg_size base (n0 + 3 * c + 11) in
  reachable base T /\ forall n, pad_loop_src (Some c) max_adjust base T n0 <> POk n.
Proof. exact bounded_source_rejects_reachable_proof. Qed.
Print Assumptions bounded_source_rejects_reachable.

Example ex_shared_buffer_4MiB :
  pad_loop_src (Some 1048576) max_adjust 0 (204800 + 4194304) 0 = PErr 3145733 /\
  expand 0 0 (204800 + 4194304) = POk 4399099.
Proof. split; vm_compute; reflexivity. Qed.
