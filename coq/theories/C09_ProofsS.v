(* C09_ProofsS.v — JSON variant, every byte string: the decoder's result does not depend on the
   read schedule as soon as the scanner never revises a verdict when more bytes arrive
   (scanner_stable); and the bracket scanner the model is run with is stable. *)
From Coq Require Import Lia.
From V Require Import C09_Spec C09_Proofs.
Open Scope N_scope.

Section JsonAny.
  Variable scan : bytes -> scan_res.
  Hypothesis Hstable : scanner_stable scan.

  Definition jnext_post (eg : bool) (t : tail_t) (whole : bytes) (r : jres) : Prop :=
    match scan whole with
    | SComplete v rest => exists rest' d' sch', r = JVal v rest' (mk_src d' sch' eg t) /\ rest' ++ d' = rest
    | SInvalid => r = JSyntax
    | SNeedMore =>
      match t with
      | TEOF => exists s', r = JErr (if non_space whole then MUnexpected else MEOF) s'
      | TFail => exists s', r = JErr MIO s'
      | TBlock => r = JBlock
      end
    end.

  Lemma json_loop_post eg t : forall fuel buf d sch lasterr,
    (length sch + length d + 1 < fuel)%nat ->
    (lasterr = None \/ (lasterr = tail_err t /\ d = [])) ->
    jnext_post eg t (buf ++ d) (json_loop scan fuel buf (mk_src d sch eg t) lasterr).
  Proof.
    destruct Hstable as [Hc Hi].
    induction fuel as [|f IH]; intros buf d sch lasterr Hf Hle; [lia|].
    cbn [json_loop]. destruct (scan buf) as [v r| |] eqn:Hs.
    - unfold jnext_post. rewrite (Hc _ _ _ d Hs). exists r, d, sch. split; reflexivity.
    - (* more needed *)
      assert (Hend : d = [] -> scan (buf ++ d) = SNeedMore) by (intros ->; now rewrite app_nil_r).
      destruct Hle as [->|[-> ->]].
      + destruct d as [|x d'].
        * unfold src_read. cbn [s_data s_tail]. change (big_buf =? 0) with false. cbv iota.
          destruct f as [|f']; [cbn in Hf; lia|]. unfold jnext_post. rewrite Hend by reflexivity.
          destruct t; cbn [tail_err json_loop]; rewrite ?app_nil_r, ?Hs; eauto.
        * destruct (src_read_big (x :: d') sch eg t ltac:(discriminate)) as [(m & Hm & Hm0 & ->)|(m & _ & Hsch & ->)].
          -- replace (buf ++ x :: d') with ((buf ++ firstn m (x :: d')) ++ skipn m (x :: d'))
               by (now rewrite <- app_assoc, firstn_skipn).
             apply IH.
             ++ rewrite skipn_length. destruct sch; cbn [length tl] in *; [|lia].
                destruct (Hm0 eq_refl); [lia|]. rewrite skipn_length in *. lia.
             ++ destruct (skipn m (x :: d')); [|left; reflexivity].
                destruct eg; [right; split; reflexivity|left; reflexivity].
          -- rewrite app_nil_r. apply IH; [|left; reflexivity].
             destruct sch; [congruence|]. cbn [length tl] in *. lia.
      + unfold jnext_post. rewrite Hend by reflexivity. rewrite app_nil_r.
        destruct t; cbn [tail_err]; eauto.
    - unfold jnext_post. rewrite (Hi _ d Hs). reflexivity.
  Qed.

  Lemma json_all_loop_spec eg t : forall fuel buf d sch,
    json_all_loop scan fuel buf (mk_src d sch eg t) = json_spec scan fuel t (buf ++ d).
  Proof.
    induction fuel as [|f IH]; intros buf d sch; [reflexivity|].
    cbn [json_all_loop json_spec]. unfold json_next.
    pose proof (json_loop_post eg t (S (S (read_fuel (mk_src d sch eg t)))) buf d sch None
                  ltac:(unfold read_fuel; cbn; lia) ltac:(left; reflexivity)) as H.
    unfold jnext_post in H. destruct (scan (buf ++ d)) as [v rest| |].
    - destruct H as (rest' & d' & sch' & -> & <-). rewrite IH. reflexivity.
    - unfold json_ending. destruct t; [destruct H as [s' ->]|rewrite H|destruct H as [s' ->]]; reflexivity.
    - rewrite H. reflexivity.
  Qed.

  Lemma json_any_sched_proof : forall d sch eg t,
    json_all scan (mk_src d sch eg t) = json_expected scan t d.
  Proof. intros. unfold json_all, json_expected. cbn [s_data]. now rewrite json_all_loop_spec. Qed.
End JsonAny.

(* ---------- the bracket scanner used to run the model is stable ---------- *)
Lemma jscan_body_stable : forall b depth instr esc acc x,
  (forall v rest, jscan_body depth instr esc acc b = SComplete v rest ->
                  jscan_body depth instr esc acc (b ++ x) = SComplete v (rest ++ x)) /\
  (jscan_body depth instr esc acc b = SInvalid -> jscan_body depth instr esc acc (b ++ x) = SInvalid).
Proof.
  induction b as [|c b IH]; intros depth instr esc acc x; [split; [intros v rest|]; discriminate|].
  cbn [jscan_body app].
  destruct instr.
  - destruct esc; [apply IH|]. destruct (c =? 92); [apply IH|]. destruct (c =? 34); apply IH.
  - destruct (c =? 34); [apply IH|]. destruct ((c =? 123) || (c =? 91)); [apply IH|].
    destruct ((c =? 125) || (c =? 93)); [|apply IH].
    destruct depth as [|[|d]].
    + split; [intros v rest|]; [discriminate|reflexivity].
    + split; [intros v rest E; inversion E; reflexivity|discriminate].
    + apply IH.
Qed.

Lemma jscan_stable_proof : scanner_stable jscan.
Proof.
  split.
  - induction b as [|c b IH]; intros v rest x E; [discriminate|].
    cbn [jscan app] in *. destruct (is_json_ws c); [now apply IH|].
    destruct ((c =? 123) || (c =? 91)); [|discriminate].
    change (c :: b ++ x) with ((c :: b) ++ x). now apply jscan_body_stable.
  - induction b as [|c b IH]; intros x E; [discriminate|].
    cbn [jscan app] in *. destruct (is_json_ws c); [now apply IH|].
    destruct ((c =? 123) || (c =? 91)); [|reflexivity].
    change (c :: b ++ x) with ((c :: b) ++ x). now apply jscan_body_stable.
Qed.

Lemma json_any_sched_jscan_proof : forall d sch eg t,
  json_all jscan (mk_src d sch eg t) = json_expected jscan t d.
Proof. apply json_any_sched_proof. exact jscan_stable_proof. Qed.
