(* C04_Proofs.v — the outcome map after ANY history shows, per case, what the history
   says is on record; report() classifies, counts and names accordingly; the verdict is
   the truth table of C04_Spec.  Induction over histories and over the outcome map. *)
From Coq Require Import Lia Permutation.
From V Require Import C04_Spec.
Open Scope nat_scope.

(* ====================================================================== *)
(* association lists                                                       *)
(* ====================================================================== *)
Definition keys (l : list (name * outcome)) : list name := map fst l.

Lemma beq_sym a b : bytes_eqb a b = bytes_eqb b a.
Proof. destruct (bytes_eqb_spec a b), (bytes_eqb_spec b a); congruence. Qed.

Lemma lookup_put l n o m :
  lookup (put l n o) m = if bytes_eqb m n then Some o else lookup l m.
Proof.
  induction l as [|[k o'] l IH]; simpl.
  - reflexivity.
  - destruct (bytes_eqb_spec n k) as [->|Hnk]; simpl.
    + destruct (bytes_eqb_spec m k); reflexivity.
    + rewrite IH. destruct (bytes_eqb_spec m k) as [->|Hmk]; [|reflexivity].
      destruct (bytes_eqb_spec k n); [congruence|reflexivity].
Qed.

Lemma in_keys_put l n o m : In m (keys (put l n o)) <-> m = n \/ In m (keys l).
Proof.
  induction l as [|[k o'] l IH]; simpl.
  - intuition.
  - destruct (bytes_eqb_spec n k) as [->|Hnk]; simpl.
    + intuition.
    + rewrite IH. intuition.
Qed.

Lemma nodup_keys_put l n o : NoDup (keys l) -> NoDup (keys (put l n o)).
Proof.
  induction l as [|[k o'] l IH]; simpl; intros H.
  - constructor; [intros []|constructor].
  - inversion H as [|? ? Hk Hl]; subst.
    destruct (bytes_eqb_spec n k) as [->|Hnk]; simpl.
    + constructor; assumption.
    + constructor; [|apply IH; exact Hl].
      change (~ In k (keys (put l n o))). rewrite in_keys_put. intros [E|E]; [congruence|tauto].
Qed.

Lemma lookup_in_keys l n : lookup l n <> None <-> In n (keys l).
Proof.
  induction l as [|[k o] l IH]; simpl.
  - intuition.
  - destruct (bytes_eqb_spec n k) as [->|Hnk].
    + split; [auto|discriminate].
    + rewrite IH. split; [auto|]. intros [E|E]; [congruence|exact E].
Qed.

Lemma lookup_none_keys l n : lookup l n = None <-> ~ In n (keys l).
Proof.
  rewrite <- lookup_in_keys. destruct (lookup l n); split; try congruence; try tauto.
  intros H. exfalso. apply H. discriminate.
Qed.

Lemma mem_cons n m l : mem_bytes n (m :: l) = bytes_eqb n m || mem_bytes n l.
Proof. reflexivity. Qed.

Lemma mem_false n l : mem_bytes n l = false <-> ~ In n l.
Proof.
  rewrite <- mem_bytes_in. destruct (mem_bytes n l); split; congruence.
Qed.

(* ====================================================================== *)
(* one step, seen from one name                                            *)
(* ====================================================================== *)
Section STEP.
Variable c : cfg.

Lemma lookup_set st n r m :
  lookup (outcomes (set_outcome c st n r)) m
  = if bytes_eqb m n then Some (mk_outcome c n r) else lookup (outcomes st) m.
Proof. unfold set_outcome; simpl. apply lookup_put. Qed.

Lemma lookup_fold_set r ns : forall st m,
  lookup (outcomes (fold_left (fun s n => set_outcome c s n r) ns st)) m
  = if mem_bytes m ns then Some (mk_outcome c m r) else lookup (outcomes st) m.
Proof.
  induction ns as [|n ns IH]; intros st m; simpl fold_left.
  - reflexivity.
  - rewrite IH, mem_cons, lookup_set.
    destruct (mem_bytes m ns); [rewrite orb_true_r; reflexivity|]. rewrite orb_false_r.
    destruct (bytes_eqb_spec m n) as [->|]; reflexivity.
Qed.

Definition fill_one (k : errkind) (s : state) (n : name) : state :=
  match lookup (outcomes s) n with
  | Some _ => s
  | None => set_outcome c s n (Fail true k)
  end.

Lemma lookup_fold_fill k ns : forall st m,
  lookup (outcomes (fold_left (fill_one k) ns st)) m
  = match lookup (outcomes st) m with
    | Some o => Some o
    | None => if mem_bytes m ns then Some (mk_outcome c m (Fail true k)) else None
    end.
Proof.
  induction ns as [|n ns IH]; intros st m; simpl fold_left.
  - destruct (lookup (outcomes st) m); reflexivity.
  - rewrite IH, mem_cons. unfold fill_one.
    destruct (lookup (outcomes st) n) eqn:En.
    + destruct (lookup (outcomes st) m) eqn:Em; [reflexivity|].
      destruct (bytes_eqb_spec m n) as [->|]; [congruence|reflexivity].
    + rewrite lookup_set. destruct (bytes_eqb_spec m n) as [->|Hmn].
      * rewrite En. reflexivity.
      * destruct (lookup (outcomes st) m); reflexivity.
Qed.

Lemma sideband_fold_set r ns : forall st,
  sideband (fold_left (fun s n => set_outcome c s n r) ns st) = sideband st.
Proof. induction ns as [|n ns IH]; intros st; simpl; [reflexivity|]. rewrite IH. reflexivity. Qed.

Lemma sideband_fold_fill k ns : forall st,
  sideband (fold_left (fill_one k) ns st) = sideband st.
Proof.
  induction ns as [|n ns IH]; intros st; simpl; [reflexivity|]. rewrite IH.
  unfold fill_one. destruct (lookup (outcomes st) n); reflexivity.
Qed.

Lemma nodup_fold_set r ns : forall st,
  NoDup (keys (outcomes st)) ->
  NoDup (keys (outcomes (fold_left (fun s n => set_outcome c s n r) ns st))).
Proof.
  induction ns as [|n ns IH]; intros st H; simpl; [exact H|].
  apply IH. unfold set_outcome; simpl. apply nodup_keys_put. exact H.
Qed.

Lemma nodup_fold_fill k ns : forall st,
  NoDup (keys (outcomes st)) -> NoDup (keys (outcomes (fold_left (fill_one k) ns st))).
Proof.
  induction ns as [|n ns IH]; intros st H; simpl; [exact H|].
  apply IH. unfold fill_one. destruct (lookup (outcomes st) n); [exact H|].
  unfold set_outcome; simpl. apply nodup_keys_put. exact H.
Qed.

Lemma step_fill st ns k :
  step c st (OFailRemaining ns k) = fold_left (fill_one k) ns st.
Proof. reflexivity. Qed.

Lemma run_snoc h o : run c (h ++ [o]) = step c (run c h) o.
Proof. unfold run. rewrite fold_left_app. reflexivity. Qed.

Lemma on_record_snoc h o n : on_record (h ++ [o]) n = on_record_rev (o :: rev h) n.
Proof. unfold on_record. rewrite rev_unit. reflexivity. Qed.

(* the map shows, for every name, exactly what the history has on record *)
Lemma lookup_run h : forall n,
  lookup (outcomes (run c h)) n = option_map (mk_outcome c n) (on_record h n).
Proof.
  induction h as [|o h IH] using rev_ind; intros n.
  - reflexivity.
  - rewrite run_snoc, on_record_snoc. fold (on_record h n).
    destruct o as [m r|m|m ok|ns k|ns k|m]; cbn [on_record_rev].
    + cbn [step]. rewrite lookup_set. destruct (bytes_eqb_spec n m) as [->|]; [reflexivity|apply IH].
    + cbn [step]. rewrite lookup_set. destruct (bytes_eqb_spec n m) as [->|]; [reflexivity|apply IH].
    + cbn [step]. rewrite lookup_set. destruct (bytes_eqb_spec n m) as [->|]; [reflexivity|apply IH].
    + cbn [step]. rewrite lookup_fold_set. destruct (mem_bytes n ns); [reflexivity|apply IH].
    + rewrite step_fill, lookup_fold_fill, IH. fold (on_record h n).
      destruct (on_record h n); simpl; [reflexivity|]. destruct (mem_bytes n ns); reflexivity.
    + cbn [step]. simpl outcomes. apply IH.
Qed.

Lemma nodup_run h : NoDup (keys (outcomes (run c h))).
Proof.
  induction h as [|o h IH] using rev_ind.
  - constructor.
  - rewrite run_snoc. destruct o as [m r|m|m ok|ns k|ns k|m]; cbn [step].
    + apply nodup_keys_put, IH.
    + apply nodup_keys_put, IH.
    + apply nodup_keys_put, IH.
    + apply nodup_fold_set, IH.
    + apply (nodup_fold_fill k ns), IH.
    + exact IH.
Qed.

Lemma sideband_run h n : In n (sideband (run c h)) <-> has_feedback h n = true.
Proof.
  induction h as [|o h IH] using rev_ind.
  - simpl. split; [intros []|discriminate].
  - rewrite run_snoc. unfold has_feedback. rewrite existsb_app. fold (has_feedback h n).
    rewrite orb_true_iff, <- IH. simpl existsb. rewrite orb_false_r.
    destruct o as [m r|m|m ok|ns k|ns k|m]; cbn [step].
    + simpl. intuition discriminate.
    + simpl. intuition discriminate.
    + simpl. intuition discriminate.
    + rewrite sideband_fold_set. intuition discriminate.
    + rewrite (sideband_fold_fill k ns). intuition discriminate.
    + simpl sideband. destruct (mem_bytes m (sideband (run c h))) eqn:E.
      * split; [auto|]. intros [H|H]; [exact H|].
        apply bytes_eqb_eq in H; subst. apply mem_bytes_in. exact E.
      * rewrite in_app_iff. simpl. split.
        -- intros [H|[H|[]]]; [auto|]. right. subst. apply bytes_eqb_refl.
        -- intros [H|H]; [auto|]. right. left. apply bytes_eqb_eq in H. congruence.
Qed.

End STEP.

(* ====================================================================== *)
(* what is on record, relationally                                         *)
(* ====================================================================== *)
Lemma reports_dec o n : (exists r, reports o n r) \/ ~ reports_on o n.
Proof.
  destruct o as [m r|m|m ok|ns k|ns k|m]; simpl.
  - destruct (bytes_eqb_spec m n) as [->|H]; [left; eauto|right; intros (r' & E & _); congruence].
  - destruct (bytes_eqb_spec m n) as [->|H]; [left; eauto|right; intros (r' & E & _); congruence].
  - destruct (bytes_eqb_spec m n) as [->|H]; [left; eauto|right; intros (r' & E & _); congruence].
  - destruct (mem_bytes n ns) eqn:E.
    + apply mem_bytes_in in E. left; eauto.
    + apply mem_false in E. right; intros (r' & H & _); tauto.
  - right; intros (r' & []).
  - right; intros (r' & []).
Qed.

(* a reporting operation decides, whatever came before *)
Lemma rev_reports o n r rest : reports o n r -> on_record_rev (o :: rest) n = Some r.
Proof.
  destruct o as [m r'|m|m ok|ns k|ns k|m]; simpl; try tauto.
  - intros [-> ->]. rewrite bytes_eqb_refl. reflexivity.
  - intros [-> ->]. rewrite bytes_eqb_refl. reflexivity.
  - intros [-> ->]. rewrite bytes_eqb_refl. reflexivity.
  - intros [H ->]. apply mem_bytes_in in H. rewrite H. reflexivity.
Qed.

(* a non-reporting operation never replaces what is on record *)
Lemma rev_keeps o n r rest :
  ~ reports_on o n -> on_record_rev rest n = Some r -> on_record_rev (o :: rest) n = Some r.
Proof.
  intros NR E. destruct o as [m r'|m|m ok|ns k|ns k|m]; simpl.
  - destruct (bytes_eqb_spec n m) as [->|]; [exfalso; apply NR; exists r'; simpl; auto|exact E].
  - destruct (bytes_eqb_spec n m) as [->|]; [exfalso; apply NR; eexists; simpl; eauto|exact E].
  - destruct (bytes_eqb_spec n m) as [->|]; [exfalso; apply NR; eexists; simpl; eauto|exact E].
  - destruct (mem_bytes n ns) eqn:M; [|exact E].
    apply mem_bytes_in in M. exfalso; apply NR; eexists; simpl; eauto.
  - rewrite E. reflexivity.
  - exact E.
Qed.

(* an operation that does not touch the name changes nothing *)
Lemma rev_untouched o n rest : ~ touches o n -> on_record_rev (o :: rest) n = on_record_rev rest n.
Proof.
  intros NT. destruct o as [m r'|m|m ok|ns k|ns k|m]; simpl.
  - destruct (bytes_eqb_spec n m) as [->|]; [exfalso; apply NT; left; exists r'; simpl; auto|reflexivity].
  - destruct (bytes_eqb_spec n m) as [->|]; [exfalso; apply NT; left; eexists; simpl; eauto|reflexivity].
  - destruct (bytes_eqb_spec n m) as [->|]; [exfalso; apply NT; left; eexists; simpl; eauto|reflexivity].
  - destruct (mem_bytes n ns) eqn:M; [|reflexivity].
    apply mem_bytes_in in M. exfalso; apply NT; left; eexists; simpl; eauto.
  - destruct (on_record_rev rest n); [reflexivity|].
    destruct (mem_bytes n ns) eqn:M; [|reflexivity].
    apply mem_bytes_in in M. exfalso; apply NT; right; eexists; simpl; eauto.
  - reflexivity.
Qed.

Lemma on_record_app_keep A B n r :
  (forall o, In o B -> ~ reports_on o n) -> on_record A n = Some r -> on_record (A ++ B) n = Some r.
Proof.
  unfold on_record. rewrite rev_app_distr. intros NR E.
  assert (NR' : forall o, In o (rev B) -> ~ reports_on o n) by (intros o H; apply NR, in_rev, H).
  clear NR. induction (rev B) as [|o l IH]; simpl app; [exact E|].
  apply rev_keeps; [apply NR'; left; reflexivity|]. apply IH. intros o' H; apply NR'; right; exact H.
Qed.

Lemma on_record_app_skip A B n :
  (forall o, In o A -> ~ touches o n) -> on_record (A ++ B) n = on_record B n.
Proof.
  unfold on_record. rewrite rev_app_distr. intros NT.
  assert (NT' : forall o, In o (rev A) -> ~ touches o n) by (intros o H; apply NT, in_rev, H).
  clear NT.
  assert (E0 : on_record_rev (rev A) n = None).
  { induction (rev A) as [|o l IH]; [reflexivity|].
    rewrite rev_untouched by (apply NT'; left; reflexivity).
    apply IH. intros o' H; apply NT'; right; exact H. }
  induction (rev B) as [|o l IH]; simpl app; [exact E0|].
  destruct o as [m r'|m|m ok|ns k|ns k|m]; simpl; rewrite ?IH; reflexivity.
Qed.

(* the latest report on a case is what is on record *)
Lemma on_record_last_proof h1 o h2 n r :
  reports o n r -> (forall o', In o' h2 -> ~ reports_on o' n) ->
  on_record (h1 ++ o :: h2) n = Some r.
Proof.
  intros R NR. change (o :: h2) with ([o] ++ h2). rewrite app_assoc.
  apply on_record_app_keep; [exact NR|].
  rewrite on_record_snoc. apply rev_reports, R.
Qed.

(* failRemaining fills in a case that has nothing on record, and only such a case *)
Lemma on_record_filled_proof h1 ns k h2 n :
  (forall o, In o h1 -> ~ touches o n) -> In n ns ->
  (forall o, In o h2 -> ~ reports_on o n) ->
  on_record (h1 ++ OFailRemaining ns k :: h2) n = Some (Fail true k).
Proof.
  intros NT I NR. rewrite on_record_app_skip by exact NT.
  change (OFailRemaining ns k :: h2) with ([OFailRemaining ns k] ++ h2).
  apply on_record_app_keep; [exact NR|].
  unfold on_record; simpl. apply mem_bytes_in in I. rewrite I. reflexivity.
Qed.

Lemma rev_some_mono o n rest :
  on_record_rev rest n <> None -> on_record_rev (o :: rest) n <> None.
Proof.
  intros H. destruct (on_record_rev rest n) as [r|] eqn:E; [clear H|congruence].
  destruct (reports_dec o n) as [(r' & R)|NR].
  - rewrite (rev_reports _ _ _ _ R). discriminate.
  - rewrite (rev_keeps _ _ _ _ NR E). discriminate.
Qed.

Lemma rev_touch_some o n rest : touches o n -> on_record_rev (o :: rest) n <> None.
Proof.
  intros [(r & R)|(r & F)].
  - rewrite (rev_reports _ _ _ _ R). discriminate.
  - destruct o as [m r'|m|m ok|ns k|ns k|m]; simpl in F; try tauto.
    destruct F as [I _]. apply mem_bytes_in in I. simpl. rewrite I.
    destruct (on_record_rev rest n); discriminate.
Qed.

Lemma rev_none_untouched l n :
  on_record_rev l n = None -> forall o, In o l -> ~ touches o n.
Proof.
  induction l as [|x l IH]; intros E o I; [destruct I|].
  destruct I as [<-|I].
  - intros T. apply (rev_touch_some _ _ l) in T. congruence.
  - apply IH; [|exact I].
    destruct (on_record_rev l n) eqn:El; [|reflexivity].
    exfalso. apply (rev_some_mono x n l); [rewrite El; discriminate|exact E].
Qed.

(* nothing is on record exactly when no operation ever touched the case *)
Lemma on_record_none_iff_proof h n :
  on_record h n = None <-> forall o, In o h -> ~ touches o n.
Proof.
  split.
  - intros E o I. apply (rev_none_untouched _ _ E). apply in_rev in I. exact I.
  - intros NT. rewrite <- (app_nil_r h). rewrite on_record_app_skip by exact NT. reflexivity.
Qed.

(* ====================================================================== *)
(* merging the feedback                                                    *)
(* ====================================================================== *)
Definition fed (c : cfg) (n : name) (o : option outcome) : outcome :=
  match o with Some o => add_feedback o | None => mk_outcome c n (Fail false EFeedback) end.

Lemma add_feedback_idem o : add_feedback (add_feedback o) = add_feedback o.
Proof. destruct o as [[k|] s a b]; reflexivity. Qed.

Lemma lookup_merge_one c outs m n :
  lookup (merge_one c outs m) n
  = if bytes_eqb n m then Some (fed c m (lookup outs m)) else lookup outs n.
Proof.
  unfold merge_one, fed. destruct (lookup outs m); rewrite lookup_put; reflexivity.
Qed.

Lemma lookup_merged_gen c sb : forall outs n,
  lookup (fold_left (merge_one c) sb outs) n
  = if mem_bytes n sb then Some (fed c n (lookup outs n)) else lookup outs n.
Proof.
  induction sb as [|m sb IH]; intros outs n; simpl fold_left.
  - reflexivity.
  - rewrite IH, mem_cons, lookup_merge_one.
    destruct (bytes_eqb_spec n m) as [->|Hnm]; simpl orb.
    + destruct (mem_bytes m sb); [|reflexivity].
      f_equal. unfold fed at 1. unfold fed. destruct (lookup outs m).
      * apply add_feedback_idem.
      * reflexivity.
    + reflexivity.
Qed.

Lemma in_keys_merge_one c outs m n :
  In n (keys (merge_one c outs m)) <-> n = m \/ In n (keys outs).
Proof. unfold merge_one. destruct (lookup outs m); apply in_keys_put. Qed.

Lemma in_keys_merged_gen c sb : forall outs n,
  In n (keys (fold_left (merge_one c) sb outs)) <-> In n sb \/ In n (keys outs).
Proof.
  induction sb as [|m sb IH]; intros outs n; simpl fold_left.
  - simpl. tauto.
  - rewrite IH, in_keys_merge_one. simpl. intuition.
Qed.

Lemma nodup_merged_gen c sb : forall outs,
  NoDup (keys outs) -> NoDup (keys (fold_left (merge_one c) sb outs)).
Proof.
  induction sb as [|m sb IH]; intros outs H; simpl fold_left; [exact H|].
  apply IH. unfold merge_one. destruct (lookup outs m); apply nodup_keys_put, H.
Qed.

(* ====================================================================== *)
(* one case: the switch of report() is the truth table                     *)
(* ====================================================================== *)
Definition marking_of (kf kfl : bool) : marking :=
  if kf then KnownFailing else if kfl then KnownFlaky else Unmarked.

Lemma marks_agree_of a b m : marks_agree a b m -> marking_of a b = m.
Proof. destruct 1; reflexivity. Qed.

(* the outcome the merged map holds for a case with `r` on record and feedback `fb` *)
Definition final_outcome (c : cfg) (n : name) (r : option res) (fb : bool) : option outcome :=
  if fb then Some (fed c n (option_map (mk_outcome c n) r)) else option_map (mk_outcome c n) r.

Lemma classify_bucket c n r fb o :
  final_outcome c n r fb = Some o ->
  classify o = bucket (marking_of (c_kf c n) (c_kfl c n)) (fate_of r) fb.
Proof.
  unfold final_outcome, fed, mk_outcome, add_feedback, classify, marking_of.
  destruct (c_kf c n), (c_kfl c n); destruct fb; destruct r as [[|s k]|]; simpl;
    intros E; inversion E; subst; clear E;
    simpl; try reflexivity; destruct s; destruct k; reflexivity.
Qed.

Lemma met_bucket m f fb :
  met m f fb = true <-> bucket m f fb = CPassed \/ bucket m f fb = CExpected.
Proof.
  destruct m, f, fb; simpl; split; intros H; try reflexivity; try discriminate; auto;
    destruct H; discriminate.
Qed.

Lemma no_outcome_bucket c n r fb m :
  final_outcome c n r fb = None -> bucket m (fate_of r) fb = CNotRun.
Proof.
  unfold final_outcome. destruct fb; [discriminate|]. destruct r; [discriminate|]. reflexivity.
Qed.

(* ====================================================================== *)
(* counting                                                                *)
(* ====================================================================== *)
Definition cnt (f : name -> cls) (k : cls) (l : list name) : nat :=
  length (filter (fun n => cls_eqb (f n) k) l).

Lemma cls_eqb_eq a b : cls_eqb a b = true <-> a = b.
Proof. destruct a, b; simpl; split; congruence. Qed.

Lemma filter_length_perm {A} (p : A -> bool) l l' :
  Permutation l l' -> length (filter p l) = length (filter p l').
Proof.
  induction 1; simpl.
  - reflexivity.
  - destruct (p x); simpl; congruence.
  - destruct (p x), (p y); reflexivity.
  - congruence.
Qed.

Lemma cnt_perm f k l l' : Permutation l l' -> cnt f k l = cnt f k l'.
Proof. apply filter_length_perm. Qed.

Lemma cnt_ext f g k l : (forall n, In n l -> f n = g n) -> cnt f k l = cnt g k l.
Proof.
  unfold cnt. intros H. f_equal. apply filter_ext_in. intros a I. rewrite (H a I). reflexivity.
Qed.

Lemma cnt_app f k l1 l2 : cnt f k (l1 ++ l2) = cnt f k l1 + cnt f k l2.
Proof. unfold cnt. rewrite filter_app, app_length. reflexivity. Qed.

Lemma cnt_const f k k' l :
  (forall n, In n l -> f n = k') -> cnt f k l = if cls_eqb k' k then length l else 0.
Proof.
  unfold cnt. induction l as [|x l IH]; intros H; simpl.
  - destruct (cls_eqb k' k); reflexivity.
  - rewrite (H x) by (left; reflexivity).
    assert (IH' := IH (fun n I => H n (or_intror I))).
    destruct (cls_eqb k' k); simpl; rewrite IH'; reflexivity.
Qed.

Lemma cnt_partition f l :
  cnt f CPassed l + cnt f CFailed l + cnt f CExpected l + cnt f CNotRun l = length l.
Proof.
  unfold cnt. induction l as [|x l IH]; simpl; [reflexivity|].
  destruct (f x); simpl; lia.
Qed.

Lemma cnt_zero f k l : cnt f k l = 0 <-> forall n, In n l -> f n <> k.
Proof.
  unfold cnt. induction l as [|x l IH]; simpl.
  - split; [intros _ n []|reflexivity].
  - destruct (cls_eqb (f x) k) eqn:E; simpl.
    + apply cls_eqb_eq in E. split; [discriminate|]. intros H. exfalso. apply (H x); auto.
    + rewrite IH. split.
      * intros H n [<-|I]; [|apply H, I]. intros E'. apply cls_eqb_eq in E'. congruence.
      * intros H n I. apply H. right. exact I.
Qed.

Lemma insert_sorted_perm x l : Permutation (insert_sorted x l) (x :: l).
Proof.
  induction l as [|y l IH]; simpl; [reflexivity|].
  destruct (bytes_leb x y); [reflexivity|].
  rewrite IH. apply perm_swap.
Qed.

Lemma sort_bytes_perm l : Permutation (sort_bytes l) l.
Proof.
  induction l as [|x l IH]; simpl; [constructor|].
  rewrite insert_sorted_perm. constructor. exact IH.
Qed.

Lemma nodup_app_intro {A} (l1 l2 : list A) :
  NoDup l1 -> NoDup l2 -> (forall x, In x l1 -> ~ In x l2) -> NoDup (l1 ++ l2).
Proof.
  induction l1 as [|a l1 IH]; intros H1 H2 D; simpl; [exact H2|].
  inversion H1; subst. constructor.
  - rewrite in_app_iff. intros [I|I]; [tauto|]. apply (D a); [left; reflexivity|exact I].
  - apply IH; auto. intros x I. apply D. right. exact I.
Qed.

Lemma nodup_filter_intro {A} (p : A -> bool) l : NoDup l -> NoDup (filter p l).
Proof.
  induction 1 as [|x l Hx Hl IH]; simpl; [constructor|].
  destruct (p x); [|exact IH]. constructor; [|exact IH].
  rewrite filter_In. tauto.
Qed.

Definition outside (ks : list name) (sel : list name) : list name :=
  filter (fun n => negb (mem_bytes n ks)) sel.

Lemma split_selection ks sel :
  NoDup ks -> NoDup sel -> incl ks sel -> Permutation sel (ks ++ outside ks sel).
Proof.
  intros Hk Hs Hi. apply NoDup_Permutation; [exact Hs| |].
  - apply nodup_app_intro; [exact Hk|apply nodup_filter_intro, Hs|].
    intros x I. unfold outside. rewrite filter_In. intros [_ E].
    apply mem_bytes_in in I. rewrite I in E. discriminate.
  - intros x. rewrite in_app_iff. unfold outside. rewrite filter_In. split.
    + intros I. destruct (mem_bytes x ks) eqn:E.
      * left. apply mem_bytes_in. exact E.
      * right. split; [exact I|reflexivity].
    + intros [I|[I _]]; [apply Hi, I|exact I].
Qed.

(* ====================================================================== *)
(* report() after an arbitrary history                                     *)
(* ====================================================================== *)
Section REPORT.
Variable c : cfg.
Variable mark : name -> marking.
Hypothesis MARK : forall n, mark n = marking_of (c_kf c n) (c_kfl c n).
Variable h : list op.

Let st := run c h.
Let outs := merged c st.
Let ks := keys outs.

Lemma lookup_outs n :
  lookup outs n = final_outcome c n (on_record h n) (has_feedback h n).
Proof.
  unfold outs, merged. rewrite lookup_merged_gen. unfold st. rewrite lookup_run.
  unfold final_outcome.
  destruct (has_feedback h n) eqn:F.
  - apply (sideband_run c) in F. apply mem_bytes_in in F. rewrite F. reflexivity.
  - destruct (mem_bytes n (sideband (run c h))) eqn:M; [|reflexivity].
    apply mem_bytes_in, (sideband_run c) in M. congruence.
Qed.

Lemma nodup_ks : NoDup ks.
Proof. unfold ks, outs, merged. apply nodup_merged_gen. apply nodup_run. Qed.

Lemma in_ks n : In n ks <-> on_record h n <> None \/ has_feedback h n = true.
Proof.
  unfold ks. rewrite <- lookup_in_keys, lookup_outs. unfold final_outcome.
  destruct (has_feedback h n); destruct (on_record h n); simpl; split; intros H; auto;
    try discriminate; try (left; discriminate); try (destruct H; congruence).
Qed.

Lemma class_in_ks n : In n ks -> class_in outs n = case_bucket mark h n.
Proof.
  intros I. unfold class_in. apply lookup_in_keys in I.
  destruct (lookup outs n) as [o|] eqn:E; [|congruence].
  rewrite lookup_outs in E. unfold case_bucket, case_fate.
  rewrite MARK. eapply classify_bucket. exact E.
Qed.

Lemma class_outside n : ~ In n ks -> case_bucket mark h n = CNotRun.
Proof.
  intros NI. unfold ks in NI. apply lookup_none_keys in NI. rewrite lookup_outs in NI.
  unfold case_bucket, case_fate. eapply no_outcome_bucket. exact NI.
Qed.

Lemma touches_mentioned o n : touches o n -> In n (op_names o).
Proof.
  intros [(r & R)|(r & F)]; destruct o as [m r'|m|m ok|ns k|ns k|m]; simpl in *; try tauto;
    try (destruct R as [-> _]; auto); destruct F; auto.
Qed.

Lemma ks_mentioned n : In n ks -> In n (mentioned h).
Proof.
  rewrite in_ks. intros [R|F].
  - destruct (on_record h n) eqn:E; [|congruence].
    assert (X : ~ (forall o, In o h -> ~ touches o n)).
    { intros NT. apply on_record_none_iff_proof in NT. congruence. }
    unfold mentioned. rewrite in_flat_map.
    (* some operation touches n *)
    assert (Y : exists o, In o h /\ touches o n).
    { clear -X. induction h as [|o l IH].
      - exfalso. apply X. intros o [].
      - destruct (reports_dec o n) as [(r & R)|NR].
        + exists o. split; [left; reflexivity|left; exists r; exact R].
        + destruct o as [m r'|m|m ok|ns k|ns k|m];
            try (destruct IH as (o' & I & T);
                 [intros NT; apply X; intros o' [<-|I] T;
                  [destruct T as [T|(r & [])]; tauto|exact (NT o' I T)]
                 |exists o'; split; [right; exact I|exact T]]).
          destruct (mem_bytes n ns) eqn:M.
          * exists (OFailRemaining ns k). split; [left; reflexivity|].
            right. exists (Fail true k). simpl. split; [apply mem_bytes_in, M|reflexivity].
          * destruct IH as (o' & I & T).
            -- intros NT; apply X; intros o' [<-|I] T; [|exact (NT o' I T)].
               destruct T as [T|(r & [I _])]; [tauto|].
               apply mem_bytes_in in I. congruence.
            -- exists o'; split; [right; exact I|exact T]. }
    destruct Y as (o & I & T). exists o. split; [exact I|apply touches_mentioned, T].
  - unfold has_feedback in F. apply existsb_exists in F. destruct F as (o & I & E).
    unfold mentioned. rewrite in_flat_map. exists o. split; [exact I|].
    destruct o; try discriminate. apply bytes_eqb_eq in E. subst. left. reflexivity.
Qed.

Let names := sort_bytes ks.

Lemma report_unfold :
  report c st =
  mkR ((cnt (class_in outs) CFailed names =? 0)
         && ((c_total c - length names) + cnt (class_in outs) CNotRun names =? 0))
      (length outs) (cnt (class_in outs) CPassed names) (cnt (class_in outs) CFailed names)
      ((c_total c - length names) + cnt (class_in outs) CNotRun names)
      (cnt (class_in outs) CExpected names)
      (names_of outs CFailed names) (names_of outs CExpected names).
Proof. reflexivity. Qed.

Variable sel : list name.
Hypothesis SEL : selection c h sel.

Lemma ks_incl : incl ks sel.
Proof. destruct SEL as (_ & _ & I). intros n H. apply I, ks_mentioned, H. Qed.

Lemma cnt_names k : cnt (class_in outs) k names = cnt (case_bucket mark h) k ks.
Proof.
  unfold names. rewrite (cnt_perm _ _ _ _ (sort_bytes_perm ks)).
  apply cnt_ext. intros n I. apply class_in_ks, I.
Qed.

Lemma cnt_sel k :
  cnt (case_bucket mark h) k sel
  = cnt (case_bucket mark h) k ks + (if cls_eqb CNotRun k then length (outside ks sel) else 0).
Proof.
  destruct SEL as (ND & _ & _).
  rewrite (cnt_perm _ _ _ _ (split_selection ks sel nodup_ks ND ks_incl)), cnt_app.
  f_equal. apply cnt_const. intros n I. apply class_outside.
  unfold outside in I. apply filter_In in I. destruct I as [_ E].
  apply negb_true_iff, mem_false in E. exact E.
Qed.

Lemma length_sel : length sel = length ks + length (outside ks sel).
Proof.
  destruct SEL as (ND & _ & _).
  rewrite (Permutation_length (split_selection ks sel nodup_ks ND ks_incl)), app_length. reflexivity.
Qed.

Lemma length_names : length names = length ks.
Proof. unfold names. apply Permutation_length, sort_bytes_perm. Qed.

(* every number printed is the number of selected cases in that bucket *)
Lemma report_counts_proof :
  let r := report c st in
  r_passed r = count_bucket mark h CPassed sel /\
  r_failed r = count_bucket mark h CFailed sel /\
  r_expected r = count_bucket mark h CExpected sel /\
  r_notrun r = count_bucket mark h CNotRun sel.
Proof.
  rewrite report_unfold. cbn [r_passed r_failed r_expected r_notrun].
  unfold count_bucket. fold (cnt (case_bucket mark h) CPassed sel).
  fold (cnt (case_bucket mark h) CFailed sel). fold (cnt (case_bucket mark h) CExpected sel).
  fold (cnt (case_bucket mark h) CNotRun sel).
  rewrite !cnt_sel, !cnt_names. simpl cls_eqb. cbv iota.
  destruct SEL as (_ & T & _). rewrite T, length_sel, length_names.
  repeat split; lia.
Qed.

Lemma report_ok_proof :
  r_ok (report c st) = true <-> success mark h sel.
Proof.
  pose proof report_counts_proof as (_ & HF & _ & HN).
  rewrite report_unfold in *. cbn [r_ok r_failed r_notrun] in *.
  rewrite andb_true_iff, !Nat.eqb_eq, HF, HN. unfold count_bucket.
  fold (cnt (case_bucket mark h) CFailed sel). fold (cnt (case_bucket mark h) CNotRun sel).
  rewrite !cnt_zero. unfold success, case_met. split.
  - intros [A B] n I. apply met_bucket. fold (case_bucket mark h n).
    specialize (A n I). specialize (B n I). destruct (case_bucket mark h n); auto; congruence.
  - intros S. split; intros n I E; specialize (S n I); apply met_bucket in S;
      fold (case_bucket mark h n) in S; rewrite E in S; destruct S; discriminate.
Qed.

Lemma names_of_in k n :
  k <> CNotRun ->
  (In n (names_of outs k names) <-> In n sel /\ case_bucket mark h n = k).
Proof.
  intros NK. unfold names_of. rewrite filter_In. unfold names. rewrite sort_bytes_in, cls_eqb_eq. split.
  - intros [I E]. split; [apply ks_incl, I|]. rewrite <- class_in_ks by exact I. exact E.
  - intros [I E]. destruct (in_dec (list_eq_dec N.eq_dec) n ks) as [K|K].
    + split; [exact K|]. rewrite class_in_ks by exact K. exact E.
    + exfalso. rewrite (class_outside n K) in E. congruence.
Qed.

Lemma names_of_nodup k : NoDup (names_of outs k names).
Proof.
  unfold names_of. apply nodup_filter_intro. unfold names.
  eapply Permutation_NoDup; [apply Permutation_sym, sort_bytes_perm|apply nodup_ks].
Qed.

End REPORT.

(* ====================================================================== *)
(* the statements of C04_Props                                             *)
(* ====================================================================== *)
Lemma marked_by_of c mark :
  marked_by c mark -> forall n, mark n = marking_of (c_kf c n) (c_kfl c n).
Proof. intros M n. symmetry. apply marks_agree_of, M. Qed.

Definition outcome_on_record_proof := lookup_run.

Lemma verdict_iff_proof c mark h sel :
  marked_by c mark -> selection c h sel ->
  (r_ok (report c (run c h)) = true <-> success mark h sel).
Proof. intros M S. apply report_ok_proof; [apply marked_by_of, M|exact S]. Qed.

Lemma run_verdict_iff_proof c mark h sel err :
  marked_by c mark -> selection c h sel ->
  (verdict c (run c h) err = true <-> success mark h sel /\ err = false).
Proof.
  intros M S. unfold verdict. rewrite andb_true_iff, negb_true_iff.
  rewrite (verdict_iff_proof c mark h sel M S). tauto.
Qed.

Lemma exit_status_iff_proof c mark h sel err :
  marked_by c mark -> selection c h sel ->
  (exit_status (verdict c (run c h) err) = 0 <-> success mark h sel /\ err = false).
Proof.
  intros M S. rewrite <- (run_verdict_iff_proof c mark h sel err M S).
  destruct (verdict c (run c h) err); simpl; split; congruence.
Qed.

Lemma setup_always_bad_proof c h sel n err :
  selection c h sel -> In n sel ->
  did_not_run (case_fate h n) (has_feedback h n) = true ->
  verdict c (run c h) err = false.
Proof.
  intros S I D. destruct (verdict c (run c h) err) eqn:V; [|reflexivity]. exfalso.
  unfold verdict in V. apply andb_true_iff in V. destruct V as [V _].
  apply (report_ok_proof c (fun n => marking_of (c_kf c n) (c_kfl c n)) (fun _ => eq_refl) h sel S) in V.
  specialize (V n I). unfold case_met, met in V. rewrite D in V. discriminate.
Qed.

Lemma feedback_fails_proof c h sel n :
  selection c h sel -> In n sel -> c_kf c n = false -> c_kfl c n = false ->
  on_record h n = Some Ok -> has_feedback h n = true ->
  In n (r_failed_names (report c (run c h))) /\ r_ok (report c (run c h)) = false.
Proof.
  intros S I KF KFL R F.
  set (mark := fun n => marking_of (c_kf c n) (c_kfl c n)).
  assert (B : case_bucket mark h n = CFailed).
  { unfold case_bucket, case_fate, mark. rewrite R, F, KF, KFL. reflexivity. }
  split.
  - apply (names_of_in c mark (fun _ => eq_refl) h sel S CFailed n); [discriminate|]. auto.
  - destruct (r_ok (report c (run c h))) eqn:V; [|reflexivity]. exfalso.
    apply (report_ok_proof c mark (fun _ => eq_refl) h sel S) in V.
    specialize (V n I). apply met_bucket in V. fold (case_bucket mark h n) in V.
    rewrite B in V. destruct V; discriminate.
Qed.

Lemma named_proof c mark h sel :
  marked_by c mark -> selection c h sel ->
  let r := report c (run c h) in
  (forall n, In n (r_failed_names r) <-> In n sel /\ case_bucket mark h n = CFailed) /\
  (forall n, In n (r_info_names r) <-> In n sel /\ case_bucket mark h n = CExpected) /\
  NoDup (r_failed_names r) /\ NoDup (r_info_names r) /\
  length (r_failed_names r) = r_failed r /\ length (r_info_names r) = r_expected r.
Proof.
  intros M S r. pose proof (marked_by_of c mark M) as M'.
  split; [|split; [|split; [|split; [|split]]]].
  - intros n. apply (names_of_in c mark M' h sel S CFailed n). discriminate.
  - intros n. apply (names_of_in c mark M' h sel S CExpected n). discriminate.
  - apply (names_of_nodup c h).
  - apply (names_of_nodup c h).
  - reflexivity.
  - reflexivity.
Qed.

Lemma failing_named_proof c mark h sel n :
  marked_by c mark -> selection c h sel -> In n sel -> case_met mark h n = false ->
  In n (r_failed_names (report c (run c h))) \/ case_bucket mark h n = CNotRun.
Proof.
  intros M S I NM. pose proof (marked_by_of c mark M) as M'.
  destruct (case_bucket mark h n) eqn:B.
  - exfalso. assert (X : case_met mark h n = true) by (apply met_bucket; left; exact B). congruence.
  - left. apply (names_of_in c mark M' h sel S CFailed n); [discriminate|]. auto.
  - exfalso. assert (X : case_met mark h n = true) by (apply met_bucket; right; exact B). congruence.
  - right. reflexivity.
Qed.

Lemma totals_once_proof c mark h sel :
  marked_by c mark -> selection c h sel ->
  let r := report c (run c h) in
  r_passed r = count_bucket mark h CPassed sel /\
  r_failed r = count_bucket mark h CFailed sel /\
  r_expected r = count_bucket mark h CExpected sel /\
  r_notrun r = count_bucket mark h CNotRun sel /\
  r_passed r + r_failed r + r_expected r + r_notrun r = length sel.
Proof.
  intros M S r. pose proof (marked_by_of c mark M) as M'.
  destruct (report_counts_proof c mark M' h sel S) as (A & B & C & D).
  fold r in A, B, C, D. repeat split; try assumption.
  rewrite A, B, C, D. unfold count_bucket.
  pose proof (cnt_partition (case_bucket mark h) sel) as P. unfold cnt in P. lia.
Qed.

Lemma report_idempotent_proof c st : report c (after_report c st) = report c st.
Proof. reflexivity. Qed.

(* ====================================================================== *)
(* a run as batches                                                        *)
(* ====================================================================== *)
Definition realizes (ops : list op) (l : list (name * went)) (names : list name) : Prop :=
  map fst l = names /\
  (forall o, In o ops -> incl (op_names o) names) /\
  (forall o, In o ops -> forall n, o <> OSideband n) /\
  (forall n w, In (n, w) l ->
     exists r, on_record ops n = Some r /\ fate_of (Some r) = went_fate w).

Lemma reports_on_names o n : reports_on o n -> In n (op_names o).
Proof. intros R. apply touches_mentioned. left. exact R. Qed.

Lemma in_l_names (l : list (name * went)) names n w : map fst l = names -> In (n, w) l -> In n names.
Proof. intros <- I. apply (in_map fst) in I. exact I. Qed.

Lemma realizes_nil : realizes [] [] [].
Proof.
  unfold realizes. split; [reflexivity|]. split; [intros ? []|]. split; [intros ? []|]. intros ? ? [].
Qed.

Lemma realizes_app ops1 l1 names1 ops2 l2 names2 :
  realizes ops1 l1 names1 -> realizes ops2 l2 names2 ->
  (forall n, In n names1 -> ~ In n names2) ->
  realizes (ops1 ++ ops2) (l1 ++ l2) (names1 ++ names2).
Proof.
  intros (A1 & B1 & C1 & D1) (A2 & B2 & C2 & D2) DJ. repeat split.
  - rewrite map_app. congruence.
  - intros o I n' H. apply in_app_iff. apply in_app_iff in I. destruct I as [I|I].
    + left. apply (B1 o I), H.
    + right. apply (B2 o I), H.
  - intros o I. apply in_app_iff in I. destruct I as [I|I]; [apply C1|apply C2]; exact I.
  - intros n w I. apply in_app_iff in I. destruct I as [I|I].
    + destruct (D1 n w I) as (r & E & F). exists r. split; [|exact F].
      apply on_record_app_keep; [|exact E].
      intros o Io R. apply reports_on_names in R. apply (B2 o Io) in R.
      apply (DJ n); [eapply in_l_names; eassumption|exact R].
    + destruct (D2 n w I) as (r & E & F). exists r. split; [|exact F].
      rewrite on_record_app_skip; [exact E|].
      intros o Io T. apply touches_mentioned in T. apply (B1 o Io) in T.
      apply (DJ n T). eapply in_l_names; eassumption.
Qed.

Lemma realizes_one o n0 r0 w0 :
  reports o n0 r0 -> op_names o = [n0] -> (forall n, o <> OSideband n) ->
  fate_of (Some r0) = went_fate w0 ->
  realizes [o] [(n0, w0)] [n0].
Proof.
  intros R N NS F. repeat split.
  - intros o' [<-|[]]. rewrite N. apply incl_refl.
  - intros o' [<-|[]]. exact NS.
  - intros n w [E|[]]. inversion E; subst. exists r0. split; [|exact F].
    apply (on_record_last_proof [] o [] n r0 R). intros ? [].
Qed.

Lemma realizes_fill ops l names k :
  realizes ops l names -> realizes (ops ++ [OFailRemaining names k]) l names.
Proof.
  intros (A & B & C & D). repeat split.
  - exact A.
  - intros o I. apply in_app_iff in I. destruct I as [I|[<-|[]]]; [apply B, I|apply incl_refl].
  - intros o I. apply in_app_iff in I. destruct I as [I|[<-|[]]]; [apply C, I|discriminate].
  - intros n w I. destruct (D n w I) as (r & E & F). exists r. split; [|exact F].
    apply on_record_app_keep; [|exact E]. intros o [<-|[]] (r' & []).
Qed.

Lemma realizes_down cs :
  realizes [OFailedToStart (map rc_name cs) ESetup]
           (map (fun c => (rc_name c, WServerDown)) cs) (map rc_name cs).
Proof.
  repeat split.
  - rewrite map_map. reflexivity.
  - intros o [<-|[]]. apply incl_refl.
  - intros o [<-|[]]. discriminate.
  - intros n w I. apply in_map_iff in I. destruct I as (c0 & E & I). inversion E; subst.
    exists (Fail true ESetup). split; [|reflexivity].
    unfold on_record; simpl.
    assert (M : mem_bytes (rc_name c0) (map rc_name cs) = true)
      by (apply mem_bytes_in, in_map, I).
    rewrite M. reflexivity.
Qed.

Lemma ended_step ex got : ended ex got = false -> exits_at ex (S got) = ended ex (S got).
Proof.
  destruct ex as [e|]; simpl; [|reflexivity]. intros H.
  apply Nat.leb_gt in H.
  destruct (Nat.eqb_spec e (S got)), (Nat.leb_spec e (S got)); try reflexivity; lia.
Qed.

Lemma ended_0 ex : exits_at ex 0 = ended ex 0.
Proof.
  destruct ex as [e|]; simpl; [|reflexivity].
  destruct (Nat.eqb_spec e 0), (Nat.leb_spec e 0); try reflexivity; lia.
Qed.

Lemma reply_realizes c :
  realizes [reply_op c] [(rc_name c, WAnswered (rc_reply c))] [rc_name c].
Proof.
  unfold reply_op. destruct (rc_reply c) eqn:E.
  - eapply realizes_one with (r0 := Ok); simpl; auto; discriminate.
  - eapply realizes_one with (r0 := Fail false EAssert); simpl; auto; discriminate.
  - eapply realizes_one with (r0 := Fail false EClient); simpl; auto; discriminate.
  - eapply realizes_one with (r0 := Fail false EOther); simpl; auto; discriminate.
  - eapply realizes_one with (r0 := Fail true ENoOutcome); simpl; auto; discriminate.
Qed.

Lemma notsent_realizes c :
  realizes [OSet (rc_name c) (Fail true ECouldNotRun)] [(rc_name c, WNotSent)] [rc_name c].
Proof. eapply realizes_one with (r0 := Fail true ECouldNotRun); simpl; auto; discriminate. Qed.

Lemma send_loop_spec ex cs : forall got ops g cl l g',
  NoDup (map rc_name cs) ->
  send_loop ex cs got (ended ex got) = (ops, g, cl) ->
  went_cases ex cs got = (l, g') ->
  g = g' /\ cl = ended ex g /\ realizes ops l (map rc_name cs).
Proof.
  induction cs as [|c cs IH]; intros got ops g cl l g' ND SL WC.
  - simpl in SL, WC. inversion SL; inversion WC; subst. split; [reflexivity|]. split; [reflexivity|]. apply realizes_nil.
  - simpl in ND. inversion ND as [|? ? NI ND']; subst.
    cbn [send_loop went_cases] in SL, WC.
    destruct (ended ex got) eqn:EN.
    + (* the client has ended: this and the remaining cases could not be run *)
      destruct (went_cases ex cs got) as [l0 g0] eqn:WC0. injection WC as <- <-.
      assert (SL0 : send_loop ex cs got (ended ex got)
                    = (map (fun c' => OSet (rc_name c') (Fail true ECouldNotRun)) cs, got, true)).
      { rewrite EN. destruct cs; reflexivity. }
      destruct (IH got _ _ _ _ _ ND' SL0 WC0) as (G & CL & RZ).
      injection SL as <- <- <-. split; [exact G|]. split; [symmetry; exact EN|].
      change (realizes ([OSet (rc_name c) (Fail true ECouldNotRun)] ++
                        map (fun c' => OSet (rc_name c') (Fail true ECouldNotRun)) cs)
                       ([(rc_name c, WNotSent)] ++ l0) ([rc_name c] ++ map rc_name cs)).
      apply realizes_app; [apply notsent_realizes|exact RZ|].
      intros n [<-|[]]. exact NI.
    + destruct (send_loop ex cs (S got) (exits_at ex (S got))) as [[ops0 g0] cl0] eqn:SL0.
      destruct (went_cases ex cs (S got)) as [l0 g1] eqn:WC0.
      injection SL as <- <- <-. injection WC as <- <-.
      rewrite (ended_step ex got EN) in SL0.
      destruct (IH (S got) _ _ _ _ _ ND' SL0 WC0) as (G & CL & RZ).
      split; [exact G|]. split; [exact CL|].
      change (realizes ([reply_op c] ++ ops0)
                       ([(rc_name c, WAnswered (rc_reply c))] ++ l0) ([rc_name c] ++ map rc_name cs)).
      apply realizes_app; [apply reply_realizes|exact RZ|].
      intros n [<-|[]]. exact NI.
Qed.

Definition batch_names (bs : list batch) : list name :=
  flat_map (fun b => map rc_name (b_cases b)) bs.

Lemma nodup_app_parts {A} (l1 l2 : list A) :
  NoDup (l1 ++ l2) -> NoDup l1 /\ NoDup l2 /\ (forall x, In x l1 -> ~ In x l2).
Proof.
  induction l1 as [|a l1 IH]; simpl; intros H.
  - repeat split; [constructor|exact H|intros ? []].
  - inversion H as [|? ? NI ND]; subst. destruct (IH ND) as (A1 & A2 & A3).
    repeat split; [constructor; [|exact A1]|exact A2|].
    + intros I. apply NI, in_app_iff. left. exact I.
    + intros x [<-|I]; [|apply A3, I]. intros I2. apply NI, in_app_iff. right. exact I2.
Qed.

Lemma run_batches_spec ex bs : forall got,
  NoDup (batch_names bs) ->
  realizes (run_batches ex bs got (ended ex got)) (went_list ex bs got) (batch_names bs).
Proof.
  induction bs as [|b bs IH]; intros got ND.
  - apply realizes_nil.
  - cbn [batch_names flat_map] in ND |- *. fold (batch_names bs) in ND |- *.
    destruct (nodup_app_parts _ _ ND) as (ND1 & ND2 & DJ).
    cbn [run_batches went_list]. unfold run_batch.
    destruct (b_server_ok b).
    + destruct (send_loop ex (b_cases b) got (ended ex got)) as [[ops g] cl] eqn:SL.
      destruct (went_cases ex (b_cases b) got) as [l g'] eqn:WC.
      destruct (send_loop_spec ex _ _ _ _ _ _ _ ND1 SL WC) as (G & CL & RZ). subst g' cl.
      apply realizes_app; [apply realizes_fill, RZ|apply IH, ND2|exact DJ].
    + apply realizes_app; [apply realizes_down|apply IH, ND2|exact DJ].
Qed.

Lemma no_sideband_no_feedback ops n :
  (forall o, In o ops -> forall m, o <> OSideband m) -> has_feedback ops n = false.
Proof.
  intros H. unfold has_feedback. destruct (existsb _ ops) eqn:E; [|reflexivity].
  apply existsb_exists in E. destruct E as (o & I & X). destruct o; try discriminate.
  exfalso. eapply H; [exact I|reflexivity].
Qed.

Lemma flow_verdict_iff_proof kf kfl mark s :
  (forall n, marks_agree (kf n) (kfl n) (mark n)) ->
  NoDup (scen_names s) ->
  (scen_verdict kf kfl s = true <-> scen_success mark s).
Proof.
  intros M ND. unfold scen_verdict, scen_success, scen_err.
  pose proof (run_batches_spec (s_exit_after s) (s_batches s) 0 ND) as RZ.
  rewrite <- ended_0 in RZ. fold (scen_ops s) in RZ. fold (scen_went s) in RZ.
  destruct RZ as (A & B & C & D).
  assert (S : selection (scen_cfg kf kfl s) (scen_ops s) (scen_names s)).
  { split; [exact ND|]. split; [reflexivity|].
    intros n I. unfold mentioned in I. apply in_flat_map in I. destruct I as (o & Io & In').
    apply (B o Io), In'. }
  rewrite (run_verdict_iff_proof (scen_cfg kf kfl s) mark (scen_ops s) (scen_names s) _ M S).
  unfold success, case_met, case_fate. split.
  - intros [SU E]. split; [exact E|]. intros n w I.
    specialize (SU n (in_l_names _ _ _ _ A I)).
    destruct (D n w I) as (r & R & F). rewrite R, F in SU.
    rewrite (no_sideband_no_feedback _ n C) in SU. exact SU.
  - intros [E SU]. split; [|exact E]. intros n I.
    unfold batch_names in A. change (flat_map _ (s_batches s)) with (scen_names s) in A.
    rewrite <- A in I. apply in_map_iff in I. destruct I as ([n' w] & E' & I). simpl in E'. subst n'.
    destruct (D n w I) as (r & R & F). rewrite R, F.
    rewrite (no_sideband_no_feedback _ n C). apply (SU n w I).
Qed.

(* ====================================================================== *)
(* peer feedback of the in-process reference server                        *)
(* ====================================================================== *)
Lemma before_sep_cons2 a b t :
  before_sep (a :: b :: t) =
  if ((a =? 58)%N && (b =? 32)%N) then Some [] else option_map (cons a) (before_sep (b :: t)).
Proof. reflexivity. Qed.

Lemma before_sep_line n msg : has_sep n = false -> before_sep (fb_line n msg) = Some n.
Proof.
  unfold fb_line. induction n as [|a t IH]; intros H.
  - reflexivity.
  - destruct t as [|b t'].
    + cbn. destruct (a =? 58)%N; reflexivity.
    + cbn [has_sep] in H. apply orb_false_iff in H. destruct H as [H1 H2].
      specialize (IH H2).
      change ((a :: b :: t') ++ 58%N :: 32%N :: msg) with (a :: b :: (t' ++ 58%N :: 32%N :: msg)).
      change ((b :: t') ++ 58%N :: 32%N :: msg) with (b :: (t' ++ 58%N :: 32%N :: msg)) in IH.
      rewrite before_sep_cons2, H1, IH. reflexivity.
Qed.

Lemma feedback_line_recognised_proof names n msg :
  has_sep n = false -> In n names -> read_line names (fb_line n msg) = Some n.
Proof.
  intros H I. unfold read_line. rewrite (before_sep_line n msg H).
  apply mem_bytes_in in I. rewrite I. reflexivity.
Qed.

Lemma read_line_in names l n : read_line names l = Some n -> In n names.
Proof.
  unfold read_line. destruct (before_sep l) as [p|]; [|discriminate].
  destruct (mem_bytes p names) eqn:M; [|discriminate].
  intros E. inversion E; subst. apply mem_bytes_in. exact M.
Qed.

Definition pbatch_names (b : pbatch) : list name := map pc_name (pb_cases b).
Definition pscen_names (ps : list pbatch) : list name := flat_map pbatch_names ps.

Lemma heard_incl b n : In n (heard b) -> In n (pbatch_names b).
Proof.
  unfold heard. destruct (runner_feedback_source (pb_reference b)); [|intros []].
  destruct (writer_eqb w server_feedback_writer); [|intros []].
  intros I. apply in_flat_map in I. destruct I as (l & _ & I).
  destruct (read_line (map pc_name (pb_cases b)) l) eqn:R; [|destruct I].
  destruct I as [<-|[]]. apply read_line_in in R. exact R.
Qed.

Lemma heard_iff b n :
  (forall m, In m (pbatch_names b) -> has_sep m = false) ->
  (In n (heard b) <->
   pb_reference b = true /\ exists c, In c (pb_cases b) /\ pc_name c = n /\ pc_msgs c <> []).
Proof.
  intros NS. unfold pbatch_names in NS. unfold heard, runner_feedback_source, server_feedback_writer.
  destruct (pb_reference b); cbn [writer_eqb].
  - rewrite in_flat_map. split.
    + intros (l & Il & I). split; [reflexivity|].
      unfold batch_lines in Il. apply in_flat_map in Il. destruct Il as (c & Ic & Il).
      apply in_map_iff in Il. destruct Il as (msg & <- & Im).
      assert (Inm : In (pc_name c) (map pc_name (pb_cases b))) by (apply in_map; exact Ic).
      rewrite (feedback_line_recognised_proof _ _ msg (NS _ Inm) Inm) in I.
      destruct I as [<-|[]]. exists c. repeat split; [exact Ic|].
      intros E. rewrite E in Im. destruct Im.
    + intros (_ & c & Ic & <- & NE). destruct (pc_msgs c) as [|msg rest] eqn:E; [congruence|].
      exists (fb_line (pc_name c) msg). split.
      * unfold batch_lines. apply in_flat_map. exists c. split; [exact Ic|].
        rewrite E. left. reflexivity.
      * assert (Inm : In (pc_name c) (map pc_name (pb_cases b))) by (apply in_map; exact Ic).
        rewrite (feedback_line_recognised_proof _ _ msg (NS _ Inm) Inm). left. reflexivity.
  - split; [intros []|intros [X _]; discriminate].
Qed.

Lemma peer_feedback_iff_proof ps n :
  (forall m, In m (pscen_names ps) -> has_sep m = false) ->
  (In n (peer_feedback ps) <->
   exists b c, In b ps /\ pb_reference b = true /\ In c (pb_cases b) /\ pc_name c = n /\
               pc_msgs c <> []).
Proof.
  intros NS. unfold peer_feedback. rewrite in_flat_map. split.
  - intros (b & Ib & I). apply heard_iff in I.
    + destruct I as (R & c & Ic & E & M). exists b, c. auto.
    + intros m Im. apply NS. unfold pscen_names. apply in_flat_map. exists b. auto.
  - intros (b & c & Ib & R & Ic & E & M). exists b. split; [exact Ib|].
    apply heard_iff.
    + intros m Im. apply NS. unfold pscen_names. apply in_flat_map. exists b. auto.
    + split; [exact R|]. exists c. auto.
Qed.

Lemma peer_feedback_incl ps n : In n (peer_feedback ps) -> In n (pscen_names ps).
Proof.
  unfold peer_feedback, pscen_names. rewrite !in_flat_map. intros (b & Ib & I).
  exists b. split; [exact Ib|apply heard_incl, I].
Qed.

Lemma strip_names ps e : scen_names (strip ps e) = pscen_names ps.
Proof.
  unfold scen_names, strip, pscen_names, pbatch_names, pc_name. cbn [s_batches].
  induction ps as [|b ps IH]; [reflexivity|].
  cbn [map flat_map b_cases]. rewrite IH, map_map. reflexivity.
Qed.

Lemma on_record_app_sideband A fb n : on_record (A ++ map OSideband fb) n = on_record A n.
Proof.
  unfold on_record. rewrite rev_app_distr, <- map_rev.
  induction (rev fb) as [|m l IH]; [reflexivity|]. simpl. exact IH.
Qed.

Lemma has_feedback_app A B n : has_feedback (A ++ B) n = has_feedback A n || has_feedback B n.
Proof. unfold has_feedback. apply existsb_app. Qed.

Lemma has_feedback_sideband fb n : has_feedback (map OSideband fb) n = mem_bytes n fb.
Proof.
  unfold has_feedback, mem_bytes. induction fb as [|m l IH]; [reflexivity|].
  simpl. rewrite IH. reflexivity.
Qed.

(* with a client that ends at end of input every case of every batch is answered *)
Lemma went_cases_none cs got :
  went_cases None cs got = (map (fun c => (rc_name c, WAnswered (rc_reply c))) cs, got + length cs).
Proof.
  revert got. induction cs as [|c cs IH]; intros got; cbn [went_cases ended map length].
  - f_equal. lia.
  - rewrite IH. f_equal. lia.
Qed.

Lemma went_list_strip ps e : forall got,
  went_list None (s_batches (strip ps e)) got =
  flat_map (fun b => map (fun c => (pc_name c, WAnswered (rc_reply (pc_rc c)))) (pb_cases b)) ps.
Proof.
  unfold strip. cbn [s_batches]. induction ps as [|b ps IH]; intros got; [reflexivity|].
  cbn [map went_list b_server_ok b_cases flat_map]. rewrite went_cases_none, IH.
  rewrite map_map. reflexivity.
Qed.

Lemma peer_went ps e n w :
  In (n, w) (scen_went (strip ps e)) <->
  exists b c, In b ps /\ In c (pb_cases b) /\ pc_name c = n /\ w = WAnswered (rc_reply (pc_rc c)).
Proof.
  unfold scen_went. change (s_exit_after (strip ps e)) with (@None nat).
  rewrite went_list_strip, in_flat_map. split.
  - intros (b & Ib & I). apply in_map_iff in I. destruct I as (c & E & Ic).
    inversion E; subst. exists b, c. auto.
  - intros (b & c & Ib & Ic & <- & ->). exists b. split; [exact Ib|].
    apply in_map_iff. exists c. auto.
Qed.

Section PEER.
Variables (kf kfl : name -> bool) (mark : name -> marking).
Hypothesis M : forall n, marks_agree (kf n) (kfl n) (mark n).
Variable ps : list pbatch.
Variable e : bool.
Hypothesis ND : NoDup (pscen_names ps).

Let s := strip ps e.
Let c := peer_cfg kf kfl ps.

Lemma peer_realizes : realizes (scen_ops s) (scen_went s) (scen_names s).
Proof.
  assert (ND' : NoDup (scen_names s)) by (unfold s; rewrite strip_names; exact ND).
  pose proof (run_batches_spec (s_exit_after s) (s_batches s) 0 ND') as RZ.
  rewrite <- ended_0 in RZ. exact RZ.
Qed.

Lemma peer_selection : selection c (peer_ops ps e) (pscen_names ps).
Proof.
  destruct peer_realizes as (_ & B & _ & _).
  split; [exact ND|]. split.
  - unfold c, peer_cfg, scen_cfg. cbn [c_total]. rewrite strip_names. reflexivity.
  - intros n I. unfold mentioned, peer_ops in I. rewrite flat_map_app, in_app_iff in I.
    destruct I as [I|I].
    + apply in_flat_map in I. destruct I as (o & Io & In').
      fold s in Io. specialize (B o Io n In'). unfold s in B. rewrite strip_names in B. exact B.
    + apply in_flat_map in I. destruct I as (o & Io & In').
      apply in_map_iff in Io. destruct Io as (m & <- & Im). destruct In' as [<-|[]].
      apply peer_feedback_incl, Im.
Qed.

Lemma peer_fate n w :
  In (n, w) (scen_went s) ->
  case_fate (peer_ops ps e) n = went_fate w /\
  has_feedback (peer_ops ps e) n = mem_bytes n (peer_feedback ps).
Proof.
  intros I. destruct peer_realizes as (_ & _ & C & D).
  destruct (D n w I) as (r & R & F). unfold case_fate, peer_ops. fold s. split.
  - rewrite on_record_app_sideband, R. exact F.
  - rewrite has_feedback_app, has_feedback_sideband, (no_sideband_no_feedback _ n C). reflexivity.
Qed.

Lemma peer_verdict_iff_proof :
  peer_verdict kf kfl ps e = true <->
  e = false /\
  forall n w, In (n, w) (scen_went s) ->
    met (mark n) (went_fate w) (mem_bytes n (peer_feedback ps)) = true.
Proof.
  unfold peer_verdict. fold c.
  assert (Mc : marked_by c mark) by (intros n; apply M).
  rewrite (run_verdict_iff_proof c mark _ _ e Mc peer_selection).
  unfold success, case_met.
  destruct peer_realizes as (A & _ & _ & _).
  split.
  - intros [SU E]. split; [exact E|]. intros n w I.
    assert (In' : In n (pscen_names ps)).
    { unfold s in A. rewrite strip_names in A. apply (in_l_names _ _ _ _ A I). }
    specialize (SU n In'). destruct (peer_fate n w I) as (F1 & F2). rewrite F1, F2 in SU. exact SU.
  - intros [E SU]. split; [|exact E]. intros n I.
    unfold s in A. rewrite strip_names in A. rewrite <- A in I.
    apply in_map_iff in I. destruct I as ([n' w] & E' & I). simpl in E'. subst n'.
    destruct (peer_fate n w I) as (F1 & F2). rewrite F1, F2. apply (SU n w I).
Qed.

(* the reference server saw something wrong with the request of an unmarked case whose
   reported result matches: the case is named FAILED and the run fails *)
Lemma server_feedback_fails_run_proof b pc :
  (forall m, In m (pscen_names ps) -> has_sep m = false) ->
  In b ps -> pb_reference b = true -> In pc (pb_cases b) ->
  rc_reply (pc_rc pc) = RPass -> pc_msgs pc <> [] ->
  kf (pc_name pc) = false -> kfl (pc_name pc) = false ->
  In (pc_name pc) (r_failed_names (report c (run c (peer_ops ps e)))) /\
  peer_verdict kf kfl ps e = false.
Proof.
  intros NS Ib R Ic RP MS KF KFL.
  assert (W : In (pc_name pc, WAnswered RPass) (scen_went s)).
  { apply peer_went. exists b, pc. rewrite RP. auto. }
  destruct (peer_fate _ _ W) as (F1 & F2).
  assert (FB : mem_bytes (pc_name pc) (peer_feedback ps) = true).
  { apply mem_bytes_in, peer_feedback_iff_proof; [exact NS|]. exists b, pc. auto. }
  rewrite FB in F2.
  assert (OR : on_record (peer_ops ps e) (pc_name pc) = Some Ok).
  { unfold case_fate in F1. destruct (on_record (peer_ops ps e) (pc_name pc)) as [[|su k]|]; simpl in F1;
      [reflexivity| |discriminate]. destruct su, k; discriminate. }
  assert (In' : In (pc_name pc) (pscen_names ps)).
  { unfold pscen_names. apply in_flat_map. exists b. split; [exact Ib|apply in_map, Ic]. }
  destruct (feedback_fails_proof c _ _ _ peer_selection In' KF KFL OR F2) as (N & V).
  split; [exact N|]. unfold peer_verdict, verdict. fold c. rewrite V. reflexivity.
Qed.
End PEER.
