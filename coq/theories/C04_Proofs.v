From V Require Export C04_Model.
