(* C12_ProofsR.v — the runner's side: every request of a batch carries the headers computed from its own case,
   and composed with the matrix theorem: the reference server is silent on it exactly for a client that renders
   that case's set-up. *)
From Coq Require Import Lia.
From V Require Import C12_Spec C12_Proofs.
Open Scope Z_scope.

Lemma batch_loop_eq i cs : forall acc, batch_loop i cs acc = rev acc ++ map (send_one i) cs.
Proof.
  induction cs as [|c cs IH]; intros acc; cbn [batch_loop map].
  - rewrite app_nil_r. reflexivity.
  - rewrite IH. cbn [rev]. rewrite <- app_assoc. reflexivity.
Qed.

Lemma run_batch_eq i cs : starts i = true -> run_batch i cs = map (send_one i) cs.
Proof. intros S. unfold run_batch. rewrite S, batch_loop_eq. reflexivity. Qed.

Lemma nth_error_middle {A B} (f : A -> B) pre c post :
  nth_error (map f (pre ++ c :: post)) (length pre) = Some (f c).
Proof. induction pre as [|x pre IH]; cbn; [reflexivity|exact IH]. Qed.

Lemma batch_positional_proof : forall i cs,
  (starts i = true -> length (run_batch i cs) = length cs /\ map s_name (run_batch i cs) = map rc_name cs) /\
  (starts i = false -> run_batch i cs = []).
Proof.
  intros i cs. split; intros S.
  - rewrite run_batch_eq by exact S. rewrite map_length, map_map. split; reflexivity.
  - unfold run_batch. rewrite S. reflexivity.
Qed.

(* the n-th request depends on the n-th case only *)
Lemma own_case_proof : forall i pre c post, starts i = true ->
  nth_error (run_batch i (pre ++ c :: post)) (length pre) = Some (send_one i c).
Proof. intros. rewrite run_batch_eq by assumption. apply nth_error_middle. Qed.

(* ---- reading the header list ---- *)
Lemma values_of_app n a b : values_of n (a ++ b) = values_of n a ++ values_of n b.
Proof. unfold values_of. apply flat_map_app. Qed.

Lemma values_of_unreserved n own :
  reserved n -> lower n = n -> (forall h, In h own -> ~ reserved (fst h)) -> values_of n own = [].
Proof.
  intros R Ln H. induction own as [|h own IH]; [reflexivity|].
  unfold values_of in *. cbn [flat_map]. rewrite IH by (intros; apply H; right; assumption).
  destruct (bytes_eqb_spec (lower (fst h)) n) as [E|_]; [|reflexivity].
  exfalso. apply (H h (or_introl eq_refl)). unfold reserved in *. rewrite E. rewrite Ln in R. exact R.
Qed.

Definition reserved_names := [h_test_name; h_version; h_method; h_protocol; h_codec; h_compression; h_tls; h_cert].
Lemma reserved_names_ok n : In n reserved_names -> reserved n /\ lower n = n.
Proof.
  intros I. cbn in I. unfold reserved.
  repeat (destruct I as [<-|I]; [split; [(left; reflexivity) || (right; reflexivity)|reflexivity]|]).
  destruct I.
Qed.

Lemma cert_case i : connection_tls i = inst_tls i.
Proof. unfold connection_tls, inst_tls, creds_in_use. destruct (ri_pem i), (ri_creds i && ri_use_certs i); reflexivity. Qed.

Lemma starts_creds i : starts i = true -> certs_need_tls i -> creds_in_use i = true -> ri_pem i = true.
Proof.
  unfold starts, certs_need_tls, creds_in_use. intros S C U.
  apply andb_prop in U. destruct U as [_ U]. rewrite (C U) in S. exact S.
Qed.

(* the added headers, read back *)
Lemma describes_added i c own :
  ri_ref i = true -> starts i = true -> certs_need_tls i ->
  (forall h, In h own -> ~ reserved (fst h)) ->
  describes (own ++ added_headers i c) (rc_name c) (case_axes i c).
Proof.
  intros R S C O.
  assert (V : forall n, In n reserved_names -> values_of n (own ++ added_headers i c) = values_of n (added_headers i c)).
  { intros n I. destruct (reserved_names_ok n I) as [Rn Ln].
    rewrite values_of_app, (values_of_unreserved n own Rn Ln O). reflexivity. }
  pose proof (starts_creds i S C) as P.
  unfold describes.
  change (bs "x-test-case-name") with h_test_name. change (bs "x-expect-http-version") with h_version.
  change (bs "x-expect-http-method") with h_method. change (bs "x-expect-protocol") with h_protocol.
  change (bs "x-expect-codec") with h_codec. change (bs "x-expect-compression") with h_compression.
  change (bs "x-expect-tls") with h_tls. change (bs "x-expect-client-cert") with h_cert.
  rewrite !V by (cbn; tauto).
  unfold added_headers, expectation_headers. rewrite R.
  unfold case_axes, connection_tls. cbn [a_version a_get a_protocol a_codec a_compression a_tls].
  fold (creds_in_use i).
  destruct (creds_in_use i) eqn:U.
  - rewrite (P eq_refl). cbn. destruct (rc_get c); repeat split; reflexivity.
  - destruct (ri_pem i); cbn; destruct (rc_get c); repeat split; reflexivity.
Qed.

Lemma expect_headers_per_case_proof : forall i pre c post,
  starts i = true ->
  exists s, nth_error (run_batch i (pre ++ c :: post)) (length pre) = Some s /\
    s_name s = rc_name c /\
    s_headers s = rc_headers c ++ added_headers i c /\
    s_raw s = option_map (fun h => h ++ added_headers i c) (rc_raw c) /\
    (ri_ref i = true -> certs_need_tls i -> own_headers_ok c ->
       describes (s_headers s) (rc_name c) (case_axes i c) /\
       (forall raw, s_raw s = Some raw -> describes raw (rc_name c) (case_axes i c))).
Proof.
  intros i pre c post S. exists (send_one i c). split; [apply own_case_proof; exact S|].
  cbn [send_one s_name s_headers s_raw]. do 3 (split; [reflexivity|]). intros R C [O1 O2]. split.
  - apply describes_added; assumption.
  - intros raw E. destruct (rc_raw c) as [rw|] eqn:RW; [|discriminate]. cbn in E. inversion E; subst.
    apply describes_added; try assumption. intros h I. apply (O2 rw h eq_refl I).
Qed.

(* ---- on the wire: the client's request with these headers is the matrix point (with_expect) ---- *)
Lemma describes_put hs name e r : describes hs name e -> put_headers hs r = with_expect name e r.
Proof.
  unfold describes.
  change (bs "x-test-case-name") with h_test_name. change (bs "x-expect-http-version") with h_version.
  change (bs "x-expect-http-method") with h_method. change (bs "x-expect-protocol") with h_protocol.
  change (bs "x-expect-codec") with h_codec. change (bs "x-expect-compression") with h_compression.
  change (bs "x-expect-tls") with h_tls. change (bs "x-expect-client-cert") with h_cert.
  intros (A & B & C & D & E & F & G & H). unfold put_headers, with_expect.
  rewrite A, B, C, D, E, F, G, H. destruct (a_get e), (a_tls e); reflexivity.
Qed.

Lemma runner_request_silent_proof : forall fq i pre c post s (a : actual) p,
  ri_ref i = true -> starts i = true -> certs_need_tls i -> own_headers_ok c -> rc_name c <> [] ->
  nth_error (run_batch i (pre ++ c :: post)) (length pre) = Some s ->
  (feedback_of (snd (server fq [] p (put_headers (s_headers s) (render a)))) = [] <-> project a = case_axes i c).
Proof.
  intros fq i pre c post s a p R S C O N E.
  destruct (expect_headers_per_case_proof i pre c post S) as (s' & E' & _ & _ & _ & D).
  rewrite E in E'. inversion E'; subst s'. destruct (D R C O) as [D1 _].
  rewrite (describes_put _ _ _ _ D1). apply server_silent_iff_match_proof. exact N.
Qed.

Lemma client_rendering_correct i c : get_ok c -> project (client_rendering i c) = case_axes i c.
Proof.
  intros G. unfold project, client_rendering, case_axes.
  cbn [c_version c_shape c_codec c_compression c_tls].
  replace (connection_tls i) with (inst_tls i) by (symmetry; apply cert_case).
  assert (A : shape_get (case_shape c) = rc_get c).
  { unfold get_ok in G. unfold case_shape. destruct (rc_get c).
    - destruct (G eq_refl) as (-> & -> & _). reflexivity.
    - destruct (rc_protocol c), (rc_stream c); reflexivity. }
  assert (B : shape_protocol (case_shape c) = rc_protocol c).
  { unfold case_shape. destruct (rc_protocol c), (rc_stream c), (rc_get c); reflexivity. }
  rewrite A, B. reflexivity.
Qed.

Lemma reference_client_silent_proof : forall fq i pre c post s,
  ri_ref i = true -> starts i = true -> certs_need_tls i -> own_headers_ok c -> rc_name c <> [] -> get_ok c ->
  nth_error (run_batch i (pre ++ c :: post)) (length pre) = Some s ->
  feedback_of (snd (server fq [] (case_procedure c) (put_headers (s_headers s) (render (client_rendering i c))))) = [].
Proof.
  intros fq i pre c post s R S C O N G E.
  apply (runner_request_silent_proof fq i pre c post s _ _ R S C O N E). apply client_rendering_correct. exact G.
Qed.

(* ---- the loop that builds the headers once (seeded C12-19) does not have the property ---- *)
Definition ex_inst := {| ri_ref := true; ri_use_tls := false; ri_use_certs := false; ri_pem := false; ri_creds := false |}.
Definition ex_case (n : bytes) (c : codec) (z : compression) :=
  {| rc_name := n; rc_version := V1; rc_protocol := PConnect; rc_codec := c; rc_compression := z;
     rc_stream := StUnary; rc_get := false; rc_headers := []; rc_raw := None |}.

Lemma shared_headers_refuted_proof : forall fq,
  exists i c1 c2 s,
    ri_ref i = true /\ starts i = true /\ certs_need_tls i /\ own_headers_ok c2 /\ rc_name c2 <> [] /\ get_ok c2 /\
    nth_error (batch_loop_shared i [c1; c2] None []) 1 = Some s /\
    ~ describes (s_headers s) (rc_name c2) (case_axes i c2) /\
    feedback_of (snd (server fq [] (case_procedure c2) (put_headers (s_headers s) (render (client_rendering i c2))))) <> [].
Proof.
  intros fq. exists ex_inst, (ex_case (bs "a") CProto ZIdentity), (ex_case (bs "b") CJson ZGzip).
  eexists.
  split; [reflexivity|]. split; [reflexivity|]. split; [intros H; discriminate H|].
  split; [split; [intros h []|intros raw h E; discriminate E]|].
  split; [discriminate|]. split; [intros H; discriminate H|].
  split; [reflexivity|].
  cbn [s_headers].
  match goal with |- ~ describes ?hs _ _ /\ _ =>
    assert (D : describes hs (bs "b") (case_axes ex_inst (ex_case (bs "b") CProto ZIdentity)))
  end.
  { vm_compute. repeat split. }
  split.
  - unfold describes. intros (_ & _ & _ & _ & E & _). vm_compute in E. discriminate.
  - rewrite (describes_put _ _ _ _ D).
    intros F. apply server_silent_iff_match_proof in F; [|discriminate]. vm_compute in F. discriminate.
Qed.

(* ---------- the printer (internal/printer.go as wired by run()) and the runner's reading end ---------- *)
Open Scope N_scope.

Lemma last_default {A} (l : list A) d d' : l <> [] -> last l d = last l d'.
Proof.
  induction l as [|x l IH]; intros H; [contradiction|].
  destruct l as [|y l]; [reflexivity|]. cbn [last] in *. apply IH. discriminate.
Qed.

Lemma last_sep name d : last (name ++ sep_colon) d = 32.
Proof.
  unfold sep_colon. change [58; 32] with ([58] ++ [32]). rewrite app_assoc. apply last_last.
Qed.

Lemma feedback_line_names_test_verbatim_proof : forall w name msg,
  pw_out (prefix_printf w name msg) = pw_out w ++ feedback_line name msg /\
  pw_last (prefix_printf w name msg) = 10.
Proof.
  intros w name msg. unfold prefix_printf, feedback_line, ends_with_newline.
  assert (L : pw_last (pw_write (pw_write w (name ++ sep_colon)) msg) = last msg 32).
  { cbn [pw_write pw_last]. rewrite last_sep. reflexivity. }
  rewrite L. destruct msg as [|c m].
  - cbn [last]. change (32 =? 10) with false. change (0 =? 10) with false.
    cbn [pw_write pw_out pw_last last]. split; [|reflexivity].
    unfold sep_colon. rewrite <- !app_assoc. reflexivity.
  - rewrite (last_default (c :: m) 32 0) by discriminate.
    destruct (last (c :: m) 0 =? 10) eqn:E.
    + cbn [pw_write pw_out pw_last]. rewrite last_sep. rewrite (last_default (c :: m) 32 0) by discriminate.
      split; [|apply N.eqb_eq; exact E]. unfold sep_colon. rewrite app_nil_r, <- !app_assoc. reflexivity.
    + cbn [pw_write pw_out pw_last last]. split; [|reflexivity].
      unfold sep_colon. rewrite <- !app_assoc. reflexivity.
Qed.

Lemma print_feedback_lines text name f : forall w,
  pw_out (print_feedback text w name f) = pw_out w ++ concat (map (fun k => feedback_line name (text k)) f).
Proof.
  induction f as [|k f IH]; intros w; cbn [print_feedback fold_left map concat].
  - rewrite app_nil_r. reflexivity.
  - fold (print_feedback text (prefix_printf w name (text k)) name f). rewrite IH.
    destruct (feedback_line_names_test_verbatim_proof w name (text k)) as [-> _]. rewrite <- app_assoc. reflexivity.
Qed.

Lemma stderr_is_feedback_lines_proof : forall text w o,
  pw_out (stderr_of text w o) =
  pw_out w ++ match o with
              | Served name f _ _ => concat (map (fun k => feedback_line name (text k)) f)
              | Rejected => []
              end.
Proof.
  intros text w [|name f t r]; cbn [stderr_of]; [rewrite app_nil_r; reflexivity|apply print_feedback_lines].
Qed.

(* the reading end *)
Lemma trim_left_app x y : trim_left x <> [] -> trim_left (x ++ y) = trim_left x ++ y.
Proof.
  induction x as [|c x IH]; intros H; [contradiction|]. cbn [trim_left app] in *.
  destruct (is_ascii_space c); [apply IH; exact H|reflexivity].
Qed.

Lemma trim_right_app x y : trim_right y <> [] -> trim_right (x ++ y) = x ++ trim_right y.
Proof.
  unfold trim_right. intros H. rewrite rev_app_distr, trim_left_app.
  - rewrite rev_app_distr, rev_involutive. reflexivity.
  - intros E. apply H. rewrite E. reflexivity.
Qed.

Lemma trim_right_newline m : trim_right (m ++ [10]) = trim_right m.
Proof. unfold trim_right. rewrite rev_app_distr. reflexivity. Qed.

Lemma split_sep_at name rest : no_colon_space name -> split_sep (name ++ 58 :: 32 :: rest) = Some (name, rest).
Proof.
  induction name as [|c n IH]; intros H.
  - reflexivity.
  - cbn [app split_sep].
    assert (Hn : no_colon_space n).
    { intros x y E. apply (H (c :: x) y). rewrite E. reflexivity. }
    destruct ((c =? 58) && match n ++ 58 :: 32 :: rest with [] => false | d :: _ => d =? 32 end) eqn:E.
    + exfalso. apply andb_prop in E. destruct E as [E1 E2]. apply N.eqb_eq in E1. subst c.
      destruct n as [|d n']; cbn [app] in E2; [discriminate E2|].
      apply N.eqb_eq in E2. subst d. apply (H [] n'). reflexivity.
    + rewrite (IH Hn). reflexivity.
Qed.

Lemma feedback_line_trim name msg : trim_right msg <> [] ->
  trim_right (feedback_line name msg) = name ++ 58 :: 32 :: trim_right msg.
Proof.
  intros NE. unfold feedback_line.
  assert (R : trim_right (msg ++ (if ends_with_newline msg then [] else [10])) = trim_right msg).
  { destruct (ends_with_newline msg); [rewrite app_nil_r; reflexivity|apply trim_right_newline]. }
  replace (name ++ [58; 32] ++ msg ++ (if ends_with_newline msg then [] else [10]))
    with ((name ++ [58; 32]) ++ (msg ++ (if ends_with_newline msg then [] else [10])))
    by (rewrite <- app_assoc; reflexivity).
  rewrite trim_right_app by (rewrite R; exact NE). rewrite R, <- app_assoc. reflexivity.
Qed.

Lemma feedback_line_attributed_proof : forall names name msg,
  In name names -> no_colon_space name -> starts_visibly name -> trim_right msg <> [] ->
  sideband names (feedback_line name msg) = Some (name, trim_right msg).
Proof.
  intros names name msg I NC (c & rest & E & V) NE. unfold sideband, trim_space.
  assert (T : trim_left (feedback_line name msg) = feedback_line name msg).
  { subst name. unfold feedback_line. cbn [app trim_left]. rewrite V. reflexivity. }
  rewrite T, (feedback_line_trim name msg NE), (split_sep_at name (trim_right msg) NC).
  assert (M : mem_bytes name names = true) by (apply mem_bytes_in; exact I).
  rewrite M. reflexivity.
Qed.

(* composed with the matrix theorem: what the server writes to its stderr for a request of the matrix *)
Lemma server_stderr_exact_proof : forall text fq name (e : axes) (a : actual) (p : procedure), name <> [] ->
  pw_out (stderr_of text pw_init (snd (server fq [] p (with_expect name e (render a))))) =
  concat (map (fun k => feedback_line name (text k)) (expected_feedback e (project a))).
Proof.
  intros text fq name e a p H. rewrite (server_feedback_exact_proof fq name e a p H). cbn [snd].
  rewrite stderr_is_feedback_lines_proof. reflexivity.
Qed.

Lemma stderr_silent_iff_match_proof : forall text fq name (e : axes) (a : actual) (p : procedure), name <> [] ->
  pw_out (stderr_of text pw_init (snd (server fq [] p (with_expect name e (render a))))) = [] <-> project a = e.
Proof.
  intros text fq name e a p H. rewrite server_stderr_exact_proof by exact H.
  rewrite <- (server_silent_iff_match_proof fq name e a p H), (server_feedback_exact_proof fq name e a p H).
  cbn [snd feedback_of]. destruct (expected_feedback e (project a)) as [|k f].
  - split; reflexivity.
  - split; [|discriminate]. cbn [map concat]. unfold feedback_line. intros E.
    apply app_eq_nil in E. destruct E as [E _]. apply app_eq_nil in E. destruct E as [E _]. contradiction.
Qed.

Lemma no_colon_is_no_colon_space name : ~ In 58 name -> no_colon_space name.
Proof. intros H x y E. apply H. rewrite E. apply in_or_app. right. left. reflexivity. Qed.
