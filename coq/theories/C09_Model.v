(* C09_Model.v — executable model of
     internal/delimited.go  (ReadDelimitedMessage, readDelimitedMessageRaw,
                             timeoutDelimitedReader.read, writeDelimitedMessageRaw)
     internal/codec.go      (protoDecoder.DecodeNext / protoEncoder.Encode,
                             jsonDecoder.DecodeNext / jsonEncoder.Encode)
   and of the byte source they read from.  No proofs here. *)
From V Require Export Base C09_Consts.
Open Scope N_scope.

(* ---------- the byte source (an io.Reader) ----------
   data    : the bytes it will deliver
   sched   : the i-th Read call returns at most sched[i] bytes (0 allowed: a
             "(0, nil)" read); after the list is used up a Read returns
             everything that fits
   eager   : the terminal error is returned together with the last data bytes
             ("n > 0, err != nil") instead of by the following call
   tail    : what happens after the data: io.EOF, some other error, or the
             peer stalls (Read blocks for ever) *)
Inductive ioerr := EEOF | EUnexpected | EIO.
Inductive tail_t := TEOF | TBlock | TFail.
Record src := mk_src { s_data : bytes; s_sched : list nat; s_eager : bool; s_tail : tail_t }.

Definition tail_err (t : tail_t) : option ioerr :=
  match t with TEOF => Some EEOF | TFail => Some EIO | TBlock => None end.

(* min (need, avail) without ever turning a 32-bit length into a unary number *)
Definition cap (need : N) (avail : nat) : nat :=
  if need <? N.of_nat avail then N.to_nat need else avail.

Inductive rd := RBlock | RData (c : bytes) (err : option ioerr) (s' : src).

(* in.Read(p) with len(p) = buflen *)
Definition src_read (buflen : N) (s : src) : rd :=
  if buflen =? 0 then RData [] None s
  else match s_data s with
  | [] => match tail_err (s_tail s) with Some e => RData [] (Some e) s | None => RBlock end
  | _ :: _ =>
    let d := s_data s in
    let k := match s_sched s with [] => length d | k :: _ => Nat.min k (length d) end in
    let m := cap buflen k in
    let rest := skipn m d in
    let err := match rest with [] => if s_eager s then tail_err (s_tail s) else None | _ => None end in
    RData (firstn m d) err (mk_src rest (tl (s_sched s)) (s_eager s) (s_tail s))
  end.

(* ---------- timeoutDelimitedReader.read(numBytes) ----------
   need = numBytes - offs, got = data[:offs]; nread is r.bytesRead. *)
Inductive rn :=
| RnDone (got : bytes) (s' : src)
| RnErr (e : ioerr) (nread : nat) (s' : src)
| RnStall (nread : nat)
| RnFuel.

Fixpoint read_loop (fuel : nat) (need : N) (got : bytes) (s : src) : rn :=
  match fuel with
  | O => RnFuel
  | S f =>
    match src_read need s with
    | RBlock => RnStall (length got)
    | RData c err s' =>
      if N.of_nat (length c) =? need then RnDone (got ++ c) s'     (* offs+numRead == numBytes: err ignored *)
      else
        let got' := got ++ c in
        match err with
        | Some e =>
          RnErr (match e with
                 | EEOF => if (0 <? length got')%nat then EUnexpected else EEOF
                 | _ => e end) (length got') s'
        | None => read_loop f (need - N.of_nat (length c)) got' s'
        end
    end
  end.

(* every iteration uses up a schedule entry or a data byte, or ends the loop *)
Definition read_fuel (s : src) : nat := S (length (s_sched s) + length (s_data s)).
Definition read_n (want : N) (s : src) : rn := read_loop (read_fuel s) want [] s.

(* ---------- readDelimitedMessageRaw ---------- *)
Inductive merr := MEOF | MUnexpected | MIO | MOversize.
Definition merr_of (e : ioerr) : merr :=
  match e with EEOF => MEOF | EUnexpected => MUnexpected | EIO => MIO end.

Inductive rm :=
| Msg (m : bytes) (s' : src)
| MErr (e : merr) (s' : src)
| MTimeout (prefix_done : bool) (nread : nat) (expecting : N)
| MFuel.

Definition read_msg (max : N) (s : src) : rm :=
  match read_n c09_prefix_len s with
  | RnDone p s1 =>
    let size := be_decode p 0 in
    if max <? size then MErr MOversize s1          (* before the body is allocated or read *)
    else match read_n size s1 with
         | RnDone m s2 => Msg m s2
         | RnErr e _ s2 => MErr (match e with EEOF => MUnexpected | _ => merr_of e end) s2
         | RnStall n => MTimeout true n size
         | RnFuel => MFuel
         end
  | RnErr e _ s1 => MErr (merr_of e) s1
  | RnStall n => MTimeout false n c09_prefix_len
  | RnFuel => MFuel
  end.

(* the caller's loop: read messages until the first error *)
Inductive final :=
| FErr (e : merr) (unread : nat)
| FTimeout (prefix_done : bool) (nread : nat) (expecting : N)
| FFuel.

Fixpoint read_all_loop (fuel : nat) (next : src -> rm) (s : src) : list bytes * final :=
  match fuel with
  | O => ([], FFuel)
  | S f =>
    match next s with
    | Msg m s' => let (ms, e) := read_all_loop f next s' in (m :: ms, e)
    | MErr e s' => ([], FErr e (length (s_data s')))
    | MTimeout p n x => ([], FTimeout p n x)
    | MFuel => ([], FFuel)
    end
  end.
Definition read_all (max : N) (s : src) : list bytes * final :=
  read_all_loop (S (length (s_data s))) (read_msg max) s.

(* the buffers (make([]byte, numBytes) in read) that the calls of readDelimitedMessageRaw allocate,
   in order: the 4 bytes of a prefix, then - only after the size check - the announced size *)
Definition msg_bufs (max : N) (s : src) : list N :=
  match read_n c09_prefix_len s with
  | RnDone p _ => let size := be_decode p 0 in
                  if max <? size then [c09_prefix_len] else [c09_prefix_len; size]
  | _ => [c09_prefix_len]
  end.
Fixpoint all_bufs_loop (fuel : nat) (max : N) (s : src) : list N :=
  match fuel with
  | O => []
  | S f => msg_bufs max s ++ match read_msg max s with Msg _ s' => all_bufs_loop f max s' | _ => [] end
  end.
Definition all_bufs (max : N) (s : src) : list N := all_bufs_loop (S (length (s_data s))) max s.
Definition bufs_within (max : N) (s : src) : bool := forallb (fun b => b <=? N.max 4 max) (all_bufs max s).

(* writeDelimitedMessageRaw: uint32(len(data)) big-endian, then the data *)
Definition write_msg (m : bytes) : bytes := be32 (N.of_nat (length m)) ++ m.
Definition write_all (ms : list bytes) : bytes := concat (map write_msg ms).

(* ---------- protoDecoder.DecodeNext: io.ReadFull (= io.ReadAtLeast(r, buf, len(buf))) ---------- *)
Fixpoint read_full_loop (fuel : nat) (need : N) (got : bytes) (s : src) : rn :=
  match fuel with
  | O => RnFuel
  | S f =>
    if need =? 0 then RnDone got s                       (* n >= min: loop not entered / left *)
    else match src_read need s with
    | RBlock => RnStall (length got)
    | RData c err s' =>
      let got' := got ++ c in
      let need' := need - N.of_nat (length c) in
      match err with
      | None => read_full_loop f need' got' s'
      | Some e =>
        if need' =? 0 then RnDone got' s'                (* n >= min: err = nil *)
        else RnErr (match e with
                    | EEOF => if (0 <? length got')%nat then EUnexpected else EEOF
                    | _ => e end) (length got') s'
      end
    end
  end.
Definition read_full (want : N) (s : src) : rn := read_full_loop (S (read_fuel s)) want [] s.

Definition decode_next (s : src) : rm :=
  match read_full c09_prefix_len s with
  | RnDone p s1 =>
    match read_full (be_decode p 0) s1 with
    | RnDone m s2 => Msg m s2
    | RnErr e _ s2 => MErr (match e with EEOF => MUnexpected | _ => merr_of e end) s2
    | RnStall n => MTimeout true n (be_decode p 0)       (* no timeout in the decoder: the call blocks *)
    | RnFuel => MFuel
    end
  | RnErr e _ s1 => MErr (merr_of e) s1
  | RnStall n => MTimeout false n c09_prefix_len
  | RnFuel => MFuel
  end.
Definition decode_all (s : src) : list bytes * final :=
  read_all_loop (S (length (s_data s))) decode_next s.

(* ---------- JSON variant ----------
   Message boundaries are found by encoding/json's scanner, a library: it is an
   ORACLE here.  `scan buf` looks at the bytes buffered so far. *)
Inductive scan_res := SComplete (v rest : bytes) | SNeedMore | SInvalid.

Definition is_json_ws (c : N) : bool := (c =? 32) || (c =? 9) || (c =? 10) || (c =? 13).
Definition non_space (b : bytes) : bool := existsb (fun c => negb (is_json_ws c)) b.

Inductive jres :=
| JVal (v : bytes) (rest : bytes) (s' : src)
| JErr (e : merr) (s' : src)
| JSyntax
| JBlock
| JFuel.

Section Json.
  Variable scan : bytes -> scan_res.

  (* json.Decoder.readValue: scan what is buffered; when more is needed look at the
     error of the previous refill, else refill (buffer sizes are not modelled: a
     refill accepts whatever the source hands over). *)
  Definition big_buf : N := 4294967296.
  Fixpoint json_loop (fuel : nat) (buf : bytes) (s : src) (lasterr : option ioerr) : jres :=
    match fuel with
    | O => JFuel
    | S f =>
      match scan buf with
      | SComplete v rest => JVal v rest s
      | SInvalid => JSyntax
      | SNeedMore =>
        match lasterr with
        | Some EEOF => JErr (if non_space buf then MUnexpected else MEOF) s
        | Some e => JErr (merr_of e) s
        | None =>
          match src_read big_buf s with
          | RBlock => JBlock
          | RData c err s' => json_loop f (buf ++ c) s' err
          end
        end
      end
    end.
  Definition json_next (buf : bytes) (s : src) : jres := json_loop (S (S (read_fuel s))) buf s None.

  Inductive jfinal := JFErr (e : merr) | JFSyntax | JFBlock | JFFuel.
  Fixpoint json_all_loop (fuel : nat) (buf : bytes) (s : src) : list bytes * jfinal :=
    match fuel with
    | O => ([], JFFuel)
    | S f =>
      match json_next buf s with
      | JVal v rest s' => let (vs, e) := json_all_loop f rest s' in (v :: vs, e)
      | JErr e _ => ([], JFErr e)
      | JSyntax => ([], JFSyntax)
      | JBlock => ([], JFBlock)
      | JFuel => ([], JFFuel)
      end
    end.
  (* every value takes at least one byte of buffer or data *)
  Definition json_all (s : src) : list bytes * jfinal :=
    json_all_loop (S (length (s_data s))) [] s.
End Json.

(* jsonEncoder.Encode: the marshalled value followed by a newline *)
Definition json_write (v : bytes) : bytes := v ++ [10].
Definition json_write_all (vs : list bytes) : bytes := concat (map json_write vs).

(* A concrete scanner used to RUN the model (instantiates the oracle for the
   differential check): objects and arrays only, found by bracket depth outside
   string literals.  Top-level scalars are outside its domain (SInvalid). *)
Fixpoint jscan_body (depth : nat) (instr esc : bool) (acc : bytes) (b : bytes) : scan_res :=
  match b with
  | [] => SNeedMore
  | c :: b' =>
    let acc' := c :: acc in
    if instr then
      if esc then jscan_body depth true false acc' b'
      else if c =? 92 then jscan_body depth true true acc' b'
      else if c =? 34 then jscan_body depth false false acc' b'
      else jscan_body depth true false acc' b'
    else if c =? 34 then jscan_body depth true false acc' b'
    else if (c =? 123) || (c =? 91) then jscan_body (S depth) false false acc' b'
    else if (c =? 125) || (c =? 93) then
      match depth with
      | O => SInvalid
      | S O => SComplete (rev acc') b'
      | S d => jscan_body d false false acc' b'
      end
    else jscan_body depth false false acc' b'
  end.

Fixpoint jscan (b : bytes) : scan_res :=
  match b with
  | [] => SNeedMore
  | c :: b' =>
    if is_json_ws c then jscan b'
    else if (c =? 123) || (c =? 91) then jscan_body 0 false false [] b
    else SInvalid
  end.

(* json.Compact: drop whitespace outside string literals (the canonical form compared) *)
Fixpoint jcompact (instr esc : bool) (b : bytes) : bytes :=
  match b with
  | [] => []
  | c :: b' =>
    if instr then
      c :: (if esc then jcompact true false b'
            else if c =? 92 then jcompact true true b'
            else if c =? 34 then jcompact false false b'
            else jcompact true false b')
    else if is_json_ws c then jcompact false false b'
    else c :: jcompact (c =? 34) false b'
  end.

(* ---------- the writer side ----------
   An io.Writer that accepts `room` more bytes and then fails; None = never fails.  A Write that
   does not fit delivers what fits and returns an error ("n < len(p), err != nil").  What happens
   AFTER the failure is the writer's business, both are legal io.Writers:
     k_heals = false : it keeps failing (the pipe to a peer that died / closed its end);
     k_heals = true  : it failed ONCE (a transient error) and accepts everything from then on. *)
Record sink := mk_sink { k_out : bytes; k_room : option nat; k_heals : bool }.
Inductive wr := WOk (k : sink) | WErr (k : sink).

Definition after_failure (heals : bool) : option nat := if heals then None else Some 0%nat.

Definition sink_write (p : bytes) (k : sink) : wr :=
  match k_room k with
  | None => WOk (mk_sink (k_out k ++ p) None (k_heals k))
  | Some r =>
    if (length p <=? r)%nat then WOk (mk_sink (k_out k ++ p) (Some (r - length p)%nat) (k_heals k))
    else WErr (mk_sink (k_out k ++ firstn r p) (after_failure (k_heals k)) (k_heals k))
  end.

(* writeDelimitedMessageRaw = WriteDelimitedMessage after proto.Marshal = protoEncoder.Encode:
   two Writes, the prefix and the data; the data is not written when the prefix failed *)
Definition write_delimited (m : bytes) (k : sink) : wr :=
  match sink_write (be32 (N.of_nat (length m))) k with
  | WErr k' => WErr k'
  | WOk k1 => sink_write m k1
  end.

(* jsonEncoder.Encode (v = the marshalled value, never empty): Write(data); then a
   best-effort newline whose error is dropped *)
Definition json_encode (v : bytes) (k : sink) : wr :=
  match sink_write v k with
  | WErr k' => WErr k'
  | WOk k1 => match sink_write [10] k1 with WOk k2 => WOk k2 | WErr k2 => WOk k2 end
  end.

(* the caller's loop: encode message after message until the first error.
   Result: how many Encode calls returned nil, whether one failed, the sink *)
Fixpoint write_stream (enc : bytes -> sink -> wr) (ms : list bytes) (k : sink) : nat * bool * sink :=
  match ms with
  | [] => (O, false, k)
  | m :: ms' =>
    match enc m k with
    | WErr k' => (O, true, k')
    | WOk k' => let '(n, failed, k'') := write_stream enc ms' k' in (S n, failed, k'')
    end
  end.

Definition sink_of_h (heals : bool) (room : option nat) : sink := mk_sink [] room heals.
Definition wire_of_h (heals : bool) (enc : bytes -> sink -> wr) (ms : list bytes) (room : option nat) : bytes :=
  k_out (snd (write_stream enc ms (sink_of_h heals room))).
(* the writer that keeps failing: the pipe to a peer that is gone *)
Definition sink_of (room : option nat) : sink := sink_of_h false room.
Definition wire_of (enc : bytes -> sink -> wr) (ms : list bytes) (room : option nat) : bytes :=
  wire_of_h false enc ms room.

(* ---------- case decoding / result encoding (extracted glue) ---------- *)
Definition un_tail (s : sx) : option tail_t :=
  match s with
  | I 0%Z => Some TEOF | I 1%Z => Some TBlock | I 2%Z => Some TFail | _ => None
  end.

Definition un_src (d sch eg tl : sx) : option src :=
  do d <- un_B d; do sch <- un_listof un_nat sch; do eg <- un_bool eg; do tl <- un_tail tl;
  ret (mk_src d sch eg tl).

Definition sx_merr (e : merr) : sx :=
  B (match e with MEOF => bs "eof" | MUnexpected => bs "unexpected-eof" | MIO => bs "io-error"
              | MOversize => bs "oversize" end).

Definition sx_final (f : final) : sx :=
  match f with
  | FErr e unread => L [sx_merr e; sx_nat unread]
  | FTimeout false O _ => L [B (bs "timeout-nothing")]
  | FTimeout p n x => L [B (bs "timeout"); sx_bool p; sx_nat n; sx_N x]
  | FFuel => L [B (bs "model-out-of-fuel")]
  end.

Definition sx_all (r : list bytes * final) : sx := L [L (map B (fst r)); sx_final (snd r)].
(* ... and whether every buffer handed to Read stayed within max(4, limit) *)
Definition sx_read_all (mx : N) (s : src) : sx :=
  let r := read_all mx s in L [L (map B (fst r)); sx_final (snd r); sx_bool (bufs_within mx s)].

(* (max data sched eager tail) -> ((messages) final), through readDelimitedMessageRaw / ReadDelimitedMessage *)
Definition run_c09_read (args : list sx) : sx :=
  or_bad (match args with
  | [mx; d; sch; eg; tl] =>
    do mx <- un_N mx; do s <- un_src d sch eg tl; ret (sx_read_all mx s)
  | _ => None end).

(* ((max data sched eager) ...) -> (results): peers that stall after the data *)
Definition run_c09_stalls (args : list sx) : sx :=
  or_bad (match args with
  | [cs] =>
    do cs <- un_listof (fun c => match c with
                                 | L [mx; d; sch; eg] =>
                                   do mx <- un_N mx; do s <- un_src d sch eg (I 1%Z);
                                   ret (sx_read_all mx s)
                                 | _ => None end) cs;
    ret (L cs)
  | _ => None end).

(* (max data sched eager typed) -> one peer that stalls after the data; `typed` only selects the Go entry
   point (ReadDelimitedMessage instead of readDelimitedMessageRaw), the outcome is the same *)
Definition run_c09_stall (args : list sx) : sx :=
  or_bad (match args with
  | [mx; d; sch; eg; ty] =>
    do mx <- un_N mx; do s <- un_src d sch eg (I 1%Z); do _ <- un_bool ty; ret (sx_read_all mx s)
  | _ => None end).

(* (data sched eager tail) -> ((messages) final), through codec.NewDecoder(r).DecodeNext *)
Definition sx_final_dec (f : final) : sx :=
  match f with
  | FTimeout _ _ _ => L [B (bs "blocked")]
  | _ => sx_final f
  end.
Definition run_c09_dec (args : list sx) : sx :=
  or_bad (match args with
  | [d; sch; eg; tl] =>
    do s <- un_src d sch eg tl;
    let r := decode_all s in ret (L [L (map B (fst r)); sx_final_dec (snd r)])
  | _ => None end).

(* (messages) -> stream, through WriteDelimitedMessage / protoEncoder.Encode *)
Definition run_c09_write (args : list sx) : sx :=
  or_bad (match args with
  | [ms] => do ms <- un_listof un_B ms; ret (B (write_all ms))
  | _ => None end).

Definition sx_jfinal (f : jfinal) : sx :=
  match f with
  | JFErr e => L [sx_merr e]
  | JFSyntax => L [B (bs "syntax")]
  | JFBlock => L [B (bs "blocked")]
  | JFFuel => L [B (bs "model-out-of-fuel")]
  end.
Definition sx_jall (r : list bytes * jfinal) : sx :=
  L [L (map (fun v => B (jcompact false false v)) (fst r)); sx_jfinal (snd r)].

(* (data sched eager tail) -> ((compacted values) final), through the JSON decoder *)
Definition run_c09_json (args : list sx) : sx :=
  or_bad (match args with
  | [d; sch; eg; tl] => do s <- un_src d sch eg tl; ret (sx_jall (json_all jscan s))
  | _ => None end).

(* (values sched eager) -> the same, for the stream written by the JSON encoder *)
Definition run_c09_jsonrt (args : list sx) : sx :=
  or_bad (match args with
  | [vs; sch; eg] =>
    do vs <- un_listof un_B vs; do sch <- un_listof un_nat sch; do eg <- un_bool eg;
    ret (sx_jall (json_all jscan (mk_src (json_write_all vs) sch eg TEOF)))
  | _ => None end).

(* room: -1 = a writer that never fails *)
Definition un_room (s : sx) : option (option nat) :=
  match s with I z => Some (if (z <? 0)%Z then None else Some (Z.to_nat z)) | _ => None end.

Definition sx_written (r : nat * bool * sink) : sx :=
  let '(n, failed, k) := r in L [B (k_out k); sx_nat n; sx_bool failed].

(* (messages room heals) -> (bytes-on-the-wire encodes-ok failed), through writeDelimitedMessageRaw /
   WriteDelimitedMessage / protoEncoder.Encode on a writer that fails after `room` bytes and then
   either keeps failing (heals = 0) or accepts everything again (heals = 1) *)
Definition run_c09_wsink (args : list sx) : sx :=
  or_bad (match args with
  | [ms; room; heals] =>
    do ms <- un_listof un_B ms; do room <- un_room room; do heals <- un_bool heals;
    ret (sx_written (write_stream write_delimited ms (sink_of_h heals room)))
  | _ => None end).

(* (dir max messages room sched eager) -> (encodes-ok failed ((messages) final)): what one side
   encodes (until its writer fails) is what the other side decodes, the pipe then being closed.
   dir 0: WriteDelimitedMessage -> protoDecoder (no limit); dir 1: protoEncoder -> ReadDelimitedMessage *)
Definition run_c09_pipe (args : list sx) : sx :=
  or_bad (match args with
  | [dir; mx; ms; room; sch; eg] =>
    do dir <- un_bool dir; do mx <- un_N mx; do ms <- un_listof un_B ms; do room <- un_room room;
    do sch <- un_listof un_nat sch; do eg <- un_bool eg;
    let '(n, failed, k) := write_stream write_delimited ms (sink_of room) in
    let s := mk_src (k_out k) sch eg TEOF in
    ret (L [sx_nat n; sx_bool failed;
            if dir then sx_read_all mx s
            else let r := decode_all s in L [L (map B (fst r)); sx_final_dec (snd r)]])
  | _ => None end).

(* (values room-class) -> per Encode call: the compacted output and its last byte; then the whole run.
   room-class: -1 never fails, 0 fails at once, 1 fails exactly at the newline of the LAST value, 2 fails
   inside the last value (the marshalled length is only known to the Go side: protojson's spacing varies) *)
Definition json_encode_alone (v : bytes) : sx :=
  match json_encode v (sink_of None) with
  | WOk k => L [B (jcompact false false (k_out k)); sx_N (last (k_out k) 0)]
  | WErr _ => sx_err "write"
  end.
Definition run_c09_jsonwrite (args : list sx) : sx :=
  or_bad (match args with
  | [vs; cls] =>
    do vs <- un_listof un_B vs; do cls <- un_I cls;
    let total := length (json_write_all vs) in
    let room := if (cls <? 0)%Z then None
                else if (cls =? 0)%Z then Some O
                else if (cls =? 1)%Z then Some (total - 1)%nat
                else Some (total - 2)%nat in
    let '(n, failed, k) := write_stream json_encode vs (sink_of room) in
    ret (L [L (map json_encode_alone vs); sx_nat n; sx_bool failed; B (jcompact false false (k_out k))])
  | _ => None end).

(* ---------- the peers' main loops ----------
   referenceclient.run :  decoder := codec.NewDecoder(stdin)   -- ONCE per stream
                          for { err := decoder.DecodeNext(&req)
                                io.EOF -> return nil ; other error -> return err
                                answer req (one ClientCompatResponse carrying its test name) }
   referenceserver.run :  codec.NewDecoder(stdin).DecodeNext(req)   -- one request, one decoder
   The binary decoder (protoDecoder) holds no bytes between two calls; the JSON decoder
   (json.Decoder) keeps what a Read returned beyond the current value in its buffer - `rest`
   in json_all_loop - and that buffer lives and dies with the decoder. *)
Inductive stop := StopEOF | StopUnexpected | StopIO | StopOversize | StopSyntax | StopBlocked | StopFuel.

Definition stop_of_merr (e : merr) : stop :=
  match e with MEOF => StopEOF | MUnexpected => StopUnexpected | MIO => StopIO | MOversize => StopOversize end.
Definition stop_of_final (f : final) : stop :=
  match f with FErr e _ => stop_of_merr e | FTimeout _ _ _ => StopBlocked | FFuel => StopFuel end.
Definition stop_of_jfinal (f : jfinal) : stop :=
  match f with JFErr e => stop_of_merr e | JFSyntax => StopSyntax | JFBlock => StopBlocked | JFFuel => StopFuel end.

(* what a sender puts on the wire for a list of messages, in the two variants *)
Definition peer_wire (json : bool) (msgs : list bytes) : bytes :=
  if json then json_write_all msgs else write_all msgs.
(* the bytes that have to arrive for m to be decoded *)
Definition peer_frame (json : bool) (m : bytes) : bytes := if json then m else write_msg m.

Inductive first_res := FirstMsg (m : bytes) | FirstStop (st : stop).

Section Peer.
  Variable scan : bytes -> scan_res.

  (* the decoder is created once; the requests answered, in order, and how the loop ends
     (StopEOF: the loop returns nil) *)
  Definition peer_loop (json : bool) (s : src) : list bytes * stop :=
    if json then let r := json_all scan s in (fst r, stop_of_jfinal (snd r))
    else let r := decode_all s in (fst r, stop_of_final (snd r)).

  (* NOT what the code does: a decoder built inside the loop, one per request.  JSON: every
     DecodeNext starts with an empty buffer and what its decoder had read ahead is dropped. *)
  Fixpoint json_fresh_loop (fuel : nat) (s : src) : list bytes * jfinal :=
    match fuel with
    | O => ([], JFFuel)
    | S f =>
      match json_next scan [] s with
      | JVal v _ s' => let (vs, e) := json_fresh_loop f s' in (v :: vs, e)
      | JErr e _ => ([], JFErr e)
      | JSyntax => ([], JFSyntax)
      | JBlock => ([], JFBlock)
      | JFuel => ([], JFFuel)
      end
    end.
  Definition peer_loop_fresh (json : bool) (s : src) : list bytes * stop :=
    if json then let r := json_fresh_loop (S (length (s_data s))) s in (fst r, stop_of_jfinal (snd r))
    else let r := decode_all s in (fst r, stop_of_final (snd r)).

  (* one decoder, one DecodeNext (the reference server reads its single request like this) *)
  Definition peer_first (json : bool) (s : src) : first_res :=
    if json then
      match json_next scan [] s with
      | JVal v _ _ => FirstMsg v
      | JErr e _ => FirstStop (stop_of_merr e)
      | JSyntax => FirstStop StopSyntax
      | JBlock => FirstStop StopBlocked
      | JFuel => FirstStop StopFuel
      end
    else
      match decode_next s with
      | Msg m _ => FirstMsg m
      | MErr e _ => FirstStop (stop_of_merr e)
      | MTimeout _ _ _ => FirstStop StopBlocked
      | MFuel => FirstStop StopFuel
      end.
End Peer.

(* projection of a decoded message to what the harness can observe (the test name of the response,
   the behaviour of the started server): looked up in a table the case brings along; JSON texts are
   compared in compact form *)
Definition peer_key (json : bool) (m : bytes) : bytes := if json then jcompact false false m else m.
Fixpoint peer_lookup {A} (json : bool) (table : list (bytes * A)) (m : bytes) : option A :=
  match table with
  | [] => None
  | (k, a) :: t => if bytes_eqb (peer_key json k) (peer_key json m) then Some a else peer_lookup json t m
  end.
Fixpoint map_opt {A B} (f : A -> option B) (l : list A) : option (list B) :=
  match l with
  | [] => Some []
  | x :: r => do y <- f x; do ys <- map_opt f r; ret (y :: ys)
  end.
(* the multiset of names, listed in the order in which the names first occur in the table *)
Definition by_table_order (order names : list bytes) : list bytes :=
  flat_map (fun n => filter (bytes_eqb n) names) (rev (dedup (rev order))).

Definition sx_stop (clean : bytes) (st : stop) : sx :=
  B (match st with
     | StopEOF => clean | StopUnexpected => bs "unexpected-eof" | StopIO => bs "io-error"
     | StopOversize => bs "oversize" | StopSyntax => bs "syntax" | StopBlocked => bs "blocked"
     | StopFuel => bs "model-out-of-fuel" end).

Definition un_pair {A} (f : sx -> option A) (e : sx) : option (bytes * A) :=
  match e with L [B k; v] => do a <- f v; ret (k, a) | _ => None end.

(* (json p ref data sched eager tail ((message name) ...)) -> ((names answered) exit): the main loop of
   the reference client.  p = 1: the sequence of answers; p > 1: their multiset in table order.
   `ref` only selects the Go entry point. *)
Definition run_c09_client (args : list sx) : sx :=
  or_bad (match args with
  | [js; p; rf; d; sch; eg; tl; table] =>
    do js <- un_bool js; do p <- un_nat p; do _ <- un_bool rf; do s <- un_src d sch eg tl;
    do table <- un_listof (un_pair un_B) table;
    let r := peer_loop jscan js s in
    do names <- map_opt (peer_lookup js table) (fst r);
    ret (L [L (map B (if (p <=? 1)%nat then names else by_table_order (map snd table) names));
            sx_stop (bs "ok") (snd r)])
  | _ => None end).

(* (json ref data sched eager tail ((message (http_version message_receive_limit)) ...)) ->
   (serving (h2c limited)) | (exit kind): the reference server reads its one request; what a probe of the
   started server sees says which request was decoded: HTTP/2 with prior knowledge is spoken iff
   http_version = 2 (1: HTTP/1.1 only), a 300-byte unary request is refused iff 0 < limit < 300.
   `ref` only selects the Go entry point *)
Definition un_server_fields (v : sx) : option (N * N) :=
  match v with
  | L [ver; lim] => do ver <- un_N ver; do lim <- un_N lim;
                    if (ver =? 1) || (ver =? 2) then ret (ver, lim) else None
  | _ => None
  end.
Definition server_probe (f : N * N) : sx :=
  L [sx_bool (fst f =? 2); sx_bool ((0 <? snd f) && (snd f <? 300))].
Definition run_c09_server (args : list sx) : sx :=
  or_bad (match args with
  | [js; rf; d; sch; eg; tl; table] =>
    do js <- un_bool js; do _ <- un_bool rf; do s <- un_src d sch eg tl;
    do table <- un_listof (un_pair un_server_fields) table;
    match peer_first jscan js s with
    | FirstMsg m => do f <- peer_lookup js table m; ret (L [B (bs "serving"); server_probe f])
    | FirstStop st => ret (L [B (bs "exit"); sx_stop (bs "eof") st])
    end
  | _ => None end).

(* ---------- the runner's wiring: which reader gets which limit ----------
   client_runner.go  consumeOutput :        ReadDelimitedMessage(proc.stdout, resp, "client", clientResponseTimeout, maxClientResponseSize)
   server_runner.go  runTestCasesForServer : ReadDelimitedMessage(serverProcess.stdout, &resp, "server", serverResponseTimeout, maxServerResponseSize)
   The two constants are regenerated from the compiled code (C09_Consts); the table says which of them
   each of the two readers hands to read_msg. *)
Inductive reader := ReadsClientOutput | ReadsServerResponse.
Definition reader_limit (r : reader) : N :=
  match r with
  | ReadsClientOutput => c09_max_client_response
  | ReadsServerResponse => c09_max_server_response
  end.
Definition reader_read (r : reader) (s : src) : rm := read_msg (reader_limit r) s.
Definition reader_bufs (r : reader) (s : src) : list N := msg_bufs (reader_limit r) s.

(* what the reader does with a stream that announces `size` and then delivers `avail` <= size body bytes
   before it ends: closed form, used to RUN the model on announcements of many megabytes without
   building the body (limits_closed_form ties it to reader_read / reader_bufs for every body and schedule) *)
Inductive lim_verdict := LvOversize | LvMsg | LvShort.
Definition limit_verdict (r : reader) (size avail : N) : lim_verdict :=
  if reader_limit r <? size then LvOversize else if size <=? avail then LvMsg else LvShort.
(* body bytes taken from the stream behind the prefix; the buffers made *)
Definition limit_consumed (r : reader) (size avail : N) : N :=
  match limit_verdict r size avail with LvOversize => 0 | LvMsg => size | LvShort => avail end.
Definition limit_bufs (r : reader) (size : N) : list N :=
  if reader_limit r <? size then [c09_prefix_len] else [c09_prefix_len; size].

Definition un_reader (s : sx) : option reader :=
  match s with I 0%Z => Some ReadsServerResponse | I 1%Z => Some ReadsClientOutput | _ => None end.

(* (side size avail sched tail) -> (verdict body-bytes-consumed largest-buffer): side 0 = the real
   runTestCasesForServer reading its server's response, 1 = the real clientProcessRunner.consumeOutput;
   the stream is the 4-byte prefix of `size`, then `avail` <= size bytes of a valid message of that size,
   then EOF (tail 0) or another error (tail 2) - never a stall.  sizes 1 and 2 cannot be a valid
   message of the harness (test name + padding): not cases *)
Definition run_c09_limits (args : list sx) : sx :=
  or_bad (match args with
  | [side; size; avail; sch; tl] =>
    do r <- un_reader side; do size <- un_N size; do avail <- un_N avail;
    do _ <- un_listof un_nat sch; do tl <- un_tail tl;
    if (4294967296 <=? size) || (size <? avail) || (size =? 1) || (size =? 2) then None
    else match tl with
    | TBlock => None
    | _ =>
      ret (L [B (match limit_verdict r size avail with
                 | LvOversize => bs "oversize"
                 | LvMsg => bs "accepted"
                 | LvShort => match tl with TFail => bs "io-error" | _ => bs "unexpected-eof" end
                 end);
              sx_N (limit_consumed r size avail);
              sx_N (fold_right N.max 0 (limit_bufs r size))])
    end
  | _ => None end).

Definition c09_table : list (bytes * (list sx -> sx)) :=
  [ (bs "c09.raw", run_c09_read);
    (bs "c09.read", run_c09_read);
    (bs "c09.stalls", run_c09_stalls);
    (bs "c09.stall", run_c09_stall);
    (bs "c09.dec", run_c09_dec);
    (bs "c09.write", run_c09_write);
    (bs "c09.json", run_c09_json);
    (bs "c09.jsonrt", run_c09_jsonrt);
    (bs "c09.wsink", run_c09_wsink);
    (bs "c09.pipe", run_c09_pipe);
    (bs "c09.jsonwrite", run_c09_jsonwrite);
    (bs "c09.client", run_c09_client);
    (bs "c09.server", run_c09_server);
    (* the gRPC reference peers: the same loops (grpcclient.RunWithTrace creates its decoder once per
       stream, grpcserver.RunWithTrace reads its one request with one decoder) *)
    (bs "c09.grpcclient", run_c09_client);
    (bs "c09.grpcserver", run_c09_server);
    (bs "c09.limits", run_c09_limits) ].
