(* C15_ProofsL2b.v — the frame tracer's output is the one-shot split of the direction's byte stream
   (C15_SpecL2.spec_frames): frames_are_split_frames. *)
From Coq Require Import Lia.
From V Require Export C15_Proofs C15_SpecL2.
Open Scope N_scope.

Section L2b.
Variable dec : list bytes -> bytes -> option (list field).

(* the tracer between two frames: nothing pending but (inside a header block) the block's frames so far *)
Definition bst (isreq : bool) (pre : bytes) (hdr : fhdr) (acc : bytes) (inb : bool) (hist : list bytes) : ftr :=
  mkF isreq pre false [] hdr acc 0 0 inb hist.

Definition pre_ok (isreq : bool) (pre : bytes) : Prop := (isreq && (len pre <? 24)) = false.

Lemma bst_wf isreq pre hdr acc inb hist : wf (bst isreq pre hdr acc inb hist).
Proof. split; simpl; [lia|left; split; reflexivity]. Qed.

(* what emitFrame does with the buffer buf under header h *)
Definition emitted (isreq : bool) (pre : bytes) (h : fhdr) (buf : bytes) (inb : bool) (hist : list bytes)
  : ftr * list dframe :=
  if ((h_typ h =? 1) || ((h_typ h =? 9) && inb)) && negb (flag h 2) then (bst isreq pre h buf true hist, [])
  else match parse_buf dec hist buf with
       | None => (mkF isreq pre true [] h [] 0 0 false hist, [])
       | Some (f, hist') => (bst isreq pre h [] false hist', [f])
       end.

Lemma len_ge_cons {A} (l : list A) n : 0 < n -> n <= len l -> exists x r, l = x :: r.
Proof. destruct l as [|x r]; [unfold len; simpl; lia|eauto]. Qed.

Lemma firstn_len_all {A} (l : list A) n : len l = n -> firstn (N.to_nat n) l = l /\ skipn (N.to_nat n) l = [].
Proof. unfold len. intros <-. rewrite Nnat.Nat2N.id. split; [apply firstn_all|apply skipn_all]. Qed.

(* one complete raw frame, from a frame boundary *)
Lemma raw_step isreq pre hdr acc inb hist raw :
  pre_ok isreq pre -> raw_len raw = Some (len raw) ->
  ft_trace dec (bst isreq pre hdr acc inb hist) raw =
  emitted isreq pre (parse_hdr (firstn 9 raw)) (acc ++ raw) inb hist.
Proof.
  intros P R. unfold raw_len in R.
  destruct (N.ltb_spec (len raw) 9) as [|L9]; [discriminate|].
  set (h := parse_hdr (firstn 9 raw)) in *.
  destruct (N.ltb_spec (len raw) (9 + h_len h)) as [|Ln]; [discriminate|]. assert (Rn : 9 + h_len h = len raw) by congruence. clear R.
  assert (P9 : 0 < 9) by lia. destruct (len_ge_cons raw 9 P9 L9) as (x & raw' & Er).
  unfold ft_trace. cbn [bst f_broken]. rewrite Er at 1 2. cbn [length ft_loop]. rewrite <- Er.
  (* first iteration: the 9-byte header *)
  unfold ft_step at 1. cbn [bst f_isreq f_pre f_expect f_prefix f_broken f_hdr f_buf f_actual f_inblock f_hist].
  unfold pre_ok in P. rewrite P. cbn [N.eqb len length N.of_nat N.sub].
  rewrite (take_full 9 raw) by lia. cbn [app]. change (N.to_nat 9) with 9%nat. fold h.
  destruct (N.eqb_spec (h_len h) 0) as [Z|NZ].
  - (* no payload *)
    assert (L : len raw = 9) by lia. destruct (firstn_len_all raw 9 L) as [F S].
    change (N.to_nat 9) with 9%nat in F, S. rewrite F, S.
    unfold emit_frame, emitted. cbn [f_hdr f_inblock f_buf f_hist f_isreq f_pre f_broken f_prefix f_expect f_actual].
    rewrite Z.
    destruct (((h_typ h =? 1) || ((h_typ h =? 9) && inb)) && negb (flag h 2)).
    + destruct raw'; reflexivity.
    + destruct (parse_buf dec hist (acc ++ raw)) as [[f hist']|]; [destruct raw'|]; reflexivity.
  - (* payload: second iteration *)
    remember (skipn 9 raw) as rest eqn:Hrest.
    assert (Lr : len rest = h_len h).
    { subst rest. unfold len. rewrite skipn_length. unfold len in Rn, L9. lia. }
    assert (Ph : 0 < h_len h) by lia. assert (Ph2 : h_len h <= len rest) by lia.
    destruct (len_ge_cons rest (h_len h) Ph Ph2) as (y & rest' & Erest).
    assert (Lraw' : (length raw' = 8 + length rest)%nat).
    { assert (length raw = S (length raw')) by (rewrite Er; reflexivity).
      subst rest. rewrite skipn_length. unfold len in L9. lia. }
    destruct raw' as [|x2 raw'']; [simpl in Lraw'; lia|].
    rewrite Erest. cbn [ft_loop length]. rewrite <- Erest.
    unfold ft_step at 1. cbn [f_isreq f_pre f_expect f_prefix f_broken f_hdr f_buf f_actual f_inblock f_hist].
    rewrite P. destruct (N.eqb_spec (h_len h) 0) as [|_]; [contradiction|].
    rewrite N.sub_0_r. rewrite (take_full (h_len h) rest) by lia.
    destruct (firstn_len_all rest (h_len h) Lr) as [F S]. rewrite F, S.
    assert (Ebuf : acc ++ firstn 9 raw ++ rest = acc ++ raw) by (subst rest; rewrite firstn_skipn; reflexivity).
    rewrite <- app_assoc, Ebuf.
    unfold emit_frame, emitted. cbn [f_hdr f_inblock f_buf f_hist f_isreq f_pre f_broken f_prefix f_expect f_actual].
    destruct (((h_typ h =? 1) || ((h_typ h =? 9) && inb)) && negb (flag h 2)).
    + destruct raw''; reflexivity.
    + destruct (parse_buf dec hist (acc ++ raw)) as [[f hist']|]; [destruct raw''|]; reflexivity.
Qed.

Lemma ft_loop_S fuel st x d :
  ft_loop dec (S fuel) st (x :: d) =
  match ft_step dec st (x :: d) with
  | (st1, out, None) => (st1, out)
  | (st1, out, Some rest) => match ft_loop dec fuel st1 rest with (st2, out2) => (st2, out ++ out2) end
  end.
Proof. reflexivity. Qed.

(* an incomplete frame: nothing is emitted *)
Lemma tail_silent isreq pre hdr acc inb hist s :
  pre_ok isreq pre -> raw_len s = None -> snd (ft_trace dec (bst isreq pre hdr acc inb hist) s) = [].
Proof.
  intros P R. unfold ft_trace. cbn [bst f_broken].
  destruct s as [|x s']; [reflexivity|].
  change (length (x :: s')) with (S (length s')). rewrite ft_loop_S.
  remember (x :: s') as s eqn:Es.
  unfold ft_step at 1. cbn [bst f_isreq f_pre f_expect f_prefix f_broken f_hdr f_buf f_actual f_inblock f_hist].
  unfold pre_ok in P. rewrite P. cbn [N.eqb]. change (9 - len (@nil N)) with 9.
  unfold raw_len in R. destruct (N.ltb_spec (len s) 9) as [L9|L9].
  - rewrite (take_short 9 s L9). reflexivity.
  - rewrite (take_full 9 s) by lia. cbn [app]. change (N.to_nat 9) with 9%nat.
    set (h := parse_hdr (firstn 9 s)) in *.
    destruct (N.ltb_spec (len s) (9 + h_len h)) as [Ln|]; [|discriminate].
    destruct (N.eqb_spec (h_len h) 0) as [Z|NZ]; [lia|].
    remember (skipn 9 s) as rest eqn:Hrest.
    assert (Lr : len rest < h_len h).
    { subst rest. unfold len. rewrite skipn_length. unfold len in Ln, L9. lia. }
    destruct rest as [|y rest']; [destruct s'; reflexivity|].
    assert (Ls' : (length s' = 8 + length (y :: rest'))%nat).
    { rewrite Hrest, skipn_length. rewrite Es. simpl length. unfold len in L9. rewrite Es in L9. simpl length in L9. lia. }
    destruct s' as [|x2 s'']; [simpl in Ls'; lia|].
    change (length (x2 :: s'')) with (S (length s'')). rewrite ft_loop_S.
    unfold ft_step at 1. cbn [f_isreq f_pre f_expect f_prefix f_broken f_hdr f_buf f_actual f_inblock f_hist].
    rewrite P. destruct (N.eqb_spec (h_len h) 0) as [|_]; [contradiction|].
    rewrite N.sub_0_r. rewrite (take_short (h_len h) (y :: rest') Lr). reflexivity.
Qed.

Lemma raw_len_first s n : raw_len s = Some n ->
  len (firstn (N.to_nat n) s) = n /\ raw_len (firstn (N.to_nat n) s) = Some (len (firstn (N.to_nat n) s)) /\
  firstn 9 (firstn (N.to_nat n) s) = firstn 9 s /\ 9 <= n.
Proof.
  unfold raw_len. destruct (N.ltb_spec (len s) 9) as [|L9]; [discriminate|].
  destruct (N.ltb_spec (len s) (9 + h_len (parse_hdr (firstn 9 s)))) as [|Ln]; [discriminate|].
  intros E. assert (En : n = 9 + h_len (parse_hdr (firstn 9 s))) by congruence. clear E.
  assert (Lf : len (firstn (N.to_nat n) s) = n).
  { unfold len in *. rewrite firstn_length. lia. }
  assert (F9 : firstn 9 (firstn (N.to_nat n) s) = firstn 9 s).
  { rewrite firstn_firstn. f_equal. lia. }
  split; [exact Lf|]. split; [|split; [exact F9|lia]].
  rewrite Lf, F9. destruct (N.ltb_spec n 9); [lia|]. rewrite <- En. destruct (N.ltb_spec n n); [lia|reflexivity].
Qed.

(* from a frame boundary, any byte stream: the frames emitted are the split of the stream, decoded *)
Lemma stream_split : forall fuel s isreq pre hdr acc inb hist,
  pre_ok isreq pre -> (length s <= fuel)%nat ->
  snd (ft_trace dec (bst isreq pre hdr acc inb hist) s) = decode_frames dec hist acc inb (split_frames fuel s).
Proof.
  induction fuel as [|fuel IH]; intros s isreq pre hdr acc inb hist P L.
  - destruct s; [reflexivity|simpl in L; lia].
  - cbn [split_frames]. destruct (raw_len s) as [n|] eqn:R; [|apply tail_silent; assumption].
    destruct (raw_len_first s n R) as (Lf & Rf & F9 & N9).
    set (raw := firstn (N.to_nat n) s) in *. set (rest := skipn (N.to_nat n) s).
    assert (Lrest : (length rest <= fuel)%nat).
    { unfold rest. rewrite skipn_length. unfold len in Lf. unfold raw in Lf. rewrite firstn_length in Lf. lia. }
    rewrite <- (firstn_skipn (N.to_nat n) s) at 1. fold raw rest.
    rewrite (ft_trace_app dec _ raw rest (bst_wf _ _ _ _ _ _)).
    rewrite (raw_step isreq pre hdr acc inb hist raw P Rf). rewrite F9.
    cbn [decode_frames]. unfold continues, emitted. rewrite F9.
    destruct (((h_typ (parse_hdr (firstn 9 s)) =? 1) || ((h_typ (parse_hdr (firstn 9 s)) =? 9) && inb)) &&
              negb (flag (parse_hdr (firstn 9 s)) 2)).
    + specialize (IH rest isreq pre (parse_hdr (firstn 9 s)) (acc ++ raw) true hist P Lrest).
      destruct (ft_trace dec _ rest) as [st2 o2]. cbn [snd app] in *. exact IH.
    + destruct (parse_buf dec hist (acc ++ raw)) as [[f hist']|].
      * specialize (IH rest isreq pre (parse_hdr (firstn 9 s)) [] false hist' P Lrest).
        destruct (ft_trace dec _ rest) as [st2 o2]. cbn [snd app] in *. rewrite IH. reflexivity.
      * unfold ft_trace. cbn [f_broken snd app]. reflexivity.
Qed.

(* the frames the tracer hands to the stream layer = the one-shot split of the direction's byte stream *)
Lemma frames_are_split_frames_proof : forall isreq s, one_shot dec isreq s = spec_frames dec isreq s.
Proof.
  intros isreq s. unfold one_shot, spec_frames.
  change (ft_init isreq) with (bst isreq [] (mkH 0 0 0 0) [] false []).
  destruct isreq.
  - destruct (N.ltb_spec (len s) 24) as [L|L].
    + unfold ft_trace. cbn [bst f_broken]. destruct s as [|x s']; [reflexivity|].
      cbn [length ft_loop]. unfold ft_step. cbn [bst f_isreq f_pre andb len length N.of_nat N.ltb N.compare N.sub].
      rewrite (take_short 24 (x :: s') L). reflexivity.
    + rewrite <- (firstn_skipn 24 s) at 1.
      rewrite (ft_trace_app dec _ (firstn 24 s) (skipn 24 s) (bst_wf _ _ _ _ _ _)).
      assert (Lp : len (firstn 24 s) = 24) by (unfold len in *; rewrite firstn_length; lia).
      assert (T : ft_trace dec (bst true [] (mkH 0 0 0 0) [] false []) (firstn 24 s) =
                  if bytes_eqb (firstn 24 s) preface
                  then (bst true (firstn 24 s) (mkH 0 0 0 0) [] false [], [])
                  else (mkF true (firstn 24 s) true [] (mkH 0 0 0 0) [] 0 0 false [], [])).
      { unfold ft_trace. cbn [bst f_broken].
        remember (firstn 24 s) as p eqn:Hp.
        destruct p as [|x p']; [unfold len in Lp; simpl in Lp; lia|].
        cbn [length ft_loop]. unfold ft_step. cbn [bst f_isreq f_pre andb len length N.of_nat N.ltb N.compare N.sub app].
        rewrite (take_full 24 (x :: p')) by lia.
        destruct (firstn_len_all (x :: p') 24 Lp) as [F S]. rewrite F, S.
        destruct (bytes_eqb (x :: p') preface); [destruct p'|]; reflexivity. }
      rewrite T. destruct (bytes_eqb (firstn 24 s) preface).
      * assert (P : pre_ok true (firstn 24 s)).
        { unfold pre_ok. rewrite Lp. reflexivity. }
        assert (Lr : (length (skipn 24 s) <= length s)%nat) by (rewrite skipn_length; lia).
        pose proof (stream_split (length s) (skipn 24 s) true (firstn 24 s) (mkH 0 0 0 0) [] false [] P Lr) as St.
        destruct (ft_trace dec _ (skipn 24 s)) as [st2 o2]. cbn [snd app] in *. exact St.
      * unfold ft_trace. cbn [f_broken snd app]. reflexivity.
  - apply stream_split; [reflexivity|apply le_n].
Qed.

(* ... however the bytes were cut into Read / Write calls *)
Lemma chunks_are_split_frames_proof : forall isreq chunks,
  snd (ft_feed dec (ft_init isreq) chunks) = spec_frames dec isreq (concat chunks).
Proof. intros. rewrite frames_are_the_one_shot_parse_proof. apply frames_are_split_frames_proof. Qed.
End L2b.
