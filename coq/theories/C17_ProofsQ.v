(* C17_ProofsQ.v — the encoded query decodes to the multimap it was made from:
   URL.Query (parse_query) after url.Values.Encode (values_encode) returns, for every name, the values in order. *)
From Coq Require Import Lia.
From V Require Import C17_Spec C17_Proofs C17_ProofsReq.
Open Scope N_scope.

Definition lt256 (s : bytes) : Prop := Forall (fun c => c < 256) s.

(* ---------- the characters of a query-escaped string ---------- *)
Definition qsafe (c : N) : bool := is_alnum c || in_set c [45; 95; 46; 126; 37; 43].

Lemma not_escaped_query c : should_escape EQuery c = false -> is_alnum c || in_set c [45; 95; 46; 126] = true.
Proof.
  unfold should_escape. destruct (is_alnum c); [reflexivity|].
  destruct (in_set c [45; 95; 46; 126]); [reflexivity|].
  destruct (in_set c [36; 38; 43; 44; 47; 58; 59; 61; 63; 64]); discriminate.
Qed.

Lemma qsafe_alnum c : is_alnum c = true -> qsafe c = true.
Proof. intros H. unfold qsafe. rewrite H. reflexivity. Qed.

Lemma escape_query_chars s x : In x (escape EQuery s) -> qsafe x = true.
Proof.
  unfold escape. intros HI. apply in_flat_map in HI as (c & _ & HI).
  destruct (esc_byte_cases EQuery c) as [[S E]|[E|[_ E]]]; rewrite E in HI; simpl in HI.
  - destruct HI as [<-|[]]. apply not_escaped_query in S. unfold qsafe.
    destruct (is_alnum c); [reflexivity|]. cbn [orb] in *.
    unfold in_set in *. cbn [existsb] in *. rewrite !Bool.orb_false_r in S.
    repeat (apply Bool.orb_true_iff in S as [S|S]; [rewrite S; rewrite ?Bool.orb_true_r; reflexivity|]).
    rewrite S. rewrite ?Bool.orb_true_r. reflexivity.
  - destruct HI as [<-|[<-|[<-|[]]]]; [reflexivity| |]; apply qsafe_alnum, upperhex_alnum, mod16_lt.
  - destruct HI as [<-|[]]. reflexivity.
Qed.

Lemma qsafe_not c x : qsafe x = true -> qsafe c = false -> x <> c.
Proof. intros H1 H2 ->. congruence. Qed.

Lemma escape_query_no c s : qsafe c = false -> ~ In c (escape EQuery s).
Proof. intros H HI. apply escape_query_chars in HI. congruence. Qed.

(* ---------- unescape after escape ---------- *)
Lemma unescape_escape_query t : lt256 t -> unescape true (escape EQuery t) = Some t.
Proof.
  induction 1 as [|c t Hc _ IH]; [reflexivity|].
  unfold escape in *. cbn [flat_map].
  destruct (esc_byte_cases EQuery c) as [[S ->]|[->|[_ E]]].
  - cbn [app unescape]. rewrite (not_escaped_not_37 _ _ S), IH.
    assert ((c =? 43) = false) as ->; [|reflexivity].
    destruct (N.eqb_spec c 43) as [->|]; [vm_compute in S; discriminate S|reflexivity].
  - cbn [app unescape]. change (37 =? 37) with true. cbv iota.
    rewrite !upperhex_ishex by apply mod16_lt. cbn [andb]. rewrite IH.
    rewrite !unhex_upperhex by apply mod16_lt.
    rewrite (N.mod_small (c / 16) 16) by (apply N.div_lt_upper_bound; [discriminate|exact Hc]).
    do 2 f_equal. rewrite N.mul_comm. symmetry. apply N.div_mod. discriminate.
  - (* the space *)
    assert (c = 32) as ->.
    { unfold esc_byte in E. destruct (should_escape EQuery c) eqn:SE; [|injection E as ->; vm_compute in SE; discriminate SE].
      destruct (N.eqb_spec c 32); [assumption|discriminate E]. }
    change (esc_byte EQuery 32) with [43]. cbn [app unescape]. change (43 =? 37) with false. cbv iota.
    rewrite IH. reflexivity.
Qed.

(* ---------- one key=value setting ---------- *)
Definition pair_seg (kv : bytes * bytes) : bytes := escape EQuery (fst kv) ++ 61 :: escape EQuery (snd kv).
Definition pq_step (m : hmap) (seg : bytes) : hmap :=
  if in_set 59 seg then m
  else match seg with
       | [] => m
       | _ => let (k, v) := split_first 61 seg in
              match unescape true k, unescape true (match v with Some v => v | None => [] end) with
              | Some k', Some v' => qm_add k' [v'] m
              | _, _ => m
              end
       end.

Lemma parse_query_fold q : parse_query q = fold_left pq_step (split_on 38 q) [].
Proof. reflexivity. Qed.

Lemma in_set_false c s : ~ In c s -> in_set c s = false.
Proof.
  intros H. unfold in_set. destruct (existsb (N.eqb c) s) eqn:E; [|reflexivity].
  apply existsb_exists in E as (x & Hx & Ex). apply N.eqb_eq in Ex. subst. contradiction.
Qed.

Lemma pair_seg_no c kv : qsafe c = false -> c <> 61 -> ~ In c (pair_seg kv).
Proof.
  intros Hq Hc HI. unfold pair_seg in HI. apply in_app_or in HI as [HI|[HI|HI]].
  - exact (escape_query_no c _ Hq HI).
  - congruence.
  - exact (escape_query_no c _ Hq HI).
Qed.

Lemma pq_step_pair m kv : lt256 (fst kv) -> lt256 (snd kv) -> pq_step m (pair_seg kv) = qm_add (fst kv) [snd kv] m.
Proof.
  intros Hk Hv. unfold pq_step.
  rewrite (in_set_false 59 _ (pair_seg_no 59 kv eq_refl ltac:(discriminate))).
  assert (S : split_first 61 (pair_seg kv) = (escape EQuery (fst kv), Some (escape EQuery (snd kv)))).
  { unfold pair_seg. apply split_first_app. apply escape_query_no. reflexivity. }
  destruct (pair_seg kv) eqn:E.
  - exfalso. unfold pair_seg in E. destruct (escape EQuery (fst kv)); discriminate.
  - rewrite S, (unescape_escape_query _ Hk), (unescape_escape_query _ Hv). reflexivity.
Qed.

Lemma fold_pairs pairs : forall m,
  Forall (fun kv => lt256 (fst kv) /\ lt256 (snd kv)) pairs ->
  fold_left pq_step (map pair_seg pairs) m = fold_left (fun m kv => qm_add (fst kv) [snd kv] m) pairs m.
Proof.
  induction pairs as [|kv pairs IH]; intros m HF; [reflexivity|].
  inversion HF as [|? ? [Hk Hv] HF']; subst. cbn [map fold_left]. rewrite pq_step_pair by assumption. apply IH. exact HF'.
Qed.

Lemma fold_pairs_vals k0 pairs : forall m,
  hm_vals k0 (fold_left (fun m kv => qm_add (fst kv) [snd kv] m) pairs m) =
  hm_vals k0 m ++ flat_map (fun kv => if bytes_eqb k0 (fst kv) then [snd kv] else []) pairs.
Proof.
  induction pairs as [|kv pairs IH]; intros m; cbn [fold_left flat_map]; [now rewrite app_nil_r|].
  rewrite IH, qm_add_vals. destruct (bytes_eqb k0 (fst kv)); [now rewrite <- app_assoc|reflexivity].
Qed.

(* ---------- the settings url.Values.Encode writes ---------- *)
Definition pairs_of (m : hmap) (keys : list bytes) : list (bytes * bytes) :=
  flat_map (fun k => map (fun v => (k, v)) (hm_vals k m)) keys.

Lemma values_encode_pairs m :
  values_encode m = join 38 (map pair_seg (pairs_of m (sort_bytes (dedup (map fst m))))).
Proof.
  unfold values_encode, pairs_of. f_equal.
  induction (sort_bytes (dedup (map fst m))) as [|k ks IH]; [reflexivity|].
  cbn [flat_map]. rewrite map_app, <- IH, map_map. reflexivity.
Qed.

Lemma pairs_vals k0 m keys :
  flat_map (fun kv => if bytes_eqb k0 (fst kv) then [snd kv] else []) (pairs_of m keys) =
  flat_map (fun k => if bytes_eqb k0 k then hm_vals k m else []) keys.
Proof.
  unfold pairs_of. induction keys as [|k ks IH]; [reflexivity|].
  cbn [flat_map]. rewrite flat_map_app, IH. f_equal.
  induction (hm_vals k m) as [|v vs IHv]; cbn [map flat_map fst snd].
  - destruct (bytes_eqb k0 k); reflexivity.
  - rewrite IHv. destruct (bytes_eqb k0 k); reflexivity.
Qed.

Lemma nodup_vals k0 m keys :
  NoDup keys ->
  flat_map (fun k => if bytes_eqb k0 k then hm_vals k m else []) keys = if mem_bytes k0 keys then hm_vals k0 m else [].
Proof.
  induction 1 as [|k ks Hk _ IH]; [reflexivity|].
  cbn [flat_map]. unfold mem_bytes in *. cbn [existsb]. rewrite IH.
  destruct (bytes_eqb_spec k0 k) as [->|NE]; [|reflexivity].
  cbn [orb]. assert (existsb (bytes_eqb k) ks = false) as ->; [|apply app_nil_r].
  destruct (existsb (bytes_eqb k) ks) eqn:E; [|reflexivity].
  exfalso. apply Hk. apply mem_bytes_in. exact E.
Qed.

Lemma nodup_dedup l : NoDup (dedup l).
Proof.
  induction l as [|x l IH]; [constructor|]. cbn [dedup].
  destruct (mem_bytes x l) eqn:E; [exact IH|]. constructor; [|exact IH].
  rewrite dedup_in. intros HI. apply mem_bytes_in in HI. congruence.
Qed.
Lemma nodup_insert x l : ~ In x l -> NoDup l -> NoDup (insert_sorted x l).
Proof.
  induction l as [|y l IH]; intros Hx Hl; [repeat constructor; intros []|].
  cbn [insert_sorted]. destruct (bytes_leb x y); [constructor; assumption|].
  inversion Hl as [|? ? Hy Hl']; subst. constructor.
  - rewrite insert_sorted_in. intros [->|HI]; [apply Hx; left; reflexivity|contradiction].
  - apply IH; [intros HI; apply Hx; right; exact HI|exact Hl'].
Qed.
Lemma nodup_sort l : NoDup l -> NoDup (sort_bytes l).
Proof.
  induction 1 as [|x l Hx _ IH]; [constructor|]. cbn [sort_bytes fold_right].
  apply nodup_insert; [|exact IH]. fold (sort_bytes l). rewrite sort_bytes_in. exact Hx.
Qed.

Lemma hm_get_in k (m : hmap) vs : hm_get k m = Some vs -> In (k, vs) m.
Proof.
  induction m as [|[k0 v0] m IH]; [discriminate|]. cbn [hm_get].
  destruct (bytes_eqb_spec k k0) as [->|_]; [intros [= ->]; left; reflexivity|intros H; right; exact (IH H)].
Qed.

(* every name and value a byte string *)
Definition map_bytes (m : hmap) : Prop := Forall (fun kv => lt256 (fst kv) /\ Forall lt256 (snd kv)) m.

Lemma pairs_bytes m keys :
  map_bytes m -> Forall (fun kv => lt256 (fst kv) /\ lt256 (snd kv)) (pairs_of m keys).
Proof.
  intros HM. apply Forall_forall. intros [k v] HI. unfold pairs_of in HI.
  apply in_flat_map in HI as (k' & _ & HI). apply in_map_iff in HI as (v' & [= <- <-] & Hv).
  unfold hm_vals in Hv. destruct (hm_get k' m) as [vs|] eqn:G; [|destruct Hv].
  apply hm_get_in in G. unfold map_bytes in HM. rewrite Forall_forall in HM. destruct (HM _ G) as [Hk Hvs].
  cbn [fst snd] in *. split; [exact Hk|]. rewrite Forall_forall in Hvs. exact (Hvs _ Hv).
Qed.

(* URL.Query after Values.Encode: for EVERY name the values it had, in order *)
Lemma query_roundtrip_proof m k0 : map_bytes m -> hm_vals k0 (parse_query (values_encode m)) = hm_vals k0 m.
Proof.
  intros HM. rewrite values_encode_pairs, parse_query_fold.
  set (keys := sort_bytes (dedup (map fst m))).
  assert (ND : NoDup keys) by (apply nodup_sort, nodup_dedup).
  assert (R : flat_map (fun kv => if bytes_eqb k0 (fst kv) then [snd kv] else []) (pairs_of m keys) = hm_vals k0 m).
  { rewrite pairs_vals, nodup_vals by exact ND.
    destruct (mem_bytes k0 keys) eqn:E; [reflexivity|].
    unfold hm_vals. rewrite hm_get_notin; [reflexivity|]. intros HI.
    assert (In k0 keys) by (unfold keys; rewrite sort_bytes_in, dedup_in; exact HI).
    apply mem_bytes_in in H. congruence. }
  destruct (pairs_of m keys) as [|p ps] eqn:EP.
  - cbn. rewrite <- R. reflexivity.
  - rewrite split_join.
    + rewrite fold_pairs by (rewrite <- EP; apply pairs_bytes; exact HM).
      rewrite fold_pairs_vals, R. reflexivity.
    + discriminate.
    + apply Forall_forall. intros w Hw. apply in_map_iff in Hw as (kv & <- & _).
      apply pair_seg_no; [reflexivity|discriminate].
Qed.
