(* C20_Spec.v — what the property text promises, and what is assumed of the third-party
   codecs.  Written from the property text and from the documentation of
   connect.Compressor / connect.Decompressor ("Reset discards the internal state and
   prepares to read from a new source"), with no reference to how the wrappers are coded. *)
From V Require Export C20_Model.
Open Scope N_scope.

(* ====================================================================== *)
(* 1. The contract of a third-party reader / writer                       *)
(* ====================================================================== *)
(* `dec s` is what a FRESH library reader makes of source s (C20_Model.dres):
     HdrErr        it cannot be positioned on s (NewReader / Reset report an error)
     Body y false  it delivers y, then EOF
     Body y true   it delivers (at most) y, then an error.
   `view i` says how much is known about a reader object (C20_Model.lview):
     NoSrc         made without a source (zero value, NewReader(nil)) and never Reset
     At y e        positioned: it will deliver y, then EOF (e = false) or an error (e = true)
     Failed        a Reset or a read failed: results are open, but it does not panic and can be Reset
     Closed        Close was called: results are open, it does not panic.
   The three hypotheses of the task appear as
     "a fresh or properly Reset instance behaves as new"   lc_new, lc_reset (+ reset_after_close)
     "malformed input yields an error, not a crash"         lc_new/lc_reset (HdrErr), lc_read_err*, lc_failed_*, lc_closed_*
     "decode (encode x) = x"                                 wc_close (for every framing the writer may choose). *)
Section Contract.
  Variable inst : Type.
  Variable dec : bytes -> dres.
  Variable view : inst -> lview.
  Variable l_zero : inst.
  Variable l_new : bytes -> option inst * ures.
  Variable l_reset : inst -> bytes -> inst * ures.
  Variable l_read : inst -> option N -> inst * rres.
  Variable l_readn : inst -> N -> inst * pres.
  Variable l_close : inst -> inst * ures.

  Definition positions (r : inst * ures) (s : bytes) : Prop :=
    match dec s with
    | HdrErr => snd r = UErr /\ view (fst r) = Failed
    | Body y e => snd r = UOk /\ view (fst r) = At y e
    end.

  Definition erring (v : lview) : Prop := v = Failed \/ exists y, v = At y true.

  Record lib_contract : Prop := {
    lc_zero : view l_zero = NoSrc;
    lc_new : forall s,
      match dec s with
      | HdrErr => snd (l_new s) = UErr /\ forall i, fst (l_new s) = Some i -> view i = Failed
      | Body y e => exists i, l_new s = (Some i, UOk) /\ view i = At y e
      end;
    lc_reset : forall i s, view i <> Closed -> positions (l_reset i s) s;
    lc_read : forall i y n, view i = At y false ->
      snd (l_read i n) = ROk (take n y) /\ view (fst (l_read i n)) = At (drop n y) false;
    lc_read_err : forall i y, view i = At y true ->
      snd (l_read i None) = RErr /\ view (fst (l_read i None)) = Failed;
    lc_read_err_n : forall i y k, view i = At y true ->
      snd (l_read i (Some k)) <> RCrash /\ erring (view (fst (l_read i (Some k))));
    lc_close : forall i y e, view i = At y e ->
      snd (l_close i) <> UCrash /\ (e = false -> snd (l_close i) = UOk) /\ view (fst (l_close i)) = Closed;
    lc_failed_read : forall i n, view i = Failed ->
      snd (l_read i n) <> RCrash /\ view (fst (l_read i n)) = Failed;
    lc_failed_close : forall i, view i = Failed ->
      snd (l_close i) <> UCrash /\ view (fst (l_close i)) = Closed;
    lc_closed_read : forall i n, view i = Closed ->
      snd (l_read i n) <> RCrash /\ view (fst (l_read i n)) = Closed;
    lc_closed_close : forall i, view i = Closed ->
      snd (l_close i) <> UCrash /\ view (fst (l_close i)) = Closed;
    lc_nosrc_read : forall i n, view i = NoSrc ->
      snd (l_read i n) = RCrash \/ view (fst (l_read i n)) = NoSrc;
    (* ONE Read(p), len(p) = n, as io.Reader documents it: it delivers SOME prefix z of what is still to
       come (how long is the library's choice; the empty prefix and n = 0 included), at most n bytes,
       no error; io.EOF may come with the last bytes or with a later, empty read, never earlier *)
    lc_readn : forall i y n, view i = At y false ->
      exists z y' st,
        snd (l_readn i n) = PRes z st /\ y = z ++ y' /\ N.of_nat (length z) <= n /\
        view (fst (l_readn i n)) = At y' false /\ st <> SErr /\ (st = SEof -> y' = []);
    lc_readn_err : forall i y n, view i = At y true ->
      snd (l_readn i n) <> PCrash /\ erring (view (fst (l_readn i n)));
    lc_failed_readn : forall i n, view i = Failed ->
      snd (l_readn i n) <> PCrash /\ view (fst (l_readn i n)) = Failed;
    lc_closed_readn : forall i n, view i = Closed ->
      snd (l_readn i n) <> PCrash /\ view (fst (l_readn i n)) = Closed;
    lc_nosrc_readn : forall i n, view i = NoSrc ->
      snd (l_readn i n) = PCrash \/ view (fst (l_readn i n)) = NoSrc
  }.

  (* liveness of ONE Read, not part of lib_contract (io.Reader only discourages (0, nil)): a read
     into a non-empty buffer delivers at least one byte while bytes are to come, and reports io.EOF
     once none are *)
  Definition lib_progress : Prop :=
    forall i y n z st, view i = At y false -> 0 < n -> snd (l_readn i n) = PRes z st ->
      (y <> [] -> z <> []) /\ (y = [] -> st = SEof).

  (* compress/gzip only: a Reader can be Reset after Close *)
  Definition reset_after_close : Prop :=
    forall i s, view i = Closed -> positions (l_reset i s) s.
  (* brotli only: NewReader has no error result, it always returns a Reader *)
  Definition new_total : Prop := forall s, fst (l_new s) <> None.

  Variable winst : Type.
  Variable wv : winst -> wview.
  Variable w_zero : winst.
  Variable w_reset : winst -> winst * ures.
  Variable w_write : winst -> bytes -> winst * ures * bytes.
  Variable w_close : winst -> winst * ures * bytes.

  (* WOpen acc em: since Reset(dst), acc was written and em has reached dst *)
  Record wlib_contract : Prop := {
    wc_reset : forall w, snd (w_reset w) = UOk /\ wv (fst (w_reset w)) = WOpen [] [];
    wc_write : forall w acc em b, wv w = WOpen acc em ->
      snd (fst (w_write w b)) = UOk /\
      wv (fst (fst (w_write w b))) = WOpen (acc ++ b) (em ++ snd (w_write w b));
    wc_close : forall w acc em, wv w = WOpen acc em ->
      snd (fst (w_close w)) = UOk /\ wv (fst (fst (w_close w))) = WClosed /\
      dec (em ++ snd (w_close w)) = Body acc false;                     (* decode (encode x) = x *)
    wc_closed_write : forall w b, wv w = WClosed ->
      snd (fst (w_write w b)) <> UCrash /\ wv (fst (fst (w_write w b))) = WClosed;
    wc_closed_close : forall w, wv w = WClosed ->
      snd (fst (w_close w)) <> UCrash /\ wv (fst (fst (w_close w))) = WClosed
  }.
End Contract.

(* which extra hypothesis the wrapper of an encoding relies on *)
Definition kind_needs (k : wkind) {inst} (dec : bytes -> dres) (view : inst -> lview)
           (l_new : bytes -> option inst * ures) (l_reset : inst -> bytes -> inst * ures) : Prop :=
  match k with
  | KGzip => reset_after_close inst dec view l_reset
  | KBrotli => new_total inst l_new
  | _ => True
  end.

(* ====================================================================== *)
(* 2. What a caller may expect                                            *)
(* ====================================================================== *)
(* the identity encoding decodes every source to itself *)
Definition dec_of (k : wkind) (dec : bytes -> dres) : bytes -> dres :=
  match k with KIdent => fun s => Body s false | _ => dec end.

(* brotli.NewReader and snappy's Reset have no error result: a bad header shows at the first read *)
Definition reset_result (k : wkind) (d : dres) : ures :=
  match d, k with
  | HdrErr, (KBrotli | KSnappy) => UOk
  | HdrErr, _ => UErr
  | Body _ _, _ => UOk
  end.
(* what the ReadAll after Reset s must return: exactly what a fresh reader returns *)
Definition fresh_read (d : dres) (r : rres) : Prop :=
  match d with
  | Body y false => r = ROk y
  | Body _ true => r = RErr
  | HdrErr => r <> RCrash
  end.

Definition no_crash (outs : list dout) : Prop := forall o, In o outs -> is_crash o = false.
Definition starts_with_reset (h : list dop) : Prop := exists s h', h = DReset s :: h'.

(* connect-go v1.18 compressionPool, seen from ONE pooled decompressor:
     getDecompressor   Reset(src)            an error drops the instance (the history ends)
     Decompress        reads (io.ReadAll, or a limited read followed by a drain)
     putDecompressor   Close                 an error drops the instance
                       Reset(http.NoBody)    result ignored; back into the pool *)
Definition is_read (op : dop) : Prop := (exists n, op = DRead n) \/ (exists n, op = DReadN n).
Inductive pool_history : list dop -> Prop :=
| ph_idle : pool_history []
| ph_dropped_at_get s : pool_history [DReset s]
| ph_dropped_at_put s rs : Forall is_read rs -> pool_history (DReset s :: rs ++ [DClose])
| ph_session s rs h : Forall is_read rs -> pool_history h ->
    pool_history (DReset s :: rs ++ DClose :: DReset [] :: h).

(* the same for one pooled compressor: getCompressor Reset(dst); writes; putCompressor Close, Reset(io.Discard) *)
Definition is_write (op : cop) : Prop := exists b, op = CWrite b.
Inductive cpool_history : list cop -> Prop :=
| cp_idle : cpool_history []
| cp_dropped ws : Forall is_write ws -> cpool_history (CReset :: ws ++ [CClose])
| cp_session ws h : Forall is_write ws -> cpool_history h ->
    cpool_history (CReset :: ws ++ CClose :: CReset :: h).

Fixpoint written (ws : list cop) : bytes :=
  match ws with
  | CWrite b :: ws' => b ++ written ws'
  | _ :: ws' => written ws'
  | [] => []
  end.

(* ====================================================================== *)
(* 3. Names                                                               *)
(* ====================================================================== *)
(* the registered content-coding names of the six algorithms (docs/ of the repository,
   IANA HTTP content coding registry; "deflate" is the zlib format, RFC 1950) *)
Definition iana : list (Z * bytes) :=
  [ (1, bs "identity"); (2, bs "gzip"); (3, bs "br"); (4, bs "zstd"); (5, bs "deflate"); (6, bs "snappy") ]%Z.

(* "name n denotes algorithm a" is right when it is what the registry says (names are
   compared case-insensitively where a place does so, never otherwise) *)
Definition denotes_ok (p : bytes * Z) : Prop := In (snd p, fst p) iana.

(* ====================================================================== *)
(* 4. Reading in pieces; independence of the library                      *)
(* ====================================================================== *)
(* the bytes a list of read outcomes delivered, in order *)
Fixpoint delivered (outs : list dout) : bytes :=
  match outs with
  | OR (ROk z) :: t => z ++ delivered t
  | OP (PRes z _) :: t => z ++ delivered t
  | _ :: t => delivered t
  | [] => []
  end.
(* a read that reported no error (io.EOF is not an error) and did not panic *)
Definition read_fine (o : dout) : Prop :=
  match o with
  | OR (ROk _) => True
  | OP (PRes _ SNil) | OP (PRes _ SEof) => True
  | _ => False
  end.
Definition eof_seen (outs : list dout) : Prop := exists z, In (OP (PRes z SEof)) outs.

(* Two libraries treat an object that never had a source alike: the contract leaves open whether
   reading / closing such an object panics (snappy and brotli dereference the nil source, zstd
   reports an error), and a panic is observable. *)
Definition nosrc_alike {inst1 inst2}
           (view1 : inst1 -> lview) (l_read1 : inst1 -> option N -> inst1 * rres)
           (l_readn1 : inst1 -> N -> inst1 * pres) (l_close1 : inst1 -> inst1 * ures)
           (view2 : inst2 -> lview) (l_read2 : inst2 -> option N -> inst2 * rres)
           (l_readn2 : inst2 -> N -> inst2 * pres) (l_close2 : inst2 -> inst2 * ures) : Prop :=
  forall i1 i2, view1 i1 = NoSrc -> view2 i2 = NoSrc ->
    (forall n, snd (l_read1 i1 n) = RCrash <-> snd (l_read2 i2 n) = RCrash) /\
    (forall n, snd (l_readn1 i1 n) = PCrash <-> snd (l_readn2 i2 n) = PCrash) /\
    (snd (l_close1 i1) = UCrash <-> snd (l_close2 i2) = UCrash).
