(* C09_ProofsW.v — the writer side: what a failing writer leaves on the wire is a prefix of the
   proper stream; encode -> pipe -> decode gives back a prefix of the messages sent, all of them
   when the writer did not fail, and a clean end only when it failed exactly between frames. *)
From Coq Require Import Lia.
From V Require Import C09_Spec C09_Proofs.
Open Scope N_scope.

Lemma write_msg_length m : length (write_msg m) = (4 + length m)%nat.
Proof. unfold write_msg. now rewrite app_length, be32_length. Qed.

Lemma write_all_cons m ms : write_all (m :: ms) = write_msg m ++ write_all ms.
Proof. reflexivity. Qed.

Lemma firstn_app_le {A} n (a b : list A) : (n <= length a)%nat -> firstn n (a ++ b) = firstn n a.
Proof.
  intros H. rewrite firstn_app. replace (n - length a)%nat with 0%nat by lia.
  cbn. now rewrite app_nil_r.
Qed.

Lemma firstn_app_ge {A} n (a b : list A) : (length a <= n)%nat -> firstn n (a ++ b) = a ++ firstn (n - length a) b.
Proof. intros H. rewrite firstn_app, firstn_all2 by exact H. reflexivity. Qed.

(* ---------- writeDelimitedMessageRaw on a failing writer ----------
   h = what the writer does after its failure: false keeps failing, true accepts everything again. *)
Definition room_after (room : option nat) (n : nat) : option nat :=
  match room with None => None | Some r => Some (r - n)%nat end.

Lemma sink_write_fits p out room h :
  match room with None => True | Some r => (length p <= r)%nat end ->
  sink_write p (mk_sink out room h) = WOk (mk_sink (out ++ p) (room_after room (length p)) h).
Proof.
  intros H. unfold sink_write. cbn [k_room k_out k_heals]. destruct room as [r|]; [|reflexivity].
  now replace (length p <=? r)%nat with true by (symmetry; apply Nat.leb_le; lia).
Qed.

Lemma sink_write_short p out r h :
  (r < length p)%nat ->
  sink_write p (mk_sink out (Some r) h) = WErr (mk_sink (out ++ firstn r p) (after_failure h) h).
Proof.
  intros H. unfold sink_write. cbn [k_room k_out k_heals].
  now replace (length p <=? r)%nat with false by (symmetry; apply Nat.leb_gt; lia).
Qed.

Lemma write_delimited_fits m out room h :
  match room with None => True | Some r => (length (write_msg m) <= r)%nat end ->
  write_delimited m (mk_sink out room h) = WOk (mk_sink (out ++ write_msg m) (room_after room (length (write_msg m))) h).
Proof.
  intros H. unfold write_delimited. rewrite write_msg_length in *.
  rewrite sink_write_fits by (destruct room; [rewrite be32_length; lia|exact Logic.I]).
  rewrite sink_write_fits by (destruct room; cbn [room_after]; [rewrite be32_length; lia|exact Logic.I]).
  unfold write_msg. rewrite <- app_assoc, be32_length. do 2 f_equal.
  destruct room; cbn [room_after]; [f_equal; lia|reflexivity].
Qed.

(* the failing call: whether the prefix Write or the data Write fails, what is on the wire is the
   first r bytes of the frame and NOTHING behind them - in particular the data is not written
   after a failed prefix, although a writer that heals would have taken it *)
Lemma write_delimited_short m out r h :
  (r < length (write_msg m))%nat ->
  write_delimited m (mk_sink out (Some r) h) = WErr (mk_sink (out ++ firstn r (write_msg m)) (after_failure h) h).
Proof.
  intros H. rewrite write_msg_length in H. unfold write_delimited, write_msg.
  destruct (Nat.le_gt_cases 4 r) as [H4|H4].
  - rewrite sink_write_fits by (rewrite be32_length; exact H4). cbn [room_after]. rewrite be32_length.
    rewrite sink_write_short by lia.
    rewrite <- app_assoc, (firstn_app_ge r) by (rewrite be32_length; lia).
    now rewrite be32_length.
  - rewrite sink_write_short by (rewrite be32_length; lia).
    rewrite firstn_app_le by (rewrite be32_length; lia). reflexivity.
Qed.

Definition failed_spec (room : option nat) (total : nat) : bool :=
  match room with None => false | Some r => (r <? total)%nat end.

Lemma write_stream_spec : forall h ms out room n failed k,
  write_stream write_delimited ms (mk_sink out room h) = (n, failed, k) ->
  k_out k = out ++ wire_spec ms room /\
  failed = failed_spec room (length (write_all ms)) /\
  (n <= length ms)%nat /\ (failed = false -> n = length ms) /\
  match room with None => True | Some r => (length (write_all (firstn n ms)) <= r)%nat end.
Proof.
  intros h. induction ms as [|m ms IH]; intros out room n failed k E.
  - cbn in E. inversion E; subst. unfold wire_spec, cut_to, failed_spec. cbn.
    destruct room as [r|]; cbn; rewrite ?firstn_nil, ?app_nil_r; repeat split; lia.
  - cbn [write_stream] in E.
    assert (Hcase : match room with None => True | Some r => (length (write_msg m) <= r)%nat end \/
                    exists r, room = Some r /\ (r < length (write_msg m))%nat).
    { destruct room as [r|]; [|left; exact Logic.I]. destruct (Nat.le_gt_cases (length (write_msg m)) r); [left|right; exists r]; auto. }
    destruct Hcase as [Hfit|(r & -> & Hshort)].
    + rewrite write_delimited_fits in E by exact Hfit.
      destruct (write_stream write_delimited ms _) as [[n' f'] k'] eqn:E'. inversion E; subst; clear E.
      apply IH in E' as (Ho & Hf & Hn & Hall & Hlen).
      unfold wire_spec, cut_to in *. rewrite !write_all_cons.
      destruct room as [r|]; cbn [room_after failed_spec] in *.
      * rewrite Ho, <- app_assoc, (firstn_app_ge r) by exact Hfit.
        rewrite app_length. cbn [length firstn]. rewrite write_all_cons, app_length.
        repeat split; try lia.
        rewrite Hf. destruct (Nat.ltb_spec (r - length (write_msg m)) (length (write_all ms)));
          destruct (Nat.ltb_spec r (length (write_msg m) + length (write_all ms))); try reflexivity; lia.
      * rewrite Ho, <- app_assoc. cbn [length]. repeat split; try lia; auto.
    + rewrite write_delimited_short in E by exact Hshort. inversion E; subst; clear E.
      cbn [k_out]. unfold wire_spec, cut_to, failed_spec. rewrite write_all_cons, app_length.
      rewrite firstn_app_le by lia. cbn [firstn write_all map concat length].
      repeat split; try lia; try discriminate.
      symmetry. apply Nat.ltb_lt. lia.
Qed.

(* for BOTH kinds of writer *)
Lemma writer_wire_h_proof : forall h ms room, wire_of_h h write_delimited ms room = wire_spec ms room.
Proof.
  intros h ms room. unfold wire_of_h, sink_of_h.
  destruct (write_stream write_delimited ms (mk_sink [] room h)) as [[n f] k] eqn:E.
  apply write_stream_spec in E as (Ho & _). cbn [snd]. exact Ho.
Qed.

Lemma writer_wire_proof : forall ms room, wire_of write_delimited ms room = wire_spec ms room.
Proof. intros ms room. apply writer_wire_h_proof. Qed.

Lemma writer_reports_proof : forall h ms room n failed k,
  write_stream write_delimited ms (sink_of_h h room) = (n, failed, k) ->
  failed = failed_spec room (length (write_all ms)) /\
  (n <= length ms)%nat /\ (failed = false -> n = length ms) /\
  match room with None => True | Some r => (length (write_all (firstn n ms)) <= r)%nat end.
Proof. intros h ms room n failed k E. apply write_stream_spec in E. tauto. Qed.

(* ---------- a cut of a proper stream: whole frames, then j bytes of the next one ---------- *)
Lemma cut_decompose : forall ms r, (r < length (write_all ms))%nat ->
  exists pre m post j, ms = pre ++ m :: post /\ (j < length (write_msg m))%nat /\
    firstn r (write_all ms) = write_all pre ++ firstn j (write_msg m).
Proof.
  induction ms as [|m ms IH]; intros r Hr; [cbn in Hr; lia|].
  rewrite write_all_cons, app_length in Hr.
  destruct (Nat.lt_ge_cases r (length (write_msg m))) as [H|H].
  - exists [], m, ms, r. split; [reflexivity|]. split; [exact H|].
    rewrite write_all_cons, firstn_app_le by lia. reflexivity.
  - destruct (IH (r - length (write_msg m))%nat ltac:(lia)) as (pre & m' & post & j & -> & Hj & E).
    exists (m :: pre), m', post, j. split; [reflexivity|]. split; [exact Hj|].
    rewrite write_all_cons, firstn_app_ge by exact H. rewrite E, write_all_cons, app_assoc. reflexivity.
Qed.

(* the schedule-free result for whole frames followed by j bytes of one more, then EOF *)
Lemma expected_cut mx pre m j :
  Forall (fits mx) pre -> fits mx m -> (j < length (write_msg m))%nat ->
  expected mx TEOF (write_all pre ++ firstn j (write_msg m)) =
  (pre, FErr (if (0 <? j)%nat then MUnexpected else MEOF) 0).
Proof.
  intros Hpre Hm Hj.
  destruct (expected_frames mx TEOF pre (firstn j (write_msg m)) Hpre) as [f E].
  rewrite E, spec_read_partial by assumption. rewrite app_nil_r. unfold short_outcome.
  destruct (Nat.ltb_spec j 4) as [H4|H4].
  - replace (4 <=? j)%nat with false by (symmetry; apply Nat.leb_gt; lia). reflexivity.
  - replace (4 <=? j)%nat with true by (symmetry; apply Nat.leb_le; lia).
    replace (0 <? j)%nat with true by (symmetry; apply Nat.ltb_lt; lia). reflexivity.
Qed.

Lemma expected_whole mx ms : Forall (fits mx) ms -> expected mx TEOF (write_all ms) = (ms, FErr MEOF 0).
Proof.
  intros H. destruct (expected_frames mx TEOF ms [] H) as [f E].
  rewrite app_nil_r in E. rewrite E. cbn. now rewrite app_nil_r.
Qed.

Lemma write_all_app a b : write_all (a ++ b) = write_all a ++ write_all b.
Proof. unfold write_all. now rewrite map_app, concat_app. Qed.

(* what any reader whose result is `expected mx` makes of what went through the writer *)
Lemma pipe_expected mx ms room :
  Forall (fits mx) ms ->
  exists k e, expected mx TEOF (wire_spec ms room) = (firstn k ms, FErr e 0) /\ (k <= length ms)%nat /\
    (failed_spec room (length (write_all ms)) = false -> k = length ms /\ e = MEOF) /\
    (e = MEOF \/ e = MUnexpected) /\
    (e = MEOF <-> wire_spec ms room = write_all (firstn k ms)).
Proof.
  intros HF. unfold wire_spec, cut_to, failed_spec.
  assert (Hwhole : exists k e, expected mx TEOF (write_all ms) = (firstn k ms, FErr e 0) /\ (k <= length ms)%nat /\
            (k = length ms /\ e = MEOF) /\ (e = MEOF \/ e = MUnexpected) /\ (e = MEOF <-> write_all ms = write_all (firstn k ms))).
  { exists (length ms), MEOF. rewrite firstn_all, expected_whole by exact HF. repeat split; auto. }
  destruct room as [r|].
  - destruct (Nat.ltb_spec r (length (write_all ms))) as [Hr|Hr].
    + destruct (cut_decompose ms r Hr) as (pre & m & post & j & -> & Hj & E).
      apply Forall_app in HF as [Hpre Hm]. inversion Hm as [|? ? Hm1 _]; subst.
      exists (length pre). rewrite E, expected_cut by assumption.
      rewrite firstn_app, Nat.sub_diag, firstn_all. cbn [firstn]. rewrite app_nil_r.
      eexists. split; [reflexivity|]. split; [rewrite app_length; lia|]. split; [discriminate|].
      destruct (Nat.ltb_spec 0 j) as [H0|H0].
      * split; [right; reflexivity|]. split; [discriminate|].
        intros Heq. apply (f_equal (@length N)) in Heq. rewrite app_length, firstn_length in Heq. lia.
      * split; [left; reflexivity|]. split; [|reflexivity]. intros _.
        replace j with 0%nat by lia. cbn. now rewrite app_nil_r.
    + rewrite firstn_all2 by exact Hr. destruct Hwhole as (k & e & H1 & H2 & H3 & H4 & H5).
      exists k, e. repeat split; try tauto.
  - destruct Hwhole as (k & e & H1 & H2 & H3 & H4 & H5). exists k, e. repeat split; try tauto.
Qed.

Definition ok32 (m : bytes) : Prop := N.of_nat (length m) < 4294967296.

Lemma fits_none m : ok32 m -> fits None m.
Proof. intros H. split; [exact H|reflexivity]. Qed.

(* runner writes (WriteDelimitedMessage), peer decodes (protoDecoder) *)
Lemma pipe_to_peer_proof : forall ms room sch eg,
  Forall ok32 ms ->
  exists k e, decode_all (mk_src (wire_of write_delimited ms room) sch eg TEOF) = (firstn k ms, FErr e 0) /\
    (k <= length ms)%nat /\
    (failed_spec room (length (write_all ms)) = false -> k = length ms /\ e = MEOF) /\
    (e = MEOF \/ e = MUnexpected) /\
    (e = MEOF <-> wire_of write_delimited ms room = write_all (firstn k ms)).
Proof.
  intros ms room sch eg HF. rewrite decoder_any_sched_proof, writer_wire_proof.
  apply pipe_expected. eapply Forall_impl; [|exact HF]. exact fits_none.
Qed.

(* peer writes (protoEncoder), runner reads (ReadDelimitedMessage with a limit) *)
Lemma pipe_to_runner_proof : forall max ms room sch eg,
  Forall (fun m => N.of_nat (length m) <= max) ms -> max < 4294967296 ->
  exists k e, read_all max (mk_src (wire_of write_delimited ms room) sch eg TEOF) = (firstn k ms, FErr e 0) /\
    (k <= length ms)%nat /\
    (failed_spec room (length (write_all ms)) = false -> k = length ms /\ e = MEOF) /\
    (e = MEOF \/ e = MUnexpected) /\
    (e = MEOF <-> wire_of write_delimited ms room = write_all (firstn k ms)).
Proof.
  intros max ms room sch eg HF Hmax. rewrite any_sched_proof, writer_wire_proof.
  apply pipe_expected. apply Forall_fits; assumption.
Qed.

Lemma encode_decode_roundtrip_proof : forall max ms sch eg,
  Forall (fun m => N.of_nat (length m) <= max) ms -> max < 4294967296 ->
  read_all max (mk_src (wire_of write_delimited ms None) sch eg TEOF) = (ms, FErr MEOF 0) /\
  decode_all (mk_src (wire_of write_delimited ms None) sch eg TEOF) = (ms, FErr MEOF 0).
Proof.
  intros max ms sch eg HF Hmax. rewrite any_sched_proof, decoder_any_sched_proof, writer_wire_proof.
  unfold wire_spec, cut_to. split; apply expected_whole.
  - apply Forall_fits; assumption.
  - eapply Forall_impl; [|exact HF]. intros m Hm. cbv beta in Hm. apply fits_none. unfold ok32. lia.
Qed.

(* ---------- jsonEncoder.Encode on a failing writer ---------- *)
Lemma json_write_all_cons v vs : json_write_all (v :: vs) = v ++ 10 :: json_write_all vs.
Proof. unfold json_write_all. cbn [map concat]. unfold json_write. now rewrite <- app_assoc. Qed.

(* The JSON encoder is stated for the writer that keeps failing (h = false).  It is NOT true of a
   writer that heals: the error of the newline Write is dropped by the code, so when exactly the
   newline did not fit the next Encode carries on and the wire is v1 v2 newline ... (still a
   sequence of complete values, but not a prefix of the proper stream). *)
Lemma json_encode_fits v out room :
  match room with None => True | Some r => (length v + 1 <= r)%nat end ->
  json_encode v (mk_sink out room false) = WOk (mk_sink (out ++ v ++ [10]) (room_after room (length v + 1)) false).
Proof.
  intros H. unfold json_encode.
  rewrite sink_write_fits by (destruct room; [lia|exact Logic.I]).
  rewrite sink_write_fits by (destruct room; cbn [room_after length]; [lia|exact Logic.I]).
  rewrite <- app_assoc. do 2 f_equal. destruct room; cbn [room_after length]; [f_equal; lia|reflexivity].
Qed.

Lemma json_encode_no_newline v out r :
  length v = r -> json_encode v (mk_sink out (Some r) false) = WOk (mk_sink (out ++ v) (Some 0%nat) false).
Proof.
  intros H. unfold json_encode. rewrite sink_write_fits by lia. cbn [room_after].
  rewrite sink_write_short by (cbn [length]; lia).
  replace (r - length v)%nat with 0%nat by lia. cbn [firstn after_failure]. now rewrite app_nil_r.
Qed.

Lemma json_encode_short v out r :
  (r < length v)%nat -> json_encode v (mk_sink out (Some r) false) = WErr (mk_sink (out ++ firstn r v) (Some 0%nat) false).
Proof. intros H. unfold json_encode. now rewrite sink_write_short by exact H. Qed.

Lemma json_stream_spec : forall vs out room n failed k,
  write_stream json_encode vs (mk_sink out room false) = (n, failed, k) ->
  k_out k = out ++ json_wire_spec vs room /\
  (room = None -> failed = false /\ n = length vs).
Proof.
  induction vs as [|v vs IH]; intros out room n failed k E.
  - cbn in E. inversion E; subst. unfold json_wire_spec, cut_to. cbn.
    destruct room; rewrite ?firstn_nil, app_nil_r; split; auto; discriminate.
  - cbn [write_stream] in E. unfold json_wire_spec, cut_to in *. rewrite json_write_all_cons.
    assert (Hcase : match room with None => True | Some r => (length v + 1 <= r)%nat end \/
                    (exists r, room = Some r /\ length v = r) \/ (exists r, room = Some r /\ (r < length v)%nat)).
    { destruct room as [r|]; [|left; exact Logic.I].
      destruct (Nat.lt_trichotomy r (length v)) as [H|[H|H]]; [right; right|right; left|left]; eauto; lia. }
    destruct Hcase as [Hfit|[(r & -> & Hr)|(r & -> & Hr)]].
    + rewrite json_encode_fits in E by exact Hfit.
      destruct (write_stream json_encode vs _) as [[n' f'] k'] eqn:E'. inversion E; subst; clear E.
      apply IH in E' as [Ho Hn]. rewrite Ho. destruct room as [r|]; cbn [room_after] in *.
      * split; [|discriminate]. rewrite (firstn_app_ge r) by lia.
        replace (r - length v)%nat with (S (r - (length v + 1))) by lia. cbn [firstn].
        rewrite <- !app_assoc. reflexivity.
      * destruct (Hn eq_refl) as [-> ->]. split; [|auto]. rewrite <- !app_assoc. reflexivity.
    + rewrite json_encode_no_newline in E by exact Hr.
      destruct (write_stream json_encode vs _) as [[n' f'] k'] eqn:E'. inversion E; subst; clear E.
      apply IH in E' as [Ho _]. split; [|discriminate]. rewrite Ho. cbn [firstn].
      rewrite (firstn_app_ge (length v)) by lia. rewrite Nat.sub_diag. cbn [firstn]. now rewrite !app_nil_r.
    + rewrite json_encode_short in E by exact Hr. inversion E; subst; clear E. cbn [k_out].
      split; [|discriminate]. rewrite firstn_app_le by lia. reflexivity.
Qed.

Lemma json_writer_wire_proof : forall vs room, wire_of json_encode vs room = json_wire_spec vs room.
Proof.
  intros vs room. unfold wire_of, wire_of_h, sink_of_h.
  destruct (write_stream json_encode vs (mk_sink [] room false)) as [[n f] k] eqn:E.
  apply json_stream_spec in E as (Ho & _). exact Ho.
Qed.

Lemma json_encode_decode_roundtrip_proof : forall scan, scanner_skips_newline scan ->
  forall vs sch eg, Forall (scanner_ok scan) vs ->
  json_all scan (mk_src (wire_of json_encode vs None) sch eg TEOF) = (vs, JFErr MEOF).
Proof.
  intros scan Hs vs sch eg HF. rewrite json_writer_wire_proof. unfold json_wire_spec, cut_to.
  now apply json_roundtrip_any_sched_proof.
Qed.

(* ---------- no buffer for an announced length above the limit ---------- *)
Lemma msg_bufs_bounded max s : Forall (fun b => b <= N.max 4 max) (msg_bufs max s).
Proof.
  unfold msg_bufs. rewrite prefix_len_is_4.
  destruct (read_n 4 s); try (constructor; [lia|constructor]).
  cbv zeta. destruct (N.ltb_spec max (be_decode got 0)); repeat constructor; lia.
Qed.

Lemma no_oversize_buffer_proof : forall max s, Forall (fun b => b <= N.max 4 max) (all_bufs max s).
Proof.
  intros max s. unfold all_bufs. generalize (S (length (s_data s))) as fuel. intros fuel. revert s.
  induction fuel as [|f IH]; intros s; [constructor|].
  cbn [all_bufs_loop]. apply Forall_app. split; [apply msg_bufs_bounded|].
  destruct (read_msg max s); try constructor. apply IH.
Qed.

Lemma bufs_within_proof : forall max s, bufs_within max s = true.
Proof.
  intros max s. unfold bufs_within. apply forallb_forall. intros b Hb.
  pose proof (no_oversize_buffer_proof max s) as H. rewrite Forall_forall in H.
  apply N.leb_le. now apply H.
Qed.

(* an oversize announcement: exactly one buffer (the prefix) for that call, whatever the schedule *)
Lemma oversize_no_body_buffer_proof : forall max size rest sch eg t,
  max < size -> size < 4294967296 ->
  msg_bufs max (mk_src (be32 size ++ rest) sch eg t) = [4].
Proof.
  intros max size rest sch eg t Hlt Hsz. unfold msg_bufs. rewrite prefix_len_is_4.
  pose proof (read_n_closed 4 (be32 size ++ rest) sch eg t) as H. unfold loop_post in H.
  rewrite app_length, be32_length in H.
  replace (4 <=? N.of_nat (4 + length rest)) with true in H by (symmetry; apply N.leb_le; lia).
  destruct H as [sch' ->]. cbn [app]. cbv zeta.
  change (N.to_nat 4) with (length (be32 size)). rewrite firstn_app, Nat.sub_diag, firstn_all. cbn [firstn].
  rewrite app_nil_r, be_decode_be32 by exact Hsz.
  now replace (max <? size) with true by (symmetry; apply N.ltb_lt; exact Hlt).
Qed.
