(* C14_Server.v — executable model of the handler chain that
     internal/app/referenceserver/server.go  createServer
   installs around the Connect mux, as far as the RESPONSE BODY is concerned: which layer hands which
   bytes to the layer outside it, and what the tracing layer therefore records as against what
   reaches the wire.
     mux (+ rawResponseRecorder interceptor: notes the raw response a test case asks for and makes the
          RPC fail with "use raw response instead")
     bidi trick (HTTP/1.1 bidi requests pose as HTTP/2)
     referenceServerChecks            (reference mode)
     rawResponder                     (reference mode; its rawResponseWriter SWALLOWS what the inner
                                       handler writes once a raw response was noted, and finish()
                                       writes the raw response instead: it REPLACES the inner response)
     TE: trailers check               (non-reference mode)
     tracer.TracingHandler            (when a tracer was given)
     cors
     h2c                              (HTTP/2 without TLS: newH2Server)
   Every layer except rawResponder passes the response body through as it is.  The tracing layer
   records what passes THROUGH IT (tracingResponseWriter.Write traces what it forwards).
   The order itself is not a value the compiled code could print (it is a nest of closures): the
   correspondence kind c14.server drives the real createServer and compares.  No proofs here. *)
From V Require Export Base.
Open Scope N_scope.

Inductive layer := LMux | LBidiTrick | LChecks | LRawResponder | LTeCheck | LTracing | LCors | LH2c.

(* a response as it travels outward: status code, body bytes *)
Definition sresp := (N * bytes)%type.

(* what a layer hands to the layer outside it, given what the layer inside it produced;
   raw = the raw response the recorder noted for this call, if any *)
Definition through (raw : option sresp) (l : layer) (r : sresp) : sresp :=
  match l with
  | LRawResponder => match raw with Some x => x | None => r end
  | _ => r
  end.

(* chain: outermost layer first.  -> (what leaves the outermost layer = the wire,
                                     what the (outermost) tracing layer recorded, if there is one) *)
Fixpoint wire_and_seen (raw : option sresp) (chain : list layer) (inner : sresp) : sresp * option sresp :=
  match chain with
  | [] => (inner, None)
  | l :: rest =>
    let (r, seen) := wire_and_seen raw rest inner in
    let r' := through raw l r in
    (r', match l with LTracing => Some r' | _ => seen end)
  end.

(* createServer, in the order of its statements (each `handler = wrap(handler)` puts a layer OUTSIDE) *)
Definition create_server_chain (reference traced h2c : bool) : list layer :=
  (if h2c then [LH2c] else []) ++ [LCors] ++ (if traced then [LTracing] else []) ++
  (if reference then [LRawResponder; LChecks] else [LTeCheck]) ++ [LBidiTrick; LMux].

(* "tracing is outside every rawResponder": going inward from the wire, a tracing layer comes first *)
Fixpoint traced_outside_raw (chain : list layer) : bool :=
  match chain with
  | [] => false
  | LTracing :: _ => true
  | LRawResponder :: _ => false
  | _ :: rest => traced_outside_raw rest
  end.

(* ---------- a raw response body (conformancev1.RawHTTPResponse; internal/raw_http_body.go) ---------- *)
(* StreamItem: flags, explicit length if any, payload (uncompressed contents) *)
Record raw_item := mk_item { i_flags : N; i_declared : option N; i_payload : bytes }.
Definition item_bytes (it : raw_item) : bytes :=
  i_flags it :: be32 (match i_declared it with Some n => n | None => N.of_nat (length (i_payload it)) end)
  ++ i_payload it.
Inductive raw_body := RawUnary (b : bytes) | RawStream (items : list raw_item).
Definition raw_body_bytes (b : raw_body) : bytes :=
  match b with RawUnary x => x | RawStream items => concat (map item_bytes items) end.
(* rawResponseWriter.finish: "If no status code was specified in the raw response, default to 200" *)
Definition raw_status (st : N) : N := if st =? 0 then 200 else st.

Definition un_raw_item (s : sx) : option raw_item :=
  match s with
  | L [I f; I d; B p] =>
    if (f <? 0)%Z || (255 <? f)%Z || (d <? -1)%Z || (4294967295 <? d)%Z then None
    else Some (mk_item (Z.to_N f) (if (d =? -1)%Z then None else Some (Z.to_N d)) p)
  | _ => None
  end.
Definition un_raw_body (s : sx) : option raw_body :=
  match s with
  | L [I 0%Z; B b] => Some (RawUnary b)
  | L [I 1%Z; items] => do items <- un_listof un_raw_item items; ret (RawStream items)
  | _ => None
  end.
