(* C14_Model.v — executable model of
     internal/tracer/reader.go     (dataTracer.trace, tracePrefixLocked, traceMessageLocked,
                                    emitUnfinished, tracingReader.Read/Close/tryFinish,
                                    propertiesFromHeaders)
     internal/tracer/middleware.go (tracingResponseWriter.Write / tryFinish)
     internal/tracer/builder.go    (builder.add: message indices, events after the trace
                                    was handed to the collector are dropped)
     internal/tracer/tracer.go     (GetDecompressor: which names are known)
   as the code is, statement by statement.  No proofs here. *)
From V Require Export Base C14_Http C14_Server.
Open Scope N_scope.

(* ---------- what the tracer is configured with ---------- *)
Record cfg := mk_cfg {
  c_req : bool;      (* dataTracer.isRequest *)
  c_stream : bool;   (* dataTracer.isStreamProtocol *)
  c_dec : bool       (* dataTracer.decompressor != nil *)
}.

Record envelope := mk_env { e_flags : N; e_len : N }.

(* what dataTracer hands to builder.add (the builder supplies the message index) *)
Inductive tev :=
| TData (e : option envelope) (len : N)      (* Request/ResponseBodyData{Envelope, Len} *)
| TEnd (content : bytes).                    (* ResponseBodyEndStream{Content} *)

(* dataTracer's mutable fields *)
Record dt := mk_dt {
  d_prefix : bytes;            (* partial envelope prefix *)
  d_env : option envelope;     (* current envelope *)
  d_expecting : N;             (* uint32: declared payload length; 0 = reading a prefix *)
  d_actual : N;                (* uint64: payload bytes seen so far *)
  d_end : option bytes         (* buffered end-stream payload (nil = not capturing) *)
}.
Definition dt_init : dt := mk_dt [] None 0 0 None.

Definition prefix_len : nat := 5.
Definition blen (b : bytes) : N := N.of_nat (length b).

(* the two flag tests the code makes *)
Definition flags_end_stream (f : N) : bool := negb (N.land f 130 =? 0).   (* Flags & 0x82 != 0 *)
Definition flags_compressed (f : N) : bool := negb (N.land f 1 =? 0).     (* Flags & 1 != 0 *)

Section Tracer.
  (* the negotiated connect.Decompressor run to completion on a buffer:
     Some out = Reset and ReadFrom both succeeded, None = either failed *)
  Variable decompress : bytes -> option bytes.
  Variable c : cfg.

  (* traceMessageLocked's  `if d.decompressor == nil || d.env.Flags&1 == 0 {content = raw} else {...}`;
     an error leaves content == "" *)
  Definition end_content (e : option envelope) (buf : bytes) : bytes :=
    let f := match e with Some e => e_flags e | None => 0 end in
    if negb (c_dec c) || negb (flags_compressed f) then buf
    else match decompress buf with Some out => out | None => [] end.

  (* tracePrefixLocked: (state, events, n, done) *)
  Definition step_prefix (d : dt) (data : bytes) : dt * list tev * nat * bool :=
    let need := (prefix_len - length (d_prefix d))%nat in
    if (length data <? need)%nat then
      (mk_dt (d_prefix d ++ data) (d_env d) (d_expecting d) (d_actual d) (d_end d), [], need, false)
    else
      let p := d_prefix d ++ firstn need data in
      let e := mk_env (hd 0 p) (be_decode (firstn 4 (tl p)) 0) in
      if e_len e =? 0 then
        (mk_dt [] None 0 (d_actual d) (d_end d), [TData (Some e) 0], need, true)
      else if negb (c_req c) && flags_end_stream (e_flags e) then
        (mk_dt [] (Some e) (e_len e) (d_actual d) (Some []), [], need, true)
      else
        (mk_dt [] (Some e) (e_len e) (d_actual d) (d_end d), [], need, true).

  (* traceMessageLocked.  need = int(expecting - uint32(actual)): actual < expecting whenever
     this runs (C14_Proofs.wf), so the unsigned subtraction does not wrap. *)
  Definition step_message (d : dt) (data : bytes) : dt * list tev * nat * bool :=
    let need := d_expecting d - d_actual d in
    if blen data <? need then
      (mk_dt (d_prefix d) (d_env d) (d_expecting d) (d_actual d + blen data)
             (match d_end d with Some b => Some (b ++ data) | None => None end), [], O, false)
    else
      let n := N.to_nat need in
      let evs := match d_end d with
                 | None => []
                 | Some b => match end_content (d_env d) (b ++ firstn n data) with
                             | [] => []
                             | content => [TEnd content]
                             end
                 end in
      (mk_dt (d_prefix d) None 0 0 None, TData (d_env d) (d_expecting d) :: evs, n, true).

  (* the for-loop of trace; every completed step consumes at least one byte *)
  Fixpoint trace_loop (fuel : nat) (d : dt) (data : bytes) : dt * list tev :=
    match fuel with
    | O => (d, [])
    | S f =>
      match data with
      | [] => (d, [])
      | _ :: _ =>
        let '(d', evs, n, done) :=
          if d_expecting d =? 0 then step_prefix d data else step_message d data in
        if done then
          let (d'', evs') := trace_loop f d' (skipn n data) in (d'', evs ++ evs')
        else (d', evs)
      end
    end.

  (* dataTracer.trace *)
  Definition trace (d : dt) (data : bytes) : dt * list tev :=
    if negb (c_stream c) then
      (mk_dt (d_prefix d) (d_env d) (d_expecting d) (d_actual d + blen data) (d_end d), [])
    else trace_loop (S (length data)) d data.

  (* dataTracer.emitUnfinished *)
  Definition emit_unfinished (d : dt) : dt * list tev :=
    let u := if (d_expecting d =? 0) && (0 <? length (d_prefix d))%nat
             then blen (d_prefix d) else d_actual d in
    (dt_init, if 0 <? u then [TData (d_env d) u] else []).

  (* a list of chunks fed one after the other *)
  Fixpoint feed (d : dt) (chunks : list bytes) : dt * list tev :=
    match chunks with
    | [] => (d, [])
    | ch :: rest =>
      let (d1, e1) := trace d ch in
      let (d2, e2) := feed d1 rest in (d2, e1 ++ e2)
    end.
End Tracer.

(* ---------- builder.add, as far as body events are concerned ---------- *)
Inductive errk := ENil | EScripted | EOther.    (* Err of the body-end event: nil / the inner error (possibly wrapped) / another error *)

Inductive event :=
| EvData (req : bool) (idx : N) (e : option envelope) (len : N)
| EvEos (content : bytes)
| EvEnd (req : bool) (err : errk).

Record bld := mk_bld {
  b_live : bool;          (* trace.TestName != "": not yet handed to the collector *)
  b_events : list event;
  b_req_count : N;
  b_resp_count : N
}.
Definition bld_init : bld := mk_bld true [] 0 0.

Definition b_add_tev (req : bool) (b : bld) (t : tev) : bld :=
  if negb (b_live b) then b else
  match t with
  | TData e len =>
    if req then mk_bld true (b_events b ++ [EvData true (b_req_count b) e len]) (b_req_count b + 1) (b_resp_count b)
    else mk_bld true (b_events b ++ [EvData false (b_resp_count b) e len]) (b_req_count b) (b_resp_count b + 1)
  | TEnd content => mk_bld true (b_events b ++ [EvEos content]) (b_req_count b) (b_resp_count b)
  end.

Definition b_add_all (req : bool) (b : bld) (ts : list tev) : bld := fold_left (b_add_tev req) ts b.

(* RequestBodyEnd finishes the trace only with a non-nil error; ResponseBodyEnd always *)
Definition b_add_end (req : bool) (b : bld) (err : errk) : bld :=
  if negb (b_live b) then b else
  let finish := if req then match err with ENil => false | _ => true end else true in
  mk_bld (negb finish) (b_events b ++ [EvEnd req err]) (b_req_count b) (b_resp_count b).

(* ---------- the wrappers: tracingReader and tracingResponseWriter ---------- *)
Inductive ioerr := IoNone | IoEOF | IoFail.

Record wstate := mk_ws { w_closed : bool; w_dt : dt; w_b : bld }.
Definition ws_init : wstate := mk_ws false dt_init bld_init.

(* script of calls made on the wrapper, with what the INNER reader/writer answers *)
Inductive rop :=
| RRead (data : bytes) (err : ioerr)      (* inner.Read puts data into the buffer and returns (len data, err) *)
| RClose (fail : bool).                   (* inner.Close returns an error or nil *)
Inductive rres :=
| ResRead (data : bytes) (err : ioerr)    (* what the caller of the wrapper gets back *)
| ResClose (fail : bool).

Inductive wop := WWrite (data : bytes) (n : nat) (fail : bool).   (* inner.Write(data) returns (n, err) *)
Inductive wres := ResWrite (n : nat) (fail : bool).

Section Wrappers.
  Variable decompress : bytes -> option bytes.
  Variable c : cfg.

  (* tracingReader.tryFinish / tracingResponseWriter.tryFinish *)
  Definition try_finish (s : wstate) (err : errk) : wstate :=
    if w_closed s then s else
    let (d', evs) := emit_unfinished (w_dt s) in
    mk_ws true d' (b_add_end (c_req c) (b_add_all (c_req c) (w_b s) evs) err).

  Definition do_trace (s : wstate) (data : bytes) : wstate :=
    let (d', evs) := trace decompress c (w_dt s) data in
    mk_ws (w_closed s) d' (b_add_all (c_req c) (w_b s) evs).

  (* tracingReader.Read / Close *)
  Definition reader_step (s : wstate) (op : rop) : wstate * rres :=
    match op with
    | RRead data err =>
      let s1 := do_trace s data in
      let s2 := match err with
                | IoNone => s1
                | IoEOF => try_finish s1 ENil
                | IoFail => try_finish s1 EScripted
                end in
      (s2, ResRead data err)
    | RClose fail =>
      (try_finish s (if fail then EScripted else EOther), ResClose fail)
    end.

  Fixpoint reader_run (s : wstate) (ops : list rop) : wstate * list rres :=
    match ops with
    | [] => (s, [])
    | op :: rest =>
      let (s1, r) := reader_step s op in
      let (s2, rs) := reader_run s1 rest in (s2, r :: rs)
    end.

  (* tracingResponseWriter.Write *)
  Definition writer_step (s : wstate) (op : wop) : wstate * wres :=
    match op with
    | WWrite data n fail =>
      let s1 := do_trace s (firstn n data) in
      ((if fail then try_finish s1 EScripted else s1), ResWrite n fail)
    end.

  Fixpoint writer_run (s : wstate) (ops : list wop) : wstate * list wres :=
    match ops with
    | [] => (s, [])
    | op :: rest =>
      let (s1, r) := writer_step s op in
      let (s2, rs) := writer_run s1 rest in (s2, r :: rs)
    end.

  (* raw dataTracer driven chunk by chunk, then what tryFinish(nil) does *)
  Definition raw_events (chunks : list bytes) : list event :=
    let (d, evs) := feed decompress c dt_init chunks in
    let b := b_add_all (c_req c) bld_init evs in
    b_events (w_b (try_finish (mk_ws false d b) ENil)).

  Definition reader_events (ops : list rop) : list event := b_events (w_b (fst (reader_run ws_init ops))).
  (* TracingHandler calls tryFinish(nil) when the handler returns *)
  Definition writer_events (ops : list wop) : list event :=
    b_events (w_b (try_finish (fst (writer_run ws_init ops)) ENil)).
End Wrappers.

(* ---------- propertiesFromHeaders / GetDecompressor ---------- *)
Inductive dkind := DNil | DIdentity | DBroken | DNamed.

Definition get_decompressor (enc : bytes) : dkind :=
  let e := lower enc in
  if bytes_eqb e [] || bytes_eqb e (bs "identity") then DIdentity
  else if mem_bytes e [bs "gzip"; bs "br"; bs "zstd"; bs "deflate"; bs "snappy"] then DNamed
  else DBroken.

(* Content-Type, Content-Encoding, Connect-Content-Encoding, Grpc-Encoding *)
Definition props_of_headers (ct cenc connenc grpcenc : bytes) : bool * dkind :=
  match cenc with
  | _ :: _ => (false, DBroken)
  | [] =>
    if has_prefix (bs "application/connect") (lower ct) then (true, get_decompressor connenc)
    else if has_prefix (bs "application/grpc") (lower ct) then (true, get_decompressor grpcenc)
    else (false, DBroken)
  end.

(* the decompressors, to RUN the model: identity copies, the broken one yields nothing, a named
   one is looked up in the table of (compressed, result) pairs the case carries (C20's domain) *)
Fixpoint table_dec (tbl : list (bytes * option bytes)) (b : bytes) : option bytes :=
  match tbl with
  | [] => None
  | (k, v) :: t => if bytes_eqb k b then v else table_dec t b
  end.
Definition dec_fun (k : dkind) (tbl : list (bytes * option bytes)) : bytes -> option bytes :=
  match k with
  | DNil | DIdentity => Some
  | DBroken => fun _ => Some []
  | DNamed => table_dec tbl
  end.
Definition has_dec (k : dkind) : bool := match k with DNil => false | _ => true end.

(* ---------- case decoding / result encoding (extracted glue) ---------- *)
Definition sx_env (e : envelope) : sx := L [sx_N (e_flags e); sx_N (e_len e)].
Definition sx_errk (e : errk) : sx :=
  B (match e with ENil => bs "nil" | EScripted => bs "inner" | EOther => bs "other" end).
Definition sx_event (e : event) : sx :=
  match e with
  | EvData req idx env len => L [B (bs "data"); sx_bool req; sx_N idx; sx_opt sx_env env; sx_N len]
  | EvEos content => L [B (bs "eos"); B content]
  | EvEnd req err => L [B (bs "end"); sx_bool req; sx_errk err]
  end.
Definition sx_ioerr (e : ioerr) : sx :=
  B (match e with IoNone => bs "nil" | IoEOF => bs "eof" | IoFail => bs "inner" end).

Definition un_dkind (s : sx) : option dkind :=
  match s with
  | I 0%Z => Some DNil | I 1%Z => Some DIdentity | I 2%Z => Some DBroken | I 3%Z => Some DNamed
  | _ => None
  end.
Definition un_table (s : sx) : option (list (bytes * option bytes)) :=
  un_listof (fun e => match e with
                      | L [B k; v] => do v <- un_opt un_B v; ret (k, v)
                      | _ => None end) s.
Definition un_ioerr (s : sx) : option ioerr :=
  match s with I 0%Z => Some IoNone | I 1%Z => Some IoEOF | I 2%Z => Some IoFail | _ => None end.

(* (req stream deckind encoding-name table chunks) -> (events), through dataTracer.trace /
   emitUnfinished / builder; the name only tells the Go side which real decompressor to take *)
Definition run_c14_raw (args : list sx) : sx :=
  or_bad (match args with
  | [rq; st; dk; _; tbl; chunks] =>
    do rq <- un_bool rq; do st <- un_bool st; do dk <- un_dkind dk; do tbl <- un_table tbl;
    do chunks <- un_listof un_B chunks;
    ret (L (map sx_event (raw_events (dec_fun dk tbl) (mk_cfg rq st (has_dec dk)) chunks)))
  | _ => None end).

Definition un_headers (s : sx) : option (bool * dkind) :=
  match s with
  | L [B ct; B cenc; B connenc; B grpcenc] => Some (props_of_headers ct cenc connenc grpcenc)
  | _ => None
  end.

Definition un_rop (s : sx) : option rop :=
  match s with
  | L [I 0%Z; B data; e; _] => do e <- un_ioerr e; ret (RRead data e)
  | L [I 1%Z; f] => do f <- un_bool f; ret (RClose f)
  | _ => None
  end.
Definition sx_rres (r : rres) : sx :=
  match r with
  | ResRead data e => L [B data; sx_ioerr e]
  | ResClose f => L [sx_ioerr (if f then IoFail else IoNone)]
  end.

(* (req headers table ops) -> ((what the caller got per call) (events)), through newReader / tracingReader *)
Definition run_c14_reader (args : list sx) : sx :=
  or_bad (match args with
  | [rq; hd; tbl; ops] =>
    do rq <- un_bool rq; do p <- un_headers hd; do tbl <- un_table tbl; do ops <- un_listof un_rop ops;
    let (st, dk) := p in
    let r := reader_run (dec_fun dk tbl) (mk_cfg rq st (has_dec dk)) ws_init ops in
    ret (L [L (map sx_rres (snd r)); L (map sx_event (b_events (w_b (fst r))))])
  | _ => None end).

Definition un_wop (s : sx) : option wop :=
  match s with
  | L [B data; n; f] =>
    do n <- un_nat n; do f <- un_bool f;
    if (length data <? n)%nat then None        (* an io.Writer never reports more than it was given *)
    else ret (WWrite data n f)
  | _ => None
  end.
Definition sx_wres (r : wres) : sx :=
  match r with ResWrite n f => L [sx_nat n; sx_ioerr (if f then IoFail else IoNone)] end.

(* (headers table ops) -> ((n, err per Write) (events)), through tracingResponseWriter *)
Definition run_c14_writer (args : list sx) : sx :=
  or_bad (match args with
  | [hd; tbl; ops] =>
    do p <- un_headers hd; do tbl <- un_table tbl; do ops <- un_listof un_wop ops;
    let (st, dk) := p in
    let cf := mk_cfg false st (has_dec dk) in
    let r := writer_run (dec_fun dk tbl) cf ws_init ops in
    ret (L [L (map sx_wres (snd r));
            L (map sx_event (b_events (w_b (try_finish cf (fst r) ENil))))])
  | _ => None end).

(* (content-type content-encoding connect-content-encoding grpc-encoding) -> (isStream kind) *)
Definition run_c14_props (args : list sx) : sx :=
  or_bad (match args with
  | [hd] => do p <- un_headers hd;
    ret (L [sx_bool (fst p); I (match snd p with DNil => 0 | DIdentity => 1 | DBroken => 2 | DNamed => 3 end)%Z])
  | _ => None end).

(* ---------- the scripts through TracingHandler / TracingRoundTripper, with the request / response around them ---------- *)
Definition props_of_hmap (h : hmap) : bool * dkind :=
  props_of_headers (h_get1 (bs "Content-Type") h) (h_get1 (bs "Content-Encoding") h)
                   (h_get1 (bs "Connect-Content-Encoding") h) (h_get1 (bs "Grpc-Encoding") h).

(* the wrapped handler reads the request body to the end (the inner body delivers the chunks, then (0, EOF)),
   then writes; one builder for both directions *)
Definition body_script (chunks : list bytes) : list rop := map (fun ch => RRead ch IoNone) chunks ++ [RRead [] IoEOF].

(* (headers table ops) as c14.writer, or
   (headers table ops (mode method clen request-headers body-chunks)) ->
     ((n, err per Write) (events of both directions) (what the handler's reads of the body returned)
      ((method ContentLength headers) the handler sees, the request headers the trace reports)) *)
Definition run_c14_handler (args : list sx) : sx :=
  match args with
  | [hd; tbl; ops; rq] =>
    or_bad (
    do p <- un_headers hd; do tbl <- un_table tbl; do ops <- un_listof un_wop ops;
    do q <- un_reqspec rq;
    let '(mode, m, clen, h, chunks) := q in
    if (mode =? 2)%Z then None else      (* net/http's server never hands a handler a nil Body *)
    let (stq, dkq) := props_of_hmap h in
    let (st, dk) := p in
    let r1 := reader_run (dec_fun dkq []) (mk_cfg true stq (has_dec dkq)) ws_init (body_script chunks) in
    let cf := mk_cfg false st (has_dec dk) in
    let r := writer_run (dec_fun dk tbl) cf (mk_ws false dt_init (w_b (fst r1))) ops in
    ret (L [L (map sx_wres (snd r));
            L (map sx_event (b_events (w_b (try_finish cf (fst r) ENil))));
            L (map sx_rres (snd r1));
            handler_request_sx m clen h]))
  | _ => run_c14_writer args
  end.

(* ---------- responses without a body / a real exchange (c14.rt, optional 5th element of the response spec) ---------- *)
(* (status clen headers trailers [bodykind]): 0 scripted body (default), 1 the transport returns http.NoBody,
   2 a real exchange over loopback, 3 the transport returns an empty reader that is not http.NoBody *)
Definition split_respspec (s : sx) : option (sx * Z) :=
  match s with
  | L [a; b; c; d] => Some (L [a; b; c; d], 0%Z)
  | L [a; b; c; d; I k] => if (k <? 0)%Z || (3 <? k)%Z then None else Some (L [a; b; c; d], k)
  | _ => None
  end.
Definition rop_data (o : rop) : bytes := match o with RRead d _ => d | RClose _ => [] end.
Definition is_ok_close (o : rop) : bool := match o with RClose false => true | _ => false end.
(* what an application does with a real body that is empty: Read -> (0, EOF), then Close (which succeeds) *)
Definition empty_script (ops : list rop) : bool :=
  match ops with RRead [] IoEOF :: cl => forallb is_ok_close cl | _ => false end.
(* ... with a real body: reads, the last one reporting EOF, then Close *)
Fixpoint live_script (ops : list rop) : bool :=
  match ops with
  | RRead _ IoNone :: r => live_script r
  | RRead _ IoEOF :: cl => forallb is_ok_close cl
  | _ => false
  end.
(* RFC 9110: no content in a response to HEAD, in 1xx, 204 and 304 *)
Definition no_body_response (method : bytes) (status : N) : bool :=
  bytes_eqb method (bs "HEAD") || (status =? 204) || (status =? 304).

Definition is_eof_read (o : rop) : bool := match o with RRead _ IoEOF => true | _ => false end.

(* (0 headers table ops) as c14.reader, or
   (0 headers table ops (mode method clen request-headers body-chunks) (status clen response-headers trailers)) ->
     ((what the caller got per call) (events)
      ((request the inner transport was given) (status ContentLength headers trailers the application sees
        when the script is over) (the caller's own request headers afterwards))) *)
Definition run_c14_rt (args : list sx) : sx :=
  match args with
  | [rq0; hd; tbl; ops; rq; rs] =>
    or_bad (
    do rq0 <- un_bool rq0; do p <- un_headers hd; do tbl <- un_table tbl; do ops <- un_listof un_rop ops;
    do q <- un_reqspec rq; do sk <- split_respspec rs;
    let (rs4, bodykind) := sk in
    do s <- un_respspec rs4;
    let '(mode, m, qclen, qh, chunks) := q in
    let '(stt, clen, h, t) := s in
    let (st, dk) := props_of_hmap h in     (* the response headers decide, as in newReader(resp.Header, ...) *)
    let (stq, dkq) := props_of_hmap qh in
    if rq0 then None else
    if (bodykind =? 2)%Z then
      (* a real exchange over loopback (HTTP/1.1, net/http's transport): the response side of the trace only
         (when the transport reads the request body is its own business), and how often the trace was completed *)
      if negb (live_script ops) || (mode =? 2)%Z then None
      else if no_body_response m stt && negb (is_nil_bytes (concat (map rop_data ops))) then None
      else
        let r := reader_run (dec_fun dk tbl) (mk_cfg false st (has_dec dk)) ws_init ops in
        ret (L [B (concat (map rop_data ops)); L (map sx_event (b_events (w_b (fst r)))); I 1%Z])
    else
    (* a response WITHOUT a body: http.NoBody (1), or an empty reader of its own (3): the application reads
       (0, EOF) and closes - one body-end event, the trace is completed *)
    if ((bodykind =? 1) || (bodykind =? 3))%Z && negb (empty_script ops) then None else
    (* the inner transport reads the request body to the end (through the tracing wrapper) before it answers;
       a nil Body (mode 2) stays nil: nothing to read, no request-body events *)
    let b1 := if (mode =? 2)%Z then bld_init
              else w_b (fst (reader_run (dec_fun dkq []) (mk_cfg true stq (has_dec dkq)) ws_init (body_script chunks))) in
    let r := reader_run (dec_fun dk tbl) (mk_cfg false st (has_dec dk)) (mk_ws false dt_init b1) ops in
    ret (L [L (map sx_rres (snd r)); L (map sx_event (b_events (w_b (fst r))));
            round_trip_sx m qclen qh stt clen h t (existsb is_eof_read ops)]))
  | _ => run_c14_reader args
  end.

(* ---------- long bodies from a compact description (c14.long) ---------- *)
(* byte i of the pattern (length, seed): not periodic in 256, so a shifted or shortened copy differs
   (shifts and masks only: this runs a million times per case in the extracted model) *)
Definition pat_byte (seed i : N) : N := N.land (seed + 13 * N.land i 255 + N.land (N.shiftr i 8) 255) 255.
Definition add256 (v k : N) : N := let s := v + k in if s <? 256 then s else s - 256.
(* built from the last byte down by the recurrence  byte (i-1) = byte i - 13 (mod 256), or byte i - 14 when i is
   a multiple of 256 (the term i / 256 drops by one there): one comparison and one addition of small numbers per
   byte - this runs a million times per case in the extracted model *)
Definition pat_bytes (len seed : N) : bytes :=
  snd (N.iter len (fun st : N * N * bytes =>
         let '(j, v, acc) := st in
         let jv : N * N := if j =? 0 then (255, add256 v 242) else (j - 1, add256 v 243) in
         (fst jv, snd jv, snd jv :: acc))
       (N.land len 255, pat_byte seed len, [])).
(* a piece: explicit bytes, or (length seed) *)
Definition un_piece (s : sx) : option bytes :=
  match s with
  | B b => Some b
  | L [I n; I sd] => if (n <? 0)%Z || (4194304 <? n)%Z || (sd <? 0)%Z then None else Some (pat_bytes (Z.to_N n) (Z.to_N sd))
  | _ => None
  end.
Definition un_pieces (s : sx) : option bytes := do ps <- un_listof un_piece s; ret (concat ps).
Definition un_ltable (s : sx) : option (list (bytes * option bytes)) :=
  un_listof (fun e => match e with
                      | L [k; L []] => do k <- un_pieces k; ret (k, None)
                      | L [k; L [v]] => do k <- un_pieces k; do v <- un_pieces v; ret (k, Some v)
                      | _ => None end) s.
(* chunk sizes, the rest (if any) as a last chunk *)
Fixpoint cut_at (sizes : list nat) (b : bytes) : list bytes :=
  match sizes with
  | [] => match b with [] => [] | _ :: _ => [b] end
  | k :: r => firstn k b :: cut_at r (skipn k b)
  end.
(* what is compared of a long byte string: length, two checksums (sum, and sum of the running sums, mod 2^32),
   first and last 16 bytes; strings of at most 64 bytes are compared as they are *)
Definition digest (b : bytes) : sx :=
  let (s1, s2) := fold_left (fun (acc : N * N) x => (fst acc + x, snd acc + (fst acc + x))) b (0, 0) in
  L [sx_N (blen b); sx_N (s1 mod 4294967296); sx_N (s2 mod 4294967296); B (firstn 16 b); B (skipn (length b - 16) b)].
Fixpoint proj_sx (s : sx) : sx :=
  match s with
  | B b => if (length b <=? 64)%nat then s else digest b
  | L l => L (map proj_sx l)
  | I _ => s
  end.

(* (entry req headers table pieces cuts): the body described by the pieces, cut as said, through
   entry 0 raw dataTracer, 1 tracingReader (reads, then (0, EOF)), 2 tracingResponseWriter (complete writes),
   3 TracingRoundTripper, 4 TracingHandler (3 and 4: as 1 and 2 - the middleware adds nothing to the body);
   results as those of c14.raw / c14.reader / c14.writer, long byte strings projected by proj_sx *)
Definition run_c14_long (args : list sx) : sx :=
  or_bad (match args with
  | [I entry; rq; hd; tbl; pieces; cuts] =>
    do rq <- un_bool rq; do p <- un_headers hd; do tbl <- un_ltable tbl; do body <- un_pieces pieces;
    do cuts <- un_listof un_nat cuts;
    let (st, dk) := p in
    let chunks := cut_at cuts body in
    let dec := dec_fun dk tbl in
    if (entry =? 0)%Z then
      ret (proj_sx (L (map sx_event (raw_events dec (mk_cfg rq st (has_dec dk)) chunks))))
    else if ((entry =? 1) || (entry =? 3))%Z then
      if (entry =? 3)%Z && rq then None else
      let r := reader_run dec (mk_cfg rq st (has_dec dk)) ws_init (body_script chunks) in
      ret (proj_sx (L [L (map sx_rres (snd r)); L (map sx_event (b_events (w_b (fst r))))]))
    else if ((entry =? 2) || (entry =? 4))%Z then
      if rq then None else
      let cf := mk_cfg false st (has_dec dk) in
      let r := writer_run dec cf ws_init (map (fun ch => WWrite ch (length ch) false) chunks) in
      ret (proj_sx (L [L (map sx_wres (snd r)); L (map sx_event (b_events (w_b (try_finish cf (fst r) ENil))))]))
    else None
  | _ => None end).

(* ---------- the reference server's handler chain (c14.server, c14.observed) ---------- *)
(* (h2c rpc status headers table raw-body): reference mode, with a tracer; the test case asks for this raw
   response.  -> (status on the wire, status the trace reports, body on the wire, response-side events).
   The inner (swallowed) response is not observable from outside; by C14_Props.trace_sees_wire_bytes the
   result does not depend on it. *)
Definition run_c14_server (args : list sx) : sx :=
  or_bad (match args with
  | [h2c; _; I st; hd; tbl; body] =>
    do h2c <- un_bool h2c; do p <- un_headers hd; do tbl <- un_table tbl; do body <- un_raw_body body;
    if (st <? 0)%Z then None else
    let (stp, dk) := p in
    let raw := (raw_status (Z.to_N st), raw_body_bytes body) in
    let (w, seen) := wire_and_seen (Some raw) (create_server_chain true true h2c) (0, []) in
    match seen with
    | None => None
    | Some sn =>
      ret (L [sx_N (fst w); sx_N (fst sn); B (snd w);
              L (map sx_event (writer_events (dec_fun dk tbl) (mk_cfg false stp (has_dec dk))
                                             [WWrite (snd sn) (length (snd sn)) false]))])
    end
  | _ => None end).

(* (headers table wire-status wire-body traced-status observed-events): an exchange with the real reference
   server whose response bytes cannot be predicted (an ordinary response echoes the request's headers in map
   order): the bytes the plain client received, against what the server's trace recorded.
   -> (status, events the trace must hold for that body) *)
Definition run_c14_observed (args : list sx) : sx :=
  or_bad (match args with
  | [hd; tbl; I wst; B wire; _; _] =>
    do p <- un_headers hd; do tbl <- un_table tbl;
    let (stp, dk) := p in
    let (w, seen) := wire_and_seen None (create_server_chain true true false) (Z.to_N wst, wire) in
    match seen with
    | None => None
    | Some sn =>
      ret (L [sx_N (fst sn);
              L (map sx_event (writer_events (dec_fun dk tbl) (mk_cfg false stp (has_dec dk))
                                             [WWrite (snd sn) (length (snd sn)) false]))])
    end
  | _ => None end).

Definition c14_table : list (bytes * (list sx -> sx)) :=
  [ (bs "c14.raw", run_c14_raw);
    (bs "c14.reader", run_c14_reader);
    (bs "c14.writer", run_c14_writer);
    (bs "c14.props", run_c14_props);
    (* the same scripts driven through TracingRoundTripper / TracingHandler (net/http plumbing) *)
    (bs "c14.rt", run_c14_rt);
    (bs "c14.handler", run_c14_handler);
    (* long bodies from a compact description; the reference server's handler chain *)
    (bs "c14.long", run_c14_long);
    (bs "c14.server", run_c14_server);
    (bs "c14.observed", run_c14_observed) ].
