(* C07_Proofs.v — lemmas and proofs for C07 (see C07_Props.v for the statements that count). *)
From Coq Require Import Lia Permutation.
From V Require Import C07_Model C07_Spec.
Open Scope N_scope.

(* ------------------------------------------------------------------ *)
(* generic list facts                                                  *)
(* ------------------------------------------------------------------ *)
Lemma NoDup_app_iff {A} (a b : list A) :
  NoDup (a ++ b) <-> NoDup a /\ NoDup b /\ (forall x, In x a -> ~ In x b).
Proof.
  induction a as [|x a IH]; simpl.
  - split; [intros H; repeat split; [constructor|exact H|tauto]|tauto].
  - split.
    + intros H. inversion H as [|? ? Hx Hn]; subst. apply IH in Hn. destruct Hn as (Ha & Hb & Hd).
      repeat split.
      * constructor; [|exact Ha]. intros Hi; apply Hx, in_or_app; left; exact Hi.
      * exact Hb.
      * intros y [->|Hy]; [intros Hi; apply Hx, in_or_app; right; exact Hi|apply Hd; exact Hy].
    + intros (Ha & Hb & Hd). inversion Ha as [|? ? Hx Hn]; subst. constructor.
      * intros Hi. apply in_app_or in Hi. destruct Hi as [Hi|Hi]; [tauto|]. apply (Hd x); [left; reflexivity|exact Hi].
      * apply IH. repeat split; [exact Hn|exact Hb|]. intros y Hy; apply Hd; right; exact Hy.
Qed.

Definition names (l : list perm) : list bytes := map p_name l.

Lemma names_app a b : names (a ++ b) = names a ++ names b.
Proof. apply map_app. Qed.

Lemma NoDup_names_prefix a b : NoDup (names (a ++ b)) -> NoDup (names a).
Proof. rewrite names_app, NoDup_app_iff. tauto. Qed.

Lemma mem_name_in n lib : mem_name n lib = true <-> In n (names lib).
Proof.
  unfold mem_name, names. rewrite existsb_exists, in_map_iff. split.
  - intros (p & Hp & E). apply bytes_eqb_eq in E. exists p; split; [symmetry; exact E|exact Hp].
  - intros (p & E & Hp). exists p; split; [exact Hp|]. apply bytes_eqb_eq; symmetry; exact E.
Qed.

Lemma is_nil_true {A} (l : list A) : is_nil l = true <-> l = [].
Proof. destruct l; simpl; split; congruence. Qed.
Lemma is_nil_false {A} (l : list A) : is_nil l = false <-> l <> [].
Proof. destruct l; simpl; split; congruence. Qed.

(* ------------------------------------------------------------------ *)
(* a loop that threads the library and may fail = a flat_map, exactly   *)
(* when nothing fails                                                   *)
(* ------------------------------------------------------------------ *)
Section FoldRes.
  Context {A : Type} (f : A -> list perm -> res (list perm)) (P : A -> Prop) (g : A -> list perm).
  Hypothesis step : forall a lib lib', NoDup (names lib) ->
    (f a lib = Ok lib' <-> P a /\ lib' = lib ++ g a /\ NoDup (names lib')).

  Lemma fold_res_iff l : forall lib lib', NoDup (names lib) ->
    (fold_res f l lib = Ok lib' <-> Forall P l /\ lib' = lib ++ flat_map g l /\ NoDup (names lib')).
  Proof.
    induction l as [|a r IH]; intros lib lib' ND; simpl.
    - rewrite app_nil_r. split.
      + intros E; inversion E; subst. repeat split; [constructor|exact ND].
      + intros (_ & -> & _); reflexivity.
    - destruct (f a lib) as [lib1|] eqn:E.
      + apply step in E; [|exact ND]. destruct E as (Pa & -> & ND1).
        rewrite (IH _ lib' ND1), <- app_assoc. split.
        * intros (Fr & El & Nl). repeat split; [constructor; assumption|exact El|exact Nl].
        * intros (Fr & El & Nl). inversion Fr; subst. repeat split; assumption.
      + split; [discriminate|]. intros (Fr & El & Nl). exfalso. inversion Fr as [|? ? Pa Fr']; subst.
        assert (ND1 : NoDup (names (lib ++ g a))).
        { rewrite app_assoc in Nl. eapply NoDup_names_prefix; exact Nl. }
        assert (E1 : f a lib = Ok (lib ++ g a)) by (apply step; [exact ND|repeat split; assumption]).
        congruence.
  Qed.
End FoldRes.

(* ------------------------------------------------------------------ *)
(* expandCases                                                          *)
(* ------------------------------------------------------------------ *)
Definition expand_one (s : suite) (c : case) (t : tcase) (lib : list perm) : res (list perm) :=
  if is_nil (t_name t) then Err
  else if t_stream t =? 0 then Err
  else if negb (t_stream t =? c_stream c) then Ok lib
  else match resolve_svc t with
       | None => Err
       | Some (svc, meth) =>
         if mem_name (full_name s c t) lib then Err else Ok (lib ++ [mk_perm s c t svc meth])
       end.

Lemma expand_cases_fold s c tcs : forall lib, expand_cases s c tcs lib = fold_res (expand_one s c) tcs lib.
Proof.
  induction tcs as [|t r IH]; intros lib; simpl; [reflexivity|]. unfold expand_one.
  destruct (is_nil (t_name t)); [reflexivity|]. destruct (t_stream t =? 0); [reflexivity|].
  destruct (negb (t_stream t =? c_stream c)); [apply IH|].
  destruct (resolve_svc t) as [[svc meth]|]; [|reflexivity].
  destruct (mem_name (full_name s c t) lib); [reflexivity|apply IH].
Qed.

(* the permutation built for test t under case c (service/method as resolved) *)
Definition tc_perm (s : suite) (c : case) (t : tcase) : perm :=
  match resolve_svc t with
  | Some (svc, meth) => mk_perm s c t svc meth
  | None => mk_perm s c t [] []
  end.

Definition tc_perms (s : suite) (c : case) (t : tcase) : list perm :=
  if t_stream t =? c_stream c then [tc_perm s c t] else [].

Definition tc_ok (c : case) (t : tcase) : Prop :=
  t_name t <> [] /\ t_stream t <> 0 /\ (t_stream t = c_stream c -> resolve_svc t <> None).

Lemma tc_perm_name s c t : p_name (tc_perm s c t) = full_name s c t.
Proof. unfold tc_perm. destruct (resolve_svc t) as [[? ?]|]; reflexivity. Qed.

Lemma expand_one_iff s c t lib lib' : NoDup (names lib) ->
  (expand_one s c t lib = Ok lib' <-> tc_ok c t /\ lib' = lib ++ tc_perms s c t /\ NoDup (names lib')).
Proof.
  intros ND. unfold expand_one, tc_ok, tc_perms.
  destruct (is_nil (t_name t)) eqn:En.
  { apply is_nil_true in En. split; [discriminate|]. intros ((H & _) & _); congruence. }
  apply is_nil_false in En.
  destruct (N.eqb_spec (t_stream t) 0) as [E0|E0].
  { split; [discriminate|]. intros ((_ & H & _) & _); congruence. }
  destruct (N.eqb_spec (t_stream t) (c_stream c)) as [Es|Es]; simpl.
  - unfold tc_perm. destruct (resolve_svc t) as [[svc meth]|] eqn:Er.
    + destruct (mem_name (full_name s c t) lib) eqn:Em.
      * split; [discriminate|]. intros (_ & -> & N2). exfalso.
        rewrite names_app in N2. apply NoDup_app_iff in N2. destruct N2 as (_ & _ & D).
        apply mem_name_in in Em. apply (D _ Em). left; reflexivity.
      * split.
        -- intros E; inversion E; subst. repeat split; try assumption; try congruence.
           rewrite names_app. apply NoDup_app_iff. repeat split; [exact ND|repeat constructor; simpl; tauto|].
           intros x Hx [<-|[]]. simpl in Hx. apply mem_name_in in Hx. congruence.
        -- intros (_ & -> & _). reflexivity.
    + split; [discriminate|]. intros ((_ & _ & H) & _). exfalso. apply H; [exact Es|reflexivity].
  - rewrite app_nil_r. split.
    + intros E; inversion E; subst. repeat split; try assumption. intros; congruence.
    + intros (_ & -> & _); reflexivity.
Qed.

Definition case_perms (s : suite) (c : case) : list perm := flat_map (tc_perms s c) (s_cases s).

Lemma expand_cases_iff s c lib lib' : NoDup (names lib) ->
  (expand_cases s c (s_cases s) lib = Ok lib' <->
   Forall (tc_ok c) (s_cases s) /\ lib' = lib ++ case_perms s c /\ NoDup (names lib')).
Proof.
  intros ND. rewrite expand_cases_fold. apply fold_res_iff; [|exact ND].
  intros a l l' N1. apply expand_one_iff; exact N1.
Qed.

(* ------------------------------------------------------------------ *)
(* expandSuite                                                          *)
(* ------------------------------------------------------------------ *)
Definition suite_perms (s : suite) (cs : list case) : list perm := flat_map (case_perms s) (suite_cases s cs).

Definition suite_body_ok (s : suite) (cs : list case) : Prop :=
  suite_misconfigured s = false /\
  Forall (fun c => Forall (tc_ok c) (s_cases s)) (suite_cases s cs).

Lemma expand_suite_iff s cs lib lib' : NoDup (names lib) ->
  (expand_suite s cs lib = Ok lib' <->
   suite_body_ok s cs /\ lib' = lib ++ suite_perms s cs /\ NoDup (names lib')).
Proof.
  intros ND. unfold expand_suite, suite_body_ok. destruct (suite_misconfigured s).
  - split; [discriminate|]. intros ((H & _) & _); discriminate.
  - rewrite (fold_res_iff _ (fun c => Forall (tc_ok c) (s_cases s)) (case_perms s)); [|intros; apply expand_cases_iff; assumption|exact ND].
    unfold suite_perms. tauto.
Qed.

(* ------------------------------------------------------------------ *)
(* newTestCaseLibrary                                                   *)
(* ------------------------------------------------------------------ *)
Definition suite_step (mode : N) (cs : list case) (s : suite) (lib : list perm) : res (list perm) :=
  if negb (suite_active mode s) then Ok lib else expand_suite s cs lib.

Fixpoint headers_ok (ss : list suite) (index : list bytes) : Prop :=
  match ss with
  | [] => True
  | s :: r => s_name s <> [] /\ s_cases s <> [] /\ ~ In (s_name s) index /\ headers_ok r (s_name s :: index)
  end.

Lemma process_suites_split mode cs ss : forall index lib lib',
  process_suites mode cs ss index lib = Ok lib' <->
  headers_ok ss index /\ fold_res (suite_step mode cs) ss lib = Ok lib'.
Proof.
  induction ss as [|s r IH]; intros index lib lib'; simpl; [tauto|].
  destruct (is_nil (s_name s)) eqn:En.
  { apply is_nil_true in En. split; [discriminate|]. intros ((H & _) & _); congruence. }
  apply is_nil_false in En.
  destruct (is_nil (s_cases s)) eqn:Ec.
  { apply is_nil_true in Ec. split; [discriminate|]. intros ((_ & H & _) & _); congruence. }
  apply is_nil_false in Ec.
  destruct (mem_bytes (s_name s) index) eqn:Em.
  { apply mem_bytes_in in Em. split; [discriminate|]. intros ((_ & _ & H & _) & _); tauto. }
  assert (Hn : ~ In (s_name s) index) by (rewrite <- mem_bytes_in; congruence).
  unfold suite_step at 1. destruct (negb (suite_active mode s)).
  - rewrite IH. tauto.
  - destruct (expand_suite s cs lib) as [lib1|].
    + rewrite IH. tauto.
    + split; [discriminate|]. intros (_ & H); discriminate.
Qed.

Lemma headers_ok_iff ss : forall index,
  headers_ok ss index <->
  Forall suite_header_ok ss /\ NoDup (map s_name ss) /\ (forall s, In s ss -> ~ In (s_name s) index).
Proof.
  induction ss as [|s r IH]; intros index; simpl.
  - split; [intros _; repeat split; [constructor|constructor|tauto]|tauto].
  - rewrite IH. unfold suite_header_ok. split.
    + intros (Hn & Hc & Hi & Fr & Nr & Dr). repeat split.
      * constructor; [split; assumption|exact Fr].
      * constructor; [|exact Nr]. intros Hin. apply in_map_iff in Hin. destruct Hin as (s' & E & Hs').
        apply (Dr s' Hs'). left. symmetry; exact E.
      * intros s' [<-|Hs']; [exact Hi|]. intros Hin. apply (Dr s' Hs'). right; exact Hin.
    + intros (F & N & D). inversion F as [|? ? [Hn Hc] Fr]; subst. inversion N as [|? ? Hx Nr]; subst.
      repeat split; try assumption.
      * apply D; left; reflexivity.
      * intros s' Hs' [E|Hin]; [|apply (D s'); [right; exact Hs'|exact Hin]].
        apply Hx. apply in_map_iff. exists s'; split; [symmetry; exact E|exact Hs'].
Qed.

Definition active_perms (mode : N) (cs : list case) (s : suite) : list perm :=
  if suite_active mode s then suite_perms s cs else [].

Definition all_perms (mode : N) (ss : list suite) (cs : list case) : list perm :=
  flat_map (active_perms mode cs) ss.

Definition suite_ok (mode : N) (cs : list case) (s : suite) : Prop :=
  suite_active mode s = true -> suite_body_ok s cs.

Lemma suite_step_iff mode cs s lib lib' : NoDup (names lib) ->
  (suite_step mode cs s lib = Ok lib' <->
   suite_ok mode cs s /\ lib' = lib ++ active_perms mode cs s /\ NoDup (names lib')).
Proof.
  intros ND. unfold suite_step, suite_ok, active_perms. destruct (suite_active mode s); simpl.
  - rewrite expand_suite_iff by exact ND. tauto.
  - rewrite app_nil_r. split.
    + intros E; inversion E; subst. split; [discriminate|split; [reflexivity|exact ND]].
    + intros (_ & -> & _); reflexivity.
Qed.

(* THE characterisation: the library is built exactly when no check fails, and then it is the
   pure list of permutations (no error threading, no accumulator) with pairwise distinct names *)
Lemma new_library_ok_iff ss cs mode L :
  new_library ss cs mode = Ok L <->
  Forall suite_header_ok ss /\ NoDup (map s_name ss) /\ Forall (suite_ok mode cs) ss /\
  L = all_perms mode ss cs /\ NoDup (names L) /\ L <> [].
Proof.
  unfold new_library.
  assert (K : forall L', process_suites mode cs ss [] [] = Ok L' <->
            Forall suite_header_ok ss /\ NoDup (map s_name ss) /\ Forall (suite_ok mode cs) ss /\
            L' = all_perms mode ss cs /\ NoDup (names L')).
  { intros L'. rewrite process_suites_split, headers_ok_iff.
    rewrite (fold_res_iff _ (suite_ok mode cs) (active_perms mode cs));
      [|intros; apply suite_step_iff; assumption|constructor].
    simpl. unfold all_perms. intuition. }
  destruct (process_suites mode cs ss [] []) as [[|p l]|] eqn:E.
  - split; [discriminate|]. intros (_ & _ & _ & E1 & _ & NE).
    assert (H : Ok (@nil perm) = Ok (@nil perm)) by reflexivity. apply K in H.
    destruct H as (_ & _ & _ & E2 & _). congruence.
  - split.
    + intros E1; inversion E1; subst. assert (H : Ok (p :: l) = Ok (p :: l)) by reflexivity.
      apply K in H. destruct H as (A & B & C & D & F). repeat split; try assumption. discriminate.
    + intros (A & B & C & D & F & _). assert (H : Ok (p :: l) = Ok (p :: l)) by reflexivity.
      apply K in H. destruct H as (_ & _ & _ & D' & _). congruence.
  - split; [discriminate|]. intros (A & B & C & D & F & _).
    assert (H2 : @Err (list perm) = Ok L) by (apply K; repeat split; assumption). discriminate.
Qed.

(* ------------------------------------------------------------------ *)
(* membership: the nested loops = the conjunction of directive tests    *)
(* ------------------------------------------------------------------ *)
Lemma case_eqb_eq a b : case_eqb a b = true <-> a = b.
Proof.
  destruct a, b; unfold case_eqb; simpl.
  rewrite !andb_true_iff, !N.eqb_eq, !eqb_true_iff. split.
  - intros H; decompose [and] H; subst; reflexivity.
  - intros E; inversion E; subst; repeat split; reflexivity.
Qed.

Lemma mem_case_in c l : mem_case c l = true <-> In c l.
Proof.
  unfold mem_case. rewrite existsb_exists. split.
  - intros (x & Hx & E). apply case_eqb_eq in E; subst; exact Hx.
  - intros H; exists c; split; [exact H|apply case_eqb_eq; reflexivity].
Qed.

Lemma or_all_in declared rel v : In v (or_all rel declared) <-> axis_admits declared rel v.
Proof.
  unfold or_all, axis_admits. destruct rel as [|a r]; simpl.
  - split; [intros H; left; split; [reflexivity|exact H]|intros [[_ H]|[]]; exact H].
  - split; [intros H; right; exact H|intros [[H _]|H]; [discriminate|exact H]].
Qed.

Lemma tls_cases_in (st ct : bool) :
  In ct (if st then [true] else [true; false]) <-> (st = true -> ct = true).
Proof. destruct st, ct; simpl; intuition congruence. Qed.

Lemma in_candidate s c :
  In c (candidate_cases s) <->
  In (c_protocol c) (or_all (s_protocols s) c07_all_protocols) /\
  In (c_version c) (or_all (s_versions s) c07_all_versions) /\
  In (c_tls c) (if s_tls s then [true] else [true; false]) /\
  In (c_codec c) (or_all (s_codecs s) c07_all_codecs) /\
  In (c_compression c) (or_all (s_compressions s) c07_all_compressions) /\
  In (c_stream c) c07_all_streams /\
  c_certs c = s_certs s /\ c_get c = s_get s /\ c_limit c = s_limit s /\ c_cvm c = s_cvm s.
Proof.
  unfold candidate_cases. split.
  - intros H.
    apply in_flat_map in H; destruct H as (p & Hp & H).
    apply in_flat_map in H; destruct H as (v & Hv & H).
    apply in_flat_map in H; destruct H as (tl & Ht & H).
    apply in_flat_map in H; destruct H as (cd & Hc & H).
    apply in_flat_map in H; destruct H as (z & Hz & H).
    apply in_map_iff in H; destruct H as (st & E & Hs).
    subst c; simpl. repeat split; assumption.
  - intros (Hp & Hv & Ht & Hc & Hz & Hs & E1 & E2 & E3 & E4).
    apply in_flat_map; exists (c_protocol c); split; [exact Hp|].
    apply in_flat_map; exists (c_version c); split; [exact Hv|].
    apply in_flat_map; exists (c_tls c); split; [exact Ht|].
    apply in_flat_map; exists (c_codec c); split; [exact Hc|].
    apply in_flat_map; exists (c_compression c); split; [exact Hz|].
    apply in_map_iff; exists (c_stream c); split; [|exact Hs].
    destruct c; simpl in *; subst; reflexivity.
Qed.

Lemma in_suite_cases s cs c : In c (suite_cases s cs) <-> In c cs /\ admits s c.
Proof.
  unfold suite_cases, admits. rewrite filter_In, mem_case_in, in_candidate, !or_all_in, tls_cases_in. tauto.
Qed.

Lemma suite_active_iff mode s : suite_active mode s = true <-> mode_admits s mode.
Proof. unfold suite_active, mode_admits. rewrite orb_true_iff, !N.eqb_eq. tauto. Qed.

Lemma only_iff l x : only l x = true <-> l <> [] /\ forall e, In e l -> e = x.
Proof.
  unfold only. destruct l as [|a r].
  - split; [discriminate|intros [H _]; congruence].
  - rewrite forallb_forall. split.
    + intros H; split; [discriminate|]. intros e He. apply N.eqb_eq, H, He.
    + intros [_ H] e He. apply N.eqb_eq, H, He.
Qed.

Lemma misconfigured_iff s : suite_misconfigured s = false <-> suite_config_ok s.
Proof.
  unfold suite_misconfigured, suite_config_ok. rewrite <- only_iff, !orb_false_iff.
  destruct (s_certs s), (s_tls s), (s_get s), (only (s_protocols s) 1),
    (N.eqb_spec (s_cvm s) 2), (N.eqb_spec (s_cvm s) 1); simpl; intuition congruence.
Qed.

Lemma resolve_svc_ok t : resolve_svc t <> None <-> (t_service t = [] <-> t_method t = []).
Proof.
  unfold resolve_svc. destruct (t_service t), (t_method t); simpl; split; intros H; try congruence;
    try (intros; split; congruence); exfalso; destruct H as [H1 H2]; try (specialize (H1 eq_refl)); try (specialize (H2 eq_refl)); discriminate.
Qed.

Lemma tc_ok_iff c t : tc_ok c t <-> test_ok c t.
Proof. unfold tc_ok, test_ok. rewrite resolve_svc_ok. tauto. Qed.

(* ------------------------------------------------------------------ *)
(* the permutation the code builds is the one the specification names   *)
(* ------------------------------------------------------------------ *)
Lemma path_join_skip l : path_join ([] :: l) = path_join l.
Proof. reflexivity. Qed.

Lemma full_name_spec s c t : full_name s c t = spec_name s c t.
Proof.
  unfold full_name, spec_name, name_prefix, spec_components, axis_component, bool_name.
  change (len1 (s_versions s)) with (axis_fixed (s_versions s)).
  change (len1 (s_protocols s)) with (axis_fixed (s_protocols s)).
  change (len1 (s_codecs s)) with (axis_fixed (s_codecs s)).
  change (len1 (s_compressions s)) with (axis_fixed (s_compressions s)).
  rewrite <- !app_assoc. reflexivity.
Qed.

Lemma default_method_spec st : In st c07_all_streams -> default_method st = spec_default_method st.
Proof.
  intros H. repeat (destruct H as [<-|H]; [vm_compute; reflexivity|]). destruct H.
Qed.

Lemma tc_perm_spec s c t :
  suite_misconfigured s = false -> admits s c -> tc_ok c t -> t_stream t = c_stream c ->
  tc_perm s c t = spec_perm s c t.
Proof.
  intros Hm Ha (Hn & H0 & Hr) Es. specialize (Hr Es).
  apply misconfigured_iff in Hm. destruct Hm as (Hct & _).
  destruct Ha as (_ & _ & _ & _ & Htls & Ece & _ & _ & _ & Hst).
  unfold tc_perm, spec_perm, mk_perm. rewrite full_name_spec, Es.
  assert (Ecr : c_tls c && c_certs c = c_certs c).
  { destruct (c_certs c) eqn:E; [|apply andb_false_r]. rewrite andb_true_r. apply Htls, Hct. congruence. }
  rewrite Ecr.
  assert (El : c07_client_receive_limit = 1024 * 1024) by (vm_compute; reflexivity). rewrite El.
  unfold resolve_svc in *. destruct (t_service t) as [|a sv]; simpl in *.
  - destruct (t_method t); simpl in *; [|congruence].
    rewrite <- Es at 1. rewrite Es. rewrite (default_method_spec _ Hst). reflexivity.
  - destruct (t_method t); simpl in *; [congruence|]. reflexivity.
Qed.

Lemma in_all_perms mode ss cs p :
  In p (all_perms mode ss cs) <->
  exists s c t, In s ss /\ suite_active mode s = true /\ In c (suite_cases s cs) /\ In t (s_cases s) /\
                t_stream t = c_stream c /\ p = tc_perm s c t.
Proof.
  unfold all_perms, active_perms, suite_perms, case_perms, tc_perms. split.
  - intros H. apply in_flat_map in H. destruct H as (s & Hs & H).
    destruct (suite_active mode s) eqn:Ea; [|destruct H].
    apply in_flat_map in H. destruct H as (c & Hc & H).
    apply in_flat_map in H. destruct H as (t & Ht & H).
    destruct (N.eqb_spec (t_stream t) (c_stream c)) as [E|E]; [|destruct H].
    destruct H as [<-|[]]. exists s, c, t. repeat split; assumption.
  - intros (s & c & t & Hs & Ea & Hc & Ht & E & ->).
    apply in_flat_map. exists s; split; [exact Hs|]. rewrite Ea.
    apply in_flat_map. exists c; split; [exact Hc|].
    apply in_flat_map. exists t; split; [exact Ht|].
    rewrite (proj2 (N.eqb_eq _ _) E). left; reflexivity.
Qed.

Theorem perm_iff_proof : forall ss cs mode L, new_library ss cs mode = Ok L ->
  forall p, In p L <->
    exists s t c, In s ss /\ In t (s_cases s) /\ In c cs /\
                  mode_admits s mode /\ admits s c /\ t_stream t = c_stream c /\ p = spec_perm s c t.
Proof.
  intros ss cs mode L H p. apply new_library_ok_iff in H. destruct H as (_ & _ & Fo & -> & _ & _).
  rewrite in_all_perms. rewrite Forall_forall in Fo. split.
  - intros (s & c & t & Hs & Ea & Hc & Ht & E & ->). exists s, t, c.
    destruct (Fo s Hs Ea) as (Hm & Fc). rewrite Forall_forall in Fc. specialize (Fc c Hc).
    rewrite Forall_forall in Fc. specialize (Fc t Ht).
    apply in_suite_cases in Hc. destruct Hc as (Hcs & Ha).
    split; [exact Hs|]. split; [exact Ht|]. split; [exact Hcs|]. split; [apply suite_active_iff; exact Ea|].
    split; [exact Ha|]. split; [exact E|]. apply tc_perm_spec; assumption.
  - intros (s & t & c & Hs & Ht & Hc & Hm & Ha & E & ->). exists s, c, t.
    apply suite_active_iff in Hm. destruct (Fo s Hs Hm) as (Hmis & Fc).
    assert (Hsc : In c (suite_cases s cs)) by (apply in_suite_cases; split; assumption).
    rewrite Forall_forall in Fc. specialize (Fc c Hsc). rewrite Forall_forall in Fc. specialize (Fc t Ht).
    split; [exact Hs|]. split; [exact Hm|]. split; [exact Hsc|]. split; [exact Ht|]. split; [exact E|].
    symmetry. apply tc_perm_spec; assumption.
Qed.
