(* C07_Proofs.v — lemmas and proofs for C07 (see C07_Props.v for the statements that count). *)
From Coq Require Import Lia Permutation.
From V Require Import C07_Model C07_Spec.
Open Scope N_scope.

(* ------------------------------------------------------------------ *)
(* generic list facts                                                  *)
(* ------------------------------------------------------------------ *)
Lemma NoDup_app_iff {A} (a b : list A) :
  NoDup (a ++ b) <-> NoDup a /\ NoDup b /\ (forall x, In x a -> ~ In x b).
Proof.
  induction a as [|x a IH]; simpl.
  - split; [intros H; repeat split; [constructor|exact H|tauto]|tauto].
  - split.
    + intros H. inversion H as [|? ? Hx Hn]; subst. apply IH in Hn. destruct Hn as (Ha & Hb & Hd).
      repeat split.
      * constructor; [|exact Ha]. intros Hi; apply Hx, in_or_app; left; exact Hi.
      * exact Hb.
      * intros y [->|Hy]; [intros Hi; apply Hx, in_or_app; right; exact Hi|apply Hd; exact Hy].
    + intros (Ha & Hb & Hd). inversion Ha as [|? ? Hx Hn]; subst. constructor.
      * intros Hi. apply in_app_or in Hi. destruct Hi as [Hi|Hi]; [tauto|]. apply (Hd x); [left; reflexivity|exact Hi].
      * apply IH. repeat split; [exact Hn|exact Hb|]. intros y Hy; apply Hd; right; exact Hy.
Qed.

Definition names (l : list perm) : list bytes := map p_name l.

Lemma names_app a b : names (a ++ b) = names a ++ names b.
Proof. apply map_app. Qed.

Lemma NoDup_names_prefix a b : NoDup (names (a ++ b)) -> NoDup (names a).
Proof. rewrite names_app, NoDup_app_iff. tauto. Qed.

Lemma mem_name_in n lib : mem_name n lib = true <-> In n (names lib).
Proof.
  unfold mem_name, names. rewrite existsb_exists, in_map_iff. split.
  - intros (p & Hp & E). apply bytes_eqb_eq in E. exists p; split; [symmetry; exact E|exact Hp].
  - intros (p & E & Hp). exists p; split; [exact Hp|]. apply bytes_eqb_eq; symmetry; exact E.
Qed.

Lemma is_nil_true {A} (l : list A) : is_nil l = true <-> l = [].
Proof. destruct l; simpl; split; congruence. Qed.
Lemma is_nil_false {A} (l : list A) : is_nil l = false <-> l <> [].
Proof. destruct l; simpl; split; congruence. Qed.

(* ------------------------------------------------------------------ *)
(* a loop that threads the library and may fail = a flat_map, exactly   *)
(* when nothing fails                                                   *)
(* ------------------------------------------------------------------ *)
Section FoldRes.
  Context {A : Type} (f : A -> list perm -> res (list perm)) (P : A -> Prop) (g : A -> list perm).
  Hypothesis step : forall a lib lib', NoDup (names lib) ->
    (f a lib = Ok lib' <-> P a /\ lib' = lib ++ g a /\ NoDup (names lib')).

  Lemma fold_res_iff l : forall lib lib', NoDup (names lib) ->
    (fold_res f l lib = Ok lib' <-> Forall P l /\ lib' = lib ++ flat_map g l /\ NoDup (names lib')).
  Proof.
    induction l as [|a r IH]; intros lib lib' ND; simpl.
    - rewrite app_nil_r. split.
      + intros E; inversion E; subst. repeat split; [constructor|exact ND].
      + intros (_ & -> & _); reflexivity.
    - destruct (f a lib) as [lib1|] eqn:E.
      + apply step in E; [|exact ND]. destruct E as (Pa & -> & ND1).
        rewrite (IH _ lib' ND1), <- app_assoc. split.
        * intros (Fr & El & Nl). repeat split; [constructor; assumption|exact El|exact Nl].
        * intros (Fr & El & Nl). inversion Fr; subst. repeat split; assumption.
      + split; [discriminate|]. intros (Fr & El & Nl). exfalso. inversion Fr as [|? ? Pa Fr']; subst.
        assert (ND1 : NoDup (names (lib ++ g a))).
        { rewrite app_assoc in Nl. eapply NoDup_names_prefix; exact Nl. }
        assert (E1 : f a lib = Ok (lib ++ g a)) by (apply step; [exact ND|repeat split; assumption]).
        congruence.
  Qed.
End FoldRes.

(* ------------------------------------------------------------------ *)
(* expandCases                                                          *)
(* ------------------------------------------------------------------ *)
Definition expand_one (s : suite) (c : case) (t : tcase) (lib : list perm) : res (list perm) :=
  if is_nil (t_name t) then Err
  else if t_stream t =? 0 then Err
  else if negb (t_stream t =? c_stream c) then Ok lib
  else match resolve_svc t with
       | None => Err
       | Some (svc, meth) =>
         if mem_name (full_name s c t) lib then Err else Ok (lib ++ [mk_perm s c t svc meth])
       end.

Lemma expand_cases_fold s c tcs : forall lib, expand_cases s c tcs lib = fold_res (expand_one s c) tcs lib.
Proof.
  induction tcs as [|t r IH]; intros lib; simpl; [reflexivity|]. unfold expand_one.
  destruct (is_nil (t_name t)); [reflexivity|]. destruct (t_stream t =? 0); [reflexivity|].
  destruct (negb (t_stream t =? c_stream c)); [apply IH|].
  destruct (resolve_svc t) as [[svc meth]|]; [|reflexivity].
  destruct (mem_name (full_name s c t) lib); [reflexivity|apply IH].
Qed.

(* the permutation built for test t under case c (service/method as resolved) *)
Definition tc_perm (s : suite) (c : case) (t : tcase) : perm :=
  match resolve_svc t with
  | Some (svc, meth) => mk_perm s c t svc meth
  | None => mk_perm s c t [] []
  end.

Definition tc_perms (s : suite) (c : case) (t : tcase) : list perm :=
  if t_stream t =? c_stream c then [tc_perm s c t] else [].

Definition tc_ok (c : case) (t : tcase) : Prop :=
  t_name t <> [] /\ t_stream t <> 0 /\ (t_stream t = c_stream c -> resolve_svc t <> None).

Lemma tc_perm_name s c t : p_name (tc_perm s c t) = full_name s c t.
Proof. unfold tc_perm. destruct (resolve_svc t) as [[? ?]|]; reflexivity. Qed.

Lemma expand_one_iff s c t lib lib' : NoDup (names lib) ->
  (expand_one s c t lib = Ok lib' <-> tc_ok c t /\ lib' = lib ++ tc_perms s c t /\ NoDup (names lib')).
Proof.
  intros ND. unfold expand_one, tc_ok, tc_perms.
  destruct (is_nil (t_name t)) eqn:En.
  { apply is_nil_true in En. split; [discriminate|]. intros ((H & _) & _); congruence. }
  apply is_nil_false in En.
  destruct (N.eqb_spec (t_stream t) 0) as [E0|E0].
  { split; [discriminate|]. intros ((_ & H & _) & _); congruence. }
  destruct (N.eqb_spec (t_stream t) (c_stream c)) as [Es|Es]; simpl.
  - unfold tc_perm. destruct (resolve_svc t) as [[svc meth]|] eqn:Er.
    + destruct (mem_name (full_name s c t) lib) eqn:Em.
      * split; [discriminate|]. intros (_ & -> & N2). exfalso.
        rewrite names_app in N2. apply NoDup_app_iff in N2. destruct N2 as (_ & _ & D).
        apply mem_name_in in Em. apply (D _ Em). left; reflexivity.
      * split.
        -- intros E; inversion E; subst. repeat split; try assumption; try congruence.
           rewrite names_app. apply NoDup_app_iff. repeat split; [exact ND|repeat constructor; simpl; tauto|].
           intros x Hx [<-|[]]. simpl in Hx. apply mem_name_in in Hx. congruence.
        -- intros (_ & -> & _). reflexivity.
    + split; [discriminate|]. intros ((_ & _ & H) & _). exfalso. apply H; [exact Es|reflexivity].
  - rewrite app_nil_r. split.
    + intros E; inversion E; subst. repeat split; try assumption. intros; congruence.
    + intros (_ & -> & _); reflexivity.
Qed.

Definition case_perms (s : suite) (c : case) : list perm := flat_map (tc_perms s c) (s_cases s).

Lemma expand_cases_iff s c lib lib' : NoDup (names lib) ->
  (expand_cases s c (s_cases s) lib = Ok lib' <->
   Forall (tc_ok c) (s_cases s) /\ lib' = lib ++ case_perms s c /\ NoDup (names lib')).
Proof.
  intros ND. rewrite expand_cases_fold. apply fold_res_iff; [|exact ND].
  intros a l l' N1. apply expand_one_iff; exact N1.
Qed.

(* ------------------------------------------------------------------ *)
(* expandSuite                                                          *)
(* ------------------------------------------------------------------ *)
Definition suite_perms (s : suite) (cs : list case) : list perm := flat_map (case_perms s) (suite_cases s cs).

Definition suite_body_ok (s : suite) (cs : list case) : Prop :=
  suite_misconfigured s = false /\
  Forall (fun c => Forall (tc_ok c) (s_cases s)) (suite_cases s cs).

Lemma expand_suite_iff s cs lib lib' : NoDup (names lib) ->
  (expand_suite s cs lib = Ok lib' <->
   suite_body_ok s cs /\ lib' = lib ++ suite_perms s cs /\ NoDup (names lib')).
Proof.
  intros ND. unfold expand_suite, suite_body_ok. destruct (suite_misconfigured s).
  - split; [discriminate|]. intros ((H & _) & _); discriminate.
  - rewrite (fold_res_iff _ (fun c => Forall (tc_ok c) (s_cases s)) (case_perms s)); [|intros; apply expand_cases_iff; assumption|exact ND].
    unfold suite_perms. tauto.
Qed.

(* ------------------------------------------------------------------ *)
(* newTestCaseLibrary                                                   *)
(* ------------------------------------------------------------------ *)
Definition suite_step (mode : N) (cs : list case) (s : suite) (lib : list perm) : res (list perm) :=
  if negb (suite_active mode s) then Ok lib else expand_suite s cs lib.

Fixpoint headers_ok (ss : list suite) (index : list bytes) : Prop :=
  match ss with
  | [] => True
  | s :: r => s_name s <> [] /\ s_cases s <> [] /\ ~ In (s_name s) index /\ headers_ok r (s_name s :: index)
  end.

Lemma process_suites_split mode cs ss : forall index lib lib',
  process_suites mode cs ss index lib = Ok lib' <->
  headers_ok ss index /\ fold_res (suite_step mode cs) ss lib = Ok lib'.
Proof.
  induction ss as [|s r IH]; intros index lib lib'; simpl; [tauto|].
  destruct (is_nil (s_name s)) eqn:En.
  { apply is_nil_true in En. split; [discriminate|]. intros ((H & _) & _); congruence. }
  apply is_nil_false in En.
  destruct (is_nil (s_cases s)) eqn:Ec.
  { apply is_nil_true in Ec. split; [discriminate|]. intros ((_ & H & _) & _); congruence. }
  apply is_nil_false in Ec.
  destruct (mem_bytes (s_name s) index) eqn:Em.
  { apply mem_bytes_in in Em. split; [discriminate|]. intros ((_ & _ & H & _) & _); tauto. }
  assert (Hn : ~ In (s_name s) index) by (rewrite <- mem_bytes_in; congruence).
  unfold suite_step at 1. destruct (negb (suite_active mode s)).
  - rewrite IH. tauto.
  - destruct (expand_suite s cs lib) as [lib1|].
    + rewrite IH. tauto.
    + split; [discriminate|]. intros (_ & H); discriminate.
Qed.

Lemma headers_ok_iff ss : forall index,
  headers_ok ss index <->
  Forall suite_header_ok ss /\ NoDup (map s_name ss) /\ (forall s, In s ss -> ~ In (s_name s) index).
Proof.
  induction ss as [|s r IH]; intros index; simpl.
  - split; [intros _; repeat split; [constructor|constructor|tauto]|tauto].
  - rewrite IH. unfold suite_header_ok. split.
    + intros (Hn & Hc & Hi & Fr & Nr & Dr). repeat split.
      * constructor; [split; assumption|exact Fr].
      * constructor; [|exact Nr]. intros Hin. apply in_map_iff in Hin. destruct Hin as (s' & E & Hs').
        apply (Dr s' Hs'). left. symmetry; exact E.
      * intros s' [<-|Hs']; [exact Hi|]. intros Hin. apply (Dr s' Hs'). right; exact Hin.
    + intros (F & N & D). inversion F as [|? ? [Hn Hc] Fr]; subst. inversion N as [|? ? Hx Nr]; subst.
      repeat split; try assumption.
      * apply D; left; reflexivity.
      * intros s' Hs' [E|Hin]; [|apply (D s'); [right; exact Hs'|exact Hin]].
        apply Hx. apply in_map_iff. exists s'; split; [symmetry; exact E|exact Hs'].
Qed.

Definition active_perms (mode : N) (cs : list case) (s : suite) : list perm :=
  if suite_active mode s then suite_perms s cs else [].

Definition all_perms (mode : N) (ss : list suite) (cs : list case) : list perm :=
  flat_map (active_perms mode cs) ss.

Definition suite_ok (mode : N) (cs : list case) (s : suite) : Prop :=
  suite_active mode s = true -> suite_body_ok s cs.

Lemma suite_step_iff mode cs s lib lib' : NoDup (names lib) ->
  (suite_step mode cs s lib = Ok lib' <->
   suite_ok mode cs s /\ lib' = lib ++ active_perms mode cs s /\ NoDup (names lib')).
Proof.
  intros ND. unfold suite_step, suite_ok, active_perms. destruct (suite_active mode s); simpl.
  - rewrite expand_suite_iff by exact ND. tauto.
  - rewrite app_nil_r. split.
    + intros E; inversion E; subst. split; [discriminate|split; [reflexivity|exact ND]].
    + intros (_ & -> & _); reflexivity.
Qed.

(* THE characterisation: the library is built exactly when no check fails, and then it is the
   pure list of permutations (no error threading, no accumulator) with pairwise distinct names *)
Lemma new_library_ok_iff ss cs mode L :
  new_library ss cs mode = Ok L <->
  Forall suite_header_ok ss /\ NoDup (map s_name ss) /\ Forall (suite_ok mode cs) ss /\
  L = all_perms mode ss cs /\ NoDup (names L) /\ L <> [].
Proof.
  unfold new_library.
  assert (K : forall L', process_suites mode cs ss [] [] = Ok L' <->
            Forall suite_header_ok ss /\ NoDup (map s_name ss) /\ Forall (suite_ok mode cs) ss /\
            L' = all_perms mode ss cs /\ NoDup (names L')).
  { intros L'. rewrite process_suites_split, headers_ok_iff.
    rewrite (fold_res_iff _ (suite_ok mode cs) (active_perms mode cs));
      [|intros; apply suite_step_iff; assumption|constructor].
    simpl. unfold all_perms. intuition. }
  destruct (process_suites mode cs ss [] []) as [[|p l]|] eqn:E.
  - split; [discriminate|]. intros (_ & _ & _ & E1 & _ & NE).
    assert (H : Ok (@nil perm) = Ok (@nil perm)) by reflexivity. apply K in H.
    destruct H as (_ & _ & _ & E2 & _). congruence.
  - split.
    + intros E1; inversion E1; subst. assert (H : Ok (p :: l) = Ok (p :: l)) by reflexivity.
      apply K in H. destruct H as (A & B & C & D & F). repeat split; try assumption. discriminate.
    + intros (A & B & C & D & F & _). assert (H : Ok (p :: l) = Ok (p :: l)) by reflexivity.
      apply K in H. destruct H as (_ & _ & _ & D' & _). congruence.
  - split; [discriminate|]. intros (A & B & C & D & F & _).
    assert (H2 : @Err (list perm) = Ok L) by (apply K; repeat split; assumption). discriminate.
Qed.

(* ------------------------------------------------------------------ *)
(* membership: the nested loops = the conjunction of directive tests    *)
(* ------------------------------------------------------------------ *)
Lemma case_eqb_eq a b : case_eqb a b = true <-> a = b.
Proof.
  destruct a, b; unfold case_eqb; simpl.
  rewrite !andb_true_iff, !N.eqb_eq, !eqb_true_iff. split.
  - intros H; decompose [and] H; subst; reflexivity.
  - intros E; inversion E; subst; repeat split; reflexivity.
Qed.

Lemma mem_case_in c l : mem_case c l = true <-> In c l.
Proof.
  unfold mem_case. rewrite existsb_exists. split.
  - intros (x & Hx & E). apply case_eqb_eq in E; subst; exact Hx.
  - intros H; exists c; split; [exact H|apply case_eqb_eq; reflexivity].
Qed.

Lemma or_all_in declared rel v : In v (or_all rel declared) <-> axis_admits declared rel v.
Proof.
  unfold or_all, axis_admits. destruct rel as [|a r]; simpl.
  - split; [intros H; left; split; [reflexivity|exact H]|intros [[_ H]|[]]; exact H].
  - split; [intros H; right; exact H|intros [[H _]|H]; [discriminate|exact H]].
Qed.

Lemma tls_cases_in (st ct : bool) :
  In ct (if st then [true] else [true; false]) <-> (st = true -> ct = true).
Proof. destruct st, ct; simpl; intuition congruence. Qed.

Lemma in_candidate s c :
  In c (candidate_cases s) <->
  In (c_protocol c) (or_all (s_protocols s) c07_all_protocols) /\
  In (c_version c) (or_all (s_versions s) c07_all_versions) /\
  In (c_tls c) (if s_tls s then [true] else [true; false]) /\
  In (c_codec c) (or_all (s_codecs s) c07_all_codecs) /\
  In (c_compression c) (or_all (s_compressions s) c07_all_compressions) /\
  In (c_stream c) c07_all_streams /\
  c_certs c = s_certs s /\ c_get c = s_get s /\ c_limit c = s_limit s /\ c_cvm c = s_cvm s.
Proof.
  unfold candidate_cases. split.
  - intros H.
    apply in_flat_map in H; destruct H as (p & Hp & H).
    apply in_flat_map in H; destruct H as (v & Hv & H).
    apply in_flat_map in H; destruct H as (tl & Ht & H).
    apply in_flat_map in H; destruct H as (cd & Hc & H).
    apply in_flat_map in H; destruct H as (z & Hz & H).
    apply in_map_iff in H; destruct H as (st & E & Hs).
    subst c; simpl. repeat split; assumption.
  - intros (Hp & Hv & Ht & Hc & Hz & Hs & E1 & E2 & E3 & E4).
    apply in_flat_map; exists (c_protocol c); split; [exact Hp|].
    apply in_flat_map; exists (c_version c); split; [exact Hv|].
    apply in_flat_map; exists (c_tls c); split; [exact Ht|].
    apply in_flat_map; exists (c_codec c); split; [exact Hc|].
    apply in_flat_map; exists (c_compression c); split; [exact Hz|].
    apply in_map_iff; exists (c_stream c); split; [|exact Hs].
    destruct c; simpl in *; subst; reflexivity.
Qed.

Lemma in_suite_cases s cs c : In c (suite_cases s cs) <-> In c cs /\ admits s c.
Proof.
  unfold suite_cases, admits. rewrite filter_In, mem_case_in, in_candidate, !or_all_in, tls_cases_in. tauto.
Qed.

Lemma suite_active_iff mode s : suite_active mode s = true <-> mode_admits s mode.
Proof. unfold suite_active, mode_admits. rewrite orb_true_iff, !N.eqb_eq. tauto. Qed.

Lemma only_iff l x : only l x = true <-> l <> [] /\ forall e, In e l -> e = x.
Proof.
  unfold only. destruct l as [|a r].
  - split; [discriminate|intros [H _]; congruence].
  - rewrite forallb_forall. split.
    + intros H; split; [discriminate|]. intros e He. apply N.eqb_eq, H, He.
    + intros [_ H] e He. apply N.eqb_eq, H, He.
Qed.

Lemma misconfigured_iff s : suite_misconfigured s = false <-> suite_config_ok s.
Proof.
  unfold suite_misconfigured, suite_config_ok. rewrite <- only_iff, !orb_false_iff.
  destruct (s_certs s), (s_tls s), (s_get s), (only (s_protocols s) 1),
    (N.eqb_spec (s_cvm s) 2), (N.eqb_spec (s_cvm s) 1); simpl; intuition congruence.
Qed.

Lemma resolve_svc_ok t : resolve_svc t <> None <-> (t_service t = [] <-> t_method t = []).
Proof.
  unfold resolve_svc. destruct (t_service t), (t_method t); simpl; split; intros H; try congruence;
    try (intros; split; congruence); exfalso; destruct H as [H1 H2]; try (specialize (H1 eq_refl)); try (specialize (H2 eq_refl)); discriminate.
Qed.

Lemma tc_ok_iff c t : tc_ok c t <-> test_ok c t.
Proof. unfold tc_ok, test_ok. rewrite resolve_svc_ok. tauto. Qed.

(* ------------------------------------------------------------------ *)
(* the permutation the code builds is the one the specification names   *)
(* ------------------------------------------------------------------ *)
Lemma path_join_skip l : path_join ([] :: l) = path_join l.
Proof. reflexivity. Qed.

Lemma full_name_spec s c t : full_name s c t = spec_name s c t.
Proof.
  unfold full_name, spec_name, name_prefix, spec_components, axis_component, bool_name.
  change (len1 (s_versions s)) with (axis_fixed (s_versions s)).
  change (len1 (s_protocols s)) with (axis_fixed (s_protocols s)).
  change (len1 (s_codecs s)) with (axis_fixed (s_codecs s)).
  change (len1 (s_compressions s)) with (axis_fixed (s_compressions s)).
  rewrite <- !app_assoc. reflexivity.
Qed.

Lemma default_method_spec st : In st c07_all_streams -> default_method st = spec_default_method st.
Proof.
  intros H. repeat (destruct H as [<-|H]; [vm_compute; reflexivity|]). destruct H.
Qed.

Lemma tc_perm_spec s c t :
  suite_misconfigured s = false -> admits s c -> tc_ok c t -> t_stream t = c_stream c ->
  tc_perm s c t = spec_perm s c t.
Proof.
  intros Hm Ha (Hn & H0 & Hr) Es. specialize (Hr Es).
  apply misconfigured_iff in Hm. destruct Hm as (Hct & _).
  destruct Ha as (_ & _ & _ & _ & Htls & Ece & _ & _ & _ & Hst).
  unfold tc_perm, spec_perm, mk_perm. rewrite full_name_spec, Es.
  assert (Ecr : c_tls c && c_certs c = c_certs c).
  { destruct (c_certs c) eqn:E; [|apply andb_false_r]. rewrite andb_true_r. apply Htls, Hct. congruence. }
  rewrite Ecr.
  assert (El : c07_client_receive_limit = 1024 * 1024) by (vm_compute; reflexivity). rewrite El.
  unfold resolve_svc in *. destruct (t_service t) as [|a sv]; simpl in *.
  - destruct (t_method t); simpl in *; [|congruence].
    rewrite <- Es at 1. rewrite Es. rewrite (default_method_spec _ Hst). reflexivity.
  - destruct (t_method t); simpl in *; [congruence|]. reflexivity.
Qed.

Lemma in_all_perms mode ss cs p :
  In p (all_perms mode ss cs) <->
  exists s c t, In s ss /\ suite_active mode s = true /\ In c (suite_cases s cs) /\ In t (s_cases s) /\
                t_stream t = c_stream c /\ p = tc_perm s c t.
Proof.
  unfold all_perms, active_perms, suite_perms, case_perms, tc_perms. split.
  - intros H. apply in_flat_map in H. destruct H as (s & Hs & H).
    destruct (suite_active mode s) eqn:Ea; [|destruct H].
    apply in_flat_map in H. destruct H as (c & Hc & H).
    apply in_flat_map in H. destruct H as (t & Ht & H).
    destruct (N.eqb_spec (t_stream t) (c_stream c)) as [E|E]; [|destruct H].
    destruct H as [<-|[]]. exists s, c, t. repeat split; assumption.
  - intros (s & c & t & Hs & Ea & Hc & Ht & E & ->).
    apply in_flat_map. exists s; split; [exact Hs|]. rewrite Ea.
    apply in_flat_map. exists c; split; [exact Hc|].
    apply in_flat_map. exists t; split; [exact Ht|].
    rewrite (proj2 (N.eqb_eq _ _) E). left; reflexivity.
Qed.

Theorem perm_iff_proof : forall ss cs mode L, new_library ss cs mode = Ok L ->
  forall p, In p L <->
    exists s t c, In s ss /\ In t (s_cases s) /\ In c cs /\
                  mode_admits s mode /\ admits s c /\ t_stream t = c_stream c /\ p = spec_perm s c t.
Proof.
  intros ss cs mode L H p. apply new_library_ok_iff in H. destruct H as (_ & _ & Fo & -> & _ & _).
  rewrite in_all_perms. rewrite Forall_forall in Fo. split.
  - intros (s & c & t & Hs & Ea & Hc & Ht & E & ->). exists s, t, c.
    destruct (Fo s Hs Ea) as (Hm & Fc). rewrite Forall_forall in Fc. specialize (Fc c Hc).
    rewrite Forall_forall in Fc. specialize (Fc t Ht).
    apply in_suite_cases in Hc. destruct Hc as (Hcs & Ha).
    split; [exact Hs|]. split; [exact Ht|]. split; [exact Hcs|]. split; [apply suite_active_iff; exact Ea|].
    split; [exact Ha|]. split; [exact E|]. apply tc_perm_spec; assumption.
  - intros (s & t & c & Hs & Ht & Hc & Hm & Ha & E & ->). exists s, c, t.
    apply suite_active_iff in Hm. destruct (Fo s Hs Hm) as (Hmis & Fc).
    assert (Hsc : In c (suite_cases s cs)) by (apply in_suite_cases; split; assumption).
    rewrite Forall_forall in Fc. specialize (Fc c Hsc). rewrite Forall_forall in Fc. specialize (Fc t Ht).
    split; [exact Hs|]. split; [exact Hm|]. split; [exact Hsc|]. split; [exact Ht|]. split; [exact E|].
    symmetry. apply tc_perm_spec; assumption.
Qed.

(* ------------------------------------------------------------------ *)
(* uniqueness                                                           *)
(* ------------------------------------------------------------------ *)
Theorem names_unique_proof : forall ss cs mode L, new_library ss cs mode = Ok L -> NoDup (map p_name L).
Proof. intros ss cs mode L H. apply new_library_ok_iff in H. tauto. Qed.

Lemma NoDup_map_inj {A B} (f : A -> B) l : NoDup (map f l) ->
  forall a b, In a l -> In b l -> f a = f b -> a = b.
Proof.
  induction l as [|x l IH]; simpl; intros ND a b Ha Hb E; [destruct Ha|].
  inversion ND as [|? ? Hx Hn]; subst.
  destruct Ha as [<-|Ha], Hb as [<-|Hb].
  - reflexivity.
  - exfalso; apply Hx. rewrite E. apply in_map; exact Hb.
  - exfalso; apply Hx. rewrite <- E. apply in_map; exact Ha.
  - apply IH; assumption.
Qed.

Theorem name_determines_permutation_proof : forall ss cs mode L, new_library ss cs mode = Ok L ->
  forall p q, In p L -> In q L -> p_name p = p_name q -> p = q.
Proof. intros ss cs mode L H. apply NoDup_map_inj. eapply names_unique_proof; exact H. Qed.

(* ------------------------------------------------------------------ *)
(* independence of the map iteration order                              *)
(* ------------------------------------------------------------------ *)
Lemma suite_cases_ext s cs cs' : (forall c, In c cs <-> In c cs') -> suite_cases s cs = suite_cases s cs'.
Proof.
  intros H. unfold suite_cases. apply filter_ext. intros c.
  destruct (mem_case c cs) eqn:E1, (mem_case c cs') eqn:E2; try reflexivity.
  - apply mem_case_in, H, mem_case_in in E1. congruence.
  - apply mem_case_in, H, mem_case_in in E2. congruence.
Qed.

Lemma order_fwd ss ss' cs cs' mode L :
  Permutation ss ss' -> (forall c, In c cs <-> In c cs') ->
  new_library ss cs mode = Ok L -> exists L', new_library ss' cs' mode = Ok L' /\ Permutation L L'.
Proof.
  intros HP HC H. apply new_library_ok_iff in H. destruct H as (Hh & Hn & Ho & -> & Nn & NE).
  assert (Eact : forall s, active_perms mode cs s = active_perms mode cs' s).
  { intros s. unfold active_perms, suite_perms. rewrite (suite_cases_ext s cs cs' HC). reflexivity. }
  assert (PL : Permutation (all_perms mode ss cs) (all_perms mode ss' cs')).
  { unfold all_perms. rewrite (flat_map_ext _ _ Eact). apply Permutation_flat_map. exact HP. }
  exists (all_perms mode ss' cs'). split; [|exact PL].
  apply new_library_ok_iff. repeat split.
  - eapply Permutation_Forall; eassumption.
  - eapply Permutation_NoDup; [apply Permutation_map; exact HP|exact Hn].
  - eapply Permutation_Forall; [exact HP|]. eapply Forall_impl; [|exact Ho].
    intros s Hs. unfold suite_ok, suite_body_ok in *. rewrite <- (suite_cases_ext s cs cs' HC). exact Hs.
  - unfold names. eapply Permutation_NoDup; [apply Permutation_map; exact PL|exact Nn].
  - intros E. rewrite E in PL. apply Permutation_sym, Permutation_nil in PL. contradiction.
Qed.

Theorem order_independent_proof : forall ss ss' cs cs' mode,
  Permutation ss ss' -> (forall c, In c cs <-> In c cs') ->
  same_result (new_library ss cs mode) (new_library ss' cs' mode).
Proof.
  intros ss ss' cs cs' mode HP HC. unfold same_result.
  destruct (new_library ss cs mode) as [L|] eqn:E1, (new_library ss' cs' mode) as [L'|] eqn:E2.
  - destruct (order_fwd _ _ _ _ _ _ HP HC E1) as (L2 & E3 & P). rewrite E2 in E3. inversion E3; subst. exact P.
  - destruct (order_fwd _ _ _ _ _ _ HP HC E1) as (L2 & E3 & P). congruence.
  - assert (HC' : forall c, In c cs' <-> In c cs) by (intros c; symmetry; apply HC).
    destruct (order_fwd _ _ _ _ _ _ (Permutation_sym HP) HC' E2) as (L2 & E3 & P). congruence.
  - constructor.
Qed.

(* ------------------------------------------------------------------ *)
(* request fields                                                       *)
(* ------------------------------------------------------------------ *)
Theorem request_fields_proof : forall ss cs mode L, new_library ss cs mode = Ok L ->
  forall p, In p L ->
    exists s t c, In s ss /\ In t (s_cases s) /\ In c cs /\ admits s c /\
      p_name p = spec_name s c t /\ p_simple p = t_name t /\
      p_version p = c_version c /\ p_protocol p = c_protocol c /\ p_codec p = c_codec c /\
      p_compression p = c_compression c /\ p_stream p = c_stream c /\ p_stream p = t_stream t /\
      (p_cert p <> [] <-> c_tls c = true) /\ (p_creds p = true <-> c_certs c = true) /\
      (t_service t = [] -> p_service p = spec_default_service /\ p_method p = spec_default_method (p_stream p)) /\
      (t_service t <> [] -> p_service p = t_service t /\ p_method p = t_method t) /\
      p_limit p = 1048576 /\
      server_instance p = spec_instance c.
Proof.
  intros ss cs mode L H p Hp. apply (perm_iff_proof _ _ _ _ H) in Hp.
  destruct Hp as (s & t & c & Hs & Ht & Hc & _ & Ha & Es & ->). exists s, t, c.
  unfold spec_perm, server_instance, spec_instance; simpl.
  repeat (split; [first [assumption|reflexivity|symmetry; assumption]|]).
  split; [destruct (c_tls c); simpl; split; congruence|].
  split; [tauto|].
  split; [intros E; rewrite E; simpl; tauto|].
  split; [intros E; destruct (t_service t); [congruence|simpl; tauto]|].
  split; [reflexivity|]. destruct (c_tls c); reflexivity.
Qed.

(* ------------------------------------------------------------------ *)
(* grouping                                                             *)
(* ------------------------------------------------------------------ *)
Lemma inst_eqb_spec a b : reflect (a = b) (inst_eqb a b).
Proof.
  destruct a as [p v t c], b as [p' v' t' c']; unfold inst_eqb; simpl.
  destruct (N.eqb_spec p p'); [|constructor; congruence].
  destruct (N.eqb_spec v v'); [|constructor; congruence].
  destruct t, t', c, c'; simpl; constructor; congruence.
Qed.

Fixpoint lookup_group (k : inst) (g : list (inst * list perm)) : list perm :=
  match g with
  | [] => []
  | (k', l) :: r => if inst_eqb k k' then l else lookup_group k r
  end.

Lemma lookup_add k p g k' :
  lookup_group k' (add_to_group k p g) =
  if inst_eqb k k' then lookup_group k' g ++ [p] else lookup_group k' g.
Proof.
  induction g as [|[k0 l0] r IH]; simpl.
  - destruct (inst_eqb_spec k' k), (inst_eqb_spec k k'); subst; try reflexivity; congruence.
  - destruct (inst_eqb_spec k k0) as [E|E]; simpl.
    + subst k0. destruct (inst_eqb_spec k' k), (inst_eqb_spec k k'); subst; try reflexivity; congruence.
    + rewrite IH. destruct (inst_eqb_spec k' k0), (inst_eqb_spec k k'); subst; try reflexivity; congruence.
Qed.

Lemma keys_add k p g k' : In k' (map fst (add_to_group k p g)) <-> k' = k \/ In k' (map fst g).
Proof.
  induction g as [|[k0 l0] r IH]; simpl; [intuition|].
  destruct (inst_eqb_spec k k0) as [E|E]; simpl; [subst; intuition|]. rewrite IH. intuition.
Qed.

Lemma keys_add_nodup k p g : NoDup (map fst g) -> NoDup (map fst (add_to_group k p g)).
Proof.
  induction g as [|[k0 l0] r IH]; simpl; intros ND.
  - repeat constructor. simpl; tauto.
  - inversion ND as [|? ? Hx Hn]; subst. destruct (inst_eqb_spec k k0) as [E|E]; simpl.
    + constructor; assumption.
    + constructor; [|apply IH; exact Hn]. rewrite keys_add. intros [->|H]; [congruence|contradiction].
Qed.

Lemma group_fold order : forall g,
  let g' := fold_left (fun g p => add_to_group (server_instance p) p g) order g in
  (NoDup (map fst g) -> NoDup (map fst g')) /\
  (forall k, lookup_group k g' = lookup_group k g ++ filter (fun p => inst_eqb (server_instance p) k) order) /\
  (forall k, In k (map fst g') <-> In k (map fst g) \/ exists p, In p order /\ server_instance p = k).
Proof.
  induction order as [|p r IH]; intros g; simpl.
  - repeat split; try tauto.
    + intros k. rewrite app_nil_r. reflexivity.
    + intros [H|(p & [] & _)]; exact H.
  - specialize (IH (add_to_group (server_instance p) p g)). simpl in IH. destruct IH as (A & B & C).
    repeat split.
    + intros ND. apply A, keys_add_nodup, ND.
    + intros k. rewrite B, lookup_add. destruct (inst_eqb (server_instance p) k); [rewrite <- app_assoc|]; reflexivity.
    + intros H. apply C in H. rewrite keys_add in H. destruct H as [[->|H]|(q & Hq & E)].
      * right; exists p; split; [left; reflexivity|reflexivity].
      * left; exact H.
      * right; exists q; split; [right; exact Hq|exact E].
    + intros H. apply C. rewrite keys_add. destruct H as [H|(q & [<-|Hq] & E)].
      * left; right; exact H.
      * left; left; symmetry; exact E.
      * right; exists q; split; assumption.
Qed.

Lemma lookup_in g : NoDup (map fst g) -> forall k l, In (k, l) g -> lookup_group k g = l.
Proof.
  induction g as [|[k0 l0] r IH]; simpl; intros ND k l H; [destruct H|].
  inversion ND as [|? ? Hx Hn]; subst. destruct (inst_eqb_spec k k0) as [E|E].
  - subst. destruct H as [H|H]; [congruence|]. exfalso; apply Hx. apply in_map_iff. exists (k0, l); split; [reflexivity|exact H].
  - destruct H as [H|H]; [congruence|]. apply IH; assumption.
Qed.

Theorem groups_proof : forall order, grouped order (group_cases order).
Proof.
  intros order. unfold grouped, group_cases.
  destruct (group_fold order []) as (A & B & C). simpl in *.
  assert (ND : NoDup (map fst (fold_left (fun g p => add_to_group (server_instance p) p g) order []))) by (apply A; constructor).
  split; [exact ND|]. split.
  - intros k l H. rewrite <- (lookup_in _ ND _ _ H), B. simpl. split; [|reflexivity].
    assert (Hk : In k (map fst (fold_left (fun g p => add_to_group (server_instance p) p g) order []))).
    { apply in_map_iff. exists (k, l); split; [reflexivity|exact H]. }
    apply C in Hk. destruct Hk as [[]|(p & Hp & E)].
    intros Ef. assert (Hin : In p (filter (fun p => inst_eqb (server_instance p) k) order)).
    { apply filter_In. split; [exact Hp|]. destruct (inst_eqb_spec (server_instance p) k); congruence. }
    rewrite Ef in Hin. destruct Hin.
  - intros p Hp.
    assert (Hk : In (server_instance p) (map fst (fold_left (fun g p => add_to_group (server_instance p) p g) order []))).
    { apply C. right. exists p; split; [exact Hp|reflexivity]. }
    apply in_map_iff in Hk. destruct Hk as ([k l] & E & H). simpl in E; subst. exists l; exact H.
Qed.

(* consequence: a permutation sits in exactly the group of its own server instance *)
Theorem grouped_once_proof : forall order g, grouped order g ->
  forall p, In p order ->
    (exists l, In (server_instance p, l) g /\ In p l) /\
    (forall k l, In (k, l) g -> In p l -> k = server_instance p).
Proof.
  intros order g (ND & F & E) p Hp. split.
  - destruct (E p Hp) as (l & Hl). exists l; split; [exact Hl|].
    destruct (F _ _ Hl) as (_ & ->). apply filter_In. split; [exact Hp|].
    destruct (inst_eqb_spec (server_instance p) (server_instance p)); congruence.
  - intros k l Hl Hin. destruct (F _ _ Hl) as (_ & El). rewrite El in Hin. apply filter_In in Hin.
    destruct Hin as (_ & Hk). destruct (inst_eqb_spec (server_instance p) k); congruence.
Qed.

(* ------------------------------------------------------------------ *)
(* the gRPC-peer filter                                                 *)
(* ------------------------------------------------------------------ *)
Lemma if_false_iff (b r : bool) : (if b then false else r) = true <-> b = false /\ r = true.
Proof. destruct b; intuition congruence. Qed.

Lemma grpc_keep_iff cl sv p : In (p_protocol p) c07_all_protocols ->
  (grpc_keep cl sv p = true <-> grpc_applicable cl sv p).
Proof.
  intros Hd. unfold grpc_keep, grpc_applicable. rewrite !if_false_iff.
  assert (K12 : ((cl && negb (p_protocol p =? 2)) || (p_protocol p =? 1) = false /\
                 (if p_protocol p =? 3 then negb ((p_version p =? 1) || (p_version p =? 2)) else negb (p_version p =? 2)) = false)
                <-> ((p_protocol p = 2 \/ (cl = false /\ p_protocol p = 3)) /\
                     (p_protocol p = 2 -> p_version p = 2) /\
                     (p_protocol p = 3 -> p_version p = 1 \/ p_version p = 2))).
  { destruct Hd as [E|[E|[E|[]]]]; rewrite <- E; simpl (_ =? _); destruct cl; simpl;
      destruct (N.eqb_spec (p_version p) 1) as [V1|V1], (N.eqb_spec (p_version p) 2) as [V2|V2]; simpl;
      intuition congruence. }
  assert (K3 : negb (p_codec p =? 1) = false <-> p_codec p = 1)
    by (destruct (N.eqb_spec (p_codec p) 1); simpl; intuition congruence).
  assert (K4 : negb (p_compression p =? 1) && negb (p_compression p =? 2) = false <->
               (p_compression p = 1 \/ p_compression p = 2))
    by (destruct (N.eqb_spec (p_compression p) 1), (N.eqb_spec (p_compression p) 2); simpl; intuition congruence).
  assert (K5 : negb (is_nil (p_cert p)) = false <-> p_cert p = [])
    by (destruct (p_cert p); simpl; intuition congruence).
  assert (K6 : p_rawreq p && cl = false <-> (cl = true -> p_rawreq p = false))
    by (destruct (p_rawreq p), cl; simpl; intuition congruence).
  assert (K7 : p_rawresp p && sv = false <-> (sv = true -> p_rawresp p = false))
    by (destruct (p_rawresp p), sv; simpl; intuition congruence).
  tauto.
Qed.

Theorem grpc_filter_iff_proof : forall cl sv l,
  (forall p, In p l -> In (p_protocol p) c07_all_protocols) ->
  forall q, In q (grpc_filter cl sv l) <->
    (cl = false /\ sv = false /\ In q l) \/
    ((cl = true \/ sv = true) /\ exists p, In p l /\ grpc_applicable cl sv p /\ q = rename cl sv p).
Proof.
  intros cl sv l Hd q. unfold grpc_filter.
  destruct cl, sv; simpl; try (rewrite in_map_iff; split;
    [intros (p & <- & Hp); apply filter_In in Hp; destruct Hp as (Hp & Hk); right; split; [auto|];
       exists p; split; [exact Hp|]; split; [apply grpc_keep_iff; [apply Hd; exact Hp|exact Hk]|reflexivity]
    |intros [(A & B & _)|(_ & p & Hp & Ha & ->)]; try discriminate;
       exists p; split; [reflexivity|]; apply filter_In; split; [exact Hp|]; apply grpc_keep_iff; [apply Hd; exact Hp|exact Ha]]).
  split; [intros H; left; auto|intros [(_ & _ & H)|([A|A] & _)]; [exact H|discriminate|discriminate]].
Qed.

Lemma has_prefix_app a b : has_prefix a (a ++ b) = true.
Proof. induction a as [|x a IH]; simpl; [reflexivity|]. rewrite N.eqb_refl. exact IH. Qed.

Lemma trim_suffix_app pre suf : trim_suffix (pre ++ suf) suf = pre.
Proof.
  unfold trim_suffix, has_suffix. rewrite rev_app_distr, has_prefix_app, app_length.
  replace (length pre + length suf - length suf)%nat with (length pre + 0)%nat by lia.
  rewrite firstn_app_2. simpl. apply app_nil_r.
Qed.

Lemma marker_spec cl sv : marker cl sv = spec_marker cl sv.
Proof. destruct cl, sv; vm_compute; reflexivity. Qed.

(* the marker goes between the permutation prefix and the test name as written *)
Theorem marker_name_proof : forall cl sv p pre,
  p_name p = pre ++ p_simple p ->
  p_name (rename cl sv p) = pre ++ spec_marker cl sv ++ 47 :: p_simple p /\
  p_simple (rename cl sv p) = p_simple p /\
  server_instance (rename cl sv p) = server_instance p.
Proof.
  intros cl sv p pre E. unfold rename, add_marker; simpl. rewrite E, trim_suffix_app, marker_spec.
  repeat split.
Qed.

(* allPermutations: the library's own permutations plus one filtered copy per gRPC pairing *)
Theorem all_permutations_proof : forall cl sv order q,
  In q (all_permutations cl sv order) <->
    In q order \/ (cl = true /\ In q (grpc_filter true false order))
    \/ (sv = true /\ In q (grpc_filter false true order))
    \/ (cl = true /\ sv = true /\ In q (grpc_filter true true order)).
Proof.
  intros cl sv order q. unfold all_permutations. rewrite !in_app_iff.
  destruct cl, sv; simpl; intuition congruence.
Qed.

(* ------------------------------------------------------------------ *)
(* parseTestSuites' mode restrictions                                   *)
(* ------------------------------------------------------------------ *)
Theorem parse_mode_proof : forall s he, parse_allows s he = true <-> parse_ok s he.
Proof.
  intros s he. unfold parse_allows, parse_ok. rewrite forallb_forall.
  split; intros H t Ht; specialize (H t Ht).
  - destruct (t_rawreq t), (t_rawresp t), he, (N.eqb_spec (s_mode s) 2), (N.eqb_spec (s_mode s) 1);
      simpl in H; try discriminate; intuition congruence.
  - destruct (t_rawreq t), (t_rawresp t), he, (N.eqb_spec (s_mode s) 2), (N.eqb_spec (s_mode s) 1);
      simpl; try reflexivity; exfalso; intuition congruence.
Qed.

(* ------------------------------------------------------------------ *)
(* when is a library built at all                                       *)
(* ------------------------------------------------------------------ *)
Lemma suite_ok_spec mode cs s :
  suite_ok mode cs s <->
  (mode_admits s mode -> suite_config_ok s /\
     forall c, In c cs -> admits s c -> forall t, In t (s_cases s) -> test_ok c t).
Proof.
  unfold suite_ok, suite_body_ok. rewrite suite_active_iff, misconfigured_iff.
  split; intros H Hm; specialize (H Hm); destruct H as (A & B); (split; [exact A|]).
  - intros c Hc Ha t Ht. rewrite Forall_forall in B.
    assert (Hsc : In c (suite_cases s cs)) by (apply in_suite_cases; split; assumption).
    specialize (B c Hsc). rewrite Forall_forall in B. apply tc_ok_iff, B, Ht.
  - apply Forall_forall. intros c Hc. apply in_suite_cases in Hc. destruct Hc as (Hc & Ha).
    apply Forall_forall. intros t Ht. apply tc_ok_iff. exact (B c Hc Ha t Ht).
Qed.

(* the list of permutations the directives ask for, with repetitions if the naming scheme
   or the suite repeats itself: pure, no error threading *)
Definition expected := all_perms.

Theorem library_built_iff_proof : forall ss cs mode L,
  new_library ss cs mode = Ok L <->
    Forall suite_header_ok ss /\ NoDup (map s_name ss) /\
    (forall s, In s ss -> mode_admits s mode -> suite_config_ok s /\
        forall c, In c cs -> admits s c -> forall t, In t (s_cases s) -> test_ok c t) /\
    L = expected mode ss cs /\ NoDup (map p_name L) /\ L <> [].
Proof.
  intros ss cs mode L. rewrite new_library_ok_iff. unfold expected, names.
  assert (K : Forall (suite_ok mode cs) ss <->
              (forall s, In s ss -> mode_admits s mode -> suite_config_ok s /\
                forall c, In c cs -> admits s c -> forall t, In t (s_cases s) -> test_ok c t)).
  { rewrite Forall_forall. split; intros H s Hs; apply suite_ok_spec, H, Hs. }
  rewrite K. tauto.
Qed.

(* ---------- the fields of the test case besides the request travel unchanged ---------- *)
Lemma rename_same_but_name cl sv p : same_but_name p (rename cl sv p).
Proof. unfold same_but_name, rename; simpl. repeat split; reflexivity. Qed.

(* every member of a gRPC-peer block is an applicable permutation under its marked name, and
   nothing else about it differs - no hypothesis on the protocol numbers is needed for this half *)
Theorem grpc_variant_is_original_but_name_proof : forall cl sv l q,
  cl = true \/ sv = true -> In q (grpc_filter cl sv l) ->
  exists p, In p l /\ p_name q = add_marker (p_name p) (p_simple p) cl sv /\ same_but_name p q.
Proof.
  intros cl sv l q H Hq. unfold grpc_filter in Hq.
  assert (E : negb cl && negb sv = false) by (destruct cl, sv; try reflexivity; destruct H; discriminate).
  rewrite E in Hq. apply in_map_iff in Hq. destruct Hq as (p & <- & Hp). apply filter_In in Hp.
  exists p. split; [apply Hp|]. split; [reflexivity|apply rename_same_but_name].
Qed.

Theorem all_permutations_variants_proof : forall cl sv order q,
  In q (all_permutations cl sv order) ->
  In q order \/ exists p, In p order /\ same_but_name p q /\
     exists cl' sv', (cl' = true \/ sv' = true) /\ p_name q = add_marker (p_name p) (p_simple p) cl' sv'.
Proof.
  intros cl sv order q Hq. unfold all_permutations in Hq. rewrite !in_app_iff in Hq.
  destruct Hq as [Hq|[Hq|[Hq|Hq]]]; [left; exact Hq| | |].
  - destruct cl; [|destruct Hq]. right.
    destruct (grpc_variant_is_original_but_name_proof true false order q (or_introl eq_refl) Hq) as (p & Hp & Hn & Hs).
    exists p. repeat split; try assumption; try apply Hs. exists true, false. split; [left; reflexivity|exact Hn].
  - destruct sv; [|destruct Hq]. right.
    destruct (grpc_variant_is_original_but_name_proof false true order q (or_intror eq_refl) Hq) as (p & Hp & Hn & Hs).
    exists p. repeat split; try assumption; try apply Hs. exists false, true. split; [right; reflexivity|exact Hn].
  - destruct cl, sv; simpl in Hq; try destruct Hq. right.
    destruct (grpc_variant_is_original_but_name_proof true true order q (or_introl eq_refl) Hq) as (p & Hp & Hn & Hs).
    exists p. repeat split; try assumption; try apply Hs. exists true, true. split; [left; reflexivity|exact Hn].
Qed.

(* a permutation of the library carries the other fields of the test case it was expanded from *)
Theorem permutation_carries_extras_proof : forall ss cs mode L, new_library ss cs mode = Ok L ->
  forall p, In p L -> exists s t, In s ss /\ In t (s_cases s) /\ p_simple p = t_name t /\ p_extras p = t_extras t.
Proof.
  intros ss cs mode L HL p Hp. apply (perm_iff_proof ss cs mode L HL) in Hp.
  destruct Hp as (s & t & c & Hs & Ht & _ & _ & _ & _ & ->). exists s, t. repeat split; assumption.
Qed.
