(* C09_ProofsJ.v — JSON variant, relative to the scanner oracle: a stream of written values cut
   anywhere (inside a value, between values, before the newline), ending in EOF, another error or
   a stall, read under any schedule; and what a failing JSON writer leaves for the reader. *)
From Coq Require Import Lia.
From V Require Import C09_Spec C09_Proofs C09_ProofsW.
Open Scope N_scope.

Definition starts_nonspace (v : bytes) : Prop := exists c r, v = c :: r /\ is_json_ws c = false.

(* how the JSON decoder's loop ends when the stream stops after j bytes of a value *)
Definition json_end (t : tail_t) (j : nat) : jfinal :=
  match t with
  | TEOF => JFErr (if (0 <? j)%nat then MUnexpected else MEOF)
  | TFail => JFErr MIO
  | TBlock => JFBlock
  end.

Definition jstep_end (t : tail_t) (j : nat) (r : jres) : Prop :=
  match r with
  | JErr e _ => json_end t j = JFErr e
  | JBlock => json_end t j = JFBlock
  | _ => False
  end.

Section JsonCut.
  Variable scan : bytes -> scan_res.
  Hypothesis Hskip : scanner_skips_newline scan.

  Lemma scan_cut_needmore v (Hv : scanner_ok scan v) j l n :
    (j < length v)%nat -> nls l -> scan (firstn n (l ++ firstn j v)) = SNeedMore.
  Proof.
    intros Hj Hl. destruct Hv as [_ Hp].
    rewrite firstn_app, (scan_nls scan Hskip) by (apply nls_firstn; exact Hl).
    rewrite firstn_firstn. apply Hp. lia.
  Qed.

  Lemma non_space_cut v l j :
    ((0 < j)%nat -> starts_nonspace v) -> nls l -> non_space (l ++ firstn j v) = (0 <? j)%nat.
  Proof.
    intros Hn Hl. pose proof (nls_non_space l Hl) as Hl0. unfold non_space in *.
    rewrite existsb_app, Hl0. destruct j as [|j]; [reflexivity|].
    destruct (Hn ltac:(lia)) as (c & r & -> & Hc). cbn. now rewrite Hc.
  Qed.

  Lemma json_loop_short v (Hv : scanner_ok scan v) eg t j :
    (j < length v)%nat -> ((0 < j)%nat -> starts_nonspace v) ->
    forall fuel buf d sch lasterr l,
    nls l -> buf ++ d = l ++ firstn j v ->
    (length sch + length d + 1 < fuel)%nat ->
    (lasterr = None \/ (lasterr = tail_err t /\ d = [])) ->
    jstep_end t j (json_loop scan fuel buf (mk_src d sch eg t) lasterr).
  Proof.
    intros Hj Hn.
    induction fuel as [|f IH]; intros buf d sch lasterr l Hl E Hf Hle; [lia|].
    cbn [json_loop].
    assert (Hb : buf = firstn (length buf) (l ++ firstn j v)).
    { eapply (app_eq_prefix buf d _ []); [rewrite app_nil_r; exact E|].
      rewrite <- E, app_length. lia. }
    assert (Hs : scan buf = SNeedMore) by (rewrite Hb; now apply scan_cut_needmore).
    assert (Hfinal : d = [] -> non_space buf = (0 <? j)%nat).
    { intros ->. rewrite app_nil_r in E. rewrite E. now apply non_space_cut. }
    rewrite Hs. destruct Hle as [->|[-> ->]].
    - destruct d as [|x d'].
      + unfold src_read. cbn [s_data s_tail]. change (big_buf =? 0) with false. cbv iota.
        destruct f as [|f']; [cbn in Hf; lia|].
        destruct t; cbn [tail_err json_loop jstep_end]; rewrite ?app_nil_r, ?Hs.
        * cbn [jstep_end]. rewrite Hfinal by reflexivity. unfold json_end. destruct (0 <? j)%nat; reflexivity.
        * reflexivity.
        * reflexivity.
      + destruct (src_read_big (x :: d') sch eg t ltac:(discriminate)) as [(m & Hm & Hm0 & ->)|(m & _ & Hsch & ->)].
        * apply (IH _ _ _ _ l Hl).
          -- rewrite <- app_assoc, firstn_skipn. exact E.
          -- rewrite skipn_length. destruct sch; cbn [length tl] in *; [|lia].
             destruct (Hm0 eq_refl); [lia|]. rewrite skipn_length in *. lia.
          -- destruct (skipn m (x :: d')); [|left; reflexivity].
             destruct eg; [right; split; reflexivity|left; reflexivity].
        * rewrite app_nil_r. apply (IH _ _ _ _ l Hl E); [|left; reflexivity].
          destruct sch; [congruence|]. cbn [length tl] in *. lia.
    - destruct t; cbn [tail_err].
      + cbn [jstep_end]. rewrite Hfinal by reflexivity. unfold json_end. destruct (0 <? j)%nat; reflexivity.
      + unfold src_read. cbn [s_data s_tail]. change (big_buf =? 0) with false. cbv iota. reflexivity.
      + reflexivity.
  Qed.

  Lemma json_all_short v (Hv : scanner_ok scan v) eg t j :
    (j < length v)%nat -> ((0 < j)%nat -> starts_nonspace v) ->
    forall fuel buf d sch l, nls l -> buf ++ d = l ++ firstn j v -> (0 < fuel)%nat ->
    json_all_loop scan fuel buf (mk_src d sch eg t) = ([], json_end t j).
  Proof.
    intros Hj Hn fuel buf d sch l Hl E Hf. destruct fuel as [|f]; [lia|]. cbn [json_all_loop]. unfold json_next.
    pose proof (json_loop_short v Hv eg t j Hj Hn (S (S (read_fuel (mk_src d sch eg t)))) buf d sch None l Hl E) as H.
    specialize (H ltac:(unfold read_fuel; cbn; lia) ltac:(left; reflexivity)).
    destruct (json_loop scan _ buf _ None); cbn [jstep_end] in H; try contradiction; now rewrite H.
  Qed.

  (* the written values in front, then whatever the continuation K makes of the rest *)
  Lemma json_all_values_then eg t suffix ws final k
    (K : forall fuel buf d sch l, nls l -> buf ++ d = l ++ suffix -> (k < fuel)%nat ->
         json_all_loop scan fuel buf (mk_src d sch eg t) = (ws, final)) :
    forall vs fuel buf d sch l,
    Forall (scanner_ok scan) vs -> nls l -> buf ++ d = l ++ json_write_all vs ++ suffix ->
    (length vs + k < fuel)%nat ->
    json_all_loop scan fuel buf (mk_src d sch eg t) = (vs ++ ws, final).
  Proof.
    induction vs as [|v vs IH]; intros fuel buf d sch l HF Hl E Hf.
    - cbn in E. cbn [app]. apply (K _ _ _ _ l Hl E). cbn in Hf. lia.
    - destruct fuel as [|f]; [lia|]. cbn [json_all_loop]. unfold json_next.
      inversion HF as [|? ? Hv Hvs]; subst.
      rewrite json_write_all_cons, <- app_assoc, app_assoc in E.
      destruct (json_loop_value scan Hskip v Hv eg t (S (S (read_fuel (mk_src d sch eg t)))) buf d sch None l _ Hl E)
        as (sch' & rest & d' & -> & E'); [unfold read_fuel; cbn; lia|left; reflexivity|].
      rewrite (IH f rest d' sch' [10] Hvs); [reflexivity|constructor; [reflexivity|constructor]|exact E'|cbn [length] in Hf; lia].
  Qed.

  (* cut inside (or just in front of) a value: the values before it, then the ending *)
  Lemma json_cut_proof : forall vs v j sch eg t,
    Forall (scanner_ok scan) vs -> scanner_ok scan v -> ((0 < j)%nat -> starts_nonspace v) -> (j < length v)%nat ->
    json_all scan (mk_src (json_write_all vs ++ firstn j v) sch eg t) = (vs, json_end t j).
  Proof.
    intros vs v j sch eg t HF Hv Hn Hj. unfold json_all. cbn [s_data].
    replace (vs, json_end t j) with (vs ++ [], json_end t j) by (now rewrite app_nil_r).
    apply (json_all_values_then eg t (firstn j v) [] (json_end t j) 0%nat) with (l := []); auto.
    - intros. now apply (json_all_short v Hv eg t j Hj Hn) with (l := l).
    - constructor.
    - rewrite app_length. pose proof (json_write_all_length vs). lia.
  Qed.

  Lemma scanner_ok_nonempty v : scanner_ok scan v -> (0 < length v)%nat.
  Proof.
    intros [Hc _]. destruct v; [|cbn; lia]. specialize (Hc []). cbn in Hc.
    destruct Hskip as [H0 _]. congruence.
  Qed.

  (* the last value lacks its newline: it is delivered all the same, then the ending *)
  Lemma json_last_unterminated_proof : forall vs v sch eg t,
    Forall (scanner_ok scan) vs -> scanner_ok scan v ->
    json_all scan (mk_src (json_write_all vs ++ v) sch eg t) = (vs ++ [v], json_end t 0).
  Proof.
    intros vs v sch eg t HF Hv. unfold json_all. cbn [s_data].
    apply (json_all_values_then eg t v [v] (json_end t 0) 1%nat) with (l := []); auto.
    - intros fuel buf d sch' l Hl E Hf. destruct fuel as [|f]; [lia|]. cbn [json_all_loop]. unfold json_next.
      assert (E2 : buf ++ d = (l ++ v) ++ []) by (now rewrite app_nil_r).
      destruct (json_loop_value scan Hskip v Hv eg t (S (S (read_fuel (mk_src d sch' eg t)))) buf d sch' None l _ Hl E2)
        as (sch'' & rest & d' & -> & E'); [unfold read_fuel; cbn; lia|left; reflexivity|].
      rewrite (json_all_short v Hv eg t 0 (scanner_ok_nonempty v Hv) ltac:(lia) f rest d' sch'' []);
        [reflexivity|constructor|cbn; exact E'|lia].
    - constructor.
    - rewrite app_length. pose proof (json_write_all_length vs). pose proof (scanner_ok_nonempty v Hv). lia.
  Qed.

  (* ---------- what a failing JSON writer leaves for the reader ---------- *)
  Lemma json_write_all_app a b : json_write_all (a ++ b) = json_write_all a ++ json_write_all b.
  Proof. unfold json_write_all. now rewrite map_app, concat_app. Qed.

  Lemma json_cut_decompose : forall vs r, (r < length (json_write_all vs))%nat ->
    exists pre v post j, vs = pre ++ v :: post /\ (j <= length v)%nat /\
      firstn r (json_write_all vs) = json_write_all pre ++ firstn j v.
  Proof.
    induction vs as [|v vs IH]; intros r Hr; [cbn in Hr; lia|].
    rewrite json_write_all_cons, app_length in Hr. cbn [length] in Hr.
    destruct (Nat.le_gt_cases r (length v)) as [H|H].
    - exists [], v, vs, r. split; [reflexivity|]. split; [exact H|].
      rewrite json_write_all_cons, firstn_app_le by lia. reflexivity.
    - destruct (IH (r - length v - 1)%nat ltac:(lia)) as (pre & v' & post & j & -> & Hj & E).
      exists (v :: pre), v', post, j. split; [reflexivity|]. split; [exact Hj|].
      rewrite !json_write_all_cons, firstn_app_ge by lia.
      replace (r - length v)%nat with (S (r - length v - 1)) by lia. cbn [firstn]. rewrite E.
      rewrite <- app_assoc. reflexivity.
  Qed.

  Lemma json_pipe_proof : forall vs room sch eg,
    Forall (scanner_ok scan) vs -> Forall starts_nonspace vs ->
    exists k e, json_all scan (mk_src (wire_of json_encode vs room) sch eg TEOF) = (firstn k vs, JFErr e) /\
      (k <= length vs)%nat /\ (room = None -> k = length vs /\ e = MEOF) /\
      (e = MEOF \/ e = MUnexpected) /\
      (e = MUnexpected <-> exists j v, nth_error vs k = Some v /\ (0 < j < length v)%nat /\
                                      wire_of json_encode vs room = json_write_all (firstn k vs) ++ firstn j v).
  Proof.
    intros vs room sch eg HF HN. rewrite json_writer_wire_proof. unfold json_wire_spec, cut_to.
    assert (Hwhole : exists k e, json_all scan (mk_src (json_write_all vs) sch eg TEOF) = (firstn k vs, JFErr e) /\
      (k <= length vs)%nat /\ (k = length vs /\ e = MEOF) /\ (e = MEOF \/ e = MUnexpected) /\
      (e = MUnexpected <-> exists j v, nth_error vs k = Some v /\ (0 < j < length v)%nat /\
                                      json_write_all vs = json_write_all (firstn k vs) ++ firstn j v)).
    { exists (length vs), MEOF. rewrite firstn_all, (json_roundtrip_any_sched_proof scan Hskip) by exact HF.
      repeat split; auto; try discriminate.
      intros (j & v & Hnth & _). exfalso. assert (Hx : nth_error vs (length vs) <> None) by congruence.
      apply nth_error_Some in Hx. lia. }
    assert (Hcase : room = None \/ (exists r, room = Some r /\ (length (json_write_all vs) <= r)%nat) \/
                    exists r, room = Some r /\ (r < length (json_write_all vs))%nat).
    { destruct room as [r|]; [|left; reflexivity]. right.
      destruct (Nat.le_gt_cases (length (json_write_all vs)) r); [left|right]; eauto. }
    destruct Hcase as [->|[(r & -> & Hr)|(r & -> & Hr)]].
    - destruct Hwhole as (k & e & H1 & H2 & H3 & H4 & H5). exists k, e. repeat split; tauto.
    - rewrite firstn_all2 by exact Hr.
      destruct Hwhole as (k & e & H1 & H2 & H3 & H4 & H5). exists k, e. repeat split; try tauto; discriminate.
    - destruct (json_cut_decompose vs r Hr) as (pre & v & post & j & -> & Hj & E). rewrite E.
      apply Forall_app in HF as [Hpre Hv]. inversion Hv as [|? ? Hv1 _]; subst.
      apply Forall_app in HN as [_ Hnv]. inversion Hnv as [|? ? Hn1 _]; subst.
      assert (Hfk : firstn (length pre) (pre ++ v :: post) = pre).
      { rewrite firstn_app, Nat.sub_diag, firstn_all. cbn. apply app_nil_r. }
      destruct (Nat.eq_dec j (length v)) as [->|Hne].
      + (* everything of v but its newline *)
        rewrite firstn_all, (json_last_unterminated_proof pre v) by assumption.
        exists (S (length pre)), MEOF.
        replace (firstn (S (length pre)) (pre ++ v :: post)) with (pre ++ [v]).
        2:{ rewrite firstn_app, firstn_all2 by lia. replace (S (length pre) - length pre)%nat with 1%nat by lia. reflexivity. }
        split; [reflexivity|]. split; [rewrite app_length; cbn; lia|]. split; [discriminate|]. split; [left; reflexivity|].
        split; [discriminate|]. intros (j & w & Hnth & Hjw & Heq). exfalso.
        rewrite json_write_all_app, <- app_assoc in Heq. apply app_inv_head in Heq.
        apply (f_equal (@length N)) in Heq. unfold json_write_all, json_write in Heq. cbn in Heq.
        rewrite !app_length, firstn_length in Heq. cbn in Heq. lia.
      + rewrite (json_cut_proof pre v j) by (auto; lia).
        exists (length pre). rewrite Hfk. eexists. split; [reflexivity|]. split; [rewrite app_length; lia|].
        split; [discriminate|]. unfold json_end.
        destruct (Nat.ltb_spec 0 j) as [H0|H0].
        * split; [right; reflexivity|]. split; [|reflexivity]. intros _. exists j, v.
          split; [|split; [lia|reflexivity]].
          rewrite nth_error_app2, Nat.sub_diag by lia. reflexivity.
        * split; [left; reflexivity|]. split; [discriminate|].
          intros (j' & w & Hnth & Hjw & Heq). exfalso.
          rewrite nth_error_app2, Nat.sub_diag in Hnth by lia. cbn in Hnth. inversion Hnth; subst w.
          apply app_inv_head in Heq. apply (f_equal (@length N)) in Heq. rewrite !firstn_length in Heq. lia.
  Qed.
End JsonCut.
