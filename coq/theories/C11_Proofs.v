From V Require Export C11_Spec.
