(* C11_Proofs.v — lemmas and proofs for C11.  The heart is loop_perm: for EVERY batch, every
   death point and every client script, the outcome log after the loop plus the callbacks
   still registered is a permutation of "own verdict for the cases before the fault point,
   the fault's mark for the others". *)
From Coq Require Import Lia Permutation.
From V Require Export C11_Spec.
Open Scope nat_scope.

(* ====================================================================== *)
(* small facts about the log                                              *)
(* ====================================================================== *)
Lemma count_app n a b : count n (a ++ b) = count n a + count n b.
Proof. unfold count. rewrite filter_app, app_length. reflexivity. Qed.

Lemma count_perm n a b : Permutation a b -> count n a = count n b.
Proof.
  unfold count. induction 1; simpl; try lia.
  - destruct (bytes_eqb n (fst x)); simpl; lia.
  - destruct (bytes_eqb n (fst x)), (bytes_eqb n (fst y)); simpl; lia.
Qed.

Lemma count_pos_in n log : (1 <= count n log) <-> In n (map fst log).
Proof.
  unfold count. induction log as [|[m k] r IH]; simpl; [split; [lia|tauto]|].
  destruct (bytes_eqb_spec n m) as [->|Hne]; simpl.
  - split; [auto|lia].
  - rewrite IH. split; [auto|]. intros [E|H]; [congruence|exact H].
Qed.

Lemma count_notin n log : ~ In n (map fst log) -> count n log = 0.
Proof. intros H. pose proof (proj1 (count_pos_in n log)). destruct (count n log); [reflexivity|]. exfalso; apply H, H0; lia. Qed.

Lemma count_nodup n log : NoDup (map fst log) -> In n (map fst log) -> count n log = 1.
Proof.
  unfold count. induction log as [|[m k] r IH]; simpl; [tauto|].
  intros ND HI. inversion ND as [|? ? Hn ND']; subst.
  destruct (bytes_eqb_spec n m) as [->|Hne]; simpl.
  - f_equal. apply (count_notin m r Hn).
  - destruct HI as [E|HI]; [congruence|]. apply IH; assumption.
Qed.

Lemma final_none n log : final n log = None <-> ~ In n (map fst log).
Proof.
  induction log as [|[m k] r IH]; simpl; [tauto|].
  destruct (final n r) eqn:E.
  - split; [discriminate|]. intros H. exfalso. apply H. right.
    destruct (in_dec (list_eq_dec N.eq_dec) n (map fst r)) as [i|ni]; [exact i|].
    apply IH in ni. congruence.
  - destruct (bytes_eqb_spec n m) as [->|Hne].
    + split; [discriminate|]. intros H; exfalso; apply H; left; reflexivity.
    + split; [|reflexivity]. intros _ [Hm|Hr]; [congruence|]. apply IH in Hr; [exact Hr|reflexivity].
Qed.

Lemma final_nodup n k log : NoDup (map fst log) -> In (n, k) log -> final n log = Some k.
Proof.
  induction log as [|[m k'] r IH]; simpl; [tauto|].
  intros ND HI. inversion ND as [|? ? Hn ND']; subst.
  destruct HI as [E|HI].
  - inversion E; subst. assert (final n r = None) as -> by (apply final_none; exact Hn).
    rewrite bytes_eqb_refl. reflexivity.
  - rewrite (IH ND' HI). reflexivity.
Qed.

Lemma has_outcome_in n log : has_outcome n log = true <-> In n (map fst log).
Proof.
  unfold has_outcome. rewrite existsb_exists. split.
  - intros (e & He & E). apply bytes_eqb_eq in E. subst. apply in_map. exact He.
  - intros H. apply in_map_iff in H. destruct H as (e & E & He). exists e. split; [exact He|].
    apply bytes_eqb_eq. congruence.
Qed.

(* ====================================================================== *)
(* failRemaining                                                          *)
(* ====================================================================== *)
Lemma fail_remaining_keeps cs : forall log n, In n (map fst log) -> In n (map fst (fail_remaining cs log)).
Proof.
  induction cs as [|c r IH]; intros log n H; simpl; [exact H|].
  apply IH. destruct (has_outcome (c_name c) log); [exact H|].
  rewrite map_app, in_app_iff. left; exact H.
Qed.

Lemma fail_remaining_covers cs : forall log c, In c cs -> In (c_name c) (map fst (fail_remaining cs log)).
Proof.
  induction cs as [|c' r IH]; intros log c H; simpl; [destruct H|].
  destruct H as [->|H]; [|apply IH; exact H].
  apply fail_remaining_keeps.
  destruct (has_outcome (c_name c) log) eqn:E; [apply has_outcome_in; exact E|].
  rewrite map_app, in_app_iff. right; left; reflexivity.
Qed.

Lemma fail_remaining_id cs : forall log,
  (forall c, In c cs -> In (c_name c) (map fst log)) -> fail_remaining cs log = log.
Proof.
  induction cs as [|c r IH]; intros log H; simpl; [reflexivity|].
  assert (has_outcome (c_name c) log = true) as -> by (apply has_outcome_in, H; left; reflexivity).
  apply IH. intros c' Hc'. apply H. right; exact Hc'.
Qed.

(* ====================================================================== *)
(* callbacks                                                              *)
(* ====================================================================== *)
Definition ents (p : list (nat * case)) : list (bytes * okind) := map entry (map snd p).
Definition all_entries (l : lstate) : list (bytes * okind) := l_log l ++ ents (l_pend l).
Definition pstate (l : lstate) : nat := l_ends l + (if l_alive l then 1 else 0).

Lemma tick_spec rc p : forall l p' l',
  tick rc p l = (p', l') ->
  Permutation (l_log l' ++ ents p') (l_log l ++ ents p) /\
  l_pend l' = l_pend l /\ l_sent l' = l_sent l /\ l_alive l' = l_alive l /\ l_ends l' = l_ends l.
Proof.
  induction p as [|[d c] r IH]; intros l p' l' H; simpl in H.
  - inversion H; subst. repeat split. apply Permutation_refl.
  - destruct d as [|k].
    + apply IH in H. destruct H as (P & H1 & H2 & H3 & H4). simpl in *.
      repeat split; try assumption.
      unfold ents in *. simpl. rewrite <- app_assoc in P. exact P.
    + destruct (tick rc r l) as [r' l''] eqn:E. inversion H; subst.
      destruct (IH _ _ _ E) as (P & H1 & H2 & H3 & H4).
      repeat split; try assumption.
      unfold ents in *. simpl. apply Permutation_elt. exact P.
Qed.

Lemma tick_all_spec rc l :
  Permutation (all_entries (tick_all rc l)) (all_entries l) /\
  l_sent (tick_all rc l) = l_sent l /\ l_alive (tick_all rc l) = l_alive l /\
  l_ends (tick_all rc l) = l_ends l.
Proof.
  unfold tick_all. destruct (tick rc (l_pend l) (set_pend l [])) as [p' l'] eqn:E.
  destruct (tick_spec _ _ _ _ _ E) as (P & H1 & H2 & H3 & H4).
  unfold all_entries. simpl in *. repeat split; assumption.
Qed.

Lemma fire_all_spec rc p : forall l,
  l_log (fire_all rc p l) = l_log l ++ ents p /\ l_pend (fire_all rc p l) = l_pend l /\
  l_sent (fire_all rc p l) = l_sent l /\ l_alive (fire_all rc p l) = l_alive l /\
  l_ends (fire_all rc p l) = l_ends l.
Proof.
  induction p as [|[d c] r IH]; intros l; simpl.
  - unfold ents; simpl. rewrite app_nil_r. repeat split.
  - destruct (IH (fire rc c l)) as (H0 & H1 & H2 & H3 & H4). simpl in *.
    repeat split; try assumption. rewrite H0. unfold ents. simpl. rewrite <- app_assoc. reflexivity.
Qed.

Lemma wait_all_spec rc l :
  l_log (wait_all rc l) = all_entries l /\ l_pend (wait_all rc l) = [] /\
  l_sent (wait_all rc l) = l_sent l /\ l_alive (wait_all rc l) = l_alive l /\
  l_ends (wait_all rc l) = l_ends l.
Proof.
  unfold wait_all. destruct (fire_all_spec rc (l_pend l) (set_pend l [])) as (H0 & H1 & H2 & H3 & H4).
  simpl in *. repeat split; assumption.
Qed.

Lemma die_spec l :
  l_log (die l) = l_log l /\ l_pend (die l) = l_pend l /\ l_sent (die l) = l_sent l /\
  l_alive (die l) = false /\ pstate (die l) = pstate l.
Proof. unfold die, pstate. destruct (l_alive l) eqn:E; simpl; rewrite ?E; repeat split; lia. Qed.

(* ====================================================================== *)
(* the send loop                                                          *)
(* ====================================================================== *)
Definition fp (dead : option nat) (cs : list case) : nat :=
  match dead with Some d => Nat.min d (sends_ok cs) | None => sends_ok cs end.
Definition fk (dead : option nat) (cs : list case) : okind :=
  match dead with Some d => if d <=? sends_ok cs then KSetup else KCouldNotRun | None => KCouldNotRun end.

Definition canon (dead : option nat) (cs : list case) : list (bytes * okind) :=
  map entry (firstn (fp dead cs) cs) ++ map (mark (fk dead cs)) (skipn (fp dead cs) cs).

Lemma canon_step d c rest :
  is_zero d = false -> c_send c = true ->
  canon d (c :: rest) = entry c :: canon (count_down d) rest.
Proof.
  intros Hz Hs. unfold canon, fp, fk. simpl. rewrite Hs.
  destruct d as [[|d]|]; simpl in *; try discriminate; reflexivity.
Qed.

Lemma canon_stop d c rest :
  is_zero d = true \/ c_send c = false ->
  canon d (c :: rest) = map (mark (if is_zero d then KSetup else KCouldNotRun)) (c :: rest).
Proof.
  intros H. unfold canon, fp, fk. cbn [sends_ok].
  destruct d as [[|d]|]; cbn [is_zero] in *.
  - reflexivity.
  - destruct H as [H|H]; [discriminate|]. rewrite H. reflexivity.
  - destruct H as [H|H]; [discriminate|]. rewrite H. reflexivity.
Qed.

Lemma loop_perm rc cs : forall dead l l' ex,
  l_alive l = negb (is_zero dead) ->
  send_loop rc dead cs l = (l', ex) ->
  Permutation (all_entries l') (all_entries l ++ canon dead cs) /\ pstate l' = pstate l.
Proof.
  induction cs as [|c rest IH]; intros dead l l' ex Hal H.
  - simpl in H. inversion H; subst. unfold canon. simpl.
    destruct dead; simpl; rewrite ?Nat.min_0_r; simpl; rewrite app_nil_r; split; auto.
  - cbn [send_loop] in H. rewrite Hal in H.
    destruct (is_zero dead) eqn:Hz; cbn [negb] in H.
    + (* the server is dead: mark the rest *)
      inversion H; subst. rewrite canon_stop by (left; exact Hz). rewrite Hz.
      unfold all_entries, mark_all, pstate. simpl. split; [|reflexivity].
      rewrite <- !app_assoc. apply Permutation_app_head. apply Permutation_app_comm.
    + destruct (c_send c) eqn:Hs.
      * (* accepted *)
        match type of H with send_loop _ _ _ ?l3 = _ => set (L3 := l3) in * end.
        match type of L3 with _ => idtac end.
        assert (Hal3 : l_alive L3 = negb (is_zero (count_down dead))).
        { subst L3. destruct (is_zero (count_down dead)).
          - apply die_spec.
          - cbn [negb]. etransitivity; [apply tick_all_spec|]. reflexivity. }
        destruct (IH _ _ _ _ Hal3 H) as (P & Hp).
        rewrite canon_step by assumption.
        assert (P3 : Permutation (all_entries L3) (all_entries l ++ [entry c]) /\ pstate L3 = pstate l).
        { subst L3.
          match goal with |- context [tick_all rc ?x] => set (L1 := x) end.
          destruct (tick_all_spec rc L1) as (Pt & _ & Ha & He).
          assert (Pt' : Permutation (all_entries (tick_all rc L1)) (all_entries l ++ [entry c])).
          { etransitivity; [exact Pt|]. subst L1. unfold all_entries, ents. simpl.
            rewrite !map_app. simpl. rewrite app_assoc. apply Permutation_refl. }
          assert (Hps : pstate (tick_all rc L1) = pstate l).
          { unfold pstate. rewrite Ha, He. subst L1. simpl. rewrite Hal. reflexivity. }
          destruct (is_zero (count_down dead)).
          - destruct (die_spec (tick_all rc L1)) as (D0 & D1 & _ & _ & D4).
            split; [|congruence]. unfold all_entries in *. rewrite D0, D1. exact Pt'.
          - split; assumption. }
        destruct P3 as (P3 & Hp3). split; [|congruence].
        etransitivity; [exact P|]. rewrite P3. rewrite <- app_assoc. simpl. apply Permutation_refl.
      * (* sendRequest failed: mark this one and the rest, break *)
        inversion H; subst. rewrite canon_stop by (right; exact Hs). rewrite Hz.
        unfold all_entries, mark_all, pstate. simpl. split; [|rewrite Hal; reflexivity].
        rewrite <- !app_assoc. apply Permutation_app_head. apply Permutation_app_comm.
Qed.

(* ====================================================================== *)
(* the whole function                                                     *)
(* ====================================================================== *)
Lemma prefault_false sv :
  prefault sv = false ->
  s_start sv = true /\ s_write sv = WOk /\
  exists cert, s_resp sv = RValid cert /\ s_tls sv && negb cert = false.
Proof.
  unfold prefault. destruct (s_start sv), (s_write sv), (s_resp sv) as [cert|]; simpl; try discriminate.
  intros H. repeat split. exists cert. split; [reflexivity|exact H].
Qed.

Local Arguments early : simpl never.

Lemma early_log cs sbs fwd alive : r_log (early cs sbs fwd alive) = map (mark KSetup) cs.
Proof. unfold early, abort_proc, die. destruct alive; reflexivity. Qed.

Ltac early_tac :=
  intros;
  first [ reflexivity | apply early_log
        | unfold early, abort_proc, die; simpl;
          match goal with |- context [negb (is_zero ?d)] => destruct (negb (is_zero d)) end; reflexivity ].

Lemma run_prefault sv cs :
  prefault sv = true -> r_log (run_batch false sv cs) = map (mark KSetup) cs.
Proof.
  unfold prefault, run_batch. destruct (s_start sv); simpl; [|reflexivity].
  destruct (if s_refsrv sv then _ else _) as [sbs fwd].
  destruct (s_write sv); simpl; [|early_tac..].
  destruct (s_resp sv) as [cert|]; simpl; [|early_tac].
  intros ->. early_tac.
Qed.

Lemma run_loop sv cs :
  prefault sv = false ->
  exists base, Permutation base (canon (s_dead sv) cs) /\
               r_log (run_batch false sv cs) = fail_remaining cs base /\
               r_pend (run_batch false sv cs) = [].
Proof.
  intros H. destruct (prefault_false sv H) as (Hs & Hw & cert & Hr & Hc).
  unfold run_batch. rewrite Hs, Hw, Hr, Hc. simpl.
  destruct (if s_refsrv sv then _ else _) as [sbs fwd].
  match goal with |- context [send_loop ?a ?b ?c ?d] => destruct (send_loop a b c d) as [l1 ex] eqn:E end.
  apply loop_perm in E; [|reflexivity]. destruct E as (P & _).
  exists (all_entries l1). split; [exact P|].
  destruct (wait_all_spec (s_refcli sv) l1) as (W0 & W1 & _).
  destruct (die_spec (wait_all (s_refcli sv) l1)) as (D0 & D1 & _).
  destruct (die_spec (abort_proc (wait_all (s_refcli sv) l1))) as (E0 & E1 & _).
  unfold abort_proc in *.
  destruct ex; simpl; rewrite ?E1, ?D1, ?D0, ?W0, ?W1; split; reflexivity.
Qed.

Lemma map_fst_mark k cs : map fst (map (mark k) cs) = names cs.
Proof. unfold names. rewrite map_map. reflexivity. Qed.

Lemma map_fst_entry cs : well_named cs -> map fst (map entry cs) = names cs.
Proof.
  unfold names. induction 1 as [|c r Hc _ IH]; simpl; [reflexivity|]. rewrite IH, Hc. reflexivity.
Qed.

Lemma well_named_firstn k cs : well_named cs -> well_named (firstn k cs).
Proof.
  unfold well_named. rewrite !Forall_forall. intros H c Hc. apply H.
  rewrite <- (firstn_skipn k cs). apply in_or_app. left; exact Hc.
Qed.

Lemma canon_fst dead cs : well_named cs -> map fst (canon dead cs) = names cs.
Proof.
  intros W. unfold canon. rewrite map_app, map_fst_mark, map_fst_entry by (apply well_named_firstn; exact W).
  unfold names. rewrite <- map_app, firstn_skipn. reflexivity.
Qed.

Lemma nth_firstn {A} (l : list A) : forall i k x, nth_error l i = Some x -> i < k -> In x (firstn k l).
Proof.
  induction l as [|y r IH]; intros [|i] [|k] x H Hk; simpl in *; try discriminate; try lia.
  - inversion H; left; reflexivity.
  - right. apply (IH i k x H). lia.
Qed.

Lemma nth_skipn {A} (l : list A) : forall i k x, nth_error l i = Some x -> k <= i -> In x (skipn k l).
Proof.
  induction l as [|y r IH]; intros [|i] [|k] x H Hk; simpl in *; try discriminate; try lia.
  - inversion H; left; reflexivity.
  - right. eapply nth_error_In; exact H.
  - apply (IH i k x H). lia.
Qed.

Lemma canon_in dead cs i c :
  well_named cs -> nth_error cs i = Some c ->
  In (c_name c, if i <? fp dead cs then verdict (c_ans c) else fk dead cs) (canon dead cs).
Proof.
  intros W H. unfold canon. apply in_or_app.
  destruct (Nat.ltb_spec i (fp dead cs)) as [L|L].
  - left. apply in_map_iff. exists c. split; [|eapply nth_firstn; eassumption].
    unfold entry. f_equal. unfold well_named in W. rewrite Forall_forall in W. apply W.
    eapply nth_error_In; exact H.
  - right. apply in_map_iff. exists c. split; [reflexivity|eapply nth_skipn; eassumption].
Qed.

(* with distinct names and a client that reports the names it was given: the outcome map
   holds exactly the batch's names, each set once, each with the specified outcome *)
Lemma run_log_canonical sv cs :
  distinct cs -> well_named cs ->
  let log := r_log (run_batch false sv cs) in
  NoDup (map fst log) /\ Permutation (map fst log) (names cs) /\
  forall i c, nth_error cs i = Some c -> In (c_name c, expected sv cs i c) log.
Proof.
  intros D W. unfold expected. destruct (prefault sv) eqn:Hp; cbv zeta.
  - rewrite run_prefault by exact Hp. rewrite map_fst_mark. repeat split; [exact D|apply Permutation_refl|].
    intros i c H. apply in_map_iff. exists c. split; [reflexivity|eapply nth_error_In; exact H].
  - destruct (run_loop sv cs Hp) as (base & P & -> & _).
    assert (Pn : Permutation (map fst base) (names cs)).
    { rewrite <- (canon_fst (s_dead sv) cs W). apply Permutation_map. exact P. }
    rewrite fail_remaining_id.
    + repeat split; [|exact Pn|].
      * eapply Permutation_NoDup; [apply Permutation_sym; exact Pn|exact D].
      * intros i c H. eapply Permutation_in; [apply Permutation_sym; exact P|].
        apply (canon_in (s_dead sv) cs i c W H).
    + intros c Hc. eapply Permutation_in; [apply Permutation_sym; exact Pn|]. apply in_map. exact Hc.
Qed.

Theorem one_outcome_each_proof : forall sv cs n,
  distinct cs -> well_named cs ->
  (In n (names cs) -> count n (r_log (run_batch false sv cs)) = 1) /\
  (~ In n (names cs) -> count n (r_log (run_batch false sv cs)) = 0).
Proof.
  intros sv cs n D W. destruct (run_log_canonical sv cs D W) as (ND & P & _). split; intros H.
  - apply count_nodup; [exact ND|]. eapply Permutation_in; [apply Permutation_sym; exact P|exact H].
  - apply count_notin. intros HI. apply H. eapply Permutation_in; [exact P|exact HI].
Qed.

Theorem outcome_as_specified_proof : forall sv cs i c,
  distinct cs -> well_named cs -> nth_error cs i = Some c ->
  final (c_name c) (r_log (run_batch false sv cs)) = Some (expected sv cs i c).
Proof.
  intros sv cs i c D W H. destruct (run_log_canonical sv cs D W) as (ND & _ & HI).
  apply final_nodup; [exact ND|apply HI; exact H].
Qed.

Lemma fault_kind_setup sv cs : is_setup (fault_kind sv cs) = true.
Proof. unfold fault_kind. destruct (s_dead sv) as [d|]; [destruct (d <=? sends_ok cs)|]; reflexivity. Qed.

Theorem setup_on_fault_proof : forall sv cs i c,
  distinct cs -> well_named cs -> nth_error cs i = Some c ->
  prefault sv = true \/ fault_point sv cs <= i ->
  exists k, final (c_name c) (r_log (run_batch false sv cs)) = Some k /\ is_setup k = true /\
            k = (if prefault sv then KSetup else fault_kind sv cs).
Proof.
  intros sv cs i c D W H A. rewrite (outcome_as_specified_proof sv cs i c D W H).
  unfold expected. destruct (prefault sv) eqn:Hp.
  - exists KSetup. repeat split.
  - destruct A as [A|A]; [discriminate|].
    assert ((i <? fault_point sv cs) = false) as -> by (apply Nat.ltb_ge; exact A).
    exists (fault_kind sv cs). repeat split. apply fault_kind_setup.
Qed.

Theorem keep_verdict_proof : forall sv cs i c,
  distinct cs -> well_named cs -> nth_error cs i = Some c ->
  prefault sv = false -> i < fault_point sv cs ->
  final (c_name c) (r_log (run_batch false sv cs)) = Some (verdict (c_ans c)).
Proof.
  intros sv cs i c D W H Hp L. rewrite (outcome_as_specified_proof sv cs i c D W H).
  unfold expected. rewrite Hp. apply Nat.ltb_lt in L. rewrite L. reflexivity.
Qed.

(* whatever the client runner reports (wrong names, duplicate names in the batch): no case
   of the batch is without an outcome when the function returns *)
Theorem never_missing_proof : forall sv cs c,
  In c cs ->
  1 <= count (c_name c) (r_log (run_batch false sv cs)) /\
  final (c_name c) (r_log (run_batch false sv cs)) <> None.
Proof.
  intros sv cs c Hc.
  assert (HI : In (c_name c) (map fst (r_log (run_batch false sv cs)))).
  { destruct (prefault sv) eqn:Hp.
    - rewrite run_prefault by exact Hp. rewrite map_fst_mark. apply in_map. exact Hc.
    - destruct (run_loop sv cs Hp) as (base & _ & -> & _). apply fail_remaining_covers. exact Hc. }
  split; [apply count_pos_in; exact HI|]. intros E. apply final_none in E. apply E, HI.
Qed.

Theorem no_callback_outstanding_proof : forall sv cs, r_pend (run_batch false sv cs) = [].
Proof.
  intros sv cs. destruct (prefault sv) eqn:Hp.
  - revert Hp. unfold prefault, run_batch. destruct (s_start sv); simpl; [|reflexivity].
    destruct (if s_refsrv sv then _ else _) as [sbs fwd].
    destruct (s_write sv); simpl; try reflexivity.
    destruct (s_resp sv) as [cert|]; simpl; [|reflexivity]. intros ->. reflexivity.
  - destruct (run_loop sv cs Hp) as (_ & _ & _ & H). exact H.
Qed.

(* ---------- the process is asked to stop, and ends exactly once ---------- *)
Lemma early_stop cs sbs fwd alive :
  let r := early cs sbs fwd alive in
  r_started r = true /\ r_aborts r = 1 /\ r_alive r = false /\ r_ends r = 1.
Proof. unfold early, abort_proc, die. destruct alive; simpl; repeat split. Qed.

Theorem stop_requested_proof : forall sv cs,
  let r := run_batch false sv cs in
  r_started r = s_start sv /\
  (s_start sv = true -> 1 <= r_aborts r /\ r_alive r = false /\ r_ends r = 1) /\
  (s_start sv = false -> r_aborts r = 0 /\ r_ends r = 0).
Proof.
  intros sv cs. unfold run_batch. destruct (s_start sv); simpl.
  2:{ repeat split; intros; discriminate. }
  destruct (if s_refsrv sv then _ else _) as [sbs fwd].
  assert (E : forall alive, let r := early cs sbs fwd alive in
            r_started r = true /\ (true = true -> 1 <= r_aborts r /\ r_alive r = false /\ r_ends r = 1) /\
            (true = false -> r_aborts r = 0 /\ r_ends r = 0)).
  { intros alive. destruct (early_stop cs sbs fwd alive) as (A & B & C & D). cbv zeta.
    rewrite A, B, C, D. repeat split; try lia; discriminate. }
  destruct (s_write sv); try apply E.
  destruct (s_resp sv) as [cert|]; [|apply E].
  destruct (s_tls sv && negb cert); [apply E|].
  match goal with |- context [send_loop ?a ?b ?c ?d] => destruct (send_loop a b c d) as [l1 ex] eqn:L end.
  apply loop_perm in L; [|reflexivity]. destruct L as (_ & Hp).
  assert (Hp0 : pstate l1 = 1).
  { rewrite Hp. unfold pstate. simpl. destruct (negb (is_zero (s_dead sv))); reflexivity. }
  destruct (wait_all_spec (s_refcli sv) l1) as (_ & _ & _ & Wa & We).
  assert (Hw : pstate (wait_all (s_refcli sv) l1) = 1) by (unfold pstate in *; rewrite Wa, We; exact Hp0).
  destruct (die_spec (wait_all (s_refcli sv) l1)) as (_ & _ & _ & Da & Dp).
  destruct (die_spec (abort_proc (wait_all (s_refcli sv) l1))) as (_ & _ & _ & Ea & Ep).
  unfold abort_proc in *.
  assert (Hends : l_ends (die (die (wait_all (s_refcli sv) l1))) = 1).
  { unfold pstate in Ep, Dp, Hw. rewrite Ea in Ep. rewrite Da in Ep, Dp. lia. }
  destruct ex; simpl; rewrite ?Ea, ?Hends; repeat split; try lia; discriminate.
Qed.

(* ====================================================================== *)
(* the stderr side-band                                                   *)
(* ====================================================================== *)
Open Scope N_scope.

Lemma split_cs_eq c d r :
  split_cs (c :: d :: r) =
  if (c =? 58) && (d =? 32) then Some ([], r)
  else match split_cs (d :: r) with Some (a, b) => Some (c :: a, b) | None => None end.
Proof. reflexivity. Qed.

Lemma split_cs_sound s : forall n m,
  split_cs s = Some (n, m) -> s = n ++ colon_space ++ m /\ ~ infix colon_space n.
Proof.
  induction s as [|c r IH]; intros n m H; [discriminate|].
  destruct r as [|d r']; [discriminate|]. rewrite split_cs_eq in H.
  destruct ((c =? 58) && (d =? 32)) eqn:E.
  - inversion H; subst. apply andb_true_iff in E. destruct E as [E1 E2].
    apply N.eqb_eq in E1. apply N.eqb_eq in E2. subst. split; [reflexivity|].
    intros (a & b & Hab). destruct a; discriminate.
  - destruct (split_cs (d :: r')) as [[a b]|] eqn:E2; [|discriminate]. inversion H; subst.
    destruct (IH a m eq_refl) as (Hs & Hn). split.
    + simpl. rewrite Hs. reflexivity.
    + intros (x & y & Hxy). destruct x as [|x0 x]; simpl in Hxy; inversion Hxy; subst.
      * simpl in Hs. inversion Hs; subst. simpl in E. discriminate.
      * apply Hn. exists x, y. reflexivity.
Qed.

Lemma split_cs_complete n : forall m,
  ~ infix colon_space n -> split_cs (n ++ colon_space ++ m) = Some (n, m).
Proof.
  induction n as [|c n IH]; intros m Hn; [reflexivity|].
  assert (Hn' : ~ infix colon_space n).
  { intros (a & b & E). apply Hn. exists (c :: a), b. rewrite E. reflexivity. }
  specialize (IH m Hn').
  destruct n as [|d n'].
  - change ([c] ++ colon_space ++ m) with (c :: 58 :: 32 :: m). rewrite split_cs_eq.
    change (58 =? 32) with false. rewrite andb_false_r.
    change (split_cs (58 :: 32 :: m)) with (Some (@nil N, m)). reflexivity.
  - change ((c :: d :: n') ++ colon_space ++ m) with (c :: d :: (n' ++ colon_space ++ m)).
    rewrite split_cs_eq.
    destruct ((c =? 58) && (d =? 32)) eqn:E.
    + exfalso. apply andb_true_iff in E. destruct E as [E1 E2].
      apply N.eqb_eq in E1. apply N.eqb_eq in E2. subst. apply Hn. exists [], n'. reflexivity.
    + change (d :: n' ++ colon_space ++ m) with ((d :: n') ++ colon_space ++ m). rewrite IH. reflexivity.
Qed.

Lemma split_cs_iff s n m :
  split_cs s = Some (n, m) <-> s = n ++ colon_space ++ m /\ ~ infix colon_space n.
Proof.
  split; [apply split_cs_sound|]. intros (-> & H). apply split_cs_complete. exact H.
Qed.

Lemma classify_side batch line n m : classify batch line = LSide n m <-> side_of batch line n m.
Proof.
  unfold classify, side_of. destruct (trim_space line) as [|x str] eqn:T.
  - split; [discriminate|]. intros (E & _). destruct n; discriminate.
  - destruct (split_cs (x :: str)) as [[a b]|] eqn:S.
    + apply split_cs_iff in S. destruct S as (Es & Hn).
      destruct (mem_bytes a batch) eqn:M.
      * split.
        -- intros H. inversion H; subst. repeat split; try assumption. apply mem_bytes_in. exact M.
        -- intros (E & Hn' & Hin).
           assert (S2 : split_cs (x :: str) = Some (n, m)) by (apply split_cs_iff; split; assumption).
           assert (S1 : split_cs (x :: str) = Some (a, b)) by (apply split_cs_iff; split; assumption).
           rewrite S1 in S2. inversion S2; subst. reflexivity.
      * split; [discriminate|]. intros (E & Hn' & Hin).
        assert (S2 : split_cs (x :: str) = Some (n, m)) by (apply split_cs_iff; split; assumption).
        assert (S1 : split_cs (x :: str) = Some (a, b)) by (apply split_cs_iff; split; assumption).
        rewrite S1 in S2. inversion S2; subst. apply mem_bytes_in in Hin. congruence.
    + split; [discriminate|]. intros (E & Hn' & Hin).
      assert (S2 : split_cs (x :: str) = Some (n, m)) by (apply split_cs_iff; split; assumption).
      congruence.
Qed.

Lemma classify_blank batch line : classify batch line = LBlank <-> blank line.
Proof.
  unfold classify, blank. destruct (trim_space line) as [|x str]; [tauto|].
  split; [|discriminate]. destruct (split_cs (x :: str)) as [[a b]|]; [destruct (mem_bytes a batch)|]; discriminate.
Qed.

Lemma classify_pass batch line :
  classify batch line = LPass <-> ~ blank line /\ ~ attributed batch line.
Proof.
  split.
  - intros H. split.
    + intros B. apply classify_blank with (batch := batch) in B. congruence.
    + intros (n & m & S). apply classify_side in S. congruence.
  - intros (NB & NA). destruct (classify batch line) as [|n m|] eqn:C; [| |reflexivity].
    + exfalso. apply NB. apply (classify_blank batch). exact C.
    + exfalso. apply NA. exists n, m. apply classify_side. exact C.
Qed.

Lemma parse_lines_side batch ls : forall n m,
  In (n, m) (fst (parse_lines batch ls)) <-> exists l, In l ls /\ classify batch l = LSide n m.
Proof.
  induction ls as [|l r IH]; intros n m; simpl.
  - split; [tauto|]. intros (l & [] & _).
  - specialize (IH n m). destruct (parse_lines batch r) as [sb fw]. simpl in IH.
    destruct (classify batch l) as [|n0 m0|] eqn:C; simpl.
    + rewrite IH. split; intros (x & Hx & Cx); [exists x; auto|].
      destruct Hx as [<-|Hx]; [congruence|exists x; auto].
    + rewrite IH. split.
      * intros [E|(x & Hx & Cx)]; [inversion E; subst; exists l; auto|exists x; auto].
      * intros (x & [<-|Hx] & Cx); [left; congruence|right; exists x; auto].
    + rewrite IH. split; intros (x & Hx & Cx); [exists x; auto|].
      destruct Hx as [<-|Hx]; [congruence|exists x; auto].
Qed.

Lemma parse_lines_pass batch ls : forall l,
  In l (snd (parse_lines batch ls)) <-> In l ls /\ classify batch l = LPass.
Proof.
  induction ls as [|l0 r IH]; intros l; simpl.
  - tauto.
  - specialize (IH l). destruct (parse_lines batch r) as [sb fw]. simpl in IH.
    destruct (classify batch l0) as [|n0 m0|] eqn:C; simpl; rewrite IH.
    + split; [tauto|]. intros ([<-|Hx] & Cx); [congruence|auto].
    + split; [tauto|]. intros ([<-|Hx] & Cx); [congruence|auto].
    + split.
      * intros [<-|H]; [auto|tauto].
      * intros ([<-|Hx] & Cx); [left; reflexivity|right; auto].
Qed.

Lemma parse_lines_subseq batch ls : subseq (snd (parse_lines batch ls)) ls.
Proof.
  induction ls as [|l0 r IH]; simpl; [constructor|].
  destruct (parse_lines batch r) as [sb fw]. simpl in IH.
  destruct (classify batch l0); simpl; constructor; exact IH.
Qed.

Lemma parse_lines_spec batch ls :
  (forall n m, In (n, m) (fst (parse_lines batch ls)) <-> exists l, In l ls /\ classify batch l = LSide n m) /\
  (forall l, In l (snd (parse_lines batch ls)) <-> In l ls /\ classify batch l = LPass) /\
  subseq (snd (parse_lines batch ls)) ls.
Proof.
  split; [apply parse_lines_side|]. split; [apply parse_lines_pass|apply parse_lines_subseq].
Qed.

Theorem lines_spec_proof : forall s, lines_of s (lines_keep s).
Proof.
  induction s as [|c r (Hc & init & last & Hl & Hf & Hn)].
  - split; [reflexivity|]. exists [], []. repeat split; auto.
  - cbn [lines_keep]. destruct (N.eqb_spec c 10) as [->|Hne].
    + split; [simpl; rewrite Hc; reflexivity|].
      exists ([10] :: init), last. rewrite Hl. repeat split; auto.
      constructor; [|exact Hf]. exists []. split; [reflexivity|tauto].
    + rewrite Hl in *. destruct init as [|i0 init0]; simpl in *.
      * split; [rewrite <- Hc; reflexivity|]. exists [], (c :: last). repeat split; auto.
        intros [E|H]; [congruence|tauto].
      * split; [rewrite <- Hc; reflexivity|]. exists ((c :: i0) :: init0), last.
        inversion Hf as [|? ? (body & Eb & Hb) Hf']; subst. repeat split; auto.
        constructor; [|exact Hf']. exists (c :: body). split; [reflexivity|].
        intros [E|H]; [congruence|tauto].
Qed.

(* what the function records from stderr, in terms of the batch and the stream alone *)
Theorem sideband_attribution_proof : forall er sv cs,
  let r := run_batch er sv cs in
  (s_start sv = true /\ s_refsrv sv = true ->
     (forall n m, In (n, m) (r_sbs r) <->
                  exists line, In line (lines_keep (s_stderr sv)) /\ side_of (names cs) line n m) /\
     (forall line, In line (r_fwd r) <->
                  In line (lines_keep (s_stderr sv)) /\ ~ blank line /\ ~ attributed (names cs) line) /\
     subseq (r_fwd r) (lines_keep (s_stderr sv))) /\
  (s_start sv = false \/ s_refsrv sv = false -> r_sbs r = [] /\ r_fwd r = []).
Proof.
  intros er sv cs.
  assert (E : r_sbs (run_batch er sv cs) = (if s_start sv && s_refsrv sv then fst (parse_stderr (names cs) (s_stderr sv)) else []) /\
              r_fwd (run_batch er sv cs) = (if s_start sv && s_refsrv sv then snd (parse_stderr (names cs) (s_stderr sv)) else [])).
  { unfold run_batch, names. destruct (s_start sv); simpl; [|split; reflexivity].
    destruct (s_refsrv sv); simpl.
    - destruct (parse_stderr (map c_name cs) (s_stderr sv)) as [sbs fwd]. simpl.
      destruct (s_write sv); try (split; reflexivity).
      destruct (s_resp sv) as [cert|]; [|split; reflexivity].
      destruct (s_tls sv && negb cert); [split; reflexivity|].
      match goal with |- context [send_loop ?a ?b ?c ?d] => destruct (send_loop a b c d) as [l1 ex] end.
      destruct ex, er; split; reflexivity.
    - destruct (s_write sv); try (split; reflexivity).
      destruct (s_resp sv) as [cert|]; [|split; reflexivity].
      destruct (s_tls sv && negb cert); [split; reflexivity|].
      match goal with |- context [send_loop ?a ?b ?c ?d] => destruct (send_loop a b c d) as [l1 ex] end.
      destruct ex, er; split; reflexivity. }
  destruct E as (E1 & E2). cbv zeta. rewrite E1, E2. split.
  - intros (-> & ->). simpl. unfold parse_stderr.
    destruct (parse_lines_spec (names cs) (lines_keep (s_stderr sv))) as (P1 & P2 & P3).
    split; [|split; [|exact P3]].
    + intros n m. rewrite P1. split; intros (l & Hl & C); exists l; (split; [exact Hl|]); apply classify_side; exact C.
    + intros line. rewrite P2. rewrite classify_pass. tauto.
  - intros [-> | ->]; rewrite ?andb_false_r; simpl; split; reflexivity.
Qed.

Close Scope N_scope.

(* ---------- the fault point, characterised without recursion ---------- *)
Theorem sends_ok_spec_proof : forall cs k,
  sends_ok cs = k <->
  (forall j c, j < k -> nth_error cs j = Some c -> c_send c = true) /\ k <= length cs /\
  (forall c, nth_error cs k = Some c -> c_send c = false).
Proof.
  induction cs as [|c r IH]; intros k; simpl.
  - split.
    + intros <-. repeat split; auto. intros [|j] c; discriminate. intros c; discriminate.
    + intros (_ & H & _). lia.
  - destruct (c_send c) eqn:Hs.
    + destruct k as [|k].
      * split; [discriminate|]. intros (_ & _ & H). specialize (H c eq_refl). congruence.
      * split.
        -- intros E. injection E as E. apply IH in E. destruct E as (A & B & C). repeat split.
           ++ intros [|j] c0 Hj Hn; simpl in Hn; [inversion Hn; subst; exact Hs|]. apply (A j c0); [lia|exact Hn].
           ++ lia.
           ++ intros c0 Hn. simpl in Hn. apply C. exact Hn.
        -- intros (A & B & C). f_equal. apply IH. repeat split.
           ++ intros j c0 Hj Hn. apply (A (S j) c0); [lia|exact Hn].
           ++ lia.
           ++ intros c0 Hn. apply (C c0). exact Hn.
    + split.
      * intros <-. repeat split; [intros j c0 Hj; lia|lia|]. intros c0 Hn. inversion Hn; subst. exact Hs.
      * intros (A & _ & _). destruct k as [|k]; [reflexivity|].
        specialize (A 0 c (Nat.lt_0_succ k) eq_refl). congruence.
Qed.
