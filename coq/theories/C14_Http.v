(* C14_Http.v — executable model of the net/http plumbing AROUND the body tracers:
     internal/tracer/builder.go     newBuilder (server side: the headers RequestStart reports, with a
                                    synthesised Content-Length)
     internal/tracer/middleware.go  TracingHandler up to handler.ServeHTTP (newBuilder, req.Clone),
                                    TracingRoundTripper (req.Clone for the inner transport; the
                                    *http.Response of the transport handed back itself)
   http.Header is a Go map, i.e. a REFERENCE: two requests may share one, and whoever holds it sees
   every later store.  So the header maps live in a heap, a request/response holds ADDRESSES, Clone
   allocates, Set stores in place.  (A model in which headers are values cannot even express "the
   tracer wrote its synthesised Content-Length into the map the application is given".)
   The flag [clone_first] of new_builder_server is `headers := req.Header.Clone()` (true: the code)
   against `headers := req.Header` (false: seeded change C14-16).  No proofs here. *)
From V Require Export Base.
Open Scope N_scope.

Definition is_nil_bytes (b : bytes) : bool := match b with [] => true | _ => false end.

(* ---------- http.Header: canonical name -> values; kept sorted by name, names distinct ---------- *)
Definition hmap := list (bytes * list bytes).

Fixpoint h_get (k : bytes) (h : hmap) : list bytes :=
  match h with
  | [] => []
  | (k', v) :: r => if bytes_eqb k' k then v else h_get k r
  end.
(* Header.Get: first value or "" *)
Definition h_get1 (k : bytes) (h : hmap) : bytes := match h_get k h with v :: _ => v | [] => [] end.
(* Header.Set / h[k] = v *)
Fixpoint h_set (k : bytes) (v : list bytes) (h : hmap) : hmap :=
  match h with
  | [] => [(k, v)]
  | (k', v') :: r =>
    if bytes_eqb k' k then (k, v) :: r
    else if bytes_leb k k' then (k, v) :: h
    else (k', v') :: h_set k v r
  end.

Fixpoint h_sorted (h : hmap) : bool :=
  match h with
  | [] => true
  | (k, _) :: r =>
    match r with
    | [] => true
    | (k', _) :: _ => bytes_leb k k' && negb (bytes_eqb k k') && h_sorted r
    end
  end.

(* ---------- the heap of header maps ---------- *)
Definition heap := list hmap.
Definition h_at (hp : heap) (a : nat) : hmap := nth a hp [].
(* Header.Clone() / make(http.Header) + copy *)
Definition h_alloc (hp : heap) (m : hmap) : heap * nat := (hp ++ [m], length hp).
Fixpoint h_store (hp : heap) (a : nat) (m : hmap) : heap :=
  match hp, a with
  | [], _ => []
  | _ :: r, O => m :: r
  | x :: r, S a' => x :: h_store r a' m
  end.

(* ---------- strconv.FormatInt(n, 10), n >= 0 ---------- *)
Fixpoint dec_go (fuel : nat) (n : N) (acc : bytes) : bytes :=
  match fuel with
  | O => acc
  | S f => let acc' := (48 + n mod 10) :: acc in if n / 10 =? 0 then acc' else dec_go f (n / 10) acc'
  end.
Definition dec_of (n : N) : bytes := dec_go (S (N.to_nat (N.log2 n))) n [].

(* ---------- requests and responses as the middleware sees them ---------- *)
(* *http.Request: Method, ContentLength (-1 = unknown), Header (address) *)
Record hreq := mk_hreq { q_method : bytes; q_clen : Z; q_hdr : nat }.
(* *http.Response: StatusCode, ContentLength, Header and Trailer (addresses) *)
Record hresp := mk_hresp { p_status : N; p_clen : Z; p_hdr : nat; p_trailer : nat }.

Definition CL : bytes := bs "Content-Length".

(* what RequestStart.getHeaders() must report (builder.go: "If req.ContentLength is set by net/http
   server, it must have come from a header. So synthesize the header if it's not present.") *)
Definition trace_headers (h : hmap) (clen : Z) : hmap :=
  if is_nil_bytes (h_get1 CL h) && negb (clen =? -1)%Z then h_set CL [dec_of (Z.to_N clen)] h else h.

(* newBuilder(req, client = false, ...): -> heap, address of the map getHeaders returns *)
Definition new_builder_server (clone_first : bool) (hp : heap) (q : hreq) : heap * nat :=
  let '(hp1, a) := if clone_first then h_alloc hp (h_at hp (q_hdr q)) else (hp, q_hdr q) in
  let h := h_at hp1 a in
  if is_nil_bytes (h_get1 CL h) && negb (q_clen q =? -1)%Z
  then (h_store hp1 a (h_set CL [dec_of (Z.to_N (q_clen q))] h), a)       (* headers.Set("Content-Length", ...) *)
  else (hp1, a).

(* TracingHandler, up to the call of the wrapped handler: newBuilder, then req = req.Clone(ctx)
   (Clone deep-copies Header).  -> heap, the request the handler is given, address of the trace's headers *)
Definition tracing_handler_entry (clone_first : bool) (hp : heap) (q : hreq) : heap * hreq * nat :=
  let '(hp1, th) := new_builder_server clone_first hp q in
  let '(hp2, a) := h_alloc hp1 (h_at hp1 (q_hdr q)) in
  (hp2, mk_hreq (q_method q) (q_clen q) a, th).

(* TracingRoundTripper: the inner transport is given req.Clone(ctx); the response it returns is the one
   handed to the application (resp.Body wrapped: C14_Model.reader_step).
   -> heap, the request the transport was given, the response the application gets *)
Definition tracing_round_trip (transport : heap -> hreq -> heap * hresp) (hp : heap) (q : hreq)
  : heap * hreq * hresp :=
  let '(hp1, a) := h_alloc hp (h_at hp (q_hdr q)) in
  let q' := mk_hreq (q_method q) (q_clen q) a in
  let '(hp2, p) := transport hp1 q' in
  (hp2, q', p).

(* what the application can look at *)
Definition req_view (hp : heap) (q : hreq) : bytes * Z * hmap := (q_method q, q_clen q, h_at hp (q_hdr q)).
Definition resp_view (hp : heap) (p : hresp) : N * Z * hmap * hmap :=
  (p_status p, p_clen p, h_at hp (p_hdr p), h_at hp (p_trailer p)).

(* ---------- case decoding / result encoding ---------- *)
Definition un_hmap (s : sx) : option hmap :=
  do h <- un_listof (fun e => match e with
                              | L [B k; vs] => do vs <- un_listof un_B vs; ret (k, vs)
                              | _ => None end) s;
  if h_sorted h then ret h else None.
Definition sx_hmap (h : hmap) : sx := L (map (fun e => L [B (fst e); L (map B (snd e))]) h).

(* (mode method clen headers body-chunks) -> request.  mode 0: constructed; 1: a real exchange over loopback;
   2 (client side only): Body == nil, "a nil body means the request has no body" *)
Definition un_reqspec (s : sx) : option (Z * bytes * Z * hmap * list bytes) :=
  match s with
  | L [I mode; B m; I clen; hs; chunks] =>
    do h <- un_hmap hs; do chunks <- un_listof un_B chunks;
    if (clen <? -1)%Z || (mode <? 0)%Z || (2 <? mode)%Z then None
    else if (mode =? 2)%Z && negb (match chunks with [] => true | _ => false end) then None
    else ret (mode, m, clen, h, chunks)
  | _ => None
  end.

(* -> (what the wrapped handler sees: method, ContentLength, headers) (what the trace reports as request headers) *)
Definition handler_request_sx (m : bytes) (clen : Z) (h : hmap) : sx :=
  let '(hp, q, th) := tracing_handler_entry true [h] (mk_hreq m clen 0) in
  L [L [B (q_method q); I (q_clen q); sx_hmap (h_at hp (q_hdr q))]; sx_hmap (h_at hp th)].

(* (status clen headers trailers) -> response of the scripted transport.  The transport stores the trailer
   values in resp.Trailer when its body returns io.EOF (as net/http does); before that the announced keys
   are there with nil values. *)
Definition un_respspec (s : sx) : option (N * Z * hmap * hmap) :=
  match s with
  | L [I st; I clen; hs; ts] =>
    do h <- un_hmap hs; do t <- un_hmap ts;
    if (st <? 0)%Z || (clen <? -1)%Z then None else ret (Z.to_N st, clen, h, t)
  | _ => None
  end.
Definition scripted_transport (st : N) (clen : Z) (h t : hmap) (hp : heap) (q : hreq) : heap * hresp :=
  let '(hp1, a) := h_alloc hp h in
  let '(hp2, b) := h_alloc hp1 (map (fun e => (fst e, [])) t) in
  (hp2, mk_hresp st clen a b).

(* -> (request the transport saw) (response the application sees once the script is over) *)
Definition round_trip_sx (m : bytes) (qclen : Z) (qh : hmap) (st : N) (clen : Z) (h t : hmap) (eof : bool) : sx :=
  let '(hp, q', p) := tracing_round_trip (scripted_transport st clen h t) [qh] (mk_hreq m qclen 0) in
  let hp' := if eof then h_store hp (p_trailer p) t else hp in
  L [L [B (q_method q'); I (q_clen q'); sx_hmap (h_at hp' (q_hdr q'))];
     L [sx_N (p_status p); I (p_clen p); sx_hmap (h_at hp' (p_hdr p)); sx_hmap (h_at hp' (p_trailer p))];
     sx_hmap (h_at hp' 0)].
