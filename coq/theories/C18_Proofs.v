From V Require Import C18_Spec.
