(* C18_Proofs.v — proofs of the C18 theorems (restated in C18_Props.v). *)
From Coq Require Import Lia.
From V Require Import C18_Spec.
Open Scope N_scope.

(* ====================================================================== *)
(* 1. Errors                                                               *)
(* ====================================================================== *)

(* ---- the type name: the model's scan for the last '/' is the declarative one ---- *)
Lemma existsb_slash_false r : existsb (N.eqb slash) r = false -> ~ In slash r.
Proof.
  intros E HI. assert (existsb (N.eqb slash) r = true); [|congruence].
  apply existsb_exists. exists slash. split; [exact HI|apply N.eqb_refl].
Qed.

Lemma existsb_slash_true r : ~ In slash r -> existsb (N.eqb slash) r = false.
Proof.
  intros H. destruct (existsb (N.eqb slash) r) eqn:E; [|reflexivity].
  apply existsb_exists in E. destruct E as (x & Hx & Ex). apply N.eqb_eq in Ex. subst x. contradiction.
Qed.

Lemma split_on_two r : existsb (N.eqb slash) r = true ->
  exists w w' ws, split_on slash r = w :: w' :: ws.
Proof.
  induction r as [|c r IH]; cbn [existsb split_on]; [discriminate|].
  intros H. destruct (N.eqb_spec c slash) as [->|Hne].
  - pose proof (split_on_nonempty slash r) as NE.
    destruct (split_on slash r) as [|w ws]; [congruence|]. exists [], w, ws. reflexivity.
  - assert (E : N.eqb slash c = false) by (apply N.eqb_neq; congruence).
    rewrite E in H. cbn [orb] in H. destruct (IH H) as (w & w' & ws & ->).
    exists (c :: w), w', ws. reflexivity.
Qed.

Lemma type_name_spec url : type_name url = type_of url.
Proof.
  unfold type_of. induction url as [|c r IH]; [reflexivity|].
  cbn [type_name split_on]. destruct (existsb (N.eqb slash) r) eqn:E.
  - rewrite IH. destruct (split_on_two r E) as (w & w' & ws & ->).
    destruct (N.eqb c slash); reflexivity.
  - rewrite (split_on_no_sep slash r) by (apply existsb_slash_false; exact E).
    destruct (N.eqb c slash); reflexivity.
Qed.

Lemma type_name_noslash url : ~ In slash (type_name url).
Proof.
  induction url as [|c r IH]; [intros []|].
  cbn [type_name]. destruct (existsb (N.eqb slash) r) eqn:E; [exact IH|].
  apply existsb_slash_false in E.
  destruct (N.eqb_spec c slash) as [->|Hne]; [exact E|].
  intros [H|H]; [congruence|contradiction].
Qed.

Lemma type_name_app pre name : ~ In slash name -> type_name (pre ++ slash :: name) = name.
Proof.
  intros H. induction pre as [|c p IH].
  - cbn [app type_name]. rewrite existsb_slash_true by exact H. rewrite N.eqb_refl. reflexivity.
  - cbn [app type_name].
    assert (E : existsb (N.eqb slash) (p ++ slash :: name) = true).
    { apply existsb_exists. exists slash. split; [apply in_or_app; right; left; reflexivity|apply N.eqb_refl]. }
    rewrite E. exact IH.
Qed.

Lemma type_of_noslash url : ~ In slash (type_of url).
Proof. rewrite <- type_name_spec. apply type_name_noslash. Qed.

(* the prefix the repository restores is dropped again by the type name: type-URL prefix restoration *)
Lemma type_of_prefixed name : ~ In slash name -> type_of (default_prefix ++ name) = name.
Proof.
  intros H. rewrite <- type_name_spec.
  change default_prefix with (bs "type.googleapis.com" ++ [slash]).
  rewrite <- app_assoc. apply type_name_app. exact H.
Qed.

Lemma type_of_canonical url : canonical_url url -> default_prefix ++ type_of url = url.
Proof. intros (name & -> & H). rewrite type_of_prefixed by exact H. reflexivity. Qed.

Lemma type_url_restoration_proof url :
  type_name url = type_of url /\ ~ In slash (type_of url) /\
  type_of (default_prefix ++ type_of url) = type_of url /\
  (canonical_url url -> default_prefix ++ type_of url = url).
Proof.
  split; [apply type_name_spec|]. split; [apply type_of_noslash|].
  split; [apply type_of_prefixed, type_of_noslash|apply type_of_canonical].
Qed.

(* ---- int32 / uint32 casts ---- *)
Lemma to_i32_to_u32 z : int32 z -> to_i32 (to_u32 z) = z.
Proof.
  unfold int32, to_i32, to_u32, two32, two31. intros H.
  rewrite Z.mod_mod by lia.
  destruct (Z.ltb_spec (z mod 4294967296) 2147483648) as [L|L];
    Z.div_mod_to_equations; lia.
Qed.

Lemma to_u32_to_i32 z : uint32 z -> to_u32 (to_i32 z) = z.
Proof.
  unfold uint32, to_i32, to_u32, two32, two31. intros H.
  rewrite (Z.mod_small z) by lia.
  destruct (Z.ltb_spec z 2147483648) as [L|L]; Z.div_mod_to_equations; lia.
Qed.

Lemma same_detail_refl a : same_detail a a.
Proof. split; reflexivity. Qed.
Lemma Forall2_same_detail_refl l : Forall2 same_detail l l.
Proof. induction l; constructor; [apply same_detail_refl|assumption]. Qed.
Lemma same_error_refl e : same_error e e.
Proof. repeat split. apply Forall2_same_detail_refl. Qed.

Section ErrorProofs.
  Variable new_detail : any -> option cdetail.
  Variable d_type : cdetail -> bytes.
  Variable d_bytes : cdetail -> bytes.
  Hypothesis H_detail : detail_contract new_detail d_type d_bytes.

  Let c_of_p := connect_of_proto new_detail.
  Let p_of_c := proto_of_connect d_type d_bytes.
  Let view := cerr_view d_type d_bytes.

  Lemma new_details_total l :
    exists ds, new_details new_detail l = Some ds /\
               map (fun d => (d_type d, d_bytes d)) ds = map (fun a => (type_of (fst a), snd a)) l.
  Proof.
    induction l as [|a l (ds & E & M)]; [exists []; split; reflexivity|].
    destruct (H_detail a) as (d & Ed & Ht & Hb).
    exists (d :: ds). cbn [new_details map]. rewrite Ed, E, M, Ht, Hb. split; reflexivity.
  Qed.

  (* proto -> connect: what the Connect error shows *)
  Lemma connect_view_proof e :
    view (c_of_p e) = (to_u32 (p_code e), message_of e, map (fun a => (type_of (fst a), snd a)) (p_details e)).
  Proof.
    unfold view, c_of_p, cerr_view, connect_of_proto.
    destruct (new_details_total (p_details e)) as (ds & -> & M). cbn [c_code c_msg c_details].
    rewrite M. reflexivity.
  Qed.

  Lemma restored_details ds l :
    map (fun d => (d_type d, d_bytes d)) ds = map (fun a => (type_of (fst a), snd a)) l ->
    Forall2 same_detail (map (fun d => (default_prefix ++ d_type d, d_bytes d)) ds) l /\
    (canonical_details l -> map (fun d => (default_prefix ++ d_type d, d_bytes d)) ds = l).
  Proof.
    revert l; induction ds as [|d ds IH]; intros [|a l] M; try discriminate.
    - split; [constructor|reflexivity].
    - cbn [map] in M. inversion M as [[Ht Hb Hr]]. destruct (IH l Hr) as (F & C). split.
      + cbn [map]. constructor; [|exact F]. split; cbn [fst snd]; [|exact Hb].
        rewrite Ht. apply type_of_prefixed, type_of_noslash.
      + intros HC. inversion HC as [|? ? Ha Hl]; subst. cbn [map]. rewrite (C Hl).
        rewrite Ht, Hb. rewrite type_of_canonical by exact Ha. destruct a; reflexivity.
  Qed.

  (* test-case form -> Connect form -> test-case form *)
  Lemma err_roundtrip_connect_proof e :
    int32 (p_code e) ->
    same_error (p_of_c (c_of_p e)) e /\
    (canonical_details (p_details e) ->
     p_of_c (c_of_p e) = PErr (p_code e) (Some (message_of e)) (p_details e)).
  Proof.
    intros Hc. unfold p_of_c, c_of_p, connect_of_proto, proto_of_connect.
    destruct (new_details_total (p_details e)) as (ds & -> & M). cbn [c_code c_msg c_details].
    destruct (restored_details ds (p_details e) M) as (F & C).
    rewrite (to_i32_to_u32 _ Hc). split.
    - split; [reflexivity|]. split; [reflexivity|exact F].
    - intros HC. rewrite (C HC). reflexivity.
  Qed.

  (* Connect form -> test-case form -> Connect form, as far as an observer can tell *)
  Lemma err_roundtrip_proto_proof c :
    uint32 (c_code c) -> Forall (fun d => ~ In slash (d_type d)) (c_details c) ->
    view (c_of_p (p_of_c c)) = view c.
  Proof.
    intros Hc Hd. unfold view. fold c_of_p. rewrite connect_view_proof.
    unfold p_of_c, proto_of_connect, message_of, cerr_view. cbn [p_code p_msg p_details get_msg].
    rewrite (to_u32_to_i32 _ Hc). f_equal. rewrite map_map.
    apply map_ext_in. intros d Hin. cbn [fst snd].
    rewrite Forall_forall in Hd. rewrite type_of_prefixed by (apply Hd; exact Hin). reflexivity.
  Qed.

  (* any Go error -> Connect / test-case form *)
  Lemma err_from_go_proof :
    (forall c, connect_of_error (GoConnect c) = c) /\
    (forall t c, connect_of_error (GoWrapped t c) = c) /\
    (forall t, view (connect_of_error (GoPlain t)) = (2%Z, t, [])) /\
    (forall g, proto_of_error d_type d_bytes g = p_of_c (connect_of_error g)) /\
    (forall e t, int32 (p_code e) ->
       same_error (proto_of_error d_type d_bytes (GoConnect (c_of_p e))) e /\
       same_error (proto_of_error d_type d_bytes (GoWrapped t (c_of_p e))) e).
  Proof.
    repeat split; try reflexivity.
    - intros [t|c|t c]; reflexivity.
    - cbn [proto_of_error]. apply (err_roundtrip_connect_proof e H).
    - apply (err_roundtrip_connect_proof e H).
    - apply (err_roundtrip_connect_proof e H).
    - cbn [proto_of_error]. apply (err_roundtrip_connect_proof e H).
    - apply (err_roundtrip_connect_proof e H).
    - apply (err_roundtrip_connect_proof e H).
  Qed.
End ErrorProofs.

(* test-case form -> gRPC status -> test-case form *)
Lemma to_u32_zero z : int32 z -> ((to_u32 z =? 0)%Z = true <-> z = 0%Z).
Proof.
  unfold int32, to_u32, two32. intros H. rewrite Z.eqb_eq. split; [|intros ->; reflexivity].
  intros E. Z.div_mod_to_equations. lia.
Qed.

Lemma err_roundtrip_grpc_proof e :
  int32 (p_code e) ->
  (grpc_of_proto e = None <-> p_code e = 0%Z) /\
  (p_code e <> 0%Z ->
   exists s, grpc_of_proto e = Some s /\
             (g_code s, g_msg s, g_details s) = (p_code e, message_of e, p_details e) /\
             proto_of_grpc (GrpcStatus s) = PErr (p_code e) (Some (message_of e)) (p_details e) /\
             same_error (proto_of_grpc (GrpcStatus s)) e /\
             (forall t, p_code (proto_of_grpc (GrpcWrapped t s)) = p_code e /\
                        p_details (proto_of_grpc (GrpcWrapped t s)) = p_details e)).
Proof.
  intros Hc. pose proof (to_u32_zero _ Hc) as Z0. unfold grpc_of_proto.
  destruct ((to_u32 (p_code e) =? 0)%Z) eqn:E.
  - split; [split; [intros _; apply Z0; reflexivity|reflexivity]|].
    intros NZ. exfalso. apply NZ, Z0. reflexivity.
  - split; [split; [discriminate|intros Hz; apply Z0 in Hz; discriminate]|].
    intros _. eexists. split; [reflexivity|]. cbn [g_code g_msg g_details proto_of_grpc p_code p_details].
    rewrite (to_i32_to_u32 _ Hc). repeat split. apply Forall2_same_detail_refl.
Qed.

(* gRPC status -> test-case form -> gRPC status *)
Lemma err_roundtrip_status_proof s :
  int32 (g_code s) -> g_code s <> 0%Z -> grpc_of_proto (proto_of_grpc (GrpcStatus s)) = Some s.
Proof.
  intros Hc NZ. unfold grpc_of_proto, proto_of_grpc. cbn [p_code p_msg p_details get_msg].
  rewrite (to_i32_to_u32 _ Hc).
  destruct ((to_u32 (g_code s) =? 0)%Z) eqn:E.
  - exfalso. apply NZ. apply (to_u32_zero _ Hc). exact E.
  - destruct s; reflexivity.
Qed.

(* an error that is no status error: code unknown, the text as message *)
Lemma err_plain_grpc_proof t : proto_of_grpc (GrpcPlain t) = PErr 2 (Some t) [].
Proof. reflexivity. Qed.

(* ====================================================================== *)
(* 2. Header lists <-> metadata                                            *)
(* ====================================================================== *)
Definition is_some {A} (o : option A) : bool := match o with Some _ => true | None => false end.

Lemma bytes_eqb_sym a b : bytes_eqb a b = bytes_eqb b a.
Proof. destruct (bytes_eqb_spec a b), (bytes_eqb_spec b a); congruence. Qed.

(* m[k] = append(m[k], vs...) read back *)
Lemma md_get_append k vs m k' :
  md_get (md_append k vs m) k' =
  if bytes_eqb k' k then Some (get_or_nil (md_get m k) ++ vs) else md_get m k'.
Proof.
  induction m as [|[k0 vs0] m IH].
  - cbn. destruct (bytes_eqb k' k); reflexivity.
  - cbn [md_append md_get]. destruct (bytes_eqb_spec k k0) as [->|Hne].
    + cbn [md_get get_or_nil]. destruct (bytes_eqb k' k0); reflexivity.
    + cbn [md_get]. rewrite IH. destruct (bytes_eqb_spec k' k0) as [->|Hne'].
      * destruct (bytes_eqb_spec k0 k); [congruence|reflexivity].
      * reflexivity.
Qed.

Lemma md_get_in m k : md_get m k <> None <-> In k (map fst m).
Proof.
  induction m as [|[k0 vs0] m IH]; cbn [md_get map fst In]; [tauto|].
  destruct (bytes_eqb_spec k k0) as [->|Hne].
  - split; [auto|discriminate].
  - rewrite IH. split; [auto|]. intros [E|H]; [congruence|exact H].
Qed.

Lemma NoDup_snoc {A} (l : list A) x : NoDup l -> ~ In x l -> NoDup (l ++ [x]).
Proof.
  induction l as [|y l IH]; intros ND NI; cbn [app].
  - constructor; [intros []|constructor].
  - inversion ND as [|? ? Hy Hl]; subst. constructor.
    + intros HI. apply in_app_or in HI. destruct HI as [HI|[->|[]]]; [contradiction|].
      apply NI. left. reflexivity.
    + apply IH; [exact Hl|]. intros HI. apply NI. right. exact HI.
Qed.

Lemma md_append_keys k vs m :
  map fst (md_append k vs m) = if mem_bytes k (map fst m) then map fst m else map fst m ++ [k].
Proof.
  induction m as [|[k0 vs0] m IH]; [reflexivity|].
  cbn [md_append map fst mem_bytes existsb]. destruct (bytes_eqb k k0); cbn [orb map fst]; [reflexivity|].
  rewrite IH. fold (mem_bytes k (map fst m)). destruct (mem_bytes k (map fst m)); reflexivity.
Qed.

Lemma md_append_nodup k vs m : NoDup (map fst m) -> NoDup (map fst (md_append k vs m)).
Proof.
  intros ND. rewrite md_append_keys. destruct (mem_bytes k (map fst m)) eqn:E; [exact ND|].
  apply NoDup_snoc; [exact ND|]. intros HI. apply mem_bytes_in in HI. congruence.
Qed.

(* a metadata map filled by appending, one element of l at a time *)
Section Build.
  Context {A : Type} (key : A -> bytes) (vals : A -> list bytes).
  Definition build_step (m : md) (a : A) : md := md_append (key a) (vals a) m.
  Definition gathered (k : bytes) (l : list A) : list bytes :=
    flat_map (fun a => if bytes_eqb (key a) k then vals a else []) l.

  Lemma md_get_build l : forall m0 k,
    md_get (fold_left build_step l m0) k =
    if existsb (fun a => bytes_eqb (key a) k) l || is_some (md_get m0 k)
    then Some (get_or_nil (md_get m0 k) ++ gathered k l) else None.
  Proof.
    induction l as [|a l IH]; intros m0 k.
    - cbn. destruct (md_get m0 k); cbn; [rewrite app_nil_r|]; reflexivity.
    - cbn [fold_left existsb gathered flat_map]. rewrite IH. unfold build_step.
      rewrite md_get_append. rewrite (bytes_eqb_sym k (key a)).
      destruct (bytes_eqb_spec (key a) k) as [E|Hne].
      + rewrite E. cbn [is_some get_or_nil orb]. rewrite orb_true_r.
        fold (gathered k l). rewrite app_assoc. reflexivity.
      + cbn [orb app]. reflexivity.
  Qed.

  Lemma build_nodup l : forall m0, NoDup (map fst m0) -> NoDup (map fst (fold_left build_step l m0)).
  Proof.
    induction l as [|a l IH]; intros m0 ND; [exact ND|].
    cbn [fold_left]. apply IH. apply md_append_nodup. exact ND.
  Qed.

  Lemma md_get_build_nil l k :
    md_get (fold_left build_step l []) k =
    if existsb (fun a => bytes_eqb (key a) k) l then Some (gathered k l) else None.
  Proof. rewrite md_get_build. cbn. rewrite orb_false_r. reflexivity. Qed.
End Build.

Lemma gathered_app {A} (key : A -> bytes) vals k (l1 l2 : list A) :
  gathered key vals k (l1 ++ l2) = gathered key vals k l1 ++ gathered key vals k l2.
Proof. apply flat_map_app. Qed.

Lemma in_values_for k hs v :
  In v (values_for k hs) -> exists h, In h hs /\ lower (fst h) = k /\ In v (snd h).
Proof.
  unfold values_for. rewrite in_flat_map. intros (h & Hh & Hv). exists h.
  unfold names_match in Hv. destruct (bytes_eqb_spec (lower (fst h)) k); [auto|destruct Hv].
Qed.

Lemma occurs_iff k hs : occurs k hs = true <-> exists h, In h hs /\ lower (fst h) = k.
Proof.
  unfold occurs, names_match. rewrite existsb_exists. split; intros (h & Hh & E); exists h; split; auto.
  - apply bytes_eqb_eq; exact E.
  - apply bytes_eqb_eq; exact E.
Qed.

Section MetadataProofs.
  Variable b64enc : bytes -> bytes.
  Variable b64dec : bytes -> option bytes.
  Let dor := decode_or_raw b64dec.
  Let to_md := md_of_proto b64dec.
  Let of_md := proto_of_md b64enc.

  Lemma md_step_is_build :
    md_step b64dec = build_step (fun h : header => lower (fst h))
                                (fun h => if is_bin (lower (fst h)) then map dor (snd h) else snd h).
  Proof. reflexivity. Qed.

  Lemma gathered_md k hs :
    gathered (fun h : header => lower (fst h))
             (fun h => if is_bin (lower (fst h)) then map dor (snd h) else snd h) k hs =
    if is_bin k then map dor (values_for k hs) else values_for k hs.
  Proof.
    unfold gathered, values_for, names_match. induction hs as [|h hs IH]; cbn [flat_map].
    - destruct (is_bin k); reflexivity.
    - rewrite IH. destruct (bytes_eqb_spec (lower (fst h)) k) as [->|Hne].
      + destruct (is_bin k); [rewrite map_app|]; reflexivity.
      + destruct (is_bin k); reflexivity.
  Qed.

  (* header list -> metadata: every key up to letter case, every value in order *)
  Lemma md_of_proto_get hs k :
    md_get (to_md hs) k =
    if occurs k hs then Some (if is_bin k then map dor (values_for k hs) else values_for k hs) else None.
  Proof.
    unfold to_md, md_of_proto. rewrite md_step_is_build, md_get_build_nil, gathered_md. reflexivity.
  Qed.

  Lemma md_of_proto_nodup hs : NoDup (map fst (to_md hs)).
  Proof. unfold to_md, md_of_proto. rewrite md_step_is_build. apply build_nodup. constructor. Qed.

  Lemma proto_of_md_keys m : map fst (of_md m) = map fst m.
  Proof. unfold of_md, proto_of_md. rewrite map_map. reflexivity. Qed.

  Lemma proto_of_md_get m k :
    md_get (of_md m) k =
    match md_get m k with Some vs => Some (if is_bin k then map b64enc vs else vs) | None => None end.
  Proof.
    unfold of_md, proto_of_md. induction m as [|[k0 vs0] m IH]; [reflexivity|].
    cbn [map md_get fst snd]. destruct (bytes_eqb_spec k k0) as [->|Hne]; [reflexivity|exact IH].
  Qed.

  Lemma md_roundtrip_proof hs :
    NoDup (map fst (of_md (to_md hs))) /\
    (forall k, In k (map fst (of_md (to_md hs))) <-> exists h, In h hs /\ lower (fst h) = k) /\
    (forall k, md_get (to_md hs) k =
               if occurs k hs then Some (if is_bin k then map dor (values_for k hs) else values_for k hs) else None) /\
    (forall k, md_get (of_md (to_md hs)) k = if occurs k hs then Some (once b64enc b64dec k (values_for k hs)) else None) /\
    (b64_contract b64enc b64dec -> canonical_bin b64enc hs ->
     forall k, md_get (of_md (to_md hs)) k = if occurs k hs then Some (values_for k hs) else None).
  Proof.
    assert (G : forall k, md_get (of_md (to_md hs)) k = if occurs k hs then Some (once b64enc b64dec k (values_for k hs)) else None).
    { intros k. rewrite proto_of_md_get, md_of_proto_get. unfold once, bin_meaning; fold dor.
      destruct (occurs k hs); [|reflexivity]. destruct (is_bin k); [rewrite map_map|]; reflexivity. }
    split; [rewrite proto_of_md_keys; apply md_of_proto_nodup|].
    split; [|split; [apply md_of_proto_get|split; [exact G|]]].
    - intros k. rewrite <- md_get_in, G, <- occurs_iff. destruct (occurs k hs); split; congruence.
    - intros HB HC k. rewrite G. destruct (occurs k hs); [|reflexivity]. f_equal.
      unfold once, bin_meaning; fold dor. destruct (is_bin k) eqn:Bk; [|reflexivity].
      rewrite <- (map_id (values_for k hs)) at 2. apply map_ext_in. intros v Hv.
      destruct (in_values_for _ _ _ Hv) as (h & Hh & <- & Hvh).
      destruct (HC h v Hh Bk Hvh) as (raw & Hraw & ->). unfold bin_meaning. rewrite (HB raw Hraw). reflexivity.
  Qed.

  (* metadata -> header list -> metadata *)
  Lemma values_for_unique (m : md) k :
    NoDup (map fst m) -> Forall (fun kv => lower (fst kv) = fst kv) m ->
    values_for k m = get_or_nil (md_get m k) /\ occurs k m = is_some (md_get m k).
  Proof.
    unfold values_for, occurs, names_match.
    induction m as [|[k0 vs0] m IH]; intros ND HL; [split; reflexivity|].
    inversion ND as [|? ? Hk Hm]; subst. inversion HL as [|? ? E0 Hl]; subst. cbn [fst] in E0.
    destruct (IH Hm Hl) as (IV & IO). cbn [flat_map existsb md_get fst snd]. rewrite E0.
    rewrite (bytes_eqb_sym k k0). destruct (bytes_eqb_spec k0 k) as [->|Hne].
    - assert (N : md_get m k = None).
      { destruct (md_get m k) eqn:E; [|reflexivity]. exfalso. apply Hk. apply md_get_in. congruence. }
      rewrite IV, N. cbn. rewrite app_nil_r. split; reflexivity.
    - cbn [orb app]. split; assumption.
  Qed.

  Lemma md_get_bytes (m : md) k vs :
    Forall (fun kv => Forall (Forall is_byte) (snd kv)) m -> md_get m k = Some vs -> Forall (Forall is_byte) vs.
  Proof.
    induction m as [|[k0 vs0] m IH]; intros HY E; [discriminate|].
    inversion HY as [|? ? H0 Hm]; subst. cbn [md_get] in E. destruct (bytes_eqb k k0).
    - inversion E; subst. exact H0.
    - apply IH; assumption.
  Qed.

  Lemma md_roundtrip_back_proof (m : md) :
    b64_contract b64enc b64dec ->
    NoDup (map fst m) -> Forall (fun kv => lower (fst kv) = fst kv) m ->
    Forall (fun kv => Forall (Forall is_byte) (snd kv)) m ->
    forall k, md_get (to_md (of_md m)) k = md_get m k.
  Proof.
    intros HB ND HL HY k. rewrite md_of_proto_get.
    assert (ND' : NoDup (map fst (of_md m))) by (rewrite proto_of_md_keys; exact ND).
    assert (HL' : Forall (fun kv => lower (fst kv) = fst kv) (of_md m)).
    { unfold of_md, proto_of_md. rewrite Forall_map. exact HL. }
    destruct (values_for_unique (of_md m) k ND' HL') as (-> & ->).
    rewrite proto_of_md_get. destruct (md_get m k) as [vs|] eqn:EG; [|reflexivity]. cbn [is_some get_or_nil].
    f_equal. destruct (is_bin k); [|reflexivity]. rewrite map_map.
    rewrite <- (map_id vs) at 2. apply map_ext_in. intros v Hv. unfold dor, decode_or_raw. rewrite HB; [reflexivity|].
    pose proof (md_get_bytes m k vs HY EG) as HV. rewrite Forall_forall in HV. apply (HV v Hv).
  Qed.

  (* ---- key/value pairs appended one at a time (grpc-go's outgoing metadata, http.Header.Add) ---- *)
  Definition pairs_md (norm : bytes -> bytes) (kvs : list (bytes * bytes)) : md :=
    fold_left (fun m kv => md_append (norm (fst kv)) [snd kv] m) kvs [].

  Lemma pairs_md_get norm kvs k :
    md_get (pairs_md norm kvs) k =
    some_nonempty (flat_map (fun kv => if bytes_eqb (norm (fst kv)) k then [snd kv] else []) kvs).
  Proof.
    unfold pairs_md.
    change (fun (m : md) (kv : bytes * bytes) => md_append (norm (fst kv)) [snd kv] m)
      with (build_step (fun kv : bytes * bytes => norm (fst kv)) (fun kv => [snd kv])).
    rewrite md_get_build_nil. unfold gathered.
    induction kvs as [|kv kvs IH]; [reflexivity|].
    cbn [existsb flat_map]. destruct (bytes_eqb (norm (fst kv)) k); cbn [orb app]; [reflexivity|exact IH].
  Qed.

  Lemma pairs_md_nodup norm kvs : NoDup (map fst (pairs_md norm kvs)).
  Proof.
    unfold pairs_md.
    change (fun (m : md) (kv : bytes * bytes) => md_append (norm (fst kv)) [snd kv] m)
      with (build_step (fun kv : bytes * bytes => norm (fst kv)) (fun kv => [snd kv])).
    apply build_nodup. constructor.
  Qed.

  Lemma pairs_of_headers norm (nm : header -> bytes) (f : header -> bytes -> bytes) k hs :
    flat_map (fun kv : bytes * bytes => if bytes_eqb (norm (fst kv)) k then [snd kv] else [])
             (flat_map (fun h => map (fun v => (nm h, f h v)) (snd h)) hs) =
    flat_map (fun h => if bytes_eqb (norm (nm h)) k then map (f h) (snd h) else []) hs.
  Proof.
    induction hs as [|h hs IH]; [reflexivity|].
    cbn [flat_map]. rewrite flat_map_app, IH. f_equal.
    induction (snd h) as [|v vs IV]; cbn [map flat_map fst snd].
    - destruct (bytes_eqb (norm (nm h)) k); reflexivity.
    - rewrite IV. destruct (bytes_eqb (norm (nm h)) k); reflexivity.
  Qed.

  (* AppendToOutgoingContext + grpc-go: what goes on the wire, what the peer reports *)
  Lemma outgoing_md_get hs k :
    md_get (grpc_outgoing_md (outgoing_pairs b64dec hs)) k =
    some_nonempty (if is_bin k then map dor (values_for k hs) else values_for k hs).
  Proof.
    change (grpc_outgoing_md (outgoing_pairs b64dec hs)) with (pairs_md lower (outgoing_pairs b64dec hs)).
    rewrite pairs_md_get. unfold outgoing_pairs.
    rewrite (pairs_of_headers lower (fun h => fst h) (fun h v => if is_bin (lower (fst h)) then dor v else v)).
    f_equal. unfold values_for, names_match. induction hs as [|h hs IH]; cbn [flat_map].
    - destruct (is_bin k); reflexivity.
    - rewrite IH. destruct (bytes_eqb_spec (lower (fst h)) k) as [->|Hne].
      + destruct (is_bin k); [rewrite map_app|rewrite map_id]; reflexivity.
      + destruct (is_bin k); reflexivity.
  Qed.

  Lemma some_nonempty_map {f : bytes -> bytes} l :
    match some_nonempty l with Some vs => Some (map f vs) | None => None end = some_nonempty (map f l).
  Proof. destruct l; reflexivity. Qed.

  Lemma outgoing_once_proof hs :
    NoDup (map fst (outgoing_reported b64enc b64dec hs)) /\
    (* the metadata handed to grpc-go is what ConvertProtoHeaderToMetadata builds (names without a value carry nothing) *)
    (forall k, md_get (grpc_outgoing_md (outgoing_pairs b64dec hs)) k = some_nonempty (get_or_nil (md_get (to_md hs) k))) /\
    (forall k, md_get (outgoing_reported b64enc b64dec hs) k = some_nonempty (once b64enc b64dec k (values_for k hs))) /\
    (b64_contract b64enc b64dec -> canonical_bin b64enc hs ->
     forall k, md_get (outgoing_reported b64enc b64dec hs) k = some_nonempty (values_for k hs)).
  Proof.
    assert (G : forall k, md_get (outgoing_reported b64enc b64dec hs) k = some_nonempty (once b64enc b64dec k (values_for k hs))).
    { intros k. unfold outgoing_reported. fold of_md. rewrite proto_of_md_get, outgoing_md_get. unfold once, bin_meaning; fold dor.
      destruct (is_bin k).
      - rewrite some_nonempty_map, map_map. reflexivity.
      - destruct (some_nonempty (values_for k hs)); reflexivity. }
    split; [|split; [|split; [exact G|]]].
    - unfold outgoing_reported. fold of_md. rewrite proto_of_md_keys. apply pairs_md_nodup.
    - intros k. rewrite outgoing_md_get, md_of_proto_get. destruct (occurs k hs) eqn:O; [reflexivity|].
      assert (E : values_for k hs = []).
      { destruct (values_for k hs) as [|v l] eqn:EV; [reflexivity|]. exfalso.
        destruct (in_values_for k hs v) as (h & Hh & Hk & _); [rewrite EV; left; reflexivity|].
        assert (occurs k hs = true) by (apply occurs_iff; exists h; auto). congruence. }
      rewrite E. destruct (is_bin k); reflexivity.
    - intros HB HC k. rewrite G. f_equal.
      unfold once, bin_meaning; fold dor. destruct (is_bin k) eqn:Bk; [|reflexivity].
      rewrite <- (map_id (values_for k hs)) at 2. apply map_ext_in. intros v Hv.
      destruct (in_values_for _ _ _ Hv) as (h & Hh & <- & Hvh).
      destruct (HC h v Hh Bk Hvh) as (raw & Hraw & ->). unfold bin_meaning. rewrite (HB raw Hraw). reflexivity.
  Qed.
End MetadataProofs.

(* ---- internal/headers.go: AddHeaders / AddTrailers into an http.Header and back ---- *)
Lemma fold_left_flat_map {A B C} (g : C -> B -> C) (p : A -> list B) l : forall m,
  fold_left g (flat_map p l) m = fold_left (fun m a => fold_left g (p a) m) l m.
Proof.
  induction l as [|a l IH]; intros m; [reflexivity|].
  cbn [flat_map fold_left]. rewrite fold_left_app. apply IH.
Qed.

Lemma fold_left_map {A B C} (g : C -> B -> C) (q : A -> B) l : forall m,
  fold_left g (map q l) m = fold_left (fun m v => g m (q v)) l m.
Proof. induction l as [|a l IH]; intros m; [reflexivity|]. cbn [map fold_left]. apply IH. Qed.

Lemma add_with_is_pairs keyf src :
  add_with keyf src [] =
  pairs_md keyf (flat_map (fun h : header => map (fun v => (fst h, v)) (snd h)) src).
Proof.
  unfold add_with, pairs_md. rewrite fold_left_flat_map.
  generalize (@nil (bytes * list bytes)). induction src as [|h src IH]; intros m; [reflexivity|].
  cbn [fold_left]. rewrite fold_left_map. cbn [fst snd]. apply IH.
Qed.

Lemma lower_upper_byte c : lower_byte (upper_byte c) = lower_byte c.
Proof.
  unfold lower_byte, upper_byte.
  destruct (N.leb_spec 97 c), (N.leb_spec c 122); cbn [andb];
    repeat match goal with |- context [N.leb ?a ?b] => destruct (N.leb_spec a b) end; cbn [andb]; lia.
Qed.

Lemma lower_lower_byte c : lower_byte (lower_byte c) = lower_byte c.
Proof.
  unfold lower_byte.
  destruct (N.leb_spec 65 c), (N.leb_spec c 90); cbn [andb];
    repeat match goal with |- context [N.leb ?a ?b] => destruct (N.leb_spec a b) end; cbn [andb]; lia.
Qed.

Lemma lower_canon_go s : forall up, lower (canon_go up s) = lower s.
Proof.
  induction s as [|c s IH]; intros up; [reflexivity|].
  cbn [canon_go lower map]. fold (lower (canon_go (c =? 45) s)). fold (lower s). rewrite IH.
  destruct up; [rewrite lower_upper_byte|rewrite lower_lower_byte]; reflexivity.
Qed.

(* http.Header canonicalises a name, it never changes it beyond letter case *)
Lemma canonical_key_case s : lower (canonical_key s) = lower s.
Proof. unfold canonical_key. destruct (forallb is_token_char s); [apply lower_canon_go|reflexivity]. Qed.

Lemma upper_lower_byte c : upper_byte (lower_byte c) = upper_byte c.
Proof.
  unfold lower_byte, upper_byte.
  destruct (N.leb_spec 65 c), (N.leb_spec c 90); cbn [andb];
    repeat match goal with |- context [N.leb ?a ?b] => destruct (N.leb_spec a b) end; cbn [andb]; lia.
Qed.

Lemma dash_lower_byte c : (lower_byte c =? 45) = (c =? 45).
Proof.
  unfold lower_byte. destruct (N.leb_spec 65 c), (N.leb_spec c 90); cbn [andb]; try reflexivity.
  destruct (N.eqb_spec (c + 32) 45), (N.eqb_spec c 45); try reflexivity; lia.
Qed.

Lemma token_lower_byte c : is_token_char (lower_byte c) = is_token_char c.
Proof.
  unfold lower_byte. destruct ((65 <=? c) && (c <=? 90)) eqn:E; [|reflexivity].
  unfold is_token_char. rewrite E. apply andb_true_iff in E. destruct E as (E1 & E2).
  apply N.leb_le in E1, E2.
  assert (B : (97 <=? c + 32) && (c + 32 <=? 122) = true).
  { apply andb_true_iff. split; apply N.leb_le; lia. }
  rewrite B, !orb_true_r. reflexivity.
Qed.

Lemma canon_go_lower s : forall up, canon_go up (lower s) = canon_go up s.
Proof.
  induction s as [|c s IH]; intros up; [reflexivity|].
  cbn [lower map canon_go]. fold (lower s). rewrite IH, dash_lower_byte.
  destruct up; [rewrite upper_lower_byte|rewrite lower_lower_byte]; reflexivity.
Qed.

Lemma tokens_lower s : forallb is_token_char (lower s) = forallb is_token_char s.
Proof.
  induction s as [|c s IH]; [reflexivity|].
  cbn [lower map forallb]. fold (lower s). rewrite IH, token_lower_byte. reflexivity.
Qed.

(* the canonical form of a well-formed name depends on the name up to letter case only *)
Lemma canonical_key_lower n n' :
  lower n = lower n' -> forallb is_token_char n = true -> canonical_key n = canonical_key n'.
Proof.
  intros E T. unfold canonical_key. rewrite T.
  assert (T' : forallb is_token_char n' = true) by (rewrite <- tokens_lower, <- E, tokens_lower; exact T).
  rewrite T', <- (canon_go_lower n), <- (canon_go_lower n'), E. reflexivity.
Qed.

Lemma add_with_get keyf hs :
  NoDup (map fst (convert_to_proto_header (add_with keyf hs []))) /\
  (forall k, md_get (convert_to_proto_header (add_with keyf hs [])) k = some_nonempty (values_under keyf k hs)).
Proof.
  unfold convert_to_proto_header. rewrite add_with_is_pairs. split; [apply pairs_md_nodup|].
  intros k. rewrite pairs_md_get.
  rewrite (pairs_of_headers keyf (fun h => fst h) (fun _ v => v)).
  unfold values_under. f_equal. apply flat_map_ext. intros h.
  destruct (bytes_eqb (keyf (fst h)) k); [apply map_id|reflexivity].
Qed.

Lemma trailer_key_case n : lower (trailer_key n) = lower trailer_prefix ++ lower n.
Proof.
  unfold trailer_key. rewrite canonical_key_case. unfold lower at 1. rewrite map_app.
  fold (lower trailer_prefix). fold (lower (canonical_key n)). rewrite canonical_key_case. reflexivity.
Qed.

Lemma http_headers_proof hs :
  (NoDup (map fst (convert_to_proto_header (add_headers hs []))) /\
   (forall k, md_get (convert_to_proto_header (add_headers hs [])) k = some_nonempty (values_under canonical_key k hs)) /\
   (forall n, lower (canonical_key n) = lower n)) /\
  (NoDup (map fst (convert_to_proto_header (add_trailers hs []))) /\
   (forall k, md_get (convert_to_proto_header (add_trailers hs [])) k = some_nonempty (values_under trailer_key k hs)) /\
   (forall n, lower (trailer_key n) = lower trailer_prefix ++ lower n) /\
   (* names that differ in letter case only share one trailer key *)
   (forall n n', lower n = lower n' -> forallb is_token_char n = true -> trailer_key n = trailer_key n')).
Proof.
  split.
  - destruct (add_with_get canonical_key hs) as (ND & G). split; [exact ND|]. split; [exact G|apply canonical_key_case].
  - destruct (add_with_get trailer_key hs) as (ND & G). split; [exact ND|]. split; [exact G|].
    split; [apply trailer_key_case|]. intros n n' E T. unfold trailer_key. f_equal. f_equal.
    apply canonical_key_lower; assumption.
Qed.

(* ====================================================================== *)
(* 3. Percent-encoding                                                     *)
(* ====================================================================== *)
Definition all_bytes : list N := map N.of_nat (seq 0 256).

Lemma byte_in c : c < 256 -> In c all_bytes.
Proof.
  intros H. unfold all_bytes. apply in_map_iff. exists (N.to_nat c). split; [apply N2Nat.id|].
  apply in_seq. lia.
Qed.

(* a fact about every byte value, established by running through the 256 of them *)
Lemma byte_sweep (P : N -> bool) : forallb P all_bytes = true -> forall c, c < 256 -> P c = true.
Proof. intros H c Hc. rewrite forallb_forall in H. apply H, byte_in, Hc. Qed.

Definition hex_ok (c : N) : bool :=
  match unhex (hex_digit (c / 16)), unhex (hex_digit (c mod 16)) with
  | Some x, Some y => x * 16 + y =? c
  | _, _ => false
  end.
Definition printable_b (c : N) : bool := (32 <=? c) && (c <=? 126).

Lemma hex_ok_all : forallb hex_ok all_bytes = true.
Proof. vm_compute. reflexivity. Qed.
Lemma escape_printable_all : forallb (fun c => forallb printable_b (escape_byte c)) all_bytes = true.
Proof. vm_compute. reflexivity. Qed.

Lemma printable_b_iff c : printable_b c = true <-> printable_ascii c.
Proof. unfold printable_b, printable_ascii. rewrite andb_true_iff, !N.leb_le. tauto. Qed.

(* the code's byte class is the declarative one *)
Lemma should_escape_spec c : should_escape c = false <-> safe_char c.
Proof.
  unfold should_escape, safe_char, printable_ascii.
  rewrite !orb_false_iff, !N.ltb_ge, N.eqb_neq. tauto.
Qed.

Lemma decode_escape_byte c r : c < 256 ->
  percent_decode (escape_byte c ++ r) =
  match percent_decode r with Some d => Some (c :: d) | None => None end.
Proof.
  intros Hc. unfold escape_byte. destruct (should_escape c) eqn:E.
  - pose proof (byte_sweep hex_ok hex_ok_all c Hc) as H. unfold hex_ok in H.
    cbn [app percent_decode]. rewrite N.eqb_refl.
    destruct (unhex (hex_digit (c / 16))) as [x|]; [|discriminate].
    destruct (unhex (hex_digit (c mod 16))) as [y|]; [|discriminate].
    apply N.eqb_eq in H. rewrite H. reflexivity.
  - cbn [app percent_decode]. unfold should_escape in E. rewrite !orb_false_iff in E.
    destruct E as (_ & ->). reflexivity.
Qed.

Lemma percent_encode_flat m : percent_encode m = flat_map escape_byte m.
Proof.
  unfold percent_encode. destruct (existsb should_escape m) eqn:E; [reflexivity|].
  induction m as [|c m IH]; [reflexivity|].
  cbn [existsb] in E. apply orb_false_iff in E. destruct E as (Ec & Em).
  cbn [flat_map]. unfold escape_byte at 1. rewrite Ec, <- (IH Em). reflexivity.
Qed.

Lemma percent_inverse_proof m :
  Forall is_byte m ->
  percent_decode (percent_encode m) = Some m /\
  Forall printable_ascii (percent_encode m) /\
  (Forall safe_char m -> percent_encode m = m).
Proof.
  intros HB. rewrite percent_encode_flat. split; [|split].
  - induction HB as [|c m Hc Hm IH]; [reflexivity|].
    cbn [flat_map]. rewrite (decode_escape_byte c _ Hc), IH. reflexivity.
  - induction HB as [|c m Hc Hm IH]; [constructor|].
    cbn [flat_map]. apply Forall_app. split; [|exact IH].
    pose proof (byte_sweep _ escape_printable_all c Hc) as H. cbv beta in H.
    rewrite forallb_forall in H. apply Forall_forall. intros x Hx. apply printable_b_iff, H, Hx.
  - intros HS. clear HB. induction HS as [|c m Hc Hm IH]; [reflexivity|].
    cbn [flat_map]. rewrite IH. unfold escape_byte. apply should_escape_spec in Hc. rewrite Hc. reflexivity.
Qed.

(* invertible: two messages with the same encoding are the same message *)
Lemma percent_injective_proof m1 m2 :
  Forall is_byte m1 -> Forall is_byte m2 -> percent_encode m1 = percent_encode m2 -> m1 = m2.
Proof.
  intros H1 H2 E. destruct (percent_inverse_proof m1 H1) as (D1 & _).
  destruct (percent_inverse_proof m2 H2) as (D2 & _). rewrite E in D1. congruence.
Qed.

(* ====================================================================== *)
(* 4. Strict codecs                                                        *)
(* ====================================================================== *)
Fixpoint pmsg_ind' (P : pmsg -> Prop)
         (H : forall k u subs, Forall P subs -> P (PMsg k u subs)) (m : pmsg) : P m :=
  match m with
  | PMsg k u subs =>
    H k u subs ((fix go (l : list pmsg) : Forall P l :=
                   match l with
                   | [] => Forall_nil P
                   | x :: r => Forall_cons x (pmsg_ind' P H x) (go r)
                   end) subs)
  end.

(* the recursive walk of the repaired codec finds exactly the messages with an unrecognised field somewhere *)
Lemma clean_iff m : clean m = true <-> ~ has_unknown m.
Proof.
  induction m as [k u subs IH] using pmsg_ind'. cbn [clean]. rewrite andb_true_iff, forallb_forall.
  rewrite Forall_forall in IH. split.
  - intros (Hu & Hs) HU. inversion HU as [? ? ? NE|? ? ? s Hin Hsub]; subst.
    + destruct u; [congruence|discriminate].
    + apply (IH s Hin); [apply Hs, Hin|exact Hsub].
  - intros NU. split.
    + destruct u; [reflexivity|]. exfalso. apply NU. apply hu_here. discriminate.
    + intros s Hin. apply (IH s Hin). intros Hsub. apply NU. apply (hu_below k u subs s Hin Hsub).
Qed.

Lemma clean_false_iff m : clean m = false <-> has_unknown m.
Proof.
  destruct (clean m) eqn:E.
  - split; [discriminate|]. intros H. apply clean_iff in E. contradiction.
  - split; [|reflexivity]. intros _.
    induction m as [k u subs IH] using pmsg_ind'. cbn [clean] in E. apply andb_false_iff in E.
    destruct E as [E|E].
    + apply hu_here. destruct u; [discriminate|discriminate].
    + rewrite Forall_forall in IH.
      assert (X : exists s, In s subs /\ clean s = false).
      { clear IH. induction subs as [|s subs IHs]; [discriminate|]. cbn [forallb] in E.
        apply andb_false_iff in E. destruct E as [E|E].
        - exists s. split; [left; reflexivity|exact E].
        - destruct (IHs E) as (s' & Hin & Hs'). exists s'. split; [right; exact Hin|exact Hs']. }
      destruct X as (s & Hin & Hs). apply (hu_below k u subs s Hin). apply (IH s Hin Hs).
Qed.

Section CodecProofs.
  Variable wire : Type.
  Variable marshal_bin : pmsg -> wire.
  Variable unmarshal_bin : wire -> option pmsg.
  Variable marshal_json : pmsg -> wire.
  Variable unmarshal_json : bool -> wire -> option pmsg.
  Variable json_unknown : wire -> Prop.
  Hypothesis H_bin : bin_contract marshal_bin unmarshal_bin.
  Hypothesis H_json : json_contract marshal_json unmarshal_json json_unknown.

  Let p_marshal := strict_proto_marshal wire marshal_bin.
  Let p_unmarshal := strict_proto_unmarshal wire unmarshal_bin.
  Let j_marshal := strict_json_marshal wire marshal_json.
  Let j_unmarshal := strict_json_unmarshal wire unmarshal_json.

  (* decode (encode m) = m, for both codecs *)
  Lemma codec_roundtrip_proof m :
    ~ has_unknown m -> p_unmarshal (p_marshal m) = COk m /\ j_unmarshal (j_marshal m) = COk m.
  Proof.
    intros NU. split.
    - unfold p_unmarshal, p_marshal, strict_proto_unmarshal, strict_proto_marshal. rewrite H_bin.
      apply clean_iff in NU. rewrite NU. reflexivity.
    - unfold j_unmarshal, j_marshal, strict_json_unmarshal, strict_json_marshal.
      destruct H_json as (RT & _). rewrite (RT m NU). reflexivity.
  Qed.

  (* unknown fields are rejected, at any depth, never dropped: what is accepted is the
     library's parse of the data, and it has no unrecognised field anywhere *)
  Lemma codec_rejects_unknown_proof :
    (forall w m, unmarshal_bin w = Some m -> has_unknown m -> p_unmarshal w = CErrUnknown) /\
    (forall w m, p_unmarshal w = COk m -> unmarshal_bin w = Some m /\ ~ has_unknown m) /\
    (forall m, has_unknown m -> p_unmarshal (marshal_bin m) = CErrUnknown) /\
    (forall w, json_unknown w -> j_unmarshal w = CErrMalformed) /\
    (forall w m, j_unmarshal w = COk m -> unmarshal_json false w = Some m /\ ~ has_unknown m).
  Proof.
    assert (A : forall w m, unmarshal_bin w = Some m -> has_unknown m -> p_unmarshal w = CErrUnknown).
    { intros w m E HU. unfold p_unmarshal, strict_proto_unmarshal. rewrite E.
      apply clean_false_iff in HU. rewrite HU. reflexivity. }
    split; [exact A|]. split; [|split; [|split]].
    - intros w m. unfold p_unmarshal, strict_proto_unmarshal.
      destruct (unmarshal_bin w) as [m'|]; [|discriminate].
      destruct (clean m') eqn:C; [|discriminate]. intros E. inversion E; subst.
      split; [reflexivity|apply clean_iff; exact C].
    - intros m HU. apply (A _ m); [apply H_bin|exact HU].
    - intros w JU. unfold j_unmarshal, strict_json_unmarshal.
      destruct H_json as (_ & RJ & _). rewrite (RJ w JU). reflexivity.
    - intros w m. unfold j_unmarshal, strict_json_unmarshal.
      destruct (unmarshal_json false w) as [m'|] eqn:E; [|discriminate].
      intros E'. inversion E'; subst. split; [reflexivity|].
      destruct H_json as (_ & _ & NU). apply (NU w m E).
  Qed.
End CodecProofs.
