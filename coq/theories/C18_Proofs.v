(* C18_Proofs.v — proofs of the C18 theorems (restated in C18_Props.v). *)
From Coq Require Import Lia.
From V Require Import C18_Spec.
Open Scope N_scope.

(* ====================================================================== *)
(* 1. Errors                                                               *)
(* ====================================================================== *)

(* ---- the type name: the model's scan for the last '/' is the declarative one ---- *)
Lemma existsb_slash_false r : existsb (N.eqb slash) r = false -> ~ In slash r.
Proof.
  intros E HI. assert (existsb (N.eqb slash) r = true); [|congruence].
  apply existsb_exists. exists slash. split; [exact HI|apply N.eqb_refl].
Qed.

Lemma existsb_slash_true r : ~ In slash r -> existsb (N.eqb slash) r = false.
Proof.
  intros H. destruct (existsb (N.eqb slash) r) eqn:E; [|reflexivity].
  apply existsb_exists in E. destruct E as (x & Hx & Ex). apply N.eqb_eq in Ex. subst x. contradiction.
Qed.

Lemma split_on_two r : existsb (N.eqb slash) r = true ->
  exists w w' ws, split_on slash r = w :: w' :: ws.
Proof.
  induction r as [|c r IH]; cbn [existsb split_on]; [discriminate|].
  intros H. destruct (N.eqb_spec c slash) as [->|Hne].
  - pose proof (split_on_nonempty slash r) as NE.
    destruct (split_on slash r) as [|w ws]; [congruence|]. exists [], w, ws. reflexivity.
  - assert (E : N.eqb slash c = false) by (apply N.eqb_neq; congruence).
    rewrite E in H. cbn [orb] in H. destruct (IH H) as (w & w' & ws & ->).
    exists (c :: w), w', ws. reflexivity.
Qed.

Lemma type_name_spec url : type_name url = type_of url.
Proof.
  unfold type_of. induction url as [|c r IH]; [reflexivity|].
  cbn [type_name split_on]. destruct (existsb (N.eqb slash) r) eqn:E.
  - rewrite IH. destruct (split_on_two r E) as (w & w' & ws & ->).
    destruct (N.eqb c slash); reflexivity.
  - rewrite (split_on_no_sep slash r) by (apply existsb_slash_false; exact E).
    destruct (N.eqb c slash); reflexivity.
Qed.

Lemma type_name_noslash url : ~ In slash (type_name url).
Proof.
  induction url as [|c r IH]; [intros []|].
  cbn [type_name]. destruct (existsb (N.eqb slash) r) eqn:E; [exact IH|].
  apply existsb_slash_false in E.
  destruct (N.eqb_spec c slash) as [->|Hne]; [exact E|].
  intros [H|H]; [congruence|contradiction].
Qed.

Lemma type_name_app pre name : ~ In slash name -> type_name (pre ++ slash :: name) = name.
Proof.
  intros H. induction pre as [|c p IH].
  - cbn [app type_name]. rewrite existsb_slash_true by exact H. rewrite N.eqb_refl. reflexivity.
  - cbn [app type_name].
    assert (E : existsb (N.eqb slash) (p ++ slash :: name) = true).
    { apply existsb_exists. exists slash. split; [apply in_or_app; right; left; reflexivity|apply N.eqb_refl]. }
    rewrite E. exact IH.
Qed.

Lemma type_of_noslash url : ~ In slash (type_of url).
Proof. rewrite <- type_name_spec. apply type_name_noslash. Qed.

(* the prefix the repository restores is dropped again by the type name: type-URL prefix restoration *)
Lemma type_of_prefixed name : ~ In slash name -> type_of (default_prefix ++ name) = name.
Proof.
  intros H. rewrite <- type_name_spec.
  change default_prefix with (bs "type.googleapis.com" ++ [slash]).
  rewrite <- app_assoc. apply type_name_app. exact H.
Qed.

Lemma type_of_canonical url : canonical_url url -> default_prefix ++ type_of url = url.
Proof. intros (name & -> & H). rewrite type_of_prefixed by exact H. reflexivity. Qed.

(* ---- int32 / uint32 casts ---- *)
Lemma to_i32_to_u32 z : int32 z -> to_i32 (to_u32 z) = z.
Proof.
  unfold int32, to_i32, to_u32, two32, two31. intros H.
  rewrite Z.mod_mod by lia.
  destruct (Z.ltb_spec (z mod 4294967296) 2147483648) as [L|L];
    Z.div_mod_to_equations; lia.
Qed.

Lemma to_u32_to_i32 z : uint32 z -> to_u32 (to_i32 z) = z.
Proof.
  unfold uint32, to_i32, to_u32, two32, two31. intros H.
  rewrite (Z.mod_small z) by lia.
  destruct (Z.ltb_spec z 2147483648) as [L|L]; Z.div_mod_to_equations; lia.
Qed.

Lemma same_detail_refl a : same_detail a a.
Proof. split; reflexivity. Qed.
Lemma Forall2_same_detail_refl l : Forall2 same_detail l l.
Proof. induction l; constructor; [apply same_detail_refl|assumption]. Qed.
Lemma same_error_refl e : same_error e e.
Proof. repeat split. apply Forall2_same_detail_refl. Qed.

Section ErrorProofs.
  Variable new_detail : any -> option cdetail.
  Variable d_type : cdetail -> bytes.
  Variable d_bytes : cdetail -> bytes.
  Hypothesis H_detail : detail_contract new_detail d_type d_bytes.

  Let c_of_p := connect_of_proto new_detail.
  Let p_of_c := proto_of_connect d_type d_bytes.
  Let view := cerr_view d_type d_bytes.

  Lemma new_details_total l :
    exists ds, new_details new_detail l = Some ds /\
               map (fun d => (d_type d, d_bytes d)) ds = map (fun a => (type_of (fst a), snd a)) l.
  Proof.
    induction l as [|a l (ds & E & M)]; [exists []; split; reflexivity|].
    destruct (H_detail a) as (d & Ed & Ht & Hb).
    exists (d :: ds). cbn [new_details map]. rewrite Ed, E, M, Ht, Hb. split; reflexivity.
  Qed.

  (* proto -> connect: what the Connect error shows *)
  Lemma connect_view_proof e :
    view (c_of_p e) = (to_u32 (p_code e), message_of e, map (fun a => (type_of (fst a), snd a)) (p_details e)).
  Proof.
    unfold view, c_of_p, cerr_view, connect_of_proto.
    destruct (new_details_total (p_details e)) as (ds & -> & M). cbn [c_code c_msg c_details].
    rewrite M. reflexivity.
  Qed.

  Lemma restored_details ds l :
    map (fun d => (d_type d, d_bytes d)) ds = map (fun a => (type_of (fst a), snd a)) l ->
    Forall2 same_detail (map (fun d => (default_prefix ++ d_type d, d_bytes d)) ds) l /\
    (canonical_details l -> map (fun d => (default_prefix ++ d_type d, d_bytes d)) ds = l).
  Proof.
    revert l; induction ds as [|d ds IH]; intros [|a l] M; try discriminate.
    - split; [constructor|reflexivity].
    - cbn [map] in M. inversion M as [[Ht Hb Hr]]. destruct (IH l Hr) as (F & C). split.
      + cbn [map]. constructor; [|exact F]. split; cbn [fst snd]; [|exact Hb].
        rewrite Ht. apply type_of_prefixed, type_of_noslash.
      + intros HC. inversion HC as [|? ? Ha Hl]; subst. cbn [map]. rewrite (C Hl).
        rewrite Ht, Hb. rewrite type_of_canonical by exact Ha. destruct a; reflexivity.
  Qed.

  (* test-case form -> Connect form -> test-case form *)
  Lemma err_roundtrip_connect_proof e :
    int32 (p_code e) ->
    same_error (p_of_c (c_of_p e)) e /\
    (canonical_details (p_details e) ->
     p_of_c (c_of_p e) = PErr (p_code e) (Some (message_of e)) (p_details e)).
  Proof.
    intros Hc. unfold p_of_c, c_of_p, connect_of_proto, proto_of_connect.
    destruct (new_details_total (p_details e)) as (ds & -> & M). cbn [c_code c_msg c_details].
    destruct (restored_details ds (p_details e) M) as (F & C).
    rewrite (to_i32_to_u32 _ Hc). split.
    - split; [reflexivity|]. split; [reflexivity|exact F].
    - intros HC. rewrite (C HC). reflexivity.
  Qed.

  (* Connect form -> test-case form -> Connect form, as far as an observer can tell *)
  Lemma err_roundtrip_proto_proof c :
    uint32 (c_code c) -> Forall (fun d => ~ In slash (d_type d)) (c_details c) ->
    view (c_of_p (p_of_c c)) = view c.
  Proof.
    intros Hc Hd. unfold view. fold c_of_p. rewrite connect_view_proof.
    unfold p_of_c, proto_of_connect, message_of, cerr_view. cbn [p_code p_msg p_details get_msg].
    rewrite (to_u32_to_i32 _ Hc). f_equal. rewrite map_map.
    apply map_ext_in. intros d Hin. cbn [fst snd].
    rewrite Forall_forall in Hd. rewrite type_of_prefixed by (apply Hd; exact Hin). reflexivity.
  Qed.

  (* any Go error -> Connect / test-case form *)
  Lemma err_from_go_proof :
    (forall c, connect_of_error (GoConnect c) = c) /\
    (forall t c, connect_of_error (GoWrapped t c) = c) /\
    (forall t, view (connect_of_error (GoPlain t)) = (2%Z, t, [])) /\
    (forall g, proto_of_error d_type d_bytes g = p_of_c (connect_of_error g)) /\
    (forall e t, int32 (p_code e) ->
       same_error (proto_of_error d_type d_bytes (GoConnect (c_of_p e))) e /\
       same_error (proto_of_error d_type d_bytes (GoWrapped t (c_of_p e))) e).
  Proof.
    repeat split; try reflexivity.
    - intros [t|c|t c]; reflexivity.
    - cbn [proto_of_error]. apply (err_roundtrip_connect_proof e H).
    - apply (err_roundtrip_connect_proof e H).
    - apply (err_roundtrip_connect_proof e H).
    - cbn [proto_of_error]. apply (err_roundtrip_connect_proof e H).
    - apply (err_roundtrip_connect_proof e H).
    - apply (err_roundtrip_connect_proof e H).
  Qed.
End ErrorProofs.

(* test-case form -> gRPC status -> test-case form *)
Lemma to_u32_zero z : int32 z -> ((to_u32 z =? 0)%Z = true <-> z = 0%Z).
Proof.
  unfold int32, to_u32, two32. intros H. rewrite Z.eqb_eq. split; [|intros ->; reflexivity].
  intros E. Z.div_mod_to_equations. lia.
Qed.

Lemma err_roundtrip_grpc_proof e :
  int32 (p_code e) ->
  (grpc_of_proto e = None <-> p_code e = 0%Z) /\
  (p_code e <> 0%Z ->
   exists s, grpc_of_proto e = Some s /\
             (g_code s, g_msg s, g_details s) = (p_code e, message_of e, p_details e) /\
             proto_of_grpc (GrpcStatus s) = PErr (p_code e) (Some (message_of e)) (p_details e) /\
             same_error (proto_of_grpc (GrpcStatus s)) e /\
             (forall t, p_code (proto_of_grpc (GrpcWrapped t s)) = p_code e /\
                        p_details (proto_of_grpc (GrpcWrapped t s)) = p_details e)).
Proof.
  intros Hc. pose proof (to_u32_zero _ Hc) as Z0. unfold grpc_of_proto.
  destruct ((to_u32 (p_code e) =? 0)%Z) eqn:E.
  - split; [split; [intros _; apply Z0; reflexivity|reflexivity]|].
    intros NZ. exfalso. apply NZ, Z0. reflexivity.
  - split; [split; [discriminate|intros Hz; apply Z0 in Hz; discriminate]|].
    intros _. eexists. split; [reflexivity|]. cbn [g_code g_msg g_details proto_of_grpc p_code p_details].
    rewrite (to_i32_to_u32 _ Hc). repeat split. apply Forall2_same_detail_refl.
Qed.

(* gRPC status -> test-case form -> gRPC status *)
Lemma err_roundtrip_status_proof s :
  int32 (g_code s) -> g_code s <> 0%Z -> grpc_of_proto (proto_of_grpc (GrpcStatus s)) = Some s.
Proof.
  intros Hc NZ. unfold grpc_of_proto, proto_of_grpc. cbn [p_code p_msg p_details get_msg].
  rewrite (to_i32_to_u32 _ Hc).
  destruct ((to_u32 (g_code s) =? 0)%Z) eqn:E.
  - exfalso. apply NZ. apply (to_u32_zero _ Hc). exact E.
  - destruct s; reflexivity.
Qed.

(* an error that is no status error: code unknown, the text as message *)
Lemma err_plain_grpc_proof t : proto_of_grpc (GrpcPlain t) = PErr 2 (Some t) [].
Proof. reflexivity. Qed.
