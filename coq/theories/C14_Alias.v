(* C14_Alias.v — the aliasing assumption of C14_Model made explicit.

   C14_Model's tracer state holds VALUES: `d_prefix d ++ data` is a new byte string, whatever
   the caller does afterwards with the array `data` was a window of.  Go slices are not values:
   `d.prefix = append(d.prefix, data...)` COPIES the bytes into storage the tracer owns, whereas
   `d.prefix = data` would keep a window of the CALLER's array - an array that io.Copy, bufio,
   http bodies and the http2 framer overwrite as soon as the call has returned, and into whose
   spare capacity a later append() writes.  Value semantics is therefore exactly what the Go
   code has to implement by copying, and it is what the correspondence run checks by handing
   the tracer windows of one re-used array that is scribbled over between the calls
   (harness/C14: verifC14Arena).

   Here the caller's memory is explicit.  `mem` is the caller's array; a call hands over the
   window (pos, n); the tracer's partial prefix is either storage of its own (POwn) or a window
   of the caller's array (PRef).  `retain = false` is the code as it is; `retain = true` is the
   variant that keeps the caller's slice for the first fragment of a split prefix (seeded
   change C14-11).
     copying_proof        (retain = false) for EVERY behaviour of the caller (any rewriting of
                          its memory between the calls, any windows inside it) the tracer never
                          writes to that memory and its events are those of the value model run
                          on the values the windows held when they were handed over;
     C14_Props.alias_variant_refuted
                          (retain = true) a caller that re-uses its buffer gets wrong events AND
                          altered bytes.
   The array is taken to be long enough for an in-place append (spare capacity), which is the
   situation of every caller named above. *)
From Coq Require Import Lia.
From V Require Import C14_Spec C14_Proofs.
Open Scope N_scope.

Definition slice (mem : bytes) (pos n : nat) : bytes := firstn n (skipn pos mem).
Definition overwrite (mem : bytes) (pos : nat) (x : bytes) : bytes :=
  firstn pos mem ++ x ++ skipn (pos + length x) mem.

(* dataTracer.prefix as a Go slice *)
Inductive pref :=
| POwn (b : bytes)          (* backed by storage of the tracer's own *)
| PRef (off len : nat).     (* a window of the caller's array, capacity to its end *)

Definition pref_val (mem : bytes) (p : pref) : bytes :=
  match p with POwn b => b | PRef off len => slice mem off len end.
Definition pref_len (p : pref) : nat := match p with POwn b => length b | PRef _ len => len end.
(* append(prefix, x...): in place when there is spare capacity, i.e. INTO the caller's array *)
Definition pref_append (mem : bytes) (p : pref) (x : bytes) : bytes * pref :=
  match p with
  | POwn b => (mem, POwn (b ++ x))
  | PRef off len => (overwrite mem (off + len) x, PRef off (len + length x))
  end.
(* prefix[:0] *)
Definition pref_reset (p : pref) : pref := match p with POwn _ => POwn [] | PRef off _ => PRef off 0 end.

Definition set_prefix (d : dt) (p : bytes) : dt := mk_dt p (d_env d) (d_expecting d) (d_actual d) (d_end d).

(* caller's memory, the prefix slice, the other fields (d_prefix of ms_dt is not used: []) *)
Record mstate := mk_ms { ms_mem : bytes; ms_pref : pref; ms_dt : dt }.

(* what the value model sees of such a state *)
Definition abs (s : mstate) : dt := set_prefix (ms_dt s) (pref_val (ms_mem s) (ms_pref s)).

(* one action of the caller: it rewrites its memory as it likes (new data, scribbling, moving
   things around), then hands the window (pos, len) to the tracer *)
Record call := mk_call { k_prep : bytes -> bytes; k_pos : nat; k_len : nat }.

Section Mem.
  Variable decompress : bytes -> option bytes.
  Variable c : cfg.
  Variable retain : bool.

  (* tracePrefixLocked / traceMessageLocked on the window (pos, n) of the caller's memory.
     Decisions and events are C14_Model's, computed on the bytes the slices hold NOW; bytes.Buffer
     (the end-stream payload) copies; only the prefix can alias. *)
  Definition mstep (s : mstate) (pos n : nat) : mstate * list tev * nat * bool :=
    let mem := ms_mem s in
    let data := slice mem pos n in
    if d_expecting (abs s) =? 0 then
      match step_prefix c (abs s) data with
      | (d', evs, k, true) =>
        (* d.prefix = append(d.prefix, data[:need]...) ... d.prefix = d.prefix[:0] *)
        let (mem', p1) := pref_append mem (ms_pref s) (firstn k data) in
        (mk_ms mem' (pref_reset p1) (set_prefix d' []), evs, k, true)
      | (d', evs, k, false) =>
        if retain && (pref_len (ms_pref s) =? 0)%nat then
          (* the variant: d.prefix = data *)
          (mk_ms mem (PRef pos n) (set_prefix d' []), evs, k, false)
        else
          (* d.prefix = append(d.prefix, data...) *)
          let (mem', p') := pref_append mem (ms_pref s) data in
          (mk_ms mem' p' (set_prefix d' []), evs, k, false)
      end
    else
      match step_message decompress c (abs s) data with
      | (d', evs, k, done) => (mk_ms mem (ms_pref s) (set_prefix d' []), evs, k, done)
      end.

  Fixpoint mloop (fuel : nat) (s : mstate) (pos n : nat) : mstate * list tev :=
    match fuel with
    | O => (s, [])
    | S f =>
      match n with
      | O => (s, [])
      | S _ =>
        let '(s', evs, k, done) := mstep s pos n in
        if done then
          let (s'', evs') := mloop f s' (pos + k) (n - k) in (s'', evs ++ evs')
        else (s', evs)
      end
    end.

  (* dataTracer.trace(data) with data = mem[pos : pos+n] *)
  Definition mtrace (s : mstate) (pos n : nat) : mstate * list tev :=
    if negb (c_stream c) then
      let d := ms_dt s in
      (mk_ms (ms_mem s) (ms_pref s)
             (mk_dt (d_prefix d) (d_env d) (d_expecting d) (d_actual d + N.of_nat n) (d_end d)), [])
    else mloop (S n) s pos n.

  (* the calls one after the other; also what the application finds in each window once the
     call has returned *)
  Fixpoint mfeed (s : mstate) (calls : list call) : mstate * list tev * list bytes :=
    match calls with
    | [] => (s, [], [])
    | k :: rest =>
      let s0 := mk_ms (k_prep k (ms_mem s)) (ms_pref s) (ms_dt s) in
      let (s1, e1) := mtrace s0 (k_pos k) (k_len k) in
      let '(s2, e2, seen) := mfeed s1 rest in
      (s2, e1 ++ e2, slice (ms_mem s1) (k_pos k) (k_len k) :: seen)
    end.

  (* as raw_events: the calls, then what tryFinish(nil) does.  Result: the events, what the
     application saw, the caller's memory at the end *)
  Definition mem_run (mem : bytes) (calls : list call) : list event * list bytes * bytes :=
    let '(s, evs, seen) := mfeed (mk_ms mem (POwn []) dt_init) calls in
    let b := b_add_all (c_req c) bld_init evs in
    (b_events (w_b (try_finish c (mk_ws false (abs s) b) ENil)), seen, ms_mem s).
End Mem.

(* what the windows hold when they are handed over, and the memory at the end, if nobody but the
   caller ever writes to it *)
Fixpoint handed (mem : bytes) (calls : list call) : list bytes :=
  match calls with
  | [] => []
  | k :: rest => let m := k_prep k mem in slice m (k_pos k) (k_len k) :: handed m rest
  end.
Fixpoint mem_after (mem : bytes) (calls : list call) : bytes :=
  match calls with
  | [] => mem
  | k :: rest => mem_after (k_prep k mem) rest
  end.
(* every window lies inside the caller's memory *)
Fixpoint windows_inside (mem : bytes) (calls : list call) : Prop :=
  match calls with
  | [] => True
  | k :: rest => let m := k_prep k mem in (k_pos k + k_len k <= length m)%nat /\ windows_inside m rest
  end.

(* a caller that re-uses ONE buffer at position `at_` of an array of `size` bytes: before each
   call the whole array is scribbled over (with `fill`), then the chunk is put into the buffer *)
Definition reuse_calls (size at_ : nat) (fill : N) (chunks : list bytes) : list call :=
  map (fun ch => mk_call (fun _ => overwrite (repeat fill size) at_ ch) at_ (length ch)) chunks.
(* a caller that gives every call a region of its own, `gap` bytes after the previous one, and
   leaves everything in place (gap = 0: io.ReadAll) *)
Fixpoint spread_calls (gap at_ : nat) (chunks : list bytes) : list call :=
  match chunks with
  | [] => []
  | ch :: rest =>
    mk_call (fun m => overwrite m at_ ch) at_ (length ch) :: spread_calls gap (at_ + length ch + gap) rest
  end.

(* ---------------------------------------------------------------------------------------- *)
(* the copying tracer (the code as it is) implements the value model, whatever the caller does *)

Lemma skipn_skipn_add {A} : forall (a b : nat) (l : list A), skipn a (skipn b l) = skipn (b + a) l.
Proof.
  intros a b; revert a. induction b as [|b IH]; intros a l; [reflexivity|].
  destruct l as [|x l]; [destruct a; reflexivity|]. simpl. apply IH.
Qed.

Lemma slice_skip mem pos n k : slice mem (pos + k) (n - k) = skipn k (slice mem pos n).
Proof. unfold slice. rewrite skipn_firstn_comm, skipn_skipn_add. reflexivity. Qed.

Lemma set_prefix_eta d : set_prefix (set_prefix d []) (d_prefix d) = d.
Proof. destruct d; reflexivity. Qed.

Section Copying.
  Variable decompress : bytes -> option bytes.
  Variable c : cfg.

  Definition owns (s : mstate) : Prop := exists b, ms_pref s = POwn b.

  Local Opaque prefix_len.

  Lemma mstep_own s pos n d' evs k done :
    owns s ->
    step decompress c (abs s) (slice (ms_mem s) pos n) = (d', evs, k, done) ->
    mstep decompress c false s pos n =
    (mk_ms (ms_mem s) (POwn (d_prefix d')) (set_prefix d' []), evs, k, done).
  Proof.
    intros [b Hb]. unfold step, mstep. destruct s as [mem p d]; cbn [ms_mem ms_pref ms_dt] in *. subst p.
    set (a := abs (mk_ms mem (POwn b) d)). set (data := slice mem pos n).
    destruct (d_expecting a =? 0).
    - intros HS. rewrite HS. cbn [andb pref_append ms_pref ms_mem].
      unfold step_prefix in HS.
      destruct (length data <? prefix_len - length (d_prefix a))%nat.
      + injection HS; intros; subst. reflexivity.
      + cbv zeta in HS.
        repeat match type of HS with context [if ?b then _ else _] => destruct b end;
          injection HS; intros; subst; reflexivity.
    - intros HS. rewrite HS. cbn [ms_pref ms_mem].
      unfold step_message in HS.
      destruct (blen data <? d_expecting a - d_actual a);
        injection HS; intros; subst; reflexivity.
  Qed.

  Lemma mloop_own : forall f s pos n s' evs,
    owns s -> length (slice (ms_mem s) pos n) = n ->
    mloop decompress c false f s pos n = (s', evs) ->
    ms_mem s' = ms_mem s /\ owns s' /\
    trace_loop decompress c f (abs s) (slice (ms_mem s) pos n) = (abs s', evs).
  Proof.
    induction f as [|f IH]; intros s pos n s' evs Ho Hl HM.
    - injection HM; intros; subst. repeat split; auto.
    - destruct n as [|n'].
      + injection HM; intros; subst. repeat split; auto.
      + cbn [mloop] in HM.
        destruct (slice (ms_mem s) pos (S n')) as [|x r] eqn:ES; [discriminate|].
        cbn [trace_loop]. fold (step decompress c (abs s) (x :: r)).
        destruct (step decompress c (abs s) (x :: r)) as [[[d' e1] k] done] eqn:HS.
        rewrite <- ES in HS. rewrite (mstep_own _ _ _ _ _ _ _ Ho HS) in HM.
        pose proof (set_prefix_eta d') as A1.
        destruct done.
        * destruct (mloop decompress c false f (mk_ms (ms_mem s) (POwn (d_prefix d')) (set_prefix d' []))
                          (pos + k) (S n' - k)) as [s2 e2] eqn:HM2.
          injection HM; intros; subst s' evs.
          assert (Hl2 : length (slice (ms_mem s) (pos + k) (S n' - k)) = (S n' - k)%nat)
            by (rewrite slice_skip, ES, skipn_length, Hl; reflexivity).
          assert (O1 : owns (mk_ms (ms_mem s) (POwn (d_prefix d')) (set_prefix d' [])))
            by (eexists; reflexivity).
          destruct (IH _ _ _ _ _ O1 Hl2 HM2) as (M & O & T).
          cbn [ms_mem] in M, T. unfold abs at 1 in T. cbn [ms_dt ms_pref ms_mem pref_val] in T.
          rewrite A1, slice_skip, ES in T. rewrite T.
          repeat split; auto.
        * injection HM; intros; subst s' evs. unfold abs. cbn [ms_dt ms_pref ms_mem pref_val].
          rewrite A1. repeat split; auto.
          exists (d_prefix d'). reflexivity.
  Qed.

  Lemma mtrace_own s pos n s' evs :
    owns s -> d_prefix (ms_dt s) = [] -> (pos + n <= length (ms_mem s))%nat ->
    mtrace decompress c false s pos n = (s', evs) ->
    ms_mem s' = ms_mem s /\ owns s' /\ d_prefix (ms_dt s') = [] /\
    trace decompress c (abs s) (slice (ms_mem s) pos n) = (abs s', evs).
  Proof.
    intros Ho Hp Hin. assert (Hl : length (slice (ms_mem s) pos n) = n).
    { unfold slice. rewrite firstn_length, skipn_length. lia. }
    unfold mtrace, trace. destruct (c_stream c); cbn [negb].
    - rewrite Hl. intros HM. destruct (mloop_own _ _ _ _ _ _ Ho Hl HM) as (M & O & T).
      repeat split; auto.
      (* the loop leaves d_prefix of ms_dt empty *)
      clear - HM Hp Ho. revert HM. generalize (S n) as f. intros f. revert s pos n s' evs Ho Hp.
      induction f as [|f IH]; intros s pos n s' evs Ho Hp HM.
      + injection HM; intros; subst; auto.
      + destruct n as [|n']; [injection HM; intros; subst; auto|].
        cbn [mloop] in HM.
        destruct (step decompress c (abs s) (slice (ms_mem s) pos (S n'))) as [[[d' e1] k] done] eqn:HS.
        rewrite (mstep_own _ _ _ _ _ _ _ Ho HS) in HM. destruct done.
        * destruct (mloop decompress c false f _ (pos + k) (S n' - k)) as [s2 e2] eqn:HM2.
          injection HM; intros; subst.
          eapply IH; [| |exact HM2]; [eexists; reflexivity|reflexivity].
        * injection HM; intros; subst. reflexivity.
    - intros HM; injection HM; intros; subst; clear HM. destruct Ho as [b Hb].
      destruct s as [mem p d]; cbn [ms_mem ms_pref ms_dt] in *; subst.
      repeat split; auto; [eexists; reflexivity|].
      unfold abs, set_prefix, blen; cbn. rewrite Hl. reflexivity.
  Qed.

  Lemma mfeed_own : forall calls s s' evs seen,
    owns s -> d_prefix (ms_dt s) = [] -> windows_inside (ms_mem s) calls ->
    mfeed decompress c false s calls = (s', evs, seen) ->
    ms_mem s' = mem_after (ms_mem s) calls /\ seen = handed (ms_mem s) calls /\ owns s' /\
    feed decompress c (abs s) (handed (ms_mem s) calls) = (abs s', evs).
  Proof.
    induction calls as [|k rest IH]; intros s s' evs seen Ho Hp Hw HM.
    - injection HM; intros; subst. repeat split; auto.
    - cbn [mfeed] in HM. destruct Hw as [Hin Hw]. cbn zeta in Hin, Hw.
      set (s0 := mk_ms (k_prep k (ms_mem s)) (ms_pref s) (ms_dt s)) in *.
      destruct (mtrace decompress c false s0 (k_pos k) (k_len k)) as [s1 e1] eqn:HT.
      destruct (mfeed decompress c false s1 rest) as [[s2 e2] seen2] eqn:HF.
      injection HM; intros; subst.
      destruct (mtrace_own s0 _ _ _ _ Ho Hp Hin HT) as (M1 & O1 & P1 & T1).
      cbn [ms_mem s0] in M1, T1. rewrite <- M1 in Hw.
      destruct (IH _ _ _ _ O1 P1 Hw HF) as (M2 & S2 & O2 & F2).
      rewrite M1 in M2, S2, F2.
      cbn [mem_after handed feed]. repeat split; auto.
      + rewrite M1, S2. reflexivity.
      + assert (A0 : abs s0 = abs s).
        { destruct Ho as [b Hb]. unfold abs, s0; cbn [ms_dt ms_pref ms_mem]. rewrite Hb. reflexivity. }
        rewrite <- A0, T1, F2. reflexivity.
  Qed.

  (* the statement used in C14_Props *)
  Lemma copying_proof : forall mem calls,
    windows_inside mem calls ->
    mem_run decompress c false mem calls =
    (raw_events decompress c (handed mem calls), handed mem calls, mem_after mem calls).
  Proof.
    intros mem calls Hw. unfold mem_run, raw_events.
    destruct (mfeed decompress c false (mk_ms mem (POwn []) dt_init) calls) as [[s evs] seen] eqn:HF.
    assert (O0 : owns (mk_ms mem (POwn []) dt_init)) by (eexists; reflexivity).
    destruct (mfeed_own _ _ _ _ _ O0 eq_refl Hw HF) as (M & S & O & F).
    cbn [ms_mem] in M, S, F. change (abs (mk_ms mem (POwn []) dt_init)) with dt_init in F.
    rewrite F, M, S. reflexivity.
  Qed.
End Copying.

(* ... and hence the declarative parse of everything that was handed over *)
Lemma copying_spec_proof : forall decompress c mem calls,
  windows_inside mem calls ->
  mem_run decompress c false mem calls =
  (expected_events decompress c (concat (handed mem calls)) ENil, handed mem calls, mem_after mem calls).
Proof. intros. rewrite copying_proof by assumption. rewrite raw_events_proof. reflexivity. Qed.

(* a caller that re-uses one buffer at the start of its array without scribbling (io.Copy) *)
Definition plain_reuse_calls (chunks : list bytes) : list call :=
  map (fun ch => mk_call (fun m => overwrite m 0 ch) 0 (length ch)) chunks.
