(* C15_Proofs.v — L2 (chunking independence of the frame tracer) and L1 (transparency). *)
From Coq Require Import Lia.
From V Require Export C15_Spec.
Open Scope N_scope.

(* ---------------------------------------------------------------------------------------- *)
(* take                                                                                     *)
(* ---------------------------------------------------------------------------------------- *)
Lemma len_app {A} (a b : list A) : len (a ++ b) = len a + len b.
Proof. unfold len. rewrite app_length. lia. Qed.

Lemma cons_ne {A} (x : A) l : x :: l <> [].
Proof. discriminate. Qed.

Lemma take_short need a : len a < need -> take need a = (a, None).
Proof. intros H. unfold take. apply N.ltb_lt in H. rewrite H. reflexivity. Qed.

Lemma take_full need a :
  need <= len a -> take need a = (firstn (N.to_nat need) a, Some (skipn (N.to_nat need) a)).
Proof. intros H. unfold take. destruct (N.ltb_spec (len a) need); [lia|reflexivity]. Qed.

Lemma take_app_ge need a b :
  need <= len a ->
  take need (a ++ b) = (firstn (N.to_nat need) a, Some (skipn (N.to_nat need) a ++ b)).
Proof.
  intros H. rewrite take_full by (rewrite len_app; lia).
  unfold len in H.
  rewrite firstn_app, skipn_app.
  replace (N.to_nat need - length a)%nat with 0%nat by lia.
  simpl. rewrite app_nil_r. reflexivity.
Qed.

Lemma take_app_lt need a b :
  len a < need ->
  take need (a ++ b) = match take (need - len a) b with (d, r) => (a ++ d, r) end.
Proof.
  intros H. unfold take at 2.
  destruct (N.ltb_spec (len b) (need - len a)) as [L|L].
  - rewrite take_short by (rewrite len_app; lia). reflexivity.
  - rewrite take_full by (rewrite len_app; lia).
    unfold len in *.
    rewrite firstn_app, skipn_app.
    replace (N.to_nat need - length a)%nat with (N.to_nat (need - N.of_nat (length a))) by lia.
    rewrite (firstn_all2 a) by lia. rewrite (skipn_all2 a) by lia. reflexivity.
Qed.

Lemma take_some_shorter need a d r :
  0 < need -> take need a = (d, Some r) -> (length r < length a)%nat.
Proof.
  intros Hn. unfold take. destruct (N.ltb_spec (len a) need); [discriminate|].
  intros E; inversion E; subst. rewrite skipn_length. unfold len in *. lia.
Qed.

Section L2.
Variable dec : list bytes -> bytes -> option (list field).

(* ---------------------------------------------------------------------------------------- *)
(* invariant of the frame tracer                                                            *)
(* ---------------------------------------------------------------------------------------- *)
Definition wf (st : ftr) : Prop :=
  (length (f_prefix st) < 9)%nat /\
  ((f_expect st = 0 /\ f_actual st = 0) \/ f_actual st < f_expect st).

Lemma wf_init isreq : wf (ft_init isreq).
Proof. split; simpl; [lia|left; split; reflexivity]. Qed.

Lemma emit_frame_shape st st2 out ok :
  emit_frame dec st = (st2, out, ok) ->
  f_prefix st2 = f_prefix st /\ f_expect st2 = f_expect st /\ f_actual st2 = f_actual st /\
  f_isreq st2 = f_isreq st /\ f_pre st2 = f_pre st /\
  (ok = true -> f_broken st2 = f_broken st) /\ (ok = false -> f_broken st2 = true /\ out = []).
Proof.
  unfold emit_frame.
  destruct (((h_typ (f_hdr st) =? 1) || (h_typ (f_hdr st) =? 9) && f_inblock st) && negb (flag (f_hdr st) 2)).
  - intros E; inversion E; subst; simpl. repeat split; auto; discriminate.
  - destruct (parse_buf dec (f_hist st) (f_buf st)) as [[fr h']|];
      intros E; inversion E; subst; simpl; repeat split; auto; discriminate.
Qed.

(* ---------------------------------------------------------------------------------------- *)
(* one loop iteration on a ++ b                                                             *)
(* ---------------------------------------------------------------------------------------- *)
Ltac proj := cbn [f_isreq f_pre f_broken f_prefix f_hdr f_buf f_expect f_actual f_inblock f_hist andb fst snd].
Ltac proj_in H := cbn [f_isreq f_pre f_broken f_prefix f_hdr f_buf f_expect f_actual f_inblock f_hist andb fst snd] in H.

Lemma step_app st a b st1 out k :
  wf st -> a <> [] -> ft_step dec st a = (st1, out, k) ->
  match k with
  | Some ra =>
      ft_step dec st (a ++ b) = (st1, out, Some (ra ++ b)) /\ wf st1 /\ f_broken st1 = f_broken st /\
      (length ra < length a)%nat
  | None =>
      (f_broken st1 = true /\ ft_step dec st (a ++ b) = (st1, out, None)) \/
      (f_broken st1 = f_broken st /\ out = [] /\ wf st1 /\ (b <> [] -> ft_step dec st (a ++ b) = ft_step dec st1 b))
  end.
Proof.
  intros [Wp We] Ha E.
  assert (La : 0 < len a) by (destruct a; [congruence|unfold len; simpl length; lia]).
  remember (ft_step dec st (a ++ b)) as X eqn:EX.
  unfold ft_step in E, EX.
  destruct (f_isreq st && (len (f_pre st) <? 24)) eqn:Pre.
  { (* preface *)
    apply andb_true_iff in Pre. destruct Pre as [Pq Pl]. apply N.ltb_lt in Pl.
    remember (24 - len (f_pre st)) as need eqn:Hneed.
    destruct (N.ltb_spec (len a) need) as [L|L].
    - rewrite (take_short _ a L) in E. rewrite (take_app_lt _ a b L) in EX.
      inversion E; subst st1 out k; clear E; subst X.
      right. unfold wf. proj. repeat split; auto.
      intros Hb. unfold ft_step. proj. rewrite Pq. rewrite len_app.
      replace (len (f_pre st) + len a <? 24) with true by (symmetry; apply N.ltb_lt; lia). proj.
      replace (24 - (len (f_pre st) + len a)) with (need - len a) by lia.
      destruct (take (need - len a) b) as [d [r|]]; rewrite ?app_assoc; reflexivity.
    - rewrite (take_full _ a L) in E. rewrite (take_app_ge _ a b L) in EX.
      destruct (bytes_eqb (f_pre st ++ firstn (N.to_nat need) a) preface);
        inversion E; subst st1 out k; clear E; subst X.
      + unfold wf. proj. repeat split; auto. rewrite skipn_length. unfold len in *. lia.
      + left. proj. split; reflexivity. }
  destruct (f_expect st =? 0) eqn:Ex.
  { (* frame header *)
    apply N.eqb_eq in Ex.
    assert (Act : f_actual st = 0) by (destruct We as [[_ ?]|?]; [assumption|lia]).
    assert (Lp : len (f_prefix st) < 9) by (unfold len; lia).
    remember (9 - len (f_prefix st)) as need eqn:Hneed.
    destruct (N.ltb_spec (len a) need) as [L|L].
    - rewrite (take_short _ a L) in E. rewrite (take_app_lt _ a b L) in EX.
      inversion E; subst st1 out k; clear E; subst X.
      right. unfold wf. proj. repeat split; auto.
      + rewrite app_length. unfold len in *. lia.
      + intros Hb. unfold ft_step. proj. rewrite Pre.
        replace (f_expect st =? 0) with true by (symmetry; apply N.eqb_eq; assumption).
        rewrite len_app.
        replace (9 - (len (f_prefix st) + len a)) with (need - len a) by lia.
        destruct (take (need - len a) b) as [d [r|]]; rewrite ?app_assoc; reflexivity.
    - rewrite (take_full _ a L) in E. rewrite (take_app_ge _ a b L) in EX.
      set (d := firstn (N.to_nat need) a) in *.
      assert (Lr : (length (skipn (N.to_nat need) a) < length a)%nat)
        by (rewrite skipn_length; unfold len in *; lia).
      destruct (h_len (parse_hdr (f_prefix st ++ d)) =? 0) eqn:Z.
      + destruct (emit_frame dec _) as [[st2 out2] ok] eqn:EF.
        apply emit_frame_shape in EF. proj_in EF.
        destruct EF as (E1 & E2 & E3 & E4 & E5 & E6 & E7).
        apply N.eqb_eq in Z.
        destruct ok; inversion E; subst st1 out k; clear E; subst X.
        * unfold wf. proj. repeat split; auto; try (rewrite E1; simpl; lia); try (left; rewrite E2, E3; proj; auto).
        * left. destruct (E7 eq_refl). split; [assumption|reflexivity].
      + apply N.eqb_neq in Z. inversion E; subst st1 out k; clear E; subst X.
        unfold wf. proj. repeat split; auto; try (simpl; lia). }
  { (* frame payload *)
    apply N.eqb_neq in Ex.
    assert (Lt : f_actual st < f_expect st) by (destruct We as [[? _]|?]; [congruence|assumption]).
    remember (f_expect st - f_actual st) as need eqn:Hneed.
    destruct (N.ltb_spec (len a) need) as [L|L].
    - rewrite (take_short _ a L) in E. rewrite (take_app_lt _ a b L) in EX.
      inversion E; subst st1 out k; clear E; subst X.
      right. unfold wf. proj. repeat split; auto.
      + right. lia.
      + intros Hb. unfold ft_step. proj. rewrite Pre.
        replace (f_expect st =? 0) with false by (symmetry; apply N.eqb_neq; assumption).
        replace (f_expect st - (f_actual st + len a)) with (need - len a) by lia.
        destruct (take (need - len a) b) as [d [r|]];
          rewrite ?app_assoc, ?len_app, ?N.add_assoc; reflexivity.
    - rewrite (take_full _ a L) in E. rewrite (take_app_ge _ a b L) in EX.
      assert (Lr : (length (skipn (N.to_nat need) a) < length a)%nat)
        by (rewrite skipn_length; unfold len in *; lia).
      destruct (emit_frame dec _) as [[st2 out2] ok] eqn:EF.
      apply emit_frame_shape in EF. proj_in EF.
      destruct EF as (E1 & E2 & E3 & E4 & E5 & E6 & E7).
      destruct ok; inversion E; subst st1 out k; clear E; subst X.
      * unfold wf. proj. repeat split; auto; try (rewrite E1; assumption); try (left; rewrite E2, E3; auto).
      * left. destruct (E7 eq_refl). split; [assumption|reflexivity]. }
Qed.

(* a single step, without a continuation in mind *)
Lemma step_some st a st1 out ra :
  wf st -> a <> [] -> ft_step dec st a = (st1, out, Some ra) ->
  wf st1 /\ f_broken st1 = f_broken st /\ (length ra < length a)%nat.
Proof.
  intros W Ha E. pose proof (step_app st a [] _ _ _ W Ha E) as S. simpl in S. tauto.
Qed.

(* ---------------------------------------------------------------------------------------- *)
(* fuel                                                                                     *)
(* ---------------------------------------------------------------------------------------- *)
Lemma ft_loop_fuel : forall f1 f2 st d,
  wf st -> (length d <= f1)%nat -> (length d <= f2)%nat -> ft_loop dec f1 st d = ft_loop dec f2 st d.
Proof.
  induction f1 as [|f1 IH]; intros f2 st d W L1 L2.
  - destruct d; [destruct f2; reflexivity|simpl in L1; lia].
  - destruct d as [|x d]; [destruct f2; reflexivity|].
    destruct f2 as [|f2]; [simpl in L2; lia|].
    cbn [ft_loop].
    destruct (ft_step dec st (x :: d)) as [[st1 out] [ra|]] eqn:E; [|reflexivity].
    destruct (step_some _ _ _ _ _ W (cons_ne _ _) E) as (W1 & _ & Lr).
    simpl in Lr, L1, L2.
    rewrite (IH f2 st1 ra W1) by lia. reflexivity.
Qed.

(* ---------------------------------------------------------------------------------------- *)
(* trace (a ++ b) = trace a ; trace b                                                       *)
(* ---------------------------------------------------------------------------------------- *)
Lemma ft_loop_app : forall n a st b,
  (length a <= n)%nat -> wf st -> f_broken st = false ->
  ft_loop dec (length (a ++ b)) st (a ++ b) =
  match ft_loop dec (length a) st a with
  | (st1, o1) => match ft_trace dec st1 b with (st2, o2) => (st2, o1 ++ o2) end
  end.
Proof.
  induction n as [|n IH]; intros a st b Ln W Br.
  - destruct a; [|simpl in Ln; lia]. simpl. unfold ft_trace. rewrite Br.
    destruct (ft_loop dec (length b) st b); reflexivity.
  - destruct a as [|x a].
    { simpl. unfold ft_trace. rewrite Br. destruct (ft_loop dec (length b) st b); reflexivity. }
    change (length ((x :: a) ++ b)) with (S (length (a ++ b))).
    change ((x :: a) ++ b) with (x :: (a ++ b)) in *.
    cbn [ft_loop length].
    destruct (ft_step dec st (x :: a)) as [[st1 out] k] eqn:E.
    pose proof (step_app st (x :: a) b _ _ _ W (cons_ne _ _) E) as S.
    change ((x :: a) ++ b) with (x :: (a ++ b)) in S.
    destruct k as [ra|].
    + destruct S as (S1 & W1 & B1 & Lr). rewrite S1.
      simpl in Lr, Ln.
      rewrite (ft_loop_fuel (length (a ++ b)) (length (ra ++ b)) st1 (ra ++ b) W1)
        by (rewrite ?app_length; lia).
      rewrite (IH ra st1 b) by (try lia; congruence).
      rewrite (ft_loop_fuel (length a) (length ra) st1 ra W1) by lia.
      destruct (ft_loop dec (length ra) st1 ra) as [s2 o2].
      destruct (ft_trace dec s2 b) as [s3 o3]. rewrite app_assoc. reflexivity.
    + destruct S as [[B1 S1]|(B1 & Oe & W1 & S1)].
      * rewrite S1. unfold ft_trace. rewrite B1. rewrite app_nil_r. reflexivity.
      * subst out. destruct b as [|y b].
        { rewrite app_nil_r. rewrite E. unfold ft_trace. destruct (f_broken st1); reflexivity. }
        rewrite (S1 (cons_ne _ _)).
        unfold ft_trace. rewrite B1, Br. cbn [ft_loop length].
        destruct (ft_step dec st1 (y :: b)) as [[s2 o2] [rb|]] eqn:E2; [|reflexivity].
        destruct (step_some _ _ _ _ _ W1 (cons_ne _ _) E2) as (W2 & _ & Lb). simpl in Lb.
        rewrite (ft_loop_fuel (length (a ++ y :: b)) (length b) s2 rb W2)
          by (rewrite ?app_length; simpl; lia).
        destruct (ft_loop dec (length b) s2 rb); reflexivity.
Qed.

Lemma ft_loop_wf : forall n st d st1 o,
  (length d <= n)%nat -> wf st -> ft_loop dec (length d) st d = (st1, o) -> wf st1.
Proof.
  induction n as [|n IH]; intros st d st1 o Ln W E.
  - destruct d; [|simpl in Ln; lia]. simpl in E. inversion E; subst; assumption.
  - destruct d as [|x d]; [simpl in E; inversion E; subst; assumption|].
    cbn [ft_loop length] in E.
    destruct (ft_step dec st (x :: d)) as [[s1 out] k] eqn:E1.
    pose proof (step_app st (x :: d) [] _ _ _ W (cons_ne _ _) E1) as S.
    destruct k as [ra|].
    + destruct S as (_ & W1 & _ & Lr). simpl in Lr, Ln.
      rewrite (ft_loop_fuel (length d) (length ra) s1 ra W1) in E by lia.
      destruct (ft_loop dec (length ra) s1 ra) as [s2 o2] eqn:E2.
      inversion E; subst. eapply (IH s1 ra); [lia|exact W1|exact E2].
    + inversion E; subst.
      destruct S as [[B1 _]|(_ & _ & W1 & _)]; [|assumption].
      (* broken after a failed parse or a bad preface: the counters are those of a legal state *)
      clear - W E1. unfold ft_step in E1.
      destruct (f_isreq st && (len (f_pre st) <? 24)).
      { destruct (take _ _) as [dd [r|]]; [destruct (bytes_eqb _ _)|]; inversion E1; subst; exact W. }
      destruct W as [Wp We].
      destruct (f_expect st =? 0) eqn:Ex.
      { apply N.eqb_eq in Ex.
        assert (Act : f_actual st = 0) by (destruct We as [[_ ?]|?]; [assumption|lia]).
        destruct (take _ _) as [dd [r|]] eqn:T.
        - destruct (h_len _ =? 0) eqn:Z; [|inversion E1].
          destruct (emit_frame dec _) as [[s2 o2] ok] eqn:EF. apply emit_frame_shape in EF. simpl in EF.
          destruct EF as (F1 & F2 & F3 & _). destruct ok; inversion E1; subst.
          apply N.eqb_eq in Z. split; [rewrite F1; simpl; lia|left; rewrite F2, F3, Z; auto].
        - inversion E1; subst. split; simpl; [|auto].
          unfold take in T. destruct (N.ltb_spec (len (x :: d)) (9 - len (f_prefix st))); inversion T; subst.
          rewrite app_length. unfold len in *. lia. }
      { apply N.eqb_neq in Ex.
        destruct (take _ _) as [dd [r|]] eqn:T.
        - destruct (emit_frame dec _) as [[s2 o2] ok] eqn:EF. apply emit_frame_shape in EF. simpl in EF.
          destruct EF as (F1 & F2 & F3 & _). destruct ok; inversion E1; subst.
          split; [rewrite F1; assumption|left; rewrite F2, F3; auto].
        - inversion E1; subst. split; simpl; [assumption|].
          unfold take in T. destruct (N.ltb_spec (len (x :: d)) (f_expect st - f_actual st)); inversion T; subst.
          right. destruct We as [[? _]|?]; [congruence|lia]. }
Qed.

Lemma ft_trace_wf st d st1 o : wf st -> ft_trace dec st d = (st1, o) -> wf st1.
Proof.
  intros W. unfold ft_trace. destruct (f_broken st).
  - intros E; inversion E; subst; assumption.
  - intros E. eapply ft_loop_wf; [apply le_n|exact W|exact E].
Qed.

Lemma ft_trace_app st a b :
  wf st ->
  ft_trace dec st (a ++ b) =
  match ft_trace dec st a with
  | (st1, o1) => match ft_trace dec st1 b with (st2, o2) => (st2, o1 ++ o2) end
  end.
Proof.
  intros W. unfold ft_trace at 1 2. destruct (f_broken st) eqn:Br.
  - unfold ft_trace. rewrite Br. reflexivity.
  - apply (ft_loop_app (length a)); auto.
Qed.

(* chunk by chunk = all at once, from any legal state: final tracer state and emitted frames *)
Lemma ft_feed_concat : forall chunks st,
  wf st -> ft_feed dec st chunks = ft_trace dec st (concat chunks).
Proof.
  induction chunks as [|c r IH]; intros st W.
  - simpl. unfold ft_trace. destruct (f_broken st); reflexivity.
  - simpl. rewrite ft_trace_app by assumption.
    destruct (ft_trace dec st c) as [st1 o1] eqn:E.
    rewrite IH by (eapply ft_trace_wf; eauto). reflexivity.
Qed.

Lemma chunking_independent_proof : forall isreq chunks,
  ft_feed dec (ft_init isreq) chunks = ft_trace dec (ft_init isreq) (concat chunks).
Proof. intros. apply ft_feed_concat, wf_init. Qed.

Lemma same_bytes_same_frames_proof : forall isreq chunks chunks',
  concat chunks = concat chunks' ->
  ft_feed dec (ft_init isreq) chunks = ft_feed dec (ft_init isreq) chunks'.
Proof. intros. rewrite !chunking_independent_proof. congruence. Qed.

Lemma frames_are_the_one_shot_parse_proof : forall isreq chunks,
  snd (ft_feed dec (ft_init isreq) chunks) = one_shot dec isreq (concat chunks).
Proof. intros. unfold one_shot. rewrite chunking_independent_proof. reflexivity. Qed.

(* broken is absorbing: nothing is emitted any more, the state no longer moves *)
Lemma broken_absorbing_proof : forall st chunks,
  f_broken st = true -> ft_feed dec st chunks = (st, []).
Proof.
  intros st chunks B. induction chunks as [|c r IH]; [reflexivity|].
  simpl. unfold ft_trace. rewrite B. rewrite IH. reflexivity.
Qed.

End L2.

(* ---------------------------------------------------------------------------------------- *)
(* L1: what the caller sees                                                                 *)
(* ---------------------------------------------------------------------------------------- *)
Section L1.
Variable dec_r dec_w : list bytes -> bytes -> option (list field).

Lemma transparent_op_proof : forall c o c' r,
  conn_op dec_r dec_w c o = Some (c', r) -> transparent_res o r.
Proof.
  intros c o c' r. destruct o as [data e|data k e|e|n]; simpl.
  - destruct (ft_trace dec_r (c_rd c) data) as [rd frames].
    destruct (sm_frames _ _ _ _) as [[m acts]|]; [|discriminate].
    destruct ((e =? 0) || (e =? 2)).
    + intros E; inversion E; subst; simpl; auto.
    + destruct (cancel_conn _); [|discriminate]. intros E; inversion E; subst; simpl; auto.
  - destruct (ft_trace dec_w (c_wr c) data) as [wr frames].
    destruct (sm_frames _ _ _ _) as [[m acts]|]; [|discriminate].
    destruct (e =? 0).
    + intros E; inversion E; subst; simpl; auto.
    + destruct (cancel_conn _); [|discriminate]. intros E; inversion E; subst; simpl; auto.
  - destruct (cancel_conn _); [|discriminate]. intros E; inversion E; subst; simpl; auto.
  - intros E; inversion E; subst; simpl; auto.
Qed.

Lemma transparent_run_proof : forall ops c c' rs,
  conn_run dec_r dec_w c ops = Some (c', rs) -> Forall2 transparent_res ops rs.
Proof.
  induction ops as [|o r IH]; intros c c' rs; simpl.
  - intros E; inversion E; constructor.
  - destruct (conn_op dec_r dec_w c o) as [[c1 x]|] eqn:E1; [|discriminate].
    destruct (conn_run dec_r dec_w c1 r) as [[c2 xs]|] eqn:E2; [|discriminate].
    intros E; inversion E; subst. constructor; [eapply transparent_op_proof; eauto|eapply IH; eauto].
Qed.

(* whatever the tracer's state (broken or not, mid-frame or not) and whatever bytes arrive *)
Lemma broken_conn_transparent_proof : forall c data e c' r,
  f_broken (c_rd c) = true -> conn_op dec_r dec_w c (ORead data e) = Some (c', r) ->
  r = RRead data e /\ c_rd c' = c_rd c.
Proof.
  intros c data e c' r B. simpl. unfold ft_trace. rewrite B. simpl.
  destruct ((e =? 0) || (e =? 2)).
  - intros E; inversion E; subst; simpl; auto.
  - unfold cancel_conn. simpl. destruct (sm_cancel _ _ _) as [[m acts]|]; [|discriminate].
    intros E; inversion E; subst; simpl; auto.
Qed.
End L1.
