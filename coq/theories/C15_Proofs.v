From V Require Export C15_Spec.
