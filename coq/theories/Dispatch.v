(* Dispatch.v — generic dispatch from case kind to model entry point.  A case is
   (kind id args...); the result line is (id result).  Each property's model
   file defines its own table  cNN_table : list (bytes * (list sx -> sx)). *)
From V Require Import Base.

Definition table_t := list (bytes * (list sx -> sx)).

Fixpoint find_kind (k : bytes) (t : table_t) : option (list sx -> sx) :=
  match t with
  | [] => None
  | (k', f) :: t' => if bytes_eqb k k' then Some f else find_kind k t'
  end.

Definition dispatch_with (table : table_t) (c : sx) : sx :=
  match c with
  | L (B kind :: id :: args) =>
    match find_kind kind table with
    | Some f => L [id; f args]
    | None => L [id; L [B (bs "unknown-kind")]]
    end
  | _ => L [B (bs "bad-line")]
  end.

(* decimal conversion for the driver (so that arbitrary-size integers need no
   hand-written bignum code in OCaml) *)
Definition z_of_dec (neg : bool) (ds : list N) : Z :=
  let v := fold_left (fun acc d => acc * 10 + Z.of_N d)%Z ds 0%Z in
  if neg then Z.opp v else v.

Fixpoint dec_digits (fuel : nat) (n : N) (acc : list N) : list N :=
  match fuel with
  | O => acc
  | S f => if n <? 10 then n :: acc else dec_digits f (n / 10) (n mod 10 :: acc)
  end.
Definition dec_of_Z (z : Z) : bool * list N :=
  let n := Z.abs_N z in
  ((z <? 0)%Z, dec_digits (S (N.size_nat n)) n []).
