(* C03_Props.v — the property theorems of C03 and nothing else.
   Each is closed by `exact <lemma>` and followed by Print Assumptions.
   assert_errs d e a is the list of discrepancies that results.go's assert records
   for the case (nil outcome iff the list is empty); agree is C03_Spec's
   declarative "agree up to the documented leniencies". *)
From V Require Import C03_Spec C03_Proofs.

(* ---------- the assertion passes exactly when the results agree ---------- *)
Theorem assert_iff : forall d e a, assert_errs d e a = [] <-> agree d e a.
Proof. exact assert_iff_proof. Qed.
Print Assumptions assert_iff.

(* ---------- deviations: each is reported, at every position ---------- *)
Theorem dev_error_presence : forall d e a,
  (r_error e = None -> r_error a <> None -> In EUnexpectedError (assert_errs d e a)) /\
  (r_error e <> None -> r_error a = None -> In EMissingError (assert_errs d e a)).
Proof. exact dev_error_presence_proof. Qed.
Print Assumptions dev_error_presence.

Theorem dev_code : forall d e a ee ea,
  r_error e = Some ee -> r_error a = Some ea ->
  e_code ea <> e_code ee -> ~ In (e_code ea) (d_other_codes d) ->
  In ECode (assert_errs d e a).
Proof. exact dev_code_proof. Qed.
Print Assumptions dev_code.

Theorem dev_message : forall d e a ee ea m,
  r_error e = Some ee -> r_error a = Some ea ->
  e_msg ee = Some m -> msg_text (e_msg ea) <> m ->
  In EMessage (assert_errs d e a).
Proof. exact dev_message_proof. Qed.
Print Assumptions dev_message.

Theorem dev_detail_count : forall d e a ee ea,
  r_error e = Some ee -> r_error a = Some ea ->
  length (e_details ea) <> length (e_details ee) ->
  In EDetailCount (assert_errs d e a).
Proof. exact dev_detail_count_proof. Qed.
Print Assumptions dev_detail_count.

(* i-th detail, any i: a detail that does not agree (other type, other content,
   request info that does not agree) makes the assertion fail ... *)
Theorem dev_detail_at : forall d e a ee ea i de da,
  r_error e = Some ee -> r_error a = Some ea ->
  nth_error (e_details ee) i = Some de -> nth_error (e_details ea) i = Some da ->
  ~ detail_agree de da ->
  assert_errs d e a <> [].
Proof. exact dev_detail_at_proof. Qed.
Print Assumptions dev_detail_at.

(* ... and for plain details the report names the position *)
Theorem dev_detail_named : forall d e a ee ea i x y,
  r_error e = Some ee -> r_error a = Some ea ->
  nth_error (e_details ee) i = Some (DOther x) -> nth_error (e_details ea) i = Some y ->
  y <> DOther x ->
  In (EDetail (S i)) (assert_errs d e a).
Proof. exact dev_detail_named_proof. Qed.
Print Assumptions dev_detail_named.

Theorem dev_payload_count : forall d e a,
  length (r_payloads a) <> length (r_payloads e) -> In EPayloadCount (assert_errs d e a).
Proof. exact dev_payload_count_proof. Qed.
Print Assumptions dev_payload_count.

(* i-th payload, any i (this also covers reordered payloads) *)
Theorem dev_payload_data_at : forall d e a i pe pa,
  nth_error (r_payloads e) i = Some pe -> nth_error (r_payloads a) i = Some pa ->
  p_data pa <> p_data pe ->
  In (EPayloadData (S i)) (assert_errs d e a).
Proof. exact dev_payload_data_at_proof. Qed.
Print Assumptions dev_payload_data_at.

(* echoed requests of the i-th payload: their number, and the j-th of them
   (content, type, order) *)
Theorem dev_requests_count : forall d e a i pe pa,
  nth_error (r_payloads e) i = Some pe -> nth_error (r_payloads a) i = Some pa ->
  length (ri_requests (p_info pa)) <> length (ri_requests (p_info pe)) ->
  assert_errs d e a <> [].
Proof. exact dev_requests_count_proof. Qed.
Print Assumptions dev_requests_count.

Theorem dev_requests_at : forall d e a i pe pa j x y,
  nth_error (r_payloads e) i = Some pe -> nth_error (r_payloads a) i = Some pa ->
  nth_error (ri_requests (p_info pe)) j = Some x -> nth_error (ri_requests (p_info pa)) j = Some y ->
  y <> x ->
  assert_errs d e a <> [].
Proof. exact dev_requests_at_proof. Qed.
Print Assumptions dev_requests_at.

(* an expected header / trailer / request header / query parameter that the
   actual side does not carry with the same values (missing, or any value of it
   altered, dropped, added, reordered) is reported under its name *)
Theorem dev_header : forall d e a h,
  lenient_metadata d e = false -> In h (r_headers e) ->
  (forall vs, carries (r_headers a) (h_name h) vs -> ~ same_values (h_vals h) vs) ->
  In (EHdrMissing WRespHeaders (lname h)) (assert_errs d e a) \/
  In (EHdrValues WRespHeaders (lname h)) (assert_errs d e a).
Proof. exact dev_header_proof. Qed.
Print Assumptions dev_header.

Theorem dev_trailer : forall d e a h,
  lenient_metadata d e = false -> In h (r_trailers e) ->
  (forall vs, carries (r_trailers a) (h_name h) vs -> ~ same_values (h_vals h) vs) ->
  In (EHdrMissing WRespTrailers (lname h)) (assert_errs d e a) \/
  In (EHdrValues WRespTrailers (lname h)) (assert_errs d e a).
Proof. exact dev_trailer_proof. Qed.
Print Assumptions dev_trailer.

(* also where merging is allowed: a name found in neither headers nor trailers fails *)
Theorem dev_metadata_missing : forall d e a h,
  In h (r_headers e ++ r_trailers e) ->
  (forall h', In h' (r_headers a ++ r_trailers a) -> lower (h_name h') <> lower (h_name h)) ->
  assert_errs d e a <> [].
Proof. exact dev_metadata_missing_proof. Qed.
Print Assumptions dev_metadata_missing.

Theorem dev_request_header : forall d e a pe es pa as_ h,
  r_payloads e = pe :: es -> r_payloads a = pa :: as_ ->
  In h (ri_headers (p_info pe)) ->
  (forall vs, carries (ri_headers (p_info pa)) (h_name h) vs -> ~ same_values (h_vals h) vs) ->
  In (EHdrMissing WReqHeaders (lname h)) (assert_errs d e a) \/
  In (EHdrValues WReqHeaders (lname h)) (assert_errs d e a).
Proof. exact dev_request_header_proof. Qed.
Print Assumptions dev_request_header.

Theorem dev_query : forall d e a pe es pa as_ h,
  r_payloads e = pe :: es -> r_payloads a = pa :: as_ ->
  In h (ri_query (p_info pe)) ->
  (forall vs, carries (ri_query (p_info pa)) (h_name h) vs -> ~ same_values (h_vals h) vs) ->
  In (EHdrMissing WQuery (lname h)) (assert_errs d e a) \/
  In (EHdrValues WQuery (lname h)) (assert_errs d e a).
Proof. exact dev_query_proof. Qed.
Print Assumptions dev_query.

(* finding #14 (repaired in /repo): no query parameter at all on the actual side *)
Theorem dev_query_missing_all : forall d e a pe es pa as_ h,
  r_payloads e = pe :: es -> r_payloads a = pa :: as_ ->
  In h (ri_query (p_info pe)) -> ri_query (p_info pa) = [] ->
  In (EHdrMissing WQuery (lname h)) (assert_errs d e a).
Proof. exact dev_query_missing_all_proof. Qed.
Print Assumptions dev_query_missing_all.

(* echoed timeout: above, below the grace window, missing, unexpected *)
Theorem dev_timeout : forall d e a pe es pa as_,
  r_payloads e = pe :: es -> r_payloads a = pa :: as_ ->
  (forall t x, ri_timeout (p_info pe) = Some t -> ri_timeout (p_info pa) = Some x ->
     (x > t \/ x < Z.max 0 (t - grace))%Z -> In ETimeoutMismatch (assert_errs d e a)) /\
  (forall t, ri_timeout (p_info pe) = Some t -> ri_timeout (p_info pa) = None ->
     In ETimeoutMissing (assert_errs d e a)) /\
  (forall x, ri_timeout (p_info pe) = None -> ri_timeout (p_info pa) = Some x ->
     In ETimeoutUnexpected (assert_errs d e a)).
Proof. exact dev_timeout_proof. Qed.
Print Assumptions dev_timeout.

Theorem dev_status : forall d e a x y,
  r_status e = Some x -> r_status a = Some y -> x <> y -> In EStatus (assert_errs d e a).
Proof. exact dev_status_proof. Qed.
Print Assumptions dev_status.

(* ---------- leniencies: each keeps the assertion silent ---------- *)
(* header-name case; holds for every kind of header list since all go through [included] *)
Theorem len_header_case : forall e a a',
  same_mod_case a a' -> included e a -> included e a'.
Proof. exact len_header_case_proof. Qed.
Print Assumptions len_header_case.

(* extra metadata: in front always; behind when its name is not an expected one
   (a later entry of the same name replaces the earlier one) *)
Theorem len_extra_header : forall e a x,
  included e a ->
  included e (x :: a) /\
  ((forall h, In h e -> lower (h_name x) <> lower (h_name h)) -> included e (a ++ [x])).
Proof. exact len_extra_header_proof. Qed.
Print Assumptions len_extra_header.

Theorem len_extra_response_header : forall d e a x,
  assert_errs d e a = [] -> assert_errs d e (with_headers (x :: r_headers a) a) = [].
Proof. exact len_extra_response_header_proof. Qed.
Print Assumptions len_extra_response_header.

(* values joined / split on commas *)
Theorem canon_idempotent : forall vs, canon_vals (canon_vals vs) = canon_vals vs.
Proof. exact canon_idempotent_proof. Qed.
Print Assumptions canon_idempotent.

Theorem canon_comma_free : forall ws, Forall (no_sep comma) ws -> canon_vals ws = ws.
Proof. exact canon_comma_free_proof. Qed.
Print Assumptions canon_comma_free.

(* len_join_commas and len_split_commas: the joined form and the separate values
   have the same canonical form, for each of the separators "," ", " " ," " , " *)
Theorem canon_join : forall before after vs, vs <> [] -> Forall clean vs ->
  canon_vals [join_with (comma_sep before after) vs] = vs /\ canon_vals vs = vs.
Proof. exact canon_join_proof. Qed.
Print Assumptions canon_join.

(* headers and trailers merged on unary and client-stream errors, and only there *)
Theorem len_merge_on_unary_error : forall d e a,
  may_merge d e ->
  merged_included e (r_headers a) \/ merged_included e (r_trailers a) ->
  check_metadata d e a = [].
Proof. exact len_merge_on_unary_error_proof. Qed.
Print Assumptions len_merge_on_unary_error.

Theorem no_merge_elsewhere : forall d e a,
  ~ may_merge d e ->
  (check_metadata d e a = [] <-> included (r_headers e) (r_headers a) /\ included (r_trailers e) (r_trailers a)).
Proof. exact no_merge_elsewhere_proof. Qed.
Print Assumptions no_merge_elsewhere.

Theorem len_other_code : forall d e a ea c,
  assert_errs d e a = [] -> r_error a = Some ea -> In c (d_other_codes d) ->
  assert_errs d e (with_error (Some (mkE c (e_msg ea) (e_details ea))) a) = [].
Proof. exact len_other_code_proof. Qed.
Print Assumptions len_other_code.

Theorem len_unspecified_message : forall d e a ee ea m,
  assert_errs d e a = [] -> r_error e = Some ee -> e_msg ee = None -> r_error a = Some ea ->
  assert_errs d e (with_error (Some (mkE (e_code ea) m (e_details ea))) a) = [].
Proof. exact len_unspecified_message_proof. Qed.
Print Assumptions len_unspecified_message.

(* the whole window and nothing else; both edges belong to it.  [grace] is the
   constant regenerated from results.go (C03_Consts.v) *)
Theorem len_timeout_in_window : forall t x,
  (check_timeout (Some t) (Some x) = [] <-> (Z.max 0 (t - grace) <= x <= t)%Z) /\
  ((0 <= t)%Z -> check_timeout (Some t) (Some t) = [] /\
                 check_timeout (Some t) (Some (Z.max 0 (t - grace))) = []).
Proof. exact len_timeout_in_window_proof. Qed.
Print Assumptions len_timeout_in_window.

(* the width of the window, in milliseconds, is the duration the constant is declared
   with in results.go (value x unit, both regenerated), and it is not empty *)
Theorem grace_is_declared_duration :
  (grace * ns_per_ms = c03_grace_value * c03_grace_unit_ns)%Z /\ (0 < grace)%Z.
Proof. exact grace_is_declared_duration_proof. Qed.
Print Assumptions grace_is_declared_duration.

Theorem len_status_absent : forall d e a,
  assert_errs d e a = [] ->
  assert_errs d e (with_status None a) = [] /\ assert_errs d (with_status None e) a = [].
Proof. exact len_status_absent_proof. Qed.
Print Assumptions len_status_absent.

Theorem len_unsent_count : forall d e a u,
  assert_errs d e (with_unsent u a) = assert_errs d e a /\
  assert_errs d (with_unsent u e) a = assert_errs d e a.
Proof. exact len_unsent_count_proof. Qed.
Print Assumptions len_unsent_count.

(* ---------- from the client's report to the assertion (runTestCasesForServer) ----------
   what reaches assert is what the client reported, for the reference client and for
   any other; so the verdict recorded by the runner is the assertion's, and e.g. a
   differing HTTP status is reported whoever the client is *)
Theorem runner_hands_over_reported_result : forall ref r, handed_to_assert ref r = r.
Proof. exact runner_hands_over_reported_result_proof. Qed.
Print Assumptions runner_hands_over_reported_result.

Theorem run_verdict_iff : forall ref d e a, run_errs ref d e a = [] <-> agree d e a.
Proof. exact run_verdict_iff_proof. Qed.
Print Assumptions run_verdict_iff.

Theorem run_dev_status : forall ref d e a x y,
  r_status e = Some x -> r_status a = Some y -> x <> y -> In EStatus (run_errs ref d e a).
Proof. exact run_dev_status_proof. Qed.
Print Assumptions run_dev_status.

(* the DEFINITION that reaches assert is the library's test case: its alternative allowed
   codes count through the runner (and no other code does), the merged metadata form passes
   only where its stream type allows it; the probes of kind c03.rundef read the accepted
   codes back (for an expectation that agrees with itself) *)
Theorem runner_hands_over_definition : forall ref d, def_handed_to_assert ref d = d.
Proof. exact runner_hands_over_definition_proof. Qed.
Print Assumptions runner_hands_over_definition.

Theorem run_len_other_code : forall ref d e a ea c,
  run_errs ref d e a = [] -> r_error a = Some ea -> In c (d_other_codes d) ->
  run_errs ref d e (with_error (Some (mkE c (e_msg ea) (e_details ea))) a) = [].
Proof. exact run_len_other_code_proof. Qed.
Print Assumptions run_len_other_code.

Theorem run_dev_code : forall ref d e a ee ea,
  r_error e = Some ee -> r_error a = Some ea ->
  e_code ea <> e_code ee -> ~ In (e_code ea) (d_other_codes d) ->
  In ECode (run_errs ref d e a).
Proof. exact run_dev_code_proof. Qed.
Print Assumptions run_dev_code.

Theorem run_no_merge_elsewhere : forall ref d e a,
  ~ may_merge d e -> run_errs ref d e a = [] ->
  included (r_headers e) (r_headers a) /\ included (r_trailers e) (r_trailers a).
Proof. exact run_no_merge_elsewhere_proof. Qed.
Print Assumptions run_no_merge_elsewhere.

Theorem probe_code_allowed : forall ref d e ee c,
  r_error e = Some ee -> run_errs ref d e e = [] ->
  c = e_code ee \/ In c (d_other_codes d) ->
  run_errs ref d e (probe_code e c) = [].
Proof. exact probe_code_allowed_proof. Qed.
Print Assumptions probe_code_allowed.

Theorem probe_code_flagged : forall ref d e ee c,
  r_error e = Some ee -> c <> e_code ee -> ~ In c (d_other_codes d) ->
  In ECode (run_errs ref d e (probe_code e c)).
Proof. exact probe_code_flagged_proof. Qed.
Print Assumptions probe_code_flagged.

(* ---- non-vacuity: both sides of the iff occur; the window edges; the merged form ---- *)
Definition ex_hdrs := [mkH (bs "X-A") [bs "1"; bs "2"]].
Definition ex_trls := [mkH (bs "x-t") [bs "9"]].
Definition ex_ri := mkRI [mkH (bs "x-req") [bs "v"]] (Some (grace + 7)%Z) [mkAny 0 (bs "m")]
                         [mkH (bs "encoding") [bs "proto"]].
Definition ex_ok := mkR ex_hdrs ex_trls [mkP (bs "data") ex_ri] None (Some 200%Z) 0%Z.
Definition ex_d := mkD stream_unary [].

Example ex_identical_passes : assert_errs ex_d ex_ok ex_ok = [].
Proof. vm_compute. reflexivity. Qed.
Example ex_agree_inhabited : agree ex_d ex_ok ex_ok.
Proof. apply assert_iff. vm_compute. reflexivity. Qed.

Example ex_lenient_actual_passes :
  assert_errs ex_d ex_ok
    (mkR [mkH (bs "date") [bs "x"]; mkH (bs "x-a") [bs "1 , 2"]] (ex_trls ++ [mkH (bs "more") []])
         [mkP (bs "data") (mkRI [mkH (bs "X-REQ") [bs "v"]] (Some 7%Z) [mkAny 0 (bs "m")]
                                [mkH (bs "connect") [bs "v1"]; mkH (bs "Encoding") [bs "proto"]])]
         None None 3%Z) = [].
Proof. vm_compute. reflexivity. Qed.

Example ex_below_window_fails :
  assert_errs ex_d ex_ok
    (mkR ex_hdrs ex_trls [mkP (bs "data") (mkRI [mkH (bs "x-req") [bs "v"]] (Some 6%Z) [mkAny 0 (bs "m")]
                                                [mkH (bs "encoding") [bs "proto"]])] None (Some 200%Z) 0%Z)
  = [ETimeoutMismatch].
Proof. vm_compute. reflexivity. Qed.

Example ex_far_below_window_fails :   (* zero, with an expectation above the window's width *)
  assert_errs ex_d ex_ok
    (mkR ex_hdrs ex_trls [mkP (bs "data") (mkRI [mkH (bs "x-req") [bs "v"]] (Some 0%Z) [mkAny 0 (bs "m")]
                                                [mkH (bs "encoding") [bs "proto"]])] None (Some 200%Z) 0%Z)
  = [ETimeoutMismatch].
Proof. vm_compute. reflexivity. Qed.

Example ex_query_missing_all_fails :
  assert_errs ex_d ex_ok
    (mkR ex_hdrs ex_trls [mkP (bs "data") (mkRI [mkH (bs "x-req") [bs "v"]] (Some 7%Z) [mkAny 0 (bs "m")] [])]
         None (Some 200%Z) 0%Z)
  = [EHdrMissing WQuery (bs "encoding")].
Proof. vm_compute. reflexivity. Qed.

Definition ex_err := mkR ex_hdrs [mkH (bs "x-a") [bs "3"]; mkH (bs "x-t") [bs "9"]] []
                         (Some (mkE 8 None [DOther (mkAny 1 (bs "d"))])) None 0%Z.
Definition ex_err_merged := mkR [] [mkH (bs "x-t") [bs "9"]; mkH (bs "x-a") [bs "1, 2, 3"]] []
                         (Some (mkE 8 (Some (bs "any text")) [DOther (mkAny 1 (bs "d"))])) None 0%Z.
Example ex_merged_passes_on_unary : assert_errs (mkD stream_unary []) ex_err ex_err_merged = [].
Proof. vm_compute. reflexivity. Qed.
Example ex_merged_fails_on_server_stream : assert_errs (mkD 3 []) ex_err ex_err_merged <> [].
Proof. vm_compute. discriminate. Qed.

(* an alternative code (first, middle, last of the list) passes through the runner, any other is flagged *)
Definition ex_d_alt := mkD 3 [14; 2; 9].
Definition ex_err_plain := mkR [] [] [] (Some (mkE 8 None [])) None 0%Z.
Example ex_alternatives_pass_through_runner :
  map (fun c => is_nil (run_errs false ex_d_alt ex_err_plain (probe_code ex_err_plain c))) [8; 14; 2; 9; 13]
  = [true; true; true; true; false].
Proof. vm_compute. reflexivity. Qed.
Definition ex_err_ht := mkR [mkH (bs "x-h") [bs "1"]] [mkH (bs "x-t") [bs "9"]] [] (Some (mkE 8 None [])) None 0%Z.
Example ex_merged_probe_separates_streams :
  (run_errs true (mkD stream_client []) ex_err_ht (probe_all_trailers ex_err_ht) = []) /\
  (run_errs true (mkD 4 []) ex_err_ht (probe_all_trailers ex_err_ht) <> []).
Proof. split; vm_compute; [reflexivity|discriminate]. Qed.

Example ex_canon :
  canon_vals [bs " a , b,c ,  d "; bs "e"] = [bs " a"; bs "b"; bs "c"; bs " d "; bs "e"].
Proof. vm_compute. reflexivity. Qed.

(* Recorded, not claimed.  (1) Request headers, timeout and query parameters are
   compared on the first payload only; on later payloads only the echoed requests
   are (the servers echo the rest only once).  (2) An expectation is not always in
   agreement with itself: a repeated name with different values (the last entry
   wins on the actual side), a negative timeout or an undecodable request make
   the identical actual fail. *)
Example later_payload_headers_not_compared :
  assert_errs (mkD 3 []) (mkR [] [] [mkP [] empty_ri; mkP [] ex_ri] None None 0%Z)
                         (mkR [] [] [mkP [] empty_ri; mkP [] (mkRI [] None [mkAny 0 (bs "m")] [])] None None 0%Z) = [].
Proof. vm_compute. reflexivity. Qed.
Example self_agreement_refuted :
  exists d e, assert_errs d e e <> [].
Proof.
  exists ex_d, (mkR [mkH (bs "x") [bs "1"]; mkH (bs "X") [bs "2"]] [] [] None None 0%Z).
  vm_compute. discriminate.
Qed.
