From V Require Import C17_Spec C17_Proofs.
