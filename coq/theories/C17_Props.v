(* C17_Props.v — the property theorems of C17 and nothing else.
   Each is closed by `exact <lemma>` and followed by Print Assumptions.
   `compress` / `decompress` stand for the five compression libraries; the only thing asked
   of them is codec_ok (decompress after compress is the identity), where it is needed. *)
From V Require Import C17_Spec C17_Proofs C17_ProofsReq C17_ProofsQ.
Open Scope N_scope.

(* ---- the body encoders ---- *)
(* a single message is written as its (possibly compressed) data, nothing else, no error *)
Theorem message_exact : forall compress oc,
  contents_ok oc -> write_message compress oc = (payload_of compress oc, false).
Proof. exact message_exact_proof. Qed.
Print Assumptions message_exact.

Theorem message_invertible : forall compress decompress c d,
  codec_ok compress decompress -> comp_known (c_comp c) = true -> data_bytes (c_data c) = Some d ->
  write_message compress (Some c) = (payload_of compress (Some c), false) /\
  decompress_with decompress (c_comp c) (fst (write_message compress (Some c))) = Some d.
Proof. exact message_invertible_proof. Qed.
Print Assumptions message_invertible.

(* for ALL item lists (any flags 0..255, explicit or computed lengths, per-item compression, missing
   payloads) the stream is the concatenation of flags byte, 4-byte big-endian declared length, payload *)
Theorem stream_layout : forall compress items,
  Forall (item_ok) items -> write_stream compress items = (wire compress items, false).
Proof. exact stream_layout_proof. Qed.
Print Assumptions stream_layout.

(* invertible: when every length field tells the truth, reading the stream back returns every item's
   flags, length and payload, nothing is left over, and decompressing returns the data specified *)
Theorem stream_invertible : forall compress decompress items,
  codec_ok compress decompress -> Forall item_ok items -> Forall (honest compress) items ->
  write_stream compress items = (wire compress items, false) /\
  parse_envelopes (wire compress items) =
    (map (fun it => (i_flags it, N.of_nat (length (payload_of compress (i_payload it))),
                     payload_of compress (i_payload it))) items, []) /\
  map (fun it => decode_payload decompress (i_payload it) (payload_of compress (i_payload it))) items =
    map (fun it => Some (data_of (i_payload it))) items.
Proof. exact stream_invertible_proof. Qed.
Print Assumptions stream_invertible.

(* deliberately not invertible: with ANY explicit length n the reader recovers the flags and n, and takes
   as payload the next n bytes of (real payload ++ following frames) - or runs short *)
Theorem explicit_length_head : forall compress it rest n,
  item_ok it -> Forall item_ok rest -> i_len it = Some n -> n < 4294967296 ->
  parse_one (fst (write_stream compress (it :: rest))) =
  let following := payload_of compress (i_payload it) ++ wire compress rest in
  if n <=? N.of_nat (length following)
  then Some (i_flags it, n, firstn (N.to_nat n) following, skipn (N.to_nat n) following) else None.
Proof. exact explicit_length_head_proof. Qed.
Print Assumptions explicit_length_head.

(* flags outside 0..255: an error, with exactly the preceding items on the wire *)
Theorem stream_bad_flags : forall compress good bad rest,
  Forall item_ok good -> 255 < i_flags bad ->
  write_stream compress (good ++ bad :: rest) = (wire compress good, true).
Proof. exact stream_bad_flags_proof. Qed.
Print Assumptions stream_bad_flags.

(* ---- raw or normal response ---- *)
(* for ALL histories of handler actions and setRawResponse calls: what reaches the inner writer is the raw
   emission on an untouched writer (no handler header, status or byte) if a raw response was stored before
   a normal one started - the last one stored - and otherwise exactly what the handler did; never a mixture.
   `returns` also fixes what each call reported (setRawResponse fails iff a normal response had started). *)
Theorem raw_or_handler : forall compress snap ops,
  serve compress snap ops =
  option_map (fun w => (w, returns Undecided ops))
    (match raw_choice ops with
     | Some r => emit compress snap r (iw_new snap)
     | None => direct (iw_new snap) ops
     end).
Proof. exact raw_or_handler_proof. Qed.
Print Assumptions raw_or_handler.

(* the raw emission: given status (200 if unset); for every name the middleware's values followed by every
   given value in order; Date suppressed; exactly the encoded body; for every trailer name exactly the
   given values in order (stored under net/http's "Trailer:" convention) *)
Theorem raw_exact : forall compress snap r w,
  NoDup (map fst snap) ->
  emit compress snap r (iw_new snap) = Some w ->
  fst (committed w) = (if r_status r =? 0 then 200 else r_status r) /\
  (forall k, k <> date_key -> k <> trailer_key ->
             hm_vals k (snd (committed w)) = hm_vals k snap ++ values_of k (r_headers r)) /\
  hm_get date_key (snd (committed w)) = Some [] /\
  iw_body w = fst (write_body compress (r_body r)) /\
  iw_flushed w = false /\
  (forall k, (forall kv, In kv snap -> ~ In 58 (fst kv)) -> Forall (fun h => token (h_name h)) (r_headers r) ->
             hm_vals (trailer_prefix ++ k) (iw_hdr w) = values_of k (r_trailers r)).
Proof. exact raw_exact_proof. Qed.
Print Assumptions raw_exact.

(* every RPC kind that can carry a raw response (Unary, IdempotentUnary, ClientStream, ServerStream,
   BidiStream) gets it, whatever the RPC library does after the interceptor failed the call *)
Theorem recorder_every_rpc : forall compress snap k r after normal,
  Forall (fun o => match o with OSetRaw _ => False | _ => True end) after ->
  option_map fst (serve compress snap (rpc_ops k (Some r) after normal)) = emit compress snap r (iw_new snap).
Proof. exact recorder_proof. Qed.
Print Assumptions recorder_every_rpc.

(* ---- the interceptor in front of the streaming handlers (firstReqCachingStream) ---- *)
(* for ANY script of stream outcomes whose first one is not a request with a raw response (a request without one,
   or an error) and ANY number n of Receive calls: the handler behind the interceptor sees exactly what it would
   see on the stream itself - the cached first request (or the error of that Receive) once, then the stream *)
Theorem caching_stream_transparent : forall script n started,
  match script with RMsg _ true :: _ => False | _ => True end ->
  wrap_streaming true started script n = WHandler (fst (direct_handler n script)) (Nat.max 1 n).
Proof. exact caching_transparent_proof. Qed.
Print Assumptions caching_stream_transparent.

(* a first request with a raw response: the handler never runs - nothing it would have produced can reach the
   writer -, the raw response is stored and the request stream is read up to its first error (drain_spec:
   every message before it); if a normal response had already started nothing is stored and nothing drained *)
Theorem raw_first_skips_handler : forall d rest n,
  wrap_streaming true false (RMsg d true :: rest) n = WRaw (S (drain rest)) true 1 /\
  wrap_streaming true true (RMsg d true :: rest) n = WRaw 1 false 2.
Proof. exact raw_first_proof. Qed.
Print Assumptions raw_first_skips_handler.

Theorem drain_reads_to_first_error : forall msgs rest,
  Forall is_msg msgs -> match rest with [] => True | RErr _ :: _ => True | _ => False end ->
  drain (msgs ++ rest) = S (length msgs).
Proof. exact drain_spec. Qed.
Print Assumptions drain_reads_to_first_error.

(* ---- raw request ---- *)
(* for ALL raw requests whose URI is empty or starts with '/', '?' or '#' (anything else runs into the
   authority, see request_refused) and can be parsed at all: the request handed to the transport has the
   given method ("" = GET), exactly the encoded body, for every header name the listed values in order, for
   every query name the URI's own (decoded) values, then the raw ones, then the encoded ones (base64 / plain of
   the compressed contents), and the request target - the text on the HTTP/1.1 request line and in :path - is
   the path as written (path_on_wire: byte for byte when it is made of path characters and well-formed
   escapes - percent-escapes are NOT decoded, hex digits keep their case -, "/" when empty) followed by the
   query: untouched when no parameters are listed, else the merged multimap in sorted key=value&... form.
   The fragment is never sent. *)
Theorem request_exact : forall compress orig r,
  token (q_verb r) -> Forall (fun e => contents_ok (e_value e)) (q_encq r) ->
  uri_class (q_uri r) (has_params r) = UOrigin -> uri_wellformed (q_uri r) = true ->
  exists s, raw_request compress orig r = RSent s /\
    s_method s = match q_verb r with [] => bs "GET" | v => v end /\
    s_body s = fst (write_body compress (q_body r)) /\
    (forall k, hm_vals k (s_headers s) = values_of k (q_headers r)) /\
    (forall k, hm_vals k (s_query s) =
               hm_vals k (uri_query (q_uri r)) ++ qvalues_of k (q_rawq r) ++ enc_values_of compress k (q_encq r)) /\
    s_target s = path_on_wire (uri_path (q_uri r)) ++
                 query_on_wire (q_uri r) (if has_params r then Some (s_query s) else None).
Proof. exact request_exact_proof. Qed.
Print Assumptions request_exact.

(* the given path exactly: no escape decoded (%2F stays %2F, %2f stays %2f), '+' and ';' untouched *)
Theorem request_path_verbatim : forall p, valid_encoded EPath p = true -> p <> [] -> path_on_wire p = p.
Proof. exact path_verbatim_proof. Qed.
Print Assumptions request_path_verbatim.

(* any other path is decoded and re-encoded by net/url; what it decodes to stays the same *)
Theorem request_path_meaning : forall p t,
  Forall (fun c => c < 256) p -> unescape false p = Some t -> unescape false (path_on_wire p) = Some (or_slash t).
Proof. exact path_meaning_proof. Qed.
Print Assumptions request_path_meaning.

(* whatever the names and values of the parameters are, the encoded query consists of unreserved
   characters, '%', '+', '=', '&' (valid_char EQuery excludes '#', '?', space, control and non-ASCII bytes) *)
Theorem request_query_chars : forall m x, In x (values_encode m) -> valid_char EQuery x = true.
Proof. exact values_encode_chars. Qed.
Print Assumptions request_query_chars.

(* and it decodes (URL.Query on the receiving side) to the multimap it was made from: for EVERY name exactly the
   values it had, in order - whatever bytes names and values consist of ('&', '=', '+', ';', '%', space, UTF-8 ...) *)
Theorem request_query_roundtrip : forall m k,
  map_bytes m -> hm_vals k (parse_query (values_encode m)) = hm_vals k m.
Proof. exact query_roundtrip_proof. Qed.
Print Assumptions request_query_roundtrip.

(* a URI that does not start with '/', '?' or '#', has a control byte before the fragment or a '%' not
   followed by two hex digits in path or fragment: RoundTrip fails, nothing is sent to the given server *)
Theorem request_refused : forall compress orig r,
  uri_class (q_uri r) (has_params r) = UGlued \/
  (uri_class (q_uri r) (has_params r) = UOrigin /\ uri_wellformed (q_uri r) = false) ->
  raw_request compress orig r = RError.
Proof. exact request_refused_proof. Qed.
Print Assumptions request_refused.

Theorem request_ignores_orig : forall compress o1 o2 r, raw_request compress o1 r = raw_request compress o2 r.
Proof. exact request_ignores_orig_proof. Qed.
Print Assumptions request_ignores_orig.

(* ---- non-vacuity ---- *)
(* a toy codec satisfying the hypothesis *)
Definition toy_c (c : N) (d : bytes) : bytes := c :: d ++ [c].
Definition toy_d (c : N) (d : bytes) : option bytes :=
  match d with x :: r => if x =? c then Some (removelast r) else None | [] => None end.
Example ex_codec_ok : codec_ok toy_c toy_d.
Proof. intros c d. unfold toy_c, toy_d. rewrite N.eqb_refl. now rewrite removelast_last. Qed.

Definition ex_items : list item :=
  [ mk_item 0 None (Some (mk_contents (DBinary [1; 2; 3]) 2));
    mk_item 2 (Some 3) (Some (mk_contents (DText [7]) 5));
    mk_item 255 None None ].
Example ex_items_ok : Forall item_ok ex_items /\ Forall (honest toy_c) ex_items.
Proof. split; repeat constructor; vm_compute; congruence. Qed.
Example ex_roundtrip :
  parse_envelopes (fst (write_stream toy_c ex_items)) =
  ([(0, 5, [2; 1; 2; 3; 2]); (2, 3, [5; 7; 5]); (255, 0, [])], []).
Proof. vm_compute. reflexivity. Qed.
(* an explicit length that lies: the reader takes the next item's prefix for payload *)
Example ex_lying_length :
  parse_envelopes (fst (write_stream toy_c
     [mk_item 1 (Some 4) (Some (mk_contents (DBinary [9]) 1)); mk_item 2 None (Some (mk_contents (DBinary [8]) 1))])) =
  ([(1, 4, [9; 2; 0; 0])], [0; 1; 8]).
Proof. vm_compute. reflexivity. Qed.

Definition ex_raw : resp :=
  mk_resp 0 [mk_header (bs "x-a") [bs "1"; bs "2"]] (BUnary (Some (mk_contents (DText (bs "raw")) 1)))
          [mk_header (bs "x-t") [bs "t"]].
(* both sides of the arbitration occur *)
Example ex_choice_raw : raw_choice [OAdd (bs "x-h") (bs "v"); OSetRaw ex_raw; OWriteHeader 500; OWrite (bs "handler")] = Some ex_raw.
Proof. reflexivity. Qed.
Example ex_choice_normal : raw_choice [OWrite (bs "handler"); OSetRaw ex_raw] = None.
Proof. reflexivity. Qed.
Example ex_raw_wins :
  option_map (fun p => (fst (committed (fst p)), iw_body (fst p), hm_vals (bs "X-H") (snd (committed (fst p))), snd p))
    (serve toy_c [] [OAdd (bs "x-h") (bs "v"); OSetRaw ex_raw; OWriteHeader 500; OWrite (bs "handler")]) =
  Some (200, bs "raw", [], [1; 7]%Z).
Proof. vm_compute. reflexivity. Qed.
Example ex_handler_wins :
  option_map (fun p => (fst (committed (fst p)), iw_body (fst p), snd p))
    (serve toy_c [] [OWrite (bs "handler"); OSetRaw ex_raw]) = Some (200, bs "handler", [7; 0]%Z).
Proof. vm_compute. reflexivity. Qed.
(* the raw-request hypotheses are inhabited; an escaped slash, lower-case hex, '+' and ';' survive the merge
   of query parameters; the URI's own query comes first for a name, keys are sorted *)
Definition ex_req : rawreq :=
  mk_rawreq [] (bs "/some.pkg%2FService/a+b;c%2f?q=0&z=%2F#frag") []
            [mk_header (bs "q") [bs "1"]; mk_header (bs "encoding") [bs "a b"]]
            [mk_encq (bs "q") (Some (mk_contents (DBinary [255]) 1)) true]
            (BUnary (Some (mk_contents (DText (bs "b")) 0))).
Example ex_req_hyps : uri_class (q_uri ex_req) (has_params ex_req) = UOrigin /\ uri_wellformed (q_uri ex_req) = true /\
                      valid_encoded EPath (uri_path (q_uri ex_req)) = true.
Proof. vm_compute. repeat split. Qed.
Example ex_request :
  match raw_request toy_c live_orig ex_req with
  | RSent s => Some (s_method s, s_target s, hm_vals (bs "q") (s_query s), s_body s)
  | _ => None
  end = Some (bs "GET", bs "/some.pkg%2FService/a+b;c%2f?encoding=a+b&q=0&q=1&q=_w%3D%3D&z=%2F", [bs "0"; bs "1"; bs "_w=="], bs "b").
Proof. vm_compute. reflexivity. Qed.
(* without parameters the URI's query is not touched *)
Example ex_request_untouched :
  match raw_request toy_c live_orig (mk_rawreq (bs "POST") (bs "/p%2Fq?b=%2f&a=x+y&&#f") [] [] [] BNone) with
  | RSent s => Some (s_target s) | _ => None end = Some (bs "/p%2Fq?b=%2f&a=x+y&&").
Proof. vm_compute. reflexivity. Qed.
(* a path with a character that cannot stand in a path is re-encoded as a whole *)
Example ex_request_reencoded :
  path_on_wire (bs "/a b%2Fc") = bs "/a%20b/c" /\ valid_encoded EPath (bs "/a b%2Fc") = false.
Proof. vm_compute. split; reflexivity. Qed.
Example ex_request_refused :
  raw_request toy_c live_orig (mk_rawreq (bs "GET") (bs "/a%zz") [] [] [] BNone) = RError /\
  raw_request toy_c live_orig (mk_rawreq (bs "GET") (bs "a/b") [] [] [] BNone) = RError /\
  uri_wellformed (bs "/a%zz") = false /\ uri_class (bs "a/b") false = UGlued.
Proof. vm_compute. repeat split. Qed.
(* the interceptor: a cached first request is replayed once; an error of the first Receive too *)
Example ex_cache :
  wrap_streaming true false [RMsg (bs "a") false; RMsg (bs "b") true; RErr 7] 4 =
    WHandler [RMsg (bs "a") false; RMsg (bs "b") true; RErr 7; RErr 0] 4 /\
  wrap_streaming true false [RErr 7; RMsg (bs "a") false] 2 = WHandler [RErr 7; RMsg (bs "a") false] 2 /\
  wrap_streaming true false [RMsg (bs "a") true; RMsg (bs "b") false; RErr 7; RMsg (bs "c") false] 3 = WRaw 3 true 1.
Proof. vm_compute. repeat split. Qed.
Example ex_query_roundtrip :
  let m := [(bs "k&=", [bs "a&b=c"; bs "x+y z"]); (bs ";", [bs "100%"; []]); (bs "a", [])] in
  map_bytes m /\ values_encode m = bs "%3B=100%25&%3B=&k%26%3D=a%26b%3Dc&k%26%3D=x%2By+z" /\
  parse_query (values_encode m) = [(bs ";", [bs "100%"; []]); (bs "k&=", [bs "a&b=c"; bs "x+y z"])].
Proof. split; [|vm_compute; split; reflexivity]. repeat constructor; vm_compute; reflexivity. Qed.
