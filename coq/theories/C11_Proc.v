(* C11_Proc.v — executable model of internal/app/connectconformance/process.go:
     cmdProcess.abort / result  (an OS process started by runCommand through os/exec)
     localProcess.abort / result (a goroutine started by runInProcess)
   as a small TIMED state machine.  Time is in milliseconds (N), the clock starts at the
   first abort().  What the child does is a SCRIPT (how it reacts to SIGTERM, to its pipes
   being closed, to SIGKILL; whether a descendant keeps its output pipe open; whether it had
   exited before anybody asked).  The three durations are parameters:
     p_grace   the wait of abort's goroutine before it closes the pipes by force
     p_grace2  its second wait, after which it gives up and marks the process done
     p_wd      cmd.WaitDelay (os/exec: after the context is cancelled and cmd.Cancel — SIGTERM
               — was called, the process is killed and its pipes are closed when this much
               time has passed; 0 = os/exec never does either)
   p_giveup = false is the variant in which the second wait has no time-out of its own.
   In the code all three are gracefulShutdownPeriod (C11_Consts.v, regenerated from the
   compiled code).  No proofs here. *)
From V Require Export Base.
Open Scope N_scope.

Record params := mkP { p_grace : N; p_grace2 : N; p_wd : N; p_giveup : bool }.

(* reaction to SIGTERM *)
Inductive treact :=
| TExit (d : N) (code : N)   (* exits d ms after the signal with this status *)
| TDefault                   (* no handler: dies of the signal at once *)
| TIgnore.

Record child := mkChild {
  ch_pre : option N;      (* had exited by itself, with this status, before the abort *)
  ch_term : treact;
  ch_close : option N;    (* exits (status 0) this long after its pipes were closed by force *)
  ch_killable : bool;     (* SIGKILL ends it (false: stuck, Process.Wait never returns for it) *)
  ch_holds : bool }.      (* a descendant keeps the output pipe open after the child is gone *)

Inductive cause := ByTerm | ByKill | ByClose.

(* what result() returns, as far as a caller can tell *)
Inductive rclass :=
| CNil          (* nil: exit status 0, nobody asked *)
| CExit         (* *exec.ExitError, exited with a status *)
| CSignal       (* *exec.ExitError, ended by a signal *)
| CCanceled     (* context.Canceled: status 0 after cmd.Cancel succeeded *)
| CGaveUp       (* abort's goroutine gave up: "process took too long" *)
| CDeadline     (* localProcess: context.DeadlineExceeded *)
| COther.       (* localProcess: the error the function returned *)

(* earlier of two dated events; the first wins a tie *)
Definition earlier (a b : option (N * cause)) : option (N * cause) :=
  match a, b with
  | Some (x, cx), Some (y, cy) => if y <? x then b else a
  | Some _, None => a
  | None, _ => b
  end.

Definition ev_term (ch : child) : option (N * cause) :=
  match ch.(ch_term) with
  | TExit d _ => Some (d, ByTerm)
  | TDefault => Some (0, ByTerm)
  | TIgnore => None
  end.
(* os/exec kills the process when WaitDelay has passed since the cancellation *)
Definition ev_kill (P : params) (ch : child) : option (N * cause) :=
  if (0 <? P.(p_wd)) && ch.(ch_killable) then Some (P.(p_wd), ByKill) else None.
Definition ev_close (P : params) (ch : child) : option (N * cause) :=
  match ch.(ch_close) with Some d => Some (P.(p_grace) + d, ByClose) | None => None end.

(* when cmd.Wait returns, given when the child is gone: at once, unless a descendant holds
   the pipe — then when os/exec closes the pipes (WaitDelay after the cancellation) *)
Definition wait_returns (P : params) (ch : child) (e : option (N * cause)) : option N :=
  match e with
  | None => None
  | Some (t, _) =>
    if ch.(ch_holds) then (if 0 <? P.(p_wd) then Some (N.max t P.(p_wd)) else None)
    else Some t
  end.

Definition later_than (o : option N) (t : N) : bool :=
  match o with Some x => t <? x | None => true end.

(* the child's end without / with the forced close *)
Definition end0 (P : params) (ch : child) := earlier (ev_term ch) (ev_kill P ch).
(* abort's goroutine closes the pipes iff `done` is still open when its first wait ends *)
Definition forced (P : params) (ch : child) : bool :=
  later_than (wait_returns P ch (end0 P ch)) P.(p_grace).
Definition child_end (P : params) (ch : child) : option (N * cause) :=
  if forced P ch then earlier (end0 P ch) (ev_close P ch) else end0 P ch.
Definition waited (P : params) (ch : child) : option N := wait_returns P ch (child_end P ch).

Definition give_up_at (P : params) : N := P.(p_grace) + P.(p_grace2).

Record pres := mkPres {
  pr_ret : option N;      (* when result() returns; None: never *)
  pr_class : rclass;
  pr_dead : bool;         (* the child is gone (reaped) when result() returns *)
  pr_killed : bool;       (* SIGKILL was sent by then *)
  pr_force : nat }.       (* forceClose calls *)

Definition class_of (ch : child) (c : cause) : rclass :=
  match c with
  | ByKill => CSignal
  | ByClose => CCanceled
  | ByTerm =>
    match ch.(ch_term) with
    | TExit _ 0 => CCanceled
    | TExit _ _ => CExit
    | _ => CSignal
    end
  end.

Definition gone_by (e : option (N * cause)) (t : N) : bool :=
  match e with Some (x, _) => x <=? t | None => false end.

(* SIGKILL has been sent by time t: WaitDelay is set and over, and the child was still there *)
Definition kill_sent_by (P : params) (ch : child) (t : N) : bool :=
  (0 <? P.(p_wd)) && (P.(p_wd) <=? t) &&
  negb (match child_end P ch with Some (x, _) => x <? P.(p_wd) | None => false end).

(* abort() (any number of times >= 1: abortOnce), then result() *)
Definition cmd_stop (P : params) (ch : child) : pres :=
  match ch.(ch_pre) with
  | Some code => mkPres (Some 0) (if code =? 0 then CNil else CExit) true false 0
  | None =>
    let e := child_end P ch in
    let w := waited P ch in
    let g := give_up_at P in
    let natural := match w with Some t => (t <=? g) || negb P.(p_giveup) | None => false end in
    let ret := match w with
               | Some t => Some (if P.(p_giveup) then N.min t g else t)
               | None => if P.(p_giveup) then Some g else None
               end in
    let cls := if natural then match e with Some (_, c) => class_of ch c | None => CGaveUp end
               else CGaveUp in
    match ret with
    | Some r => mkPres ret cls (gone_by e r) (kill_sent_by P ch r) (if forced P ch then 1 else 0)
    | None => mkPres None cls false false (if forced P ch then 1 else 0)
    end
  end.

(* ---------- localProcess ---------- *)
Record lchild := mkLc {
  lc_pre : bool;          (* the function had returned before the abort *)
  lc_cancel : option N;   (* it returns this long after its context was cancelled *)
  lc_err : bool }.        (* with an error *)

(* abort() = cancel; result() waits for the goroutine, but no longer than p_grace *)
Definition local_stop (P : params) (lc : lchild) : pres :=
  let own := if lc.(lc_err) then COther else CNil in
  if lc.(lc_pre) then mkPres (Some 0) own true false 0
  else match lc.(lc_cancel) with
       | Some d => if d <=? P.(p_grace) then mkPres (Some d) own true false 0
                   else mkPres (Some P.(p_grace)) CDeadline false false 0
       | None => mkPres (Some P.(p_grace)) CDeadline false false 0
       end.
(* a second abort(); result() right after the first (the deferred one of
   runTestCasesForServer): nothing more to wait for if the goroutine is gone *)
Definition local_stop_again (P : params) (lc : lchild) : N :=
  if lc.(lc_pre) then 0
  else match lc.(lc_cancel) with
       | Some d => if d <=? P.(p_grace) then 0 else N.min (d - P.(p_grace)) P.(p_grace)
       | None => P.(p_grace)
       end.

(* ---------- either kind, as runTestCasesForServer uses it ---------- *)
Inductive pkind := PCmd (ch : child) | PLocal (lc : lchild).
Definition stop (P : params) (pk : pkind) : pres :=
  match pk with PCmd ch => cmd_stop P ch | PLocal lc => local_stop P lc end.
(* time spent in n consecutive abort(); result() pairs; None: the first never returns *)
Definition stop_time (P : params) (pk : pkind) (n : nat) : option N :=
  match n with
  | O => Some 0
  | S m =>
    match (stop P pk).(pr_ret) with
    | None => None
    | Some t =>
      Some (t + match pk, m with
                | PLocal lc, S _ => local_stop_again P lc   (* cmdProcess: `done` is closed *)
                | _, _ => 0
                end)
    end
  end.

(* ---------- case decoding (extracted glue) ---------- *)
Definition sx_class (c : rclass) : sx :=
  I (match c with CNil => 0 | CExit => 1 | CSignal => 2 | CCanceled => 3 | CGaveUp => 5
             | CDeadline => 6 | COther => 7 end)%Z.

(* (pre code tmode td cmode cd killable holds wd n): one shape for all modes
   pre 0/1 · code exit status · tmode 0 exit after td with code, 1 default, 2 ignore ·
   cmode 0 no reaction to the forced close, 1 exits cd ms after it · wd only for the
   scripted OS (the real one has the code's) · n cases of the batch (modes 3, 4) *)
Record pscript := mkPs {
  ps_pre : bool; ps_code : N; ps_tmode : N; ps_td : N; ps_cmode : N; ps_cd : N;
  ps_killable : bool; ps_holds : bool; ps_wd : N; ps_n : nat }.
Definition un_pscript (s : sx) : option pscript :=
  match s with
  | L [I pre; I code; I tm; I td; I cm; I cd; I k; I h; I wd; I n] =>
    if ((pre <? 0) || (1 <? pre) || (code <? 0) || (tm <? 0) || (2 <? tm) || (td <? 0) || (cm <? 0) || (1 <? cm)
        || (cd <? 0) || (k <? 0) || (1 <? k) || (h <? 0) || (1 <? h) || (wd <? 0) || (n <? 0) || (8 <? n))%Z
    then None
    else Some (mkPs (negb (pre =? 0)%Z) (Z.to_N code) (Z.to_N tm) (Z.to_N td) (Z.to_N cm) (Z.to_N cd)
                    (negb (k =? 0)%Z) (negb (h =? 0)%Z) (Z.to_N wd) (Z.to_nat n))
  | _ => None
  end.
Definition child_of (ps : pscript) : child :=
  mkChild (if ps.(ps_pre) then Some ps.(ps_code) else None)
          (if ps.(ps_tmode) =? 0 then TExit ps.(ps_td) ps.(ps_code)
           else if ps.(ps_tmode) =? 1 then TDefault else TIgnore)
          (if ps.(ps_cmode) =? 0 then None else Some ps.(ps_cd))
          ps.(ps_killable) ps.(ps_holds).
Definition lchild_of (ps : pscript) : lchild :=
  mkLc ps.(ps_pre) (if ps.(ps_tmode) =? 0 then Some ps.(ps_td) else None) (negb (ps.(ps_code) =? 0)).
