(* Base.v — byte-string helpers shared by the models: Go's strings.Split / Join /
   TrimSpace / ToLower (ASCII), lexicographic order and sorting (sort.Strings),
   big-endian integers.  Lemmas characterising them live here too. *)
From Coq Require Import Lia Permutation Sorted.
From V Require Export Sx.
Open Scope N_scope.

(* ---------- split / join (strings.Split(s, sep) for a one-byte separator) ---------- *)
Fixpoint split_on (sep : N) (s : bytes) : list bytes :=
  match s with
  | [] => [[]]
  | c :: s' =>
    if N.eqb c sep then [] :: split_on sep s'
    else match split_on sep s' with
         | [] => [[c]]
         | w :: ws => (c :: w) :: ws
         end
  end.

Fixpoint join (sep : N) (l : list bytes) : bytes :=
  match l with
  | [] => []
  | [w] => w
  | w :: l' => w ++ sep :: join sep l'
  end.

Lemma split_on_nonempty sep s : split_on sep s <> [].
Proof.
  destruct s as [|c s]; simpl; [discriminate|].
  destruct (N.eqb c sep); [discriminate|]. destruct (split_on sep s); discriminate.
Qed.

Lemma join_cons sep w l : l <> [] -> join sep (w :: l) = w ++ sep :: join sep l.
Proof. destruct l; [congruence|reflexivity]. Qed.

Lemma join_split sep s : join sep (split_on sep s) = s.
Proof.
  induction s as [|c s IH]; [reflexivity|].
  cbn [split_on]. destruct (N.eqb_spec c sep) as [->|Hne].
  - rewrite join_cons by apply split_on_nonempty. rewrite IH. reflexivity.
  - pose proof (split_on_nonempty sep s) as NE.
    destruct (split_on sep s) as [|w ws]; [congruence|].
    destruct ws as [|w' ws]; simpl in *; rewrite <- IH; reflexivity.
Qed.

Definition no_sep (sep : N) (w : bytes) : Prop := ~ In sep w.

Lemma split_on_no_sep sep w : no_sep sep w -> split_on sep w = [w].
Proof.
  induction w as [|c w IH]; intros H; [reflexivity|].
  cbn [split_on]. destruct (N.eqb_spec c sep) as [->|Hne].
  - exfalso; apply H; left; reflexivity.
  - rewrite IH; [reflexivity|]. intros HI; apply H; right; exact HI.
Qed.

Lemma split_on_app sep w s :
  no_sep sep w -> split_on sep (w ++ sep :: s) = w :: split_on sep s.
Proof.
  induction w as [|c w IH]; intros H.
  - simpl. rewrite N.eqb_refl. reflexivity.
  - simpl. destruct (N.eqb_spec c sep) as [->|Hne].
    + exfalso; apply H; left; reflexivity.
    + rewrite IH; [reflexivity|]. intros HI; apply H; right; exact HI.
Qed.

Lemma split_join sep l :
  l <> [] -> Forall (no_sep sep) l -> split_on sep (join sep l) = l.
Proof.
  induction l as [|w l IH]; intros NE HF; [congruence|].
  inversion HF as [|? ? Hw Hl]; subst.
  destruct l as [|w' l].
  - simpl. apply split_on_no_sep; exact Hw.
  - rewrite join_cons by discriminate. rewrite split_on_app by exact Hw.
    rewrite IH; [reflexivity|discriminate|exact Hl].
Qed.

(* ---------- ASCII classes ---------- *)
Definition is_ascii_space (c : N) : bool :=
  (c =? 9) || (c =? 10) || (c =? 11) || (c =? 12) || (c =? 13) || (c =? 32).

Fixpoint trim_left (s : bytes) : bytes :=
  match s with
  | c :: s' => if is_ascii_space c then trim_left s' else s
  | [] => []
  end.
Definition trim_right (s : bytes) : bytes := rev (trim_left (rev s)).
Definition trim_space (s : bytes) : bytes := trim_right (trim_left s).

Definition lower_byte (c : N) : N := if (65 <=? c) && (c <=? 90) then c + 32 else c.
Definition lower (s : bytes) : bytes := map lower_byte s.
Definition is_digit (c : N) : bool := (48 <=? c) && (c <=? 57).

Fixpoint has_prefix (p s : bytes) : bool :=
  match p, s with
  | [], _ => true
  | x :: p', y :: s' => N.eqb x y && has_prefix p' s'
  | _, [] => false
  end.

(* ---------- lexicographic order on byte strings (Go string comparison) ---------- *)
Fixpoint bytes_leb (a b : bytes) : bool :=
  match a, b with
  | [], _ => true
  | _ :: _, [] => false
  | x :: a', y :: b' => if N.ltb x y then true else if N.eqb x y then bytes_leb a' b' else false
  end.

Fixpoint insert_sorted (x : bytes) (l : list bytes) : list bytes :=
  match l with
  | [] => [x]
  | y :: l' => if bytes_leb x y then x :: l else y :: insert_sorted x l'
  end.
Definition sort_bytes (l : list bytes) : list bytes := fold_right insert_sorted [] l.

Lemma insert_sorted_in x y l : In y (insert_sorted x l) <-> y = x \/ In y l.
Proof.
  induction l as [|z l IH]; simpl; [intuition|].
  destruct (bytes_leb x z); simpl; [intuition|]. rewrite IH. intuition.
Qed.

Lemma sort_bytes_in y l : In y (sort_bytes l) <-> In y l.
Proof.
  induction l as [|x l IH]; simpl; [tauto|].
  rewrite insert_sorted_in, IH. intuition.
Qed.

Definition mem_bytes (x : bytes) (l : list bytes) : bool := existsb (bytes_eqb x) l.
Lemma mem_bytes_in x l : mem_bytes x l = true <-> In x l.
Proof.
  unfold mem_bytes. rewrite existsb_exists. split.
  - intros (y & Hy & E). apply bytes_eqb_eq in E; subst; exact Hy.
  - intros H; exists x; split; [exact H|apply bytes_eqb_refl].
Qed.

Fixpoint dedup (l : list bytes) : list bytes :=
  match l with
  | [] => []
  | x :: l' => if mem_bytes x l' then dedup l' else x :: dedup l'
  end.
Lemma dedup_in y l : In y (dedup l) <-> In y l.
Proof.
  induction l as [|x l IH]; simpl; [tauto|].
  destruct (mem_bytes x l) eqn:E; simpl; rewrite IH; [|tauto].
  apply mem_bytes_in in E. split; [tauto|]. intros [->|?]; assumption.
Qed.

(* generic list-of-bytes equality, for component lists *)
Fixpoint lbytes_eqb (a b : list bytes) : bool :=
  match a, b with
  | [], [] => true
  | x :: a', y :: b' => bytes_eqb x y && lbytes_eqb a' b'
  | _, _ => false
  end.
Lemma lbytes_eqb_eq a b : lbytes_eqb a b = true <-> a = b.
Proof.
  revert b; induction a as [|x a IH]; intros [|y b]; simpl; try (split; congruence).
  rewrite andb_true_iff, bytes_eqb_eq, IH. split; [intros [-> ->]; reflexivity|].
  intros E; inversion E; auto.
Qed.

(* ---------- big-endian integers ---------- *)
Fixpoint be_decode (bs : bytes) (acc : N) : N :=
  match bs with
  | [] => acc
  | b :: r => be_decode r (acc * 256 + b)
  end.
Definition be32 (n : N) : bytes :=
  [ (n / 16777216) mod 256; (n / 65536) mod 256; (n / 256) mod 256; n mod 256 ].
