(* C15_Cfg.v — the configuration of the tracer's HPACK decoders (TracingHTTP2Conn hands
   hpack.NewDecoder its dynamic-table limit) against what the peers of a connection may negotiate.

   Well-formed traffic, as far as HPACK table sizes go (RFC 7541 4.2 / 6.3, RFC 9113 6.5.2): the receiver of a
   direction announced SETTINGS_HEADER_TABLE_SIZE = `allowed` - a 32-bit value, so any allowed <= 2^32-1 -
   and every header block of that direction opens with size updates <= allowed only.  The receiver's own decoder
   is `cfg_dec allowed dec`: the oracle `dec` on those blocks, a COMPRESSION_ERROR on the others.

   Proved here: a tracer whose decoder is built with hpack_unlimited (= math.MaxUint32) decodes, for EVERY
   negotiable `allowed`, exactly what the receiver decodes - block by block, frame by frame, run by run - so every
   theorem of C15_Props (all of them hold for ANY decoder) speaks about the traffic the receiver sees.  A tracer
   built with the protocol default 4096 does not (C15_Props: limit_4096_refuted). *)
From V Require Export C15_ProofsL2b.
Open Scope N_scope.

Definition dec_t := list bytes -> bytes -> option (list field).
Definition dec_eq (d1 d2 : dec_t) : Prop := forall hist blk, d1 hist blk = d2 hist blk.

(* ---------------------------------------------------------------------------------------- *)
(* the decoder with the larger limit accepts what the one with the smaller limit accepts    *)
(* ---------------------------------------------------------------------------------------- *)
Lemma hp_allows_mono : forall a b blk, a <= b -> hp_allows a blk = true -> hp_allows b blk = true.
Proof.
  intros a b blk Hab. unfold hp_allows. rewrite !forallb_forall. intros H v Hv.
  apply N.leb_le. apply N.le_trans with a; [apply N.leb_le; auto | exact Hab].
Qed.

Lemma cfg_dec_absorbs_proof : forall limit allowed dec, allowed <= limit ->
  dec_eq (cfg_dec limit (cfg_dec allowed dec)) (cfg_dec allowed dec).
Proof.
  intros limit allowed dec Hle hist blk. unfold cfg_dec.
  destruct (hp_allows allowed blk) eqn:E.
  - rewrite (hp_allows_mono allowed limit blk Hle E). reflexivity.
  - destruct (hp_allows limit blk); reflexivity.
Qed.

(* ---------------------------------------------------------------------------------------- *)
(* everything above the decoder depends on it only through its answers                      *)
(* ---------------------------------------------------------------------------------------- *)
Lemma parse_buf_ext : forall d1 d2, dec_eq d1 d2 -> forall hist buf, parse_buf d1 hist buf = parse_buf d2 hist buf.
Proof.
  intros d1 d2 H hist buf. unfold parse_buf.
  destruct (read_raw buf) as [[[h p] rest]|]; [|reflexivity].
  destruct (h_typ h =? 0); [reflexivity|].
  destruct (h_typ h =? 1); [|reflexivity].
  destruct (h_sid h =? 0); [reflexivity|].
  destruct (read_pad h p) as [[p1 pad]|]; [|reflexivity].
  destruct (if flag h 5 then if len p1 <? 5 then None else Some (skipn 5 p1) else Some p1) as [p2|]; [|reflexivity].
  destruct (len p2 <? pad); [reflexivity|].
  destruct (collect (length rest) (h_sid h) (flag h 2) (firstn (N.to_nat (len p2 - pad)) p2) rest) as [blk|]; [|reflexivity].
  rewrite (H hist blk). reflexivity.
Qed.

Lemma emit_frame_ext : forall d1 d2, dec_eq d1 d2 -> forall st, emit_frame d1 st = emit_frame d2 st.
Proof.
  intros d1 d2 H st. unfold emit_frame. rewrite (parse_buf_ext d1 d2 H). reflexivity.
Qed.

Lemma ft_step_ext : forall d1 d2, dec_eq d1 d2 -> forall st data, ft_step d1 st data = ft_step d2 st data.
Proof.
  intros d1 d2 H st data. unfold ft_step.
  destruct (f_isreq st && (len (f_pre st) <? 24)); [reflexivity|].
  destruct (f_expect st =? 0).
  - destruct (take (9 - len (f_prefix st)) data) as [d [rest|]]; [|reflexivity].
    rewrite (emit_frame_ext d1 d2 H). reflexivity.
  - destruct (take (f_expect st - f_actual st) data) as [d [rest|]]; [|reflexivity].
    rewrite (emit_frame_ext d1 d2 H). reflexivity.
Qed.

Lemma ft_loop_ext : forall d1 d2, dec_eq d1 d2 -> forall fuel st data, ft_loop d1 fuel st data = ft_loop d2 fuel st data.
Proof.
  intros d1 d2 H. induction fuel as [|fuel IH]; intros st data; destruct data as [|x data]; simpl; try reflexivity.
  rewrite (ft_step_ext d1 d2 H).
  destruct (ft_step d2 st (x :: data)) as [[st1 out] [rest|]]; [|reflexivity].
  rewrite IH. reflexivity.
Qed.

Lemma ft_trace_ext : forall d1 d2, dec_eq d1 d2 -> forall st data, ft_trace d1 st data = ft_trace d2 st data.
Proof.
  intros d1 d2 H st data. unfold ft_trace. rewrite (ft_loop_ext d1 d2 H). reflexivity.
Qed.

Lemma decode_frames_ext : forall d1 d2, dec_eq d1 d2 -> forall raws hist acc inblock,
  decode_frames d1 hist acc inblock raws = decode_frames d2 hist acc inblock raws.
Proof.
  intros d1 d2 H. induction raws as [|r rest IH]; intros hist acc inblock; simpl; [reflexivity|].
  destruct (continues inblock r); [apply IH|].
  rewrite (parse_buf_ext d1 d2 H).
  destruct (parse_buf d2 hist (acc ++ r)) as [[f hist']|]; [|reflexivity].
  rewrite IH. reflexivity.
Qed.

Lemma spec_frames_ext : forall d1 d2, dec_eq d1 d2 -> forall isreq s, spec_frames d1 isreq s = spec_frames d2 isreq s.
Proof.
  intros d1 d2 H isreq s. unfold spec_frames. rewrite !(decode_frames_ext d1 d2 H). reflexivity.
Qed.

Lemma conn_op_ext : forall r1 r2 w1 w2, dec_eq r1 r2 -> dec_eq w1 w2 ->
  forall c o, conn_op r1 w1 c o = conn_op r2 w2 c o.
Proof.
  intros r1 r2 w1 w2 Hr Hw c o. destruct o; simpl; try reflexivity.
  - rewrite (ft_trace_ext r1 r2 Hr). reflexivity.
  - rewrite (ft_trace_ext w1 w2 Hw). reflexivity.
Qed.

Lemma conn_run_ext : forall r1 r2 w1 w2, dec_eq r1 r2 -> dec_eq w1 w2 ->
  forall ops c, conn_run r1 w1 c ops = conn_run r2 w2 c ops.
Proof.
  intros r1 r2 w1 w2 Hr Hw. induction ops as [|o ops IH]; intros c; simpl; [reflexivity|].
  rewrite (conn_op_ext r1 r2 w1 w2 Hr Hw).
  destruct (conn_op r2 w2 c o) as [[c1 x]|]; [|reflexivity].
  rewrite IH. reflexivity.
Qed.

(* ---------------------------------------------------------------------------------------- *)
(* the statements of C15_Props                                                              *)
(* ---------------------------------------------------------------------------------------- *)
Definition negotiable (allowed : N) : Prop := allowed <= 4294967295.

Lemma unlimited_decodes_what_the_receiver_decodes_proof : forall allowed dec, negotiable allowed ->
  dec_eq (cfg_dec hpack_unlimited (cfg_dec allowed dec)) (cfg_dec allowed dec).
Proof. intros allowed dec H. apply cfg_dec_absorbs_proof. exact H. Qed.

Lemma tracer_frames_are_the_receivers_frames_proof : forall allowed dec isreq chunks, negotiable allowed ->
  snd (ft_feed (cfg_dec hpack_unlimited (cfg_dec allowed dec)) (ft_init isreq) chunks) =
  spec_frames (cfg_dec allowed dec) isreq (concat chunks).
Proof.
  intros allowed dec isreq chunks H.
  rewrite chunks_are_split_frames_proof.
  apply spec_frames_ext. apply unlimited_decodes_what_the_receiver_decodes_proof. exact H.
Qed.

Lemma tracer_runs_as_with_the_receivers_decoders_proof : forall ar aw dr dw ops c, negotiable ar -> negotiable aw ->
  conn_run (cfg_dec hpack_unlimited (cfg_dec ar dr)) (cfg_dec hpack_unlimited (cfg_dec aw dw)) c ops =
  conn_run (cfg_dec ar dr) (cfg_dec aw dw) c ops.
Proof.
  intros ar aw dr dw ops c Hr Hw.
  apply conn_run_ext; apply unlimited_decodes_what_the_receiver_decodes_proof; assumption.
Qed.

(* which limits do: exactly the ones no announcement can exceed.  The block that tells them apart opens with a
   size update to 2^32-1 (3f e0 ff ff ff 0f), legal once the receiver has announced that size. *)
Definition suffices (limit : N) : Prop :=
  forall allowed dec, negotiable allowed -> dec_eq (cfg_dec limit (cfg_dec allowed dec)) (cfg_dec allowed dec).

Definition blk_max_update : bytes := [63; 224; 255; 255; 255; 15].

Lemma blk_max_update_updates : leading_updates blk_max_update = [4294967295].
Proof. vm_compute. reflexivity. Qed.

Lemma limit_suffices_iff_proof : forall limit, suffices limit <-> 4294967295 <= limit.
Proof.
  intros limit. split.
  - intros H.
    assert (Hn : negotiable 4294967295) by (unfold negotiable; apply N.le_refl).
    specialize (H 4294967295 (fun _ _ => Some []) Hn [] blk_max_update).
    unfold cfg_dec, hp_allows in H. rewrite blk_max_update_updates in H.
    change (forallb (fun v => v <=? 4294967295) [4294967295]) with true in H.
    change (forallb (fun v => v <=? limit) [4294967295]) with ((4294967295 <=? limit) && true) in H.
    destruct (4294967295 <=? limit) eqn:E.
    + apply N.leb_le. exact E.
    + simpl in H. discriminate H.
  - intros H allowed dec Ha. apply cfg_dec_absorbs_proof.
    unfold negotiable in Ha. apply N.le_trans with 4294967295; assumption.
Qed.

(* the limits TracingHTTP2Conn hands to hpack.NewDecoder (C15_Consts.v: read off the constructed connection - client
   read / write, server read / write - on every run) *)
From V Require Import C15_Consts.

Lemma configured_decoders_suffice_proof : forall limit, In limit go_hpack_allowed -> suffices limit.
Proof.
  intros limit Hin. apply limit_suffices_iff_proof.
  assert (F : forallb (fun l => 4294967295 <=? l) go_hpack_allowed = true) by (vm_compute; reflexivity).
  rewrite forallb_forall in F. apply N.leb_le. apply F. exact Hin.
Qed.

(* ... to all four decoders, and none starts below the protocol's initial table size 4096 (a decoder starting
   smaller would lose entries the encoder still refers to before any size update is sent) *)
Lemma configured_decoders_complete_proof :
  length go_hpack_allowed = 4%nat /\ length go_hpack_initial = 4%nat /\ Forall (fun m => 4096 <= m) go_hpack_initial.
Proof.
  split; [vm_compute; reflexivity|]. split; [vm_compute; reflexivity|].
  apply Forall_forall. intros m Hm.
  assert (F : forallb (fun l => 4096 <=? l) go_hpack_initial = true) by (vm_compute; reflexivity).
  rewrite forallb_forall in F. apply N.leb_le. apply F. exact Hm.
Qed.
