(* C02_Proofs.v — proofs for C02_Props.  The verdict theorem is proved against C03_Spec.agree and transferred to
   results.go's assert through C03's assert_iff_proof. *)
From Coq Require Import Lia.
From V Require Import C02_Spec C03_Proofs.
Open Scope N_scope.

(* ------------------------------------------------------------------ *)
(* robustness                                                         *)
(* ------------------------------------------------------------------ *)
Lemma expected_stream_payload_no_crash tc idx d : expected_stream_payload tc idx d <> Crash.
Proof.
  unfold expected_stream_payload.
  destruct (t_stype tc =? 5); [|discriminate].
  destruct (Nat.ltb idx (length (t_requests tc))) eqn:E; [|discriminate].
  apply Nat.ltb_lt in E.
  destruct (nth_error (t_requests tc) idx) eqn:N; [discriminate|].
  apply nth_error_None in N. lia.
Qed.

Lemma expected_stream_payload_ok tc idx d : exists p, expected_stream_payload tc idx d = Ok p.
Proof.
  unfold expected_stream_payload.
  destruct (t_stype tc =? 5); [|eexists; reflexivity].
  destruct (Nat.ltb idx (length (t_requests tc))) eqn:E; [|eexists; reflexivity].
  apply Nat.ltb_lt in E.
  destruct (nth_error (t_requests tc) idx) eqn:N; [eexists; reflexivity|].
  apply nth_error_None in N. lia.
Qed.

Lemma expected_stream_payloads_ok tc datas : forall idx, exists ps, expected_stream_payloads tc idx datas = Ok ps.
Proof.
  induction datas as [|d ds IH]; intros idx; simpl; [eexists; reflexivity|].
  destruct (expected_stream_payload_ok tc idx d) as [p ->].
  destruct (IH (S idx)) as [ps ->]. eexists; reflexivity.
Qed.

Lemma expected_total_proof : forall codec tc, expected codec tc <> Crash.
Proof.
  intros codec tc. unfold expected.
  destruct ((t_stype tc =? 1) || (t_stype tc =? 2)).
  - unfold expected_unary. destruct (first_def true (t_requests tc)); try discriminate.
    destruct (rd_err d); discriminate.
  - destruct ((t_stype tc =? 3) || (t_stype tc =? 4) || (t_stype tc =? 5)); [|discriminate].
    unfold expected_stream. destruct (first_def false (t_requests tc)); try discriminate.
    destruct (expected_stream_payloads_ok tc (rd_data d) 0) as [ps ->]. discriminate.
Qed.

Lemma all_ok_no_crash {A} (l : list (outcome A)) : Forall (fun o => o <> Crash) l -> all_ok l <> Crash.
Proof.
  induction 1 as [|o l Ho _ IH]; simpl; [discriminate|].
  destruct o; try congruence; destruct (all_ok l); congruence.
Qed.

Lemma load_total_proof : forall codecs tcs, load codecs tcs <> Crash.
Proof.
  intros codecs tcs. unfold load.
  destruct (existsb _ tcs); [discriminate|].
  destruct (existsb _ tcs); [discriminate|].
  destruct (has_dup _); [discriminate|].
  destruct (is_nil _ || is_nil _); [discriminate|].
  set (perms := flat_map (fun tc => map (fun c => (tc, c)) codecs) (filter expandable tcs)).
  pose proof (all_ok_no_crash (map (fun p => expected (snd p) (fst p)) perms)) as H.
  destruct (all_ok (map (fun p => expected (snd p) (fst p)) perms)); try discriminate.
  exfalso; apply H; [|reflexivity].
  apply Forall_forall. intros o Ho. apply in_map_iff in Ho. destruct Ho as (pm & <- & _).
  apply expected_total_proof.
Qed.

(* ------------------------------------------------------------------ *)
(* small facts about the handlers and clients                         *)
(* ------------------------------------------------------------------ *)
Lemma recv_all_spec l : forall f d acc,
  recv_all l f d acc =
  ((if f then match l with [] => d | r :: _ => rq_def r end else d), acc ++ reqs_any l).
Proof.
  induction l as [|r l IH]; intros f d acc; simpl.
  - rewrite app_nil_r. destruct f; reflexivity.
  - rewrite IH. simpl. rewrite <- app_assoc. simpl. destruct f; reflexivity.
Qed.

Lemma g_recv_all_spec l : forall d acc,
  g_recv_all l d acc =
  ((match d with Some _ => d | None => match l with [] => None | r :: _ => Some (rq_def r) end end), acc ++ reqs_any l).
Proof.
  induction l as [|r l IH]; intros d acc; simpl.
  - rewrite app_nil_r. destruct d; reflexivity.
  - rewrite IH. simpl. rewrite <- app_assoc. simpl. destruct d; reflexivity.
Qed.

Lemma flush_length q hs rq k ds : length (flush q hs rq k ds) = length ds.
Proof. revert k; induction ds as [|d ds IH]; intros k; simpl; [reflexivity|]. rewrite IH. reflexivity. Qed.

Lemma alternate_app n : forall l a b, alternate n l = (a, b) -> a ++ b = l.
Proof.
  induction n as [|n IH]; intros l a b H; simpl in H.
  - inversion H; reflexivity.
  - destruct l as [|p rest]; [inversion H; reflexivity|].
    destruct (alternate n rest) as [g m] eqn:E. inversion H; subst. simpl. f_equal. apply IH. exact E.
Qed.

Lemma stream_report_eq n full w :
  stream_report n full w = mkR (w_headers w) (w_trailers w) (w_msgs w) (w_err w) None 0.
Proof.
  unfold stream_report. destruct full; [|reflexivity].
  destruct (alternate n (w_msgs w)) as [g m] eqn:E. rewrite (alternate_app _ _ _ _ E). reflexivity.
Qed.

(* the gRPC server's handlers compute the same wire as the reference server's *)
Lemma g_full_loop_spec hs d reqs : forall k sent rn rest pend,
  full_loop [] hs k (skipn k (rd_data d)) reqs = (sent, rn, rest, pend) ->
  g_full_loop hs (Some d) k reqs = (sent, rn, pend) /\ rest = skipn rn (rd_data d).
Proof.
  induction reqs as [|r more IH]; intros k sent rn rest pend H; simpl in *.
  - inversion H; subst. split; reflexivity.
  - destruct (skipn k (rd_data d)) as [|x ds] eqn:SK.
    + inversion H; subst. rewrite <- SK.
      assert (N : nth_error (rd_data d) rn = None).
      { apply nth_error_None. destruct (Nat.le_gt_cases (length (rd_data d)) rn) as [L|L]; [exact L|].
        exfalso. assert (length (skipn rn (rd_data d)) = 0)%nat by (rewrite SK; reflexivity).
        rewrite skipn_length in H0. lia. }
      rewrite N. split; reflexivity.
    + assert (N : nth_error (rd_data d) k = Some x /\ skipn (S k) (rd_data d) = ds).
      { clear -SK. revert k SK. induction (rd_data d) as [|y l IHl]; intros k SK.
        - destruct k; discriminate.
        - destruct k; simpl in *; [inversion SK; split; reflexivity|]. apply IHl. exact SK. }
      destruct N as [N1 N2]. rewrite N1.
      destruct (full_loop [] hs (S k) ds more) as [[[s1 r1] t1] p1] eqn:F.
      rewrite <- N2 in F. destruct (IH _ _ _ _ _ F) as [G ->].
      rewrite G. inversion H; subst. split; [|reflexivity]. destruct (Nat.eqb k 0); reflexivity.
Qed.

Lemma grpc_server_same_proof : forall st hs reqs, grpc_server st hs reqs = ref_server st [] hs reqs.
Proof.
  intros st hs reqs. unfold grpc_server, ref_server.
  destruct (st =? 1).
  { unfold g_unary, srv_unary. destruct reqs as [|r [|]]; reflexivity. }
  destruct (st =? 2).
  { unfold g_client_stream, srv_client_stream. rewrite g_recv_all_spec, recv_all_spec. simpl.
    destruct reqs as [|r l]; reflexivity. }
  destruct (st =? 3).
  { unfold g_server_stream, srv_server_stream. destruct reqs as [|r [|]]; try reflexivity.
    destruct (rq_def r); [|reflexivity]. rewrite flush_length. reflexivity. }
  unfold g_bidi, srv_bidi. destruct reqs as [|r0 l]; [reflexivity|].
  destruct (rq_full r0).
  - destruct (rq_def r0) as [d|] eqn:D.
    + destruct (full_loop [] hs 0 (rd_data d) (r0 :: l)) as [[[s rn] rest] pend] eqn:F.
      destruct (g_full_loop_spec hs d (r0 :: l) 0 s rn rest pend F) as [G ->].
      rewrite G. reflexivity.
    + simpl. reflexivity.
  - destruct (rq_def r0) as [d|]; [|reflexivity].
    simpl skipn. rewrite !Nat.add_0_l. reflexivity.
Qed.

(* ------------------------------------------------------------------ *)
(* well-formedness, unpacked                                          *)
(* ------------------------------------------------------------------ *)
Definition req_ok (st : N) (r : request) : Prop :=
  rq_kind r = kind_of_stype st
  /\ (forall d, rq_def r = Some d -> wf_headers (rd_headers d) = true /\ wf_headers (rd_trailers d) = true).

(* full_duplex of the first message (the only one any peer reads) matches the stream type *)
Definition first_full (st : N) (reqs : list request) : Prop :=
  match reqs with [] => True | r :: _ => rq_full r = (st =? 5) end.

Lemma wf_unpack tc : wf tc = true ->
  (1 <= t_stype tc <= 5) /\ wf_headers (t_reqheaders tc) = true
  /\ Forall (req_ok (t_stype tc)) (t_requests tc)
  /\ first_full (t_stype tc) (t_requests tc)
  /\ (t_stype tc = 1 \/ t_stype tc = 3 -> exists r, t_requests tc = [r])
  /\ (t_get tc = true -> t_stype tc = 1).
Proof.
  unfold wf. rewrite !andb_true_iff. intros [[[[[[E _] H] F] FF] L] GU].
  unfold expandable in E. apply andb_true_iff in E. destruct E as [E1 E2].
  apply N.leb_le in E1. apply N.leb_le in E2.
  split; [lia|]. split; [exact H|]. split; [|split; [|split]].
  - apply Forall_forall. intros r Hr. rewrite forallb_forall in F. specialize (F r Hr).
    rewrite !andb_true_iff in F. destruct F as [K D].
    apply N.eqb_eq in K.
    split; [exact K|]. intros d Hd. rewrite Hd in D.
    unfold wf_def in D. apply andb_true_iff in D. exact D.
  - unfold first_full_ok in FF. unfold first_full. destruct (t_requests tc) as [|r l]; [exact Logic.I|].
    apply Bool.eqb_prop in FF. exact FF.
  - intros [S|S]; rewrite S in L; simpl in L; apply Nat.eqb_eq in L;
      destruct (t_requests tc) as [|r [|]]; try discriminate; eexists; reflexivity.
  - intros G. rewrite G in GU. simpl in GU. apply N.eqb_eq. exact GU.
Qed.

Lemma kind_resolvable st r : req_ok st r -> resolvable (req_any r) = true.
Proof.
  intros [K _]. unfold resolvable, req_any, n_resolvable. simpl. rewrite K. unfold kind_of_stype.
  destruct (st =? 1); [reflexivity|]. destruct (st =? 2); [reflexivity|]. destruct (st =? 3); reflexivity.
Qed.

Lemma reqs_resolvable st l : Forall (req_ok st) l -> Forall (fun a => resolvable a = true) (reqs_any l).
Proof. induction 1; simpl; constructor; [eapply kind_resolvable; eassumption|assumption]. Qed.

(* ------------------------------------------------------------------ *)
(* agreement of request infos, payloads, errors                       *)
(* ------------------------------------------------------------------ *)
Definition similar (hs hs' : list header) (re ra : reqinfo) : Prop :=
  ri_timeout re = None /\ ri_timeout ra = None /\ included (ri_query re) (ri_query ra) /\ ri_requests ra = ri_requests re
  /\ Forall (fun a => resolvable a = true) (ri_requests re)
  /\ ((ri_headers re = hs /\ ri_headers ra = hs') \/ ri_headers re = []).

Lemma requests_agree_refl l : Forall (fun a => resolvable a = true) l -> Forall2 request_agree l l.
Proof. induction 1; constructor; [split; [assumption|reflexivity]|assumption]. Qed.

Lemma similar_agree hs hs' b re ra : included hs hs' -> similar hs hs' re ra -> reqinfo_agree b re ra.
Proof.
  intros I (T1 & T2 & Q & R & F & H). split.
  - intros _. split; [|split].
    + destruct H as [[-> ->]| ->]; [exact I|apply included_nil].
    + rewrite T1, T2. exact Logic.I.
    + exact Q.
  - rewrite R. apply requests_agree_refl. exact F.
Qed.

(* the expected request info with the query params [qe] against the echoed one with [qa] *)
Lemma similar_infoq qe qa hs hs' l : included qe qa -> Forall (fun a => resolvable a = true) l ->
  similar hs hs' (infoq qe hs l) (infoq qa hs' l).
Proof.
  intros Q F. split; [reflexivity|]. split; [reflexivity|]. split; [exact Q|]. split; [reflexivity|].
  split; [exact F|]. left; split; reflexivity.
Qed.

(* no query param expected: whatever the handler saw *)
Lemma similar_info q hs hs' l : Forall (fun a => resolvable a = true) l -> similar hs hs' (info hs l) (infoq q hs' l).
Proof. intros F. apply similar_infoq; [apply included_nil|exact F]. Qed.

Lemma similar_info_nil hs hs' l : Forall (fun a => resolvable a = true) l -> similar hs hs' (info [] l) (info [] l).
Proof.
  intros F. split; [reflexivity|]. split; [reflexivity|]. split; [apply included_nil|]. split; [reflexivity|].
  split; [exact F|]. right; reflexivity.
Qed.

Lemma similar_empty hs hs' : similar hs hs' empty_ri empty_ri.
Proof.
  split; [reflexivity|]. split; [reflexivity|]. split; [apply included_nil|]. split; [reflexivity|].
  split; [constructor|]. right; reflexivity.
Qed.

Definition pay_ok (hs hs' : list header) (pe pa : payload) : Prop :=
  p_data pe = p_data pa /\ similar hs hs' (p_info pe) (p_info pa).

Lemma pay_ok_agree hs hs' e a : included hs hs' -> Forall2 (pay_ok hs hs') e a -> payloads_agree e a.
Proof.
  intros I F. split; [eapply Forall2_len; exact F|].
  intros i pe pa He Ha. destruct (Forall2_nth _ _ _ _ _ _ F He Ha) as [D S].
  split; [exact D|]. eapply similar_agree; eassumption.
Qed.

Lemma details_agree (ds : list (N * bytes)) ex ex' :
  Forall2 detail_agree ex ex' ->
  Forall2 detail_agree (map (fun kb => DOther (det_any kb)) ds ++ ex) (map (fun kb => DOther (det_any kb)) ds ++ ex').
Proof.
  intros F. induction ds as [|kb ds IH]; simpl; [exact F|]. constructor; [reflexivity|exact IH].
Qed.

Lemma conv_err_agree x ex ex' :
  Forall2 detail_agree ex ex' -> error_agree [] (Some (conv_err x ex)) (Some (conv_err x ex')).
Proof.
  intros F. simpl. split; [left; reflexivity|]. split; [intros m Hm; rewrite Hm; reflexivity|].
  apply details_agree. exact F.
Qed.

(* ------------------------------------------------------------------ *)
(* streams: the expected payloads against what the servers send       *)
(* ------------------------------------------------------------------ *)
Section Streams.
  Variable tc : tcase.
  Variables hs' q : list header.           (* request headers and query params as the handler sees them *)
  Let hs := t_reqheaders tc.
  Let reqs := t_requests tc.
  Hypothesis RES : Forall (fun a => resolvable a = true) (reqs_any reqs).

  (* server stream, half duplex: everything with response 0 *)
  Lemma flush_ok datas : (t_stype tc =? 5) = false -> forall k ps,
    expected_stream_payloads tc k datas = Ok ps ->
    Forall2 (pay_ok hs hs') ps (flush q hs' (reqs_any reqs) k datas).
  Proof.
    intros NF. induction datas as [|d ds IH]; intros k ps H; simpl in H.
    - inversion H. constructor.
    - unfold expected_stream_payload in H. rewrite NF in H.
      destruct (expected_stream_payloads tc (S k) ds) as [ps'| |] eqn:E; try discriminate.
      inversion H; subst. simpl. constructor; [|apply IH; exact E].
      split; [reflexivity|]. simpl. destruct (Nat.eqb k 0); [apply similar_info; exact RES|apply similar_empty].
  Qed.

  (* full duplex, past the last request: surplus responses carry no request info *)
  Lemma surplus_ok datas pend : (t_stype tc =? 5) = true -> forall k ps,
    (length reqs <= k)%nat -> (0 < k)%nat ->
    expected_stream_payloads tc k datas = Ok ps ->
    Forall2 (pay_ok hs hs') ps (flush q hs' pend k datas).
  Proof.
    intros FD. induction datas as [|d ds IH]; intros k ps L P H; simpl in H.
    - inversion H. constructor.
    - unfold expected_stream_payload in H. rewrite FD in H.
      assert (LT : Nat.ltb k (length (t_requests tc)) = false) by (apply Nat.ltb_ge; exact L).
      rewrite LT in H.
      destruct (expected_stream_payloads tc (S k) ds) as [ps'| |] eqn:E; try discriminate.
      inversion H; subst. simpl. constructor; [|apply IH; [lia|lia|exact E]].
      split; [reflexivity|]. simpl. destruct k; [lia|]. simpl. apply similar_empty.
  Qed.

  Lemma skipn_nth {A} (l : list A) k x : nth_error l k = Some x -> skipn k l = x :: skipn (S k) l.
  Proof.
    revert k. induction l as [|y l IH]; intros [|k] H; simpl in *; try discriminate.
    - inversion H; reflexivity.
    - apply IH. exact H.
  Qed.

  (* full duplex: the alternation *)
  Lemma full_ok datas : (t_stype tc =? 5) = true -> (0 < length reqs)%nat -> forall k ps sent rn rest pend,
    expected_stream_payloads tc k datas = Ok ps ->
    full_loop q hs' k datas (skipn k reqs) = (sent, rn, rest, pend) ->
    Forall2 (pay_ok hs hs') ps (sent ++ flush q hs' pend rn rest) /\ (rn + length rest = k + length datas)%nat.
  Proof.
    intros FD NZ. induction datas as [|d ds IH]; intros k ps sent rn rest pend H F; simpl in H.
    - inversion H; subst. destruct (skipn k reqs); simpl in F; inversion F; subst; simpl.
      + split; [constructor|reflexivity].
      + split; [constructor|reflexivity].
    - unfold expected_stream_payload in H. rewrite FD in H.
      destruct (Nat.ltb k (length (t_requests tc))) eqn:LT.
      + apply Nat.ltb_lt in LT.
        destruct (nth_error (t_requests tc) k) as [r|] eqn:N; [|apply nth_error_None in N; lia].
        destruct (expected_stream_payloads tc (S k) ds) as [ps'| |] eqn:E; try discriminate.
        inversion H; subst. unfold reqs in F. rewrite (skipn_nth _ _ _ N) in F. cbn [full_loop] in F.
        destruct (full_loop q hs' (S k) ds (skipn (S k) (t_requests tc))) as [[[s1 r1] t1] p1] eqn:F1.
        inversion F; subst. destruct (IH _ _ _ _ _ _ E F1) as [A B].
        simpl. split; [|lia]. constructor; [|exact A].
        split; [reflexivity|]. simpl.
        assert (R1 : Forall (fun a => resolvable a = true) [req_any r]).
        { constructor; [|constructor]. eapply Forall_forall in RES; [exact RES|].
          unfold reqs_any. apply in_map. eapply nth_error_In. exact N. }
        destruct (Nat.eqb k 0); [apply similar_info; exact R1|apply similar_info_nil; exact R1].
      + apply Nat.ltb_ge in LT.
        assert (SK : skipn k reqs = []) by (apply skipn_all2; exact LT).
        rewrite SK in F. simpl in F. inversion F; subst. simpl.
        split; [|reflexivity].
        apply (surplus_ok (d :: ds) [] FD rn); [exact LT|unfold reqs in NZ; lia|].
        simpl. unfold expected_stream_payload. rewrite FD.
        assert (LT' : Nat.ltb rn (length (t_requests tc)) = false) by (apply Nat.ltb_ge; exact LT).
        rewrite LT'. exact H.
  Qed.
End Streams.

(* ------------------------------------------------------------------ *)
(* metadata                                                           *)
(* ------------------------------------------------------------------ *)
Lemma all_vals_notin a n : ~ In n (map lname a) -> all_vals a n = [].
Proof.
  induction a as [|h a IH]; intros NI; simpl; [reflexivity|].
  destruct (bytes_eqb_spec (lname h) n) as [E|E].
  - exfalso. apply NI. left. exact E.
  - simpl. apply IH. intros I. apply NI. right. exact I.
Qed.

Lemma nodup_last_all a n : has_dup (map lname a) = false -> last_vals a n = all_vals a n.
Proof.
  induction a as [|h a IH]; intros ND; [reflexivity|].
  simpl in ND. apply orb_false_iff in ND. destruct ND as [M ND].
  unfold last_vals in *. simpl.
  destruct (bytes_eqb_spec (lname h) n) as [E|E].
  - assert (NI : ~ In n (map lname a)).
    { intros I. rewrite <- E in I. apply mem_bytes_in in I. congruence. }
    rewrite (all_vals_notin a n NI), app_nil_r.
    assert (L : lookup_last a n = None).
    { apply lookup_none. apply Forall_forall. intros h' Hh' E'. apply NI. rewrite <- E'. apply in_map. exact Hh'. }
    rewrite L. reflexivity.
  - simpl. rewrite <- (IH ND). destruct (lookup_last a n); reflexivity.
Qed.

Lemma wf_headers_nodup hs : wf_headers hs = true -> has_dup (map lname hs) = false.
Proof. unfold wf_headers. rewrite andb_true_iff, negb_true_iff. tauto. Qed.

Definition stream_kind (st : N) : Prop := st = 3 \/ st = 4 \/ st = 5.

Section Met.
  Variables (tr_req : list header -> list header) (tr_query : bool -> N -> N -> list header) (tr_rsp : wire -> wire).
  Hypothesis TK : transport_ok tr_req tr_query tr_rsp.

  Lemma status_none a : status_agree None a.
  Proof. intros x y H; discriminate. Qed.

  (* headers and trailers reported separately *)
  Lemma meta_split st H T w' (e a : result) :
    wf_headers H = true -> wf_headers T = true ->
    r_headers e = H -> r_trailers e = T ->
    w' = tr_rsp (mkW H T (w_msgs w') (w_err w')) \/ True ->
    included H (r_headers a) -> included T (r_trailers a) ->
    metadata_agree (mkD st []) e a.
  Proof. intros _ _ EH ET _ IH IT. left. rewrite EH, ET. split; assumption. Qed.

  (* one-response calls *)
  Lemma unary_core st n d0 rq hs hs' qe qa cl :
    st = 1 \/ st = 2 -> included hs hs' -> included qe qa -> Forall (fun a => resolvable a = true) rq ->
    (forall d, d0 = Some d -> wf_headers (rd_headers d) = true /\ wf_headers (rd_trailers d) = true) ->
    agree (mkD st [])
      (match d0 with
       | None => mkR [] [] [mkP [] (infoq qe hs rq)] None None 0
       | Some d => match rd_err d with
                   | Some x => mkR (rd_headers d) (rd_trailers d) [] (Some (conv_err x [DReq (infoq qe hs rq)])) None 0
                   | None => mkR (rd_headers d) (rd_trailers d) [mkP (hd [] (rd_data d)) (infoq qe hs rq)] None None 0
                   end
       end)
      (client_of cl st n (tr_rsp (unary_wire d0 (parse_unary qa hs' d0 rq)))).
  Proof.
    intros ST I IQ R WF.
    assert (U : (st =? 1) || (st =? 2) = true).
    { destruct ST as [-> | ->]; reflexivity. }
    assert (SI : similar hs hs' (infoq qe hs rq) (infoq qa hs' rq)) by (apply similar_infoq; [exact IQ|exact R]).
    destruct d0 as [d|]; [destruct (WF d eq_refl) as [WH WT]; destruct (rd_err d) as [x|] eqn:X|].
    - (* error *)
      unfold parse_unary. rewrite X. cbn [unary_wire def_headers def_trailers].
      set (w := mkW (rd_headers d) (rd_trailers d) [] (Some (conv_err x [DReq (infoq qa hs' rq)]))).
      assert (ERR : error_agree [] (Some (conv_err x [DReq (infoq qe hs rq)])) (Some (conv_err x [DReq (infoq qa hs' rq)]))).
      { apply conv_err_agree. constructor; [|constructor]. simpl. eapply similar_agree; [exact I|exact SI]. }
      destruct cl; unfold client_of, ref_client, grpc_client; rewrite U, (tk_err _ _ _ TK w); simpl w_err; cbv iota.
      + split; [exact ERR|]. split; [split; [reflexivity|intros i pe pa He; destruct i; discriminate]|].
        split; [|apply status_none].
        right. split.
        * split; [reflexivity|]. split; [discriminate|]. simpl. destruct ST; [left|right]; assumption.
        * right. intros k (h & Hin & Hk). simpl in Hin.
          assert (IN : In k (all_names w)).
          { unfold all_names. simpl. rewrite <- Hk. apply in_app_iff in Hin. apply in_app_iff.
            destruct Hin as [Hin|Hin]; [left|right]; apply (in_map lname) in Hin; exact Hin. }
          destruct (tk_meta _ _ _ TK w WH WT ltac:(discriminate) k IN) as (vs & C & SV).
          exists vs. split; [exact C|]. unfold merged_vals. simpl r_headers. simpl r_trailers.
          rewrite (nodup_last_all _ k (wf_headers_nodup _ WH)). exact SV.
      + split; [exact ERR|]. split; [split; [reflexivity|intros i pe pa He; destruct i; discriminate]|].
        split; [|apply status_none].
        left. split; [apply (tk_hdrs _ _ _ TK w WH)|apply (tk_trls _ _ _ TK w WT)].
    - (* a response *)
      unfold parse_unary. rewrite X. cbn [unary_wire def_headers def_trailers].
      set (w := mkW (rd_headers d) (rd_trailers d) [mkP (hd [] (rd_data d)) (infoq qa hs' rq)] None).
      assert (A : agree (mkD st []) (mkR (rd_headers d) (rd_trailers d) [mkP (hd [] (rd_data d)) (infoq qe hs rq)] None None 0)
                        (mkR (w_headers (tr_rsp w)) (w_trailers (tr_rsp w)) (w_msgs w) None None 0)).
      { split; [exact Logic.I|]. split.
        - eapply pay_ok_agree; [exact I|]. constructor; [|constructor]. split; [reflexivity|exact SI].
        - split; [|apply status_none]. left. split; [apply (tk_hdrs _ _ _ TK w WH)|apply (tk_trls _ _ _ TK w WT)]. }
      destruct cl; unfold client_of, ref_client, grpc_client; rewrite U, (tk_err _ _ _ TK w), (tk_msgs _ _ _ TK w); exact A.
    - (* no definition *)
      unfold parse_unary. cbn [unary_wire def_headers def_trailers].
      set (w := mkW [] [] [mkP [] (infoq qa hs' rq)] None).
      assert (A : agree (mkD st []) (mkR [] [] [mkP [] (infoq qe hs rq)] None None 0)
                        (mkR (w_headers (tr_rsp w)) (w_trailers (tr_rsp w)) (w_msgs w) None None 0)).
      { split; [exact Logic.I|]. split.
        - eapply pay_ok_agree; [exact I|]. constructor; [|constructor]. split; [reflexivity|exact SI].
        - split; [|apply status_none]. left. split; apply included_nil. }
      destruct cl; unfold client_of, ref_client, grpc_client; rewrite U, (tk_err _ _ _ TK w), (tk_msgs _ _ _ TK w); exact A.
  Qed.

  (* streams: the client reports the wire as it is *)
  Lemma stream_client st n cl w : stream_kind st ->
    client_of cl st n w = mkR (w_headers w) (w_trailers w) (w_msgs w) (w_err w) None 0.
  Proof.
    intros SK. assert (U : (st =? 1) || (st =? 2) = false) by (destruct SK as [->|[->| ->]]; reflexivity).
    destruct cl; unfold client_of, ref_client, grpc_client; rewrite U; apply stream_report_eq.
  Qed.

  Lemma stream_core st n cl d hs hs' ps msgs ex ex' :
    stream_kind st -> included hs hs' ->
    wf_headers (rd_headers d) = true -> wf_headers (rd_trailers d) = true ->
    Forall2 (pay_ok hs hs') ps msgs ->
    (rd_err d <> None -> Forall2 detail_agree ex ex') ->
    agree (mkD st [])
      (mkR (rd_headers d) (rd_trailers d) ps (option_map (fun e => conv_err e ex) (rd_err d)) None 0)
      (client_of cl st n (tr_rsp (mkW (rd_headers d) (rd_trailers d) msgs (option_map (fun e => conv_err e ex') (rd_err d))))).
  Proof.
    intros SK I WH WT P D. rewrite (stream_client _ _ _ _ SK).
    set (w := mkW (rd_headers d) (rd_trailers d) msgs (option_map (fun e => conv_err e ex') (rd_err d))).
    rewrite (tk_err _ _ _ TK w), (tk_msgs _ _ _ TK w). simpl w_err. simpl w_msgs.
    split; [|split; [|split]].
    - simpl. destruct (rd_err d) as [x|]; [|exact Logic.I]. apply conv_err_agree. apply D. discriminate.
    - eapply pay_ok_agree; eassumption.
    - left. split; [apply (tk_hdrs _ _ _ TK w WH)|apply (tk_trls _ _ _ TK w WT)].
    - apply status_none.
  Qed.

  Lemma empty_core st n cl : stream_kind st ->
    agree (mkD st []) (mkR [] [] [] None None 0) (client_of cl st n (tr_rsp empty_wire)).
  Proof.
    intros SK. rewrite (stream_client _ _ _ _ SK).
    rewrite (tk_err _ _ _ TK empty_wire), (tk_msgs _ _ _ TK empty_wire). simpl.
    split; [exact Logic.I|]. split; [split; [reflexivity|intros i pe pa He; destruct i; discriminate]|].
    split; [left; split; apply included_nil|apply status_none].
  Qed.

  Lemma first_def_wf st (unary : bool) reqs :
    Forall (req_ok st) reqs ->
    (if unary then st = 1 \/ st = 2 else stream_kind st) ->
    first_def unary reqs =
    match reqs with
    | [] => FNone
    | r :: _ => match rq_def r with Some d => FDef d | None => FNone end
    end.
  Proof.
    intros F ST. destruct reqs as [|r l]; [reflexivity|]. inversion F as [|? ? [K _] _]; subst.
    unfold first_def. rewrite K. unfold kind_of_stype.
    destruct unary.
    - destruct ST as [-> | ->]; reflexivity.
    - destruct ST as [->|[->| ->]]; reflexivity.
  Qed.

  (* the query params a GET case expects are among those the protocol prescribes *)
  Lemma expected_query_included codec comp : known_codec codec ->
    included (expected_query codec) (tr_query true codec comp).
  Proof.
    intros KC h Hin. apply (tk_query _ _ _ TK codec comp KC).
    unfold expected_query, connect_get_params, codec_name, codec_param in *.
    destruct KC as [-> | ->]; simpl in *; tauto.
  Qed.

  Lemma expectation_met_proof_body : forall tc codec comp e, wf tc = true -> fd_immediate_error_multi tc = false ->
    known_codec codec -> expected codec tc = Ok e ->
    forall sv cl, peers_apply sv cl tc ->
    agree (case_def tc) e (observed tr_req tr_query tr_rsp (server_of sv) (client_of cl) codec comp tc).
  Proof.
    intros tc codec comp e WF KC KCO EX sv cl PA.
    destruct (wf_unpack tc WF) as (RNG & WH & RQ & FF & ONE & GU).
    unfold observed, case_def.
    (* what the handler sees as query: the transport's for the reference server, nothing for the gRPC one *)
    set (qa := match sv with RefServer => tr_query (t_get tc) codec comp | GrpcServer => [] end).
    replace (server_of sv (t_stype tc) (tr_query (t_get tc) codec comp) (tr_req (t_reqheaders tc)) (t_requests tc))
      with (ref_server (t_stype tc) qa (tr_req (t_reqheaders tc)) (t_requests tc))
      by (destruct sv; [reflexivity|unfold server_of, grpc_server_q; symmetry; apply grpc_server_same_proof]).
    set (qe := if t_get tc then expected_query codec else []) in *.
    assert (IQ : included qe qa).
    { unfold qe, qa. unfold peers_apply in PA. destruct (t_get tc); [|apply included_nil].
      destruct (PA eq_refl) as [-> _]. apply expected_query_included. exact KCO. }
    set (hs := t_reqheaders tc) in *. set (hs' := tr_req hs).
    assert (I : included hs hs') by (apply (tk_req _ _ _ TK); exact WH).
    assert (RES : Forall (fun a => resolvable a = true) (reqs_any (t_requests tc))) by (eapply reqs_resolvable; exact RQ).
    assert (ST : t_stype tc = 1 \/ t_stype tc = 2 \/ stream_kind (t_stype tc)).
    { unfold stream_kind. lia. }
    unfold expected in EX.
    destruct ST as [S1|[S2|SK]].
    - (* unary *)
      rewrite S1 in EX. simpl in EX. unfold expected_unary in EX.
      destruct (ONE (or_introl S1)) as [r ER]. rewrite ER in *.
      rewrite (first_def_wf (t_stype tc) true [r] RQ (or_introl S1)) in EX.
      unfold ref_server. rewrite S1. simpl N.eqb. cbv iota. unfold srv_unary.
      inversion RQ as [|? ? [_ WD] _]; subst.
      pose proof (unary_core 1 (length [r]) (rq_def r) [req_any r] hs hs' qe qa cl (or_introl eq_refl) I IQ RES WD) as A.
      destruct (rq_def r) as [d|]; [destruct (rd_err d)|]; inversion EX; subst; exact A.
    - (* client stream *)
      rewrite S2 in EX. simpl in EX. unfold expected_unary in EX.
      rewrite (first_def_wf (t_stype tc) true _ RQ (or_intror S2)) in EX.
      unfold ref_server. rewrite S2. simpl N.eqb. cbv iota. unfold srv_client_stream.
      rewrite recv_all_spec. simpl app.
      set (d0 := match t_requests tc with [] => None | r :: _ => rq_def r end).
      assert (WD : forall d, d0 = Some d -> wf_headers (rd_headers d) = true /\ wf_headers (rd_trailers d) = true).
      { unfold d0. destruct (t_requests tc) as [|r l]; [discriminate|]. inversion RQ as [|? ? [_ W] _]; subst. exact W. }
      pose proof (unary_core 2 (length (t_requests tc)) d0 (reqs_any (t_requests tc)) hs hs' qe qa cl (or_intror eq_refl) I IQ RES WD) as A.
      unfold d0 in *. destruct (t_requests tc) as [|r l]; [inversion EX; subst; exact A|].
      destruct (rq_def r) as [d|]; [destruct (rd_err d)|]; inversion EX; subst; exact A.
    - (* streams *)
      assert (NU : (t_stype tc =? 1) || (t_stype tc =? 2) = false) by (destruct SK as [->|[->| ->]]; reflexivity).
      assert (YS : (t_stype tc =? 3) || (t_stype tc =? 4) || (t_stype tc =? 5) = true) by (destruct SK as [->|[->| ->]]; reflexivity).
      rewrite NU, YS in EX. unfold expected_stream in EX.
      rewrite (first_def_wf (t_stype tc) false _ RQ SK) in EX.
      assert (SRV : ref_server (t_stype tc) qa hs' (t_requests tc) =
                    if t_stype tc =? 3 then srv_server_stream qa hs' (t_requests tc) else srv_bidi qa hs' (t_requests tc)).
      { unfold ref_server. destruct SK as [->|[->| ->]]; reflexivity. }
      rewrite SRV. clear SRV.
      destruct (t_requests tc) as [|r0 l] eqn:ER.
      { (* no request at all: client stream excluded, so a bidi stream *)
        inversion EX; subst.
        assert (N3 : (t_stype tc =? 3) = false).
        { destruct (N.eqb_spec (t_stype tc) 3) as [E3|]; [|reflexivity].
          destruct (ONE (or_intror E3)) as [r Er]. discriminate. }
        rewrite N3. simpl. apply empty_core. exact SK. }
      inversion RQ as [|? ? [_ WD] RQ']; subst.
      assert (FU : rq_full r0 = (t_stype tc =? 5)) by (first [exact FF | rewrite ER in FF; exact FF]).
      destruct (rq_def r0) as [d|] eqn:D.
      2:{ inversion EX; subst.
          destruct (t_stype tc =? 3) eqn:E3.
          - unfold srv_server_stream. destruct l as [|r9 l9]; [rewrite D; apply empty_core; exact SK|].
            apply N.eqb_eq in E3. destruct (ONE (or_intror E3)) as [r8 Er]. discriminate.
          - unfold srv_bidi. rewrite D. apply empty_core. exact SK. }
      destruct (WD d eq_refl) as [WHd WTd].
      destruct (expected_stream_payloads tc 0 (rd_data d)) as [ps| |] eqn:EP; try discriminate.
      inversion EX; subst. clear EX.
      destruct (t_stype tc =? 3) eqn:E3.
      + (* server stream *)
        apply N.eqb_eq in E3. destruct (ONE (or_intror E3)) as [r Er]. inversion Er; subst.
        unfold srv_server_stream. rewrite D. unfold final_err.
        assert (NF : (t_stype tc =? 5) = false) by (rewrite E3; reflexivity).
        pose proof (flush_ok tc hs' qa ltac:(rewrite ER; exact RES) (rd_data d) NF 0 ps EP) as P.
        rewrite ER in P. simpl reqs_any in P.
        apply (stream_core _ _ _ _ hs hs'); try assumption. intros _.
        destruct (rd_data d); simpl; constructor; [|constructor].
        simpl. eapply similar_agree; [exact I|]. first [apply similar_info; exact RES | rewrite ER in RES; apply similar_info; exact RES | rewrite ER; apply similar_info; exact RES].
      + unfold srv_bidi. rewrite D, FU.
        destruct (t_stype tc =? 5) eqn:E5.
        * (* full duplex *)
          destruct (full_loop qa hs' 0 (rd_data d) (r0 :: l)) as [[[sent rn] rest] pend] eqn:FL.
          assert (NZ : (0 < length (t_requests tc))%nat) by (rewrite ER; simpl; lia).
          pose proof (full_ok tc hs' qa ltac:(rewrite ER; exact RES) (rd_data d) E5 NZ 0 ps sent rn rest pend EP) as FO.
          rewrite ER in FO. simpl skipn in FO. destruct (FO FL) as [P TOT]. clear FO.
          unfold final_err. apply (stream_core _ _ _ _ hs hs'); try assumption. intros NE.
          rewrite TOT. simpl. destruct (rd_data d) as [|x xs] eqn:DD; simpl; [|constructor].
          simpl in FL. inversion FL; subst. constructor; [|constructor].
          simpl. eapply similar_agree; [exact I|].
          (* immediate error: only one request, or the known class *)
          unfold fd_immediate_error_multi in KC. rewrite E5, ER in KC.
          rewrite (first_def_wf (t_stype tc) false _ RQ SK), D, DD in KC. simpl in KC.
          destruct (rd_err d) as [x|] eqn:XE; [|congruence].
          destruct l as [|r1 l']; [|simpl in KC; discriminate].
          simpl. first [apply similar_info; exact RES | rewrite ER in RES; apply similar_info; exact RES | rewrite ER; apply similar_info; exact RES].
        * (* half duplex *)
          rewrite recv_all_spec. simpl snd. simpl app.
          unfold final_err.
          assert (NF : (t_stype tc =? 5) = false) by exact E5.
          pose proof (flush_ok tc hs' qa ltac:(rewrite ER; exact RES) (rd_data d) NF 0 ps EP) as P.
          rewrite ER in P.
          apply (stream_core _ _ _ _ hs hs'); try assumption. intros _.
          destruct (rd_data d); simpl; constructor; [|constructor].
          simpl. eapply similar_agree; [exact I|]. first [apply similar_info; exact RES | rewrite ER in RES; apply similar_info; exact RES | rewrite ER; apply similar_info; exact RES].
  Qed.
End Met.

(* ------------------------------------------------------------------ *)
(* the statements of C02_Props                                        *)
(* ------------------------------------------------------------------ *)
Lemma expectation_agrees_proof : expectation_met_statement.
Proof.
  intros tr_req tr_query tr_rsp TK tc codec comp e WF KC KCO EX sv cl PA. unfold passes.
  apply (expectation_met_proof_body tr_req tr_query tr_rsp TK); assumption.
Qed.

Lemma expectation_met_proof :
  forall tr_req tr_query tr_rsp, transport_ok tr_req tr_query tr_rsp ->
  forall tc codec comp e, wf tc = true -> fd_immediate_error_multi tc = false -> known_codec codec ->
  expected codec tc = Ok e ->
  forall sv cl, peers_apply sv cl tc ->
  assert_errs (case_def tc) e (observed tr_req tr_query tr_rsp (server_of sv) (client_of cl) codec comp tc) = [].
Proof.
  intros tr_req tr_query tr_rsp TK tc codec comp e WF KC KCO EX sv cl PA. apply assert_iff_proof.
  apply (expectation_met_proof_body tr_req tr_query tr_rsp TK); assumption.
Qed.

Lemma expected_defined_proof : forall codec tc, wf tc = true -> exists e, expected codec tc = Ok e.
Proof.
  intros codec tc WF. destruct (wf_unpack tc WF) as (RNG & _ & RQ & _ & _ & _).
  assert (ST : t_stype tc = 1 \/ t_stype tc = 2 \/ stream_kind (t_stype tc)) by (unfold stream_kind; lia).
  unfold expected. destruct ST as [S|[S|SK]].
  - rewrite S. simpl. unfold expected_unary. rewrite (first_def_wf (t_stype tc) true _ RQ (or_introl S)).
    destruct (t_requests tc) as [|r l]; [eexists; reflexivity|].
    destruct (rq_def r) as [d|]; [destruct (rd_err d)|]; eexists; reflexivity.
  - rewrite S. simpl. unfold expected_unary. rewrite (first_def_wf (t_stype tc) true _ RQ (or_intror S)).
    destruct (t_requests tc) as [|r l]; [eexists; reflexivity|].
    destruct (rq_def r) as [d|]; [destruct (rd_err d)|]; eexists; reflexivity.
  - assert (NU : (t_stype tc =? 1) || (t_stype tc =? 2) = false) by (destruct SK as [->|[->| ->]]; reflexivity).
    assert (YS : (t_stype tc =? 3) || (t_stype tc =? 4) || (t_stype tc =? 5) = true) by (destruct SK as [->|[->| ->]]; reflexivity).
    rewrite NU, YS. unfold expected_stream. rewrite (first_def_wf (t_stype tc) false _ RQ SK).
    destruct (t_requests tc) as [|r l]; [eexists; reflexivity|].
    destruct (rq_def r) as [d|]; [|eexists; reflexivity].
    destruct (expected_stream_payloads_ok tc (rd_data d) 0) as [ps ->]. eexists; reflexivity.
Qed.

(* ------------------------------------------------------------------ *)
(* the transport hypotheses are satisfiable: two instances            *)
(* ------------------------------------------------------------------ *)
Lemma has_dup_app_r a b : has_dup (a ++ b) = false -> has_dup b = false.
Proof. induction a as [|x a IH]; simpl; [auto|]. intros H. apply orb_false_iff in H. apply IH, H. Qed.

Lemma nodup_later_differ pre h post :
  has_dup (map lname (pre ++ h :: post)) = false -> Forall (fun h' => lname h' <> lname h) post.
Proof.
  intros ND. rewrite map_app in ND. apply has_dup_app_r in ND. simpl in ND.
  apply orb_false_iff in ND. destruct ND as [M _].
  apply Forall_forall. intros h' Hh' E.
  assert (I : In (lname h) (map lname post)) by (rewrite <- E; apply in_map; exact Hh').
  apply mem_bytes_in in I. congruence.
Qed.

Lemma nodup_included hs : has_dup (map lname hs) = false -> included hs hs.
Proof.
  intros ND h Hin. apply in_split in Hin. destruct Hin as (pre & post & ->).
  exists (h_vals h). split; [|reflexivity].
  apply carries_intro; [reflexivity|]. exact (nodup_later_differ _ _ _ ND).
Qed.

Lemma dedup_nodup l : NoDup (dedup l).
Proof.
  induction l as [|x l IH]; simpl; [constructor|].
  destruct (mem_bytes x l) eqn:E; [exact IH|]. constructor; [|exact IH].
  rewrite dedup_in. intros I. apply mem_bytes_in in I. congruence.
Qed.

(* the single bag of a failed call carries, under every name the response set, header values then trailer values *)
Lemma meta_merge_carries H T n :
  In n (map lname H ++ map lname T) -> carries (meta_merge H T) n (all_vals H n ++ all_vals T n).
Proof.
  intros I. unfold meta_merge.
  set (ks := dedup (map lname H ++ map lname T)).
  assert (LOW : forall k, In k ks -> lower k = k).
  { intros k Hk. unfold ks in Hk. rewrite dedup_in, <- map_app, in_map_iff in Hk.
    destruct Hk as (h & <- & _). apply lower_idem. }
  assert (ND : NoDup ks) by apply dedup_nodup.
  assert (Ik : In n ks) by (unfold ks; rewrite dedup_in; exact I).
  destruct (in_split _ _ Ik) as (pre & post & E). rewrite E in *. rewrite map_app. simpl map.
  apply (carries_intro (map _ pre) (mkH n (all_vals H n ++ all_vals T n)) (map _ post) n); [reflexivity|].
  apply Forall_forall. intros h' Hh' EQ. apply in_map_iff in Hh'. destruct Hh' as (k & <- & Hk). simpl in EQ.
  rewrite (LOW k), (LOW n) in EQ by (apply in_or_app; simpl; tauto). subst k.
  apply NoDup_remove_2 in ND. apply ND. apply in_or_app. right. exact Hk.
Qed.

(* everything of [e] occurs in [a], and [a] has no name twice *)
Lemma included_sub e a : (forall h, In h e -> In h a) -> has_dup (map lname a) = false -> included e a.
Proof. intros S ND h Hin. apply (nodup_included a ND). apply S. exact Hin. Qed.

(* the query string connect-go writes carries what the protocol prescribes *)
Lemma std_query_ok : forall codec comp, known_codec codec -> included (connect_get_params codec) (std_query true codec comp).
Proof.
  intros codec comp [-> | ->]; apply included_sub; try (vm_compute; reflexivity);
    intros h [<-|[<-|[]]]; vm_compute; tauto.
Qed.

Lemma transport_id_proof : transport_ok id_hdrs std_query id_wire.
Proof.
  constructor; unfold id_hdrs, id_wire; try reflexivity.
  - exact std_query_ok.
  - intros hs W. apply nodup_included, wf_headers_nodup, W.
  - intros w W. apply nodup_included, wf_headers_nodup, W.
  - intros w W. apply nodup_included, wf_headers_nodup, W.
  - intros w _ _ _ n I. eexists. split; [apply meta_merge_carries; exact I|reflexivity].
Qed.

(* a transport that behaves like an HTTP stack: names arrive in lower case, the values of a field joined with ", " *)
Definition join_hdr (h : header) : header := mkH (lower (h_name h)) [join_with (comma_sep false true) (h_vals h)].
Definition join_hdrs (hs : list header) : list header := map join_hdr hs.
Definition join_wire (w : wire) : wire := mkW (join_hdrs (w_headers w)) (join_hdrs (w_trailers w)) (w_msgs w) (w_err w).

Lemma rev_last (v : bytes) d : v <> [] -> rev v = last v d :: rev (removelast v).
Proof.
  intros NE. transitivity (rev (removelast v ++ [last v d])).
  - f_equal. apply app_removelast_last. exact NE.
  - rewrite rev_app_distr. reflexivity.
Qed.

Lemma vchar_facts c : is_vchar c = true -> c <> comma /\ c <> space.
Proof.
  unfold is_vchar, comma, space. rewrite !andb_true_iff, negb_true_iff. intros [[A B] C].
  apply N.leb_le in A. apply N.eqb_neq in C. split; [exact C|lia].
Qed.

Lemma value_ok_clean v : value_ok v = true -> clean v.
Proof.
  destruct v as [|c v']; [discriminate|]. unfold value_ok. rewrite !andb_true_iff. intros [[F L] A].
  split; [|split].
  - intros I. rewrite forallb_forall in A. specialize (A _ I). unfold comma in A. vm_compute in A. discriminate.
  - simpl. intros E. inversion E. apply vchar_facts in F. tauto.
  - rewrite (rev_last (c :: v') 0) by discriminate. simpl hd_error. intros E. inversion E as [E'].
    apply vchar_facts in L. tauto.
Qed.

Lemma header_ok_join h : header_ok h = true -> canon_vals [join_with (comma_sep false true) (h_vals h)] = canon_vals (h_vals h).
Proof.
  unfold header_ok. rewrite !andb_true_iff, negb_true_iff. intros [[_ NE] V].
  assert (F : Forall clean (h_vals h)).
  { apply Forall_forall. intros v Hv. apply value_ok_clean. rewrite forallb_forall in V. apply V. exact Hv. }
  assert (N : h_vals h <> []) by (intros E; rewrite E in NE; discriminate).
  destruct (canon_join_proof false true (h_vals h) N F) as [A B]. rewrite A, B. reflexivity.
Qed.

Lemma lname_join h : lname (join_hdr h) = lname h.
Proof. unfold lname, join_hdr. simpl. apply lower_idem. Qed.

Lemma names_join hs : map lname (join_hdrs hs) = map lname hs.
Proof. unfold join_hdrs. rewrite map_map. apply map_ext. exact lname_join. Qed.

Lemma canon_app a b : canon_vals (a ++ b) = canon_vals a ++ canon_vals b.
Proof. unfold canon_vals. apply flat_map_app. Qed.

Lemma all_vals_join X n : forallb header_ok X = true ->
  canon_vals (all_vals (join_hdrs X) n) = canon_vals (all_vals X n).
Proof.
  induction X as [|h X IH]; intros W; [reflexivity|].
  simpl in W. apply andb_true_iff in W. destruct W as [Wh WX].
  unfold all_vals in *. simpl. rewrite lname_join, !canon_app, (IH WX).
  destruct (bytes_eqb (lname h) n); [|reflexivity].
  simpl h_vals. rewrite (header_ok_join h Wh). reflexivity.
Qed.

Lemma join_included hs : wf_headers hs = true -> included hs (join_hdrs hs).
Proof.
  unfold wf_headers. rewrite andb_true_iff, negb_true_iff. intros [OK ND] h Hin.
  assert (Wh : header_ok h = true) by (rewrite forallb_forall in OK; apply OK; exact Hin).
  apply in_split in Hin. destruct Hin as (pre & post & ->).
  exists (h_vals (join_hdr h)). split.
  - unfold join_hdrs. rewrite map_app. simpl map. apply carries_intro.
    + simpl. apply lower_idem.
    + pose proof (nodup_later_differ _ _ _ ND) as F. apply Forall_forall. intros h' Hh'.
      apply in_map_iff in Hh'. destruct Hh' as (x & <- & Hx). rewrite Forall_forall in F. specialize (F x Hx).
      change (lname (join_hdr x) <> lname h). rewrite lname_join. exact F.
  - unfold same_values. simpl. symmetry. apply header_ok_join. exact Wh.
Qed.

Lemma transport_join_proof : transport_ok join_hdrs std_query join_wire.
Proof.
  constructor; try reflexivity.
  - exact std_query_ok.
  - exact join_included.
  - intros w W. apply join_included. exact W.
  - intros w W. apply join_included. exact W.
  - intros w WH WT _ n I. simpl.
    exists (all_vals (join_hdrs (w_headers w)) n ++ all_vals (join_hdrs (w_trailers w)) n). split.
    + apply meta_merge_carries. rewrite !names_join. exact I.
    + unfold same_values. rewrite !canon_app.
      unfold wf_headers in WH, WT. apply andb_true_iff in WH, WT. destruct WH as [WH _], WT as [WT _].
      rewrite (all_vals_join _ n WH), (all_vals_join _ n WT). reflexivity.
Qed.

(* ---------- the reference client's choice of the HTTP method ---------- *)
Lemma get_case_sent_as_get_proof : forall use_get len, sent_as_get documented_get_setup use_get len = use_get.
Proof. intros [|] len; reflexivity. Qed.

(* any cap on the URL length sends some GET case out as POST *)
Lemma url_cap_falls_back_proof : forall cap, exists len, sent_as_get (mkGS true (Some cap)) true len = false.
Proof.
  intros cap. exists (cap + 1)%Z. unfold sent_as_get. cbn.
  apply Z.leb_gt. lia.
Qed.

Lemma installed_get_setup_documented_proof : forall cap, setup_of c02_client_get_options cap = documented_get_setup.
Proof. intros cap. reflexivity. Qed.

(* expectation_agrees with the set-up made explicit: whatever the length of the URL, a case goes out as GET exactly
   when it sets use_get_http_method, so the run is the one the transport hypotheses speak about *)
Lemma expectation_met_any_url_length_proof :
  forall len tr_req tr_query tr_rsp, transport_ok tr_req tr_query tr_rsp ->
  forall tc codec comp e, wf tc = true -> fd_immediate_error_multi tc = false -> known_codec codec ->
  expected codec tc = Ok e ->
  forall sv cl, peers_apply sv cl tc ->
  passes tr_req (fun g => tr_query (sent_as_get documented_get_setup g len)) tr_rsp sv cl codec comp tc e.
Proof.
  intros len tr_req tr_query tr_rsp T tc codec comp e W F K E sv cl P.
  unfold passes, observed. rewrite get_case_sent_as_get_proof.
  exact (expectation_agrees_proof tr_req tr_query tr_rsp T tc codec comp e W F K E sv cl P).
Qed.
