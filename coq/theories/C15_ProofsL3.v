(* C15_ProofsL3.v — the stream layer: no nil dereference (never crashes), a stream's fate depends only on
   the frames that concern it (all interleavings), names, the retry collector. *)
From Coq Require Import Lia.
From V Require Export C15_Proofs.
Open Scope N_scope.

(* ---------------------------------------------------------------------------------------- *)
(* builder and data tracer: which events can finish a trace                                 *)
(* ---------------------------------------------------------------------------------------- *)
Definition nonfin (e : bev) : Prop := finishing e = false.

Lemma b_add_nonfin b e : nonfin e -> snd (b_add b e) = None /\ b_cleared (fst (b_add b e)) = b_cleared b.
Proof.
  unfold nonfin, b_add. intros F. destruct (is_nil (t_name (b_trace b))); [auto|].
  rewrite F. simpl. auto.
Qed.

Lemma b_adds_nonfin : forall es b, Forall nonfin es ->
  snd (b_adds b es) = [] /\ b_cleared (fst (b_adds b es)) = b_cleared b.
Proof.
  induction es as [|e r IH]; intros b F; [simpl; auto|].
  inversion F as [|? ? Fe Fr]; subst. simpl.
  destruct (b_add_nonfin b e Fe) as [E1 E2].
  destruct (b_add b e) as [b1 o]. simpl in E1, E2. subst o.
  destruct (IH b1 Fr) as [E3 E4]. destruct (b_adds b1 r) as [b2 l]. simpl in *. subst. split; [reflexivity|congruence].
Qed.

Lemma nonfin_data isreq e n : nonfin (data_ev isreq e n).
Proof. unfold nonfin, data_ev. destruct isreq; reflexivity. Qed.

Lemma dt_step_props d data d1 out k :
  dt_step d data = (d1, out, k) -> Forall nonfin out /\ d_hasb d1 = d_hasb d /\ d_isreq d1 = d_isreq d /\
  match k with Some r => (0 < d_expect d - d_actual d \/ d_expect d = 0) -> True | None => True end.
Proof.
  unfold dt_step. destruct (d_expect d =? 0).
  - destruct (take _ _) as [x [rest|]].
    + destruct (be_decode _ _ =? 0); intros E; inversion E; subst; simpl; repeat split; auto.
      constructor; [apply nonfin_data|constructor].
    + intros E; inversion E; subst; simpl; auto.
  - destruct (take _ _) as [x [rest|]].
    + intros E; inversion E; subst; simpl; repeat split; auto.
      destruct (d_end d) as [bb|]; [destruct (bb ++ x)|]; repeat constructor; apply nonfin_data.
    + intros E; inversion E; subst; simpl; auto.
Qed.

Lemma dt_loop_props : forall fuel d data d1 out,
  dt_loop fuel d data = (d1, out) -> Forall nonfin out /\ d_hasb d1 = d_hasb d /\ d_isreq d1 = d_isreq d.
Proof.
  induction fuel as [|fuel IH]; intros d data d1 out.
  - destruct data; simpl; intros E; inversion E; subst; auto.
  - destruct data as [|x data]; [simpl; intros E; inversion E; subst; auto|].
    cbn [dt_loop]. destruct (dt_step d (x :: data)) as [[d2 o2] [rest|]] eqn:S.
    + destruct (dt_step_props _ _ _ _ _ S) as (F & H1 & H2 & _).
      destruct (dt_loop fuel d2 rest) as [d3 o3] eqn:L. destruct (IH _ _ _ _ L) as (F3 & H3 & H4).
      intros E; inversion E; subst. repeat split; [apply Forall_app; auto|congruence|congruence].
    + destruct (dt_step_props _ _ _ _ _ S) as (F & H1 & H2 & _).
      intros E; inversion E; subst. auto.
Qed.

Lemma dt_trace_props d data d1 out :
  dt_trace d data = (d1, out) -> Forall nonfin out /\ d_hasb d1 = d_hasb d.
Proof.
  unfold dt_trace. destruct (d_stream d).
  - intros E. apply dt_loop_props in E. tauto.
  - intros E; inversion E; subst; simpl; auto.
Qed.

Lemma dt_flush_hasb d : d_hasb d = true ->
  exists d' evs, dt_flush d = Some (d', evs) /\ Forall nonfin evs /\ d_hasb d' = true.
Proof.
  intros H. unfold dt_flush. rewrite H.
  destruct (0 <? _); eexists; eexists; (split; [reflexivity|]); simpl; split; auto.
  constructor; [apply nonfin_data|constructor].
Qed.

Lemma dt_flush_props d d' evs : dt_flush d = Some (d', evs) -> Forall nonfin evs /\ d_hasb d' = d_hasb d.
Proof.
  unfold dt_flush. destruct (0 <? _).
  - destruct (d_hasb d); [|discriminate]. intros E; inversion E; subst; simpl. split; auto.
    constructor; [apply nonfin_data|constructor].
  - intros E; inversion E; subst; simpl; auto.
Qed.

(* ---------------------------------------------------------------------------------------- *)
(* invariant of the stream table: entries have a request tracer with a builder, and a builder
   that has not handed its trace over yet                                                     *)
(* ---------------------------------------------------------------------------------------- *)
Definition ok_stream (v : stream) : Prop := d_hasb (s_req v) = true /\ b_cleared (s_b v) = false.
Definition sm_ok (st : sm) : Prop := Forall (fun e => ok_stream (snd e)) (m_streams st).

Lemma Forall_filter' {A} (P : A -> Prop) f l : Forall P l -> Forall P (filter f l).
Proof. induction 1; simpl; [constructor|destruct (f x); auto]. Qed.

Lemma m_get_in k l v : m_get k l = Some v -> In (k, v) l.
Proof.
  induction l as [|[k' v'] r IH]; simpl; [discriminate|].
  destruct (N.eqb_spec k' k); [intros E; inversion E; subst; auto|auto].
Qed.

Lemma sm_ok_get st k v : sm_ok st -> m_get k (m_streams st) = Some v -> ok_stream v.
Proof.
  intros O G. apply m_get_in in G. unfold sm_ok in O. rewrite Forall_forall in O. apply (O _ G).
Qed.

Lemma close_stream_ok sid v isreq e : ok_stream v ->
  exists r acts, close_stream sid v isreq e = Some (r, acts) /\ (forall v', r = Some v' -> ok_stream v').
Proof.
  intros [Hq Hc]. unfold close_stream. destruct isreq.
  - destruct (dt_flush_hasb _ Hq) as (rq & evs & E & F & Hq'). rewrite E.
    destruct (b_adds (s_b v) (evs ++ [BReqEnd e])) as [b done] eqn:A.
    eexists; eexists; split; [reflexivity|].
    intros v'. simpl. destruct (is_nil_err e) eqn:Ne; [|discriminate].
    intros X; inversion X; subst. split; simpl; [assumption|].
    assert (Fa : Forall nonfin (evs ++ [BReqEnd e])).
    { apply Forall_app; split; [assumption|]. constructor; [|constructor]. unfold nonfin; simpl. rewrite Ne. reflexivity. }
    destruct (b_adds_nonfin _ (s_b v) Fa) as [_ C]. rewrite A in C. simpl in C. congruence.
  - simpl. destruct (d_hasb (s_resp v)) eqn:Hr.
    + destruct (dt_flush_hasb _ Hq) as (rq & evs & E & F & Hq'). rewrite E.
      destruct (dt_flush_hasb _ Hr) as (rs & evs2 & E2 & F2 & _). rewrite E2.
      destruct (b_adds _ _) as [b done]. eexists; eexists; split; [reflexivity|]. intros v' X; discriminate.
    + destruct (negb (is_nil_err e)).
      * destruct (dt_flush_hasb _ Hq) as (rq & evs & E & F & Hq'). rewrite E.
        destruct (b_adds _ _) as [b done]. eexists; eexists; split; [reflexivity|]. intros v' X; discriminate.
      * eexists; eexists; split; [reflexivity|]. intros v' X; discriminate.
Qed.

Lemma close_upd_ok sid v isreq e pre : ok_stream v ->
  exists u acts, close_upd (close_stream sid v isreq e) pre = Some (u, acts) /\ (forall v', u = USet v' -> ok_stream v').
Proof.
  intros O. destruct (close_stream_ok sid v isreq e O) as (r & acts & E & K). rewrite E.
  destruct r as [v2|]; simpl; eexists; eexists; (split; [reflexivity|]); intros v' X; inversion X; subst; auto.
Qed.

Lemma new_stream_ok fs : ok_stream (new_stream fs).
Proof. split; reflexivity. Qed.

Lemma sm_local_ok g max isreq f :
  (forall v, g = Some v -> ok_stream v) ->
  exists u acts, sm_local g max isreq f = Some (u, acts) /\ (forall v', u = USet v' -> ok_stream v').
Proof.
  intros G. destruct f as [sid es fs|sid es data|sid code|last code|]; simpl;
    try (eexists; eexists; split; [reflexivity|intros v' X; discriminate]).
  - (* HEADERS *)
    assert (Hs1 : forall v isnew acts0,
        (isnew = true -> v = new_stream fs) -> ok_stream v ->
        exists u acts,
          match
            (if isnew then Some (v, [])
             else if negb isreq && negb (s_got v) then
               match b_add (s_b v) (BRespStart (status_of fs) (make_headers fs)) with
               | (b, done) =>
                 Some (mkS b (s_req v) true
                           (mkDT (d_isreq (s_resp v)) (is_stream_proto (make_headers fs)) true (d_prefix (s_resp v))
                                 (d_env (s_resp v)) (d_expect (s_resp v)) (d_actual (s_resp v)) (d_end (s_resp v))),
                       completes sid (match done with Some t => [t] | None => [] end))
               end
             else if isreq then
               if b_cleared (s_b v) then None
               else Some (mkS (mkB (mkTr (t_name (b_trace (s_b v))) (t_req (b_trace (s_b v))) (make_headers fs)
                                         (t_resp (b_trace (s_b v))) (t_err (b_trace (s_b v))) (t_events (b_trace (s_b v))))
                                   false (b_req (s_b v)) (b_resp (s_b v))) (s_req v) (s_got v) (s_resp v), [])
             else
               match t_resp (b_trace (s_b v)) with
               | Some (stt, h, _) =>
                 Some (mkS (mkB (mkTr (t_name (b_trace (s_b v))) (t_req (b_trace (s_b v))) (t_reqtrailer (b_trace (s_b v)))
                                      (Some (stt, h, make_headers fs)) (t_err (b_trace (s_b v))) (t_events (b_trace (s_b v))))
                                (b_cleared (s_b v)) (b_req (s_b v)) (b_resp (s_b v))) (s_req v) (s_got v) (s_resp v), [])
               | None => Some (v, [])
               end)
          with
          | None => None
          | Some (s1, acts1) =>
            if es then close_upd (close_stream sid s1 isreq ENil) (acts0 ++ acts1)
            else Some (USet s1, acts0 ++ acts1)
          end = Some (u, acts) /\ (forall v', u = USet v' -> ok_stream v')).
    { intros v isnew acts0 _ [Oq Oc].
      assert (Fin : forall s1 acts1, ok_stream s1 ->
                exists u acts, (if es then close_upd (close_stream sid s1 isreq ENil) (acts0 ++ acts1)
                                else Some (USet s1, acts0 ++ acts1)) = Some (u, acts) /\
                               (forall v', u = USet v' -> ok_stream v')).
      { intros s1 acts1 O1. destruct es; [apply close_upd_ok; assumption|].
        eexists; eexists; split; [reflexivity|]. intros v' X; inversion X; subst; assumption. }
      destruct isnew; [apply Fin; split; assumption|].
      destruct (negb isreq && negb (s_got v)).
      - destruct (b_add_nonfin (s_b v) (BRespStart (status_of fs) (make_headers fs)) eq_refl) as [E1 E2].
        destruct (b_add (s_b v) _) as [b done]. simpl in E1, E2. apply Fin. split; simpl; congruence.
      - destruct isreq.
        + rewrite Oc. apply Fin. split; simpl; auto.
        + destruct (t_resp (b_trace (s_b v))) as [[[stt h] tr]|]; apply Fin; split; simpl; auto. }
    destruct g as [v|].
    + apply (Hs1 v false []); [discriminate|apply G; reflexivity].
    + destruct (negb isreq); [eexists; eexists; split; [reflexivity|intros v' X; discriminate]|].
      destruct (negb (max =? 0) && (max <? sid)); [eexists; eexists; split; [reflexivity|intros v' X; discriminate]|].
      apply (Hs1 (new_stream fs) true [CNew (test_name fs)]); [reflexivity|apply new_stream_ok].
  - (* DATA *)
    destruct g as [v|]; [|eexists; eexists; split; [reflexivity|intros v' X; discriminate]].
    destruct (G v eq_refl) as [Oq Oc].
    assert (Fin : forall s1 evs, d_hasb (s_req s1) = true -> b_cleared (s_b s1) = false -> Forall nonfin evs ->
      exists u acts,
        match b_adds (s_b s1) evs with
        | (b, done) =>
          if es then close_upd (close_stream sid (mkS b (s_req s1) (s_got s1) (s_resp s1)) isreq ENil) (completes sid done)
          else Some (USet (mkS b (s_req s1) (s_got s1) (s_resp s1)), completes sid done)
        end = Some (u, acts) /\ (forall v', u = USet v' -> ok_stream v')).
    { intros s1 evs Hq Hc F. destruct (b_adds_nonfin evs (s_b s1) F) as [_ C].
      destruct (b_adds (s_b s1) evs) as [b done]. simpl in C.
      assert (O2 : ok_stream (mkS b (s_req s1) (s_got s1) (s_resp s1))) by (split; simpl; congruence).
      destruct es; [apply close_upd_ok; assumption|].
      eexists; eexists; split; [reflexivity|]. intros v' X; inversion X; subst; assumption. }
    destruct isreq.
    + destruct (dt_trace (s_req v) data) as [d evs] eqn:T. destruct (dt_trace_props _ _ _ _ T) as [F H].
      apply (Fin (mkS (s_b v) d (s_got v) (s_resp v)) evs); simpl; congruence.
    + destruct (dt_trace (s_resp v) data) as [d evs] eqn:T. destruct (dt_trace_props _ _ _ _ T) as [F H].
      apply (Fin (mkS (s_b v) (s_req v) (s_got v) d) evs); simpl; congruence.
  - (* RST_STREAM *)
    destruct g as [v|]; [|eexists; eexists; split; [reflexivity|intros v' X; discriminate]].
    apply close_upd_ok. apply G; reflexivity.
Qed.

Lemma apply_upd_ok sid u l :
  Forall (fun e => ok_stream (snd e)) l -> (forall v', u = USet v' -> ok_stream v') ->
  Forall (fun e => ok_stream (snd e)) (apply_upd sid u l).
Proof.
  intros F K. destruct u as [|v|]; simpl; [assumption| |apply Forall_filter'; assumption].
  unfold m_set. constructor; [simpl; apply K; reflexivity|apply Forall_filter'; assumption].
Qed.

Lemma abandon_resp_ok k v e : ok_stream v -> exists a, abandon_resp k v e = Some a.
Proof.
  intros [Hq _]. unfold abandon_resp. destruct (dt_flush_hasb _ Hq) as (rq & evs & E & _). rewrite E.
  destruct (d_hasb (s_resp v)) eqn:Hr.
  - destruct (dt_flush_hasb _ Hr) as (rs & evs2 & E2 & _). rewrite E2. eexists; reflexivity.
  - eexists; reflexivity.
Qed.

Lemma abandon_req_ok k v e : ok_stream v -> exists a, abandon_req k v e = Some a.
Proof.
  intros [Hq _]. unfold abandon_req. destruct (dt_flush_hasb _ Hq) as (rq & evs & E & _). rewrite E. eexists; reflexivity.
Qed.

Lemma abandon_all_ok f l :
  (forall k v, ok_stream v -> exists a, f k v = Some a) ->
  Forall (fun e => ok_stream (snd e)) l -> exists a, abandon_all f l = Some a.
Proof.
  intros Hf. induction 1 as [|[k v] r O _ IH]; simpl; [eexists; reflexivity|].
  destruct (Hf k v O) as [a ->]. destruct IH as [b ->]. eexists; reflexivity.
Qed.

Lemma sm_frame_ok client st isreq f : sm_ok st ->
  exists st' acts, sm_frame client st isreq f = Some (st', acts) /\ sm_ok st'.
Proof.
  intros O.
  assert (Loc : forall sid, fsid f = Some sid ->
     exists st' acts,
       match sm_local (m_get sid (m_streams st)) (m_max st) isreq f with
       | None => None
       | Some (u, acts) => Some (mkSM (apply_upd sid u (m_streams st)) (m_max st), acts)
       end = Some (st', acts) /\ sm_ok st').
  { intros sid _.
    destruct (sm_local_ok (m_get sid (m_streams st)) (m_max st) isreq f) as (u & acts & E & K).
    { intros v Gv. eapply sm_ok_get; eauto. }
    rewrite E. eexists; eexists; split; [reflexivity|]. unfold sm_ok; simpl. apply apply_upd_ok; assumption. }
  destruct f as [sid es fs|sid es data|sid code|last code|]; unfold sm_frame;
    try (apply (Loc sid); reflexivity).
  - destruct (abandon_all_ok (fun k s => abandon_resp k s (EConn code)) (filter (fun e => last <? fst e) (m_streams st)))
      as [a E]; [intros; apply abandon_resp_ok; assumption|apply Forall_filter'; exact O|].
    rewrite E. eexists; eexists; split; [reflexivity|]. unfold sm_ok; simpl. apply Forall_filter'; exact O.
  - simpl. eexists; eexists; split; [reflexivity|assumption].
Qed.

Lemma sm_cancel_ok client st e : sm_ok st -> exists st' acts, sm_cancel client st e = Some (st', acts) /\ sm_ok st'.
Proof.
  intros O. unfold sm_cancel.
  destruct (abandon_all_ok (fun k s => if client then abandon_req k s e else abandon_resp k s e) (m_streams st)) as [a E].
  - intros k v Ov. destruct client; [apply abandon_req_ok|apply abandon_resp_ok]; assumption.
  - exact O.
  - rewrite E. eexists; eexists; split; [reflexivity|]. constructor.
Qed.

Lemma sm_frames_ok client : forall fs st isreq, sm_ok st ->
  exists st' acts, sm_frames client st isreq fs = Some (st', acts) /\ sm_ok st'.
Proof.
  induction fs as [|f r IH]; intros st isreq O; simpl.
  - eexists; eexists; split; [reflexivity|assumption].
  - destruct (sm_frame_ok client st isreq f O) as (st1 & a1 & E1 & O1). rewrite E1.
    destruct (IH st1 isreq O1) as (st2 & a2 & E2 & O2). rewrite E2.
    eexists; eexists; split; [reflexivity|assumption].
Qed.

Lemma sm_run_ok client : forall fs st, sm_ok st ->
  exists st' acts, sm_run client st fs = Some (st', acts) /\ sm_ok st'.
Proof.
  induction fs as [|[isreq f] r IH]; intros st O; simpl.
  - eexists; eexists; split; [reflexivity|assumption].
  - destruct (sm_frame_ok client st isreq f O) as (st1 & a1 & E1 & O1). rewrite E1.
    destruct (IH st1 O1) as (st2 & a2 & E2 & O2). rewrite E2.
    eexists; eexists; split; [reflexivity|assumption].
Qed.

(* ---------------------------------------------------------------------------------------- *)
(* never crashes                                                                            *)
(* ---------------------------------------------------------------------------------------- *)
Section NoCrash.
Variable dec_r dec_w : list bytes -> bytes -> option (list field).

Definition conn_ok (c : conn) : Prop := sm_ok (c_sm c).

Lemma cancel_conn_ok c : conn_ok c -> exists c', cancel_conn c = Some c' /\ conn_ok c'.
Proof.
  intros O. unfold cancel_conn.
  destruct (sm_cancel_ok (negb (c_server c)) (c_sm c) EOther O) as (m & acts & E & O'). rewrite E.
  eexists; split; [reflexivity|exact O'].
Qed.

Lemma conn_op_ok c o : conn_ok c -> exists c' r, conn_op dec_r dec_w c o = Some (c', r) /\ conn_ok c'.
Proof.
  intros O. destruct o as [data e|data k e|e|n]; simpl.
  - destruct (ft_trace dec_r (c_rd c) data) as [rd frames].
    destruct (sm_frames_ok (negb (c_server c)) frames (c_sm c) (f_isreq rd) O) as (m & acts & E & O1). rewrite E.
    destruct ((e =? 0) || (e =? 2)).
    + eexists; eexists; split; [reflexivity|exact O1].
    + destruct (cancel_conn_ok (mkC (c_server c) rd (c_wr c) m (rc_run (c_rc c) acts)) O1) as (c2 & E2 & O2).
      rewrite E2. eexists; eexists; split; [reflexivity|exact O2].
  - destruct (ft_trace dec_w (c_wr c) data) as [wr frames].
    destruct (sm_frames_ok (negb (c_server c)) frames (c_sm c) (f_isreq wr) O) as (m & acts & E & O1). rewrite E.
    destruct (e =? 0).
    + eexists; eexists; split; [reflexivity|exact O1].
    + destruct (cancel_conn_ok (mkC (c_server c) (c_rd c) wr m (rc_run (c_rc c) acts)) O1) as (c2 & E2 & O2).
      rewrite E2. eexists; eexists; split; [reflexivity|exact O2].
  - destruct (cancel_conn_ok c O) as (c2 & E2 & O2). rewrite E2. eexists; eexists; split; [reflexivity|exact O2].
  - eexists; eexists; split; [reflexivity|exact O].
Qed.

Lemma conn_run_ok : forall ops c, conn_ok c -> exists c' rs, conn_run dec_r dec_w c ops = Some (c', rs) /\ conn_ok c'.
Proof.
  induction ops as [|o r IH]; intros c O; simpl.
  - eexists; eexists; split; [reflexivity|exact O].
  - destruct (conn_op_ok c o O) as (c1 & x & E1 & O1). rewrite E1.
    destruct (IH c1 O1) as (c2 & xs & E2 & O2). rewrite E2. eexists; eexists; split; [reflexivity|exact O2].
Qed.

(* for ANY byte streams, any cutting into reads and writes, any errors of the inner conn, any HPACK
   behaviour, on client and server side: no nil dereference, and the caller sees the inner conn's results *)
Lemma never_crashes_proof : forall server ops,
  exists c rs, conn_run dec_r dec_w (conn_init server) ops = Some (c, rs) /\ Forall2 transparent_res ops rs.
Proof.
  intros server ops.
  destruct (conn_run_ok ops (conn_init server)) as (c & rs & E & _); [constructor|].
  exists c, rs. split; [exact E|]. eapply transparent_run_proof; eauto.
Qed.
End NoCrash.

(* ---------------------------------------------------------------------------------------- *)
(* a stream's fate depends only on the frames that concern it                               *)
(* ---------------------------------------------------------------------------------------- *)
Definition sview (s : N) (l : list (N * stream)) : list (N * stream) := filter (fun e => fst e =? s) l.

Lemma m_get_sview s l : m_get s l = match sview s l with [] => None | e :: _ => Some (snd e) end.
Proof.
  induction l as [|[k v] r IH]; simpl; [reflexivity|]. destruct (k =? s); simpl; auto.
Qed.

Lemma sview_filter_ne s t l : t <> s -> sview s (filter (fun e => negb (fst e =? t)) l) = sview s l.
Proof.
  intros Ne. induction l as [|[k v] r IH]; simpl; [reflexivity|].
  destruct (N.eqb_spec k t) as [->|Nk]; simpl.
  - destruct (N.eqb_spec t s); [congruence|exact IH].
  - destruct (k =? s); simpl; [f_equal|]; exact IH.
Qed.

Lemma sview_filter_eq s l : sview s (filter (fun e => negb (fst e =? s)) l) = [].
Proof.
  induction l as [|[k v] r IH]; simpl; [reflexivity|].
  destruct (N.eqb_spec k s) as [->|Nk]; simpl; [exact IH|].
  destruct (N.eqb_spec k s); [congruence|exact IH].
Qed.

Lemma sview_apply_other s t u l : t <> s -> sview s (apply_upd t u l) = sview s l.
Proof.
  intros Ne. destruct u as [|v|]; simpl; [reflexivity| |apply sview_filter_ne; assumption].
  destruct (N.eqb_spec t s); [congruence|]. apply sview_filter_ne; assumption.
Qed.

Lemma sview_apply_same s u l :
  sview s (apply_upd s u l) = match u with UKeep => sview s l | USet v => [(s, v)] | UDel => [] end.
Proof.
  destruct u as [|v|]; simpl; [reflexivity| |apply sview_filter_eq].
  rewrite N.eqb_refl. f_equal. apply sview_filter_eq.
Qed.

Lemma sview_filter_gt s last l :
  sview s (filter (fun e => last <? fst e) l) = if last <? s then sview s l else [].
Proof.
  induction l as [|[k v] r IH]; simpl; [destruct (last <? s); reflexivity|].
  destruct (N.eqb_spec k s) as [->|Nk].
  - destruct (last <? s) eqn:G; simpl; [rewrite N.eqb_refl, IH; reflexivity|rewrite IH; reflexivity].
  - destruct (last <? k); simpl; [destruct (N.eqb_spec k s); [congruence|]|]; exact IH.
Qed.

Lemma sview_filter_le s last l :
  sview s (filter (fun e => negb (last <? fst e)) l) = if last <? s then [] else sview s l.
Proof.
  induction l as [|[k v] r IH]; simpl; [destruct (last <? s); reflexivity|].
  destruct (N.eqb_spec k s) as [->|Nk].
  - destruct (last <? s) eqn:G; simpl; [exact IH|rewrite N.eqb_refl, IH; reflexivity].
  - destruct (last <? k); simpl; [|destruct (N.eqb_spec k s); [congruence|]]; exact IH.
Qed.

(* every completion an action list carries belongs to stream t *)
Definition tagged (t : N) (acts : list cact) : Prop :=
  Forall (fun a => match a with CComplete s' _ => s' = t | _ => True end) acts.

Lemma tagged_completes t l : tagged t (completes t l).
Proof. unfold tagged, completes. induction l; simpl; constructor; auto. Qed.
Lemma tagged_app t a b : tagged t a -> tagged t b -> tagged t (a ++ b).
Proof. intros; apply Forall_app; auto. Qed.
Lemma tagged_nil t : tagged t [].
Proof. constructor. Qed.
Lemma tagged_new t n : tagged t [CNew n].
Proof. repeat constructor. Qed.

Lemma completions_app s a b : completions_of s (a ++ b) = completions_of s a ++ completions_of s b.
Proof. unfold completions_of. apply flat_map_app. Qed.

Lemma completions_tagged_ne s t acts : tagged t acts -> t <> s -> completions_of s acts = [].
Proof.
  intros T Ne. induction T as [|a r Ha _ IH]; simpl; [reflexivity|].
  destruct a as [n|s' tr|n|]; simpl; auto. subst s'. destruct (N.eqb_spec t s); [congruence|exact IH].
Qed.

Lemma close_stream_tagged sid v isreq e r acts : close_stream sid v isreq e = Some (r, acts) -> tagged sid acts.
Proof.
  unfold close_stream. destruct isreq.
  - destruct (dt_flush (s_req v)) as [[rq evs]|]; [|discriminate].
    destruct (b_adds _ _) as [b done]. intros E; inversion E; subst. apply tagged_completes.
  - simpl. destruct (d_hasb (s_resp v)).
    + destruct (dt_flush (s_req v)) as [[rq evs]|]; [|discriminate].
      destruct (dt_flush (s_resp v)) as [[rs evs2]|]; [|discriminate].
      destruct (b_adds _ _) as [b done]. intros E; inversion E; subst. apply tagged_completes.
    + destruct (negb (is_nil_err e)).
      * destruct (dt_flush (s_req v)) as [[rq evs]|]; [|discriminate].
        destruct (b_adds _ _) as [b done]. intros E; inversion E; subst. apply tagged_completes.
      * intros E; inversion E; subst. apply tagged_nil.
Qed.

Lemma close_upd_tagged sid v isreq e pre u acts :
  close_upd (close_stream sid v isreq e) pre = Some (u, acts) -> tagged sid pre -> tagged sid acts.
Proof.
  destruct (close_stream sid v isreq e) as [[r a]|] eqn:C; [|discriminate].
  apply close_stream_tagged in C. destruct r; simpl; intros E T; inversion E; subst; apply tagged_app; auto.
Qed.

Lemma sm_local_tagged g max isreq f u acts t :
  sm_local g max isreq f = Some (u, acts) -> fsid f = Some t -> tagged t acts.
Proof.
  destruct f as [sid es fs|sid es data|sid code|last code|]; simpl; intros E Ft; inversion Ft; subst t; clear Ft.
  - (* HEADERS *)
    assert (Fin : forall s1 acts0 acts1, tagged sid acts0 -> tagged sid acts1 ->
              (if es then close_upd (close_stream sid s1 isreq ENil) (acts0 ++ acts1) else Some (USet s1, acts0 ++ acts1))
              = Some (u, acts) -> tagged sid acts).
    { intros s1 a0 a1 T0 T1. destruct es.
      - intros X. eapply close_upd_tagged; [exact X|apply tagged_app; assumption].
      - intros X; inversion X; subst. apply tagged_app; assumption. }
    destruct g as [v|].
    + destruct (negb isreq && negb (s_got v)).
      * destruct (b_add (s_b v) _) as [b done].
        eapply Fin; [apply tagged_nil| |exact E]. apply tagged_completes.
      * destruct isreq.
        -- destruct (b_cleared (s_b v)); [discriminate|]. eapply Fin; [apply tagged_nil|apply tagged_nil|exact E].
        -- destruct (t_resp (b_trace (s_b v))) as [[[stt h] tr]|]; (eapply Fin; [apply tagged_nil|apply tagged_nil|exact E]).
    + destruct (negb isreq); [inversion E; subst; apply tagged_nil|].
      destruct (negb (max =? 0) && (max <? sid)); [inversion E; subst; apply tagged_nil|].
      eapply Fin; [apply tagged_new|apply tagged_nil|exact E].
  - (* DATA *)
    destruct g as [v|]; [|inversion E; subst; apply tagged_nil].
    destruct isreq.
    + destruct (dt_trace (s_req v) data) as [d evs]. cbv beta iota in E.
      destruct (b_adds _ _) as [b done].
      destruct es; [eapply close_upd_tagged; [exact E|apply tagged_completes]|].
      inversion E; subst. apply tagged_completes.
    + destruct (dt_trace (s_resp v) data) as [d evs]. cbv beta iota in E.
      destruct (b_adds _ _) as [b done].
      destruct es; [eapply close_upd_tagged; [exact E|apply tagged_completes]|].
      inversion E; subst. apply tagged_completes.
  - (* RST *)
    destruct g as [v|]; [|inversion E; subst; apply tagged_nil].
    eapply close_upd_tagged; [exact E|apply tagged_nil].
Qed.

Definition same_view (s : N) (st1 st2 : sm) : Prop :=
  sview s (m_streams st1) = sview s (m_streams st2) /\ m_max st1 = m_max st2.

(* a frame of another stream *)
Lemma sm_frame_other client st isreq f st' acts s t :
  sm_frame client st isreq f = Some (st', acts) -> fsid f = Some t -> t <> s ->
  same_view s st' st /\ completions_of s acts = [].
Proof.
  intros E Ft Ne.
  assert (X : match sm_local (m_get t (m_streams st)) (m_max st) isreq f with
              | None => None
              | Some (u, acts) => Some (mkSM (apply_upd t u (m_streams st)) (m_max st), acts)
              end = Some (st', acts)).
  { destruct f; simpl in Ft; inversion Ft; subst; exact E. }
  destruct (sm_local _ _ _ _) as [[u a]|] eqn:L; [|discriminate]. inversion X; subst.
  split; [split; simpl; [apply sview_apply_other; assumption|reflexivity]|].
  eapply completions_tagged_ne; [eapply sm_local_tagged; eauto|assumption].
Qed.

(* the same frame of stream s, from two tables that agree on s *)
Lemma sm_frame_same client st1 st2 isreq f st1' a1 st2' a2 s :
  same_view s st1 st2 -> fsid f = Some s ->
  sm_frame client st1 isreq f = Some (st1', a1) -> sm_frame client st2 isreq f = Some (st2', a2) ->
  same_view s st1' st2' /\ a1 = a2.
Proof.
  intros [V M] Ft E1 E2.
  assert (X : forall st st' acts, sm_frame client st isreq f = Some (st', acts) ->
              match sm_local (m_get s (m_streams st)) (m_max st) isreq f with
              | None => None
              | Some (u, acts) => Some (mkSM (apply_upd s u (m_streams st)) (m_max st), acts)
              end = Some (st', acts)).
  { intros st st' acts E. destruct f; simpl in Ft; inversion Ft; subst; exact E. }
  apply X in E1. apply X in E2.
  rewrite (m_get_sview s (m_streams st1)), V, <- (m_get_sview s (m_streams st2)), M in E1.
  destruct (sm_local _ _ _ _) as [[u a]|]; [|discriminate].
  inversion E1; inversion E2; subst. split; [|reflexivity].
  split; simpl; [|reflexivity || assumption]. rewrite !sview_apply_same. destruct u; auto.
Qed.

Lemma abandon_all_view f s : (forall k v x, f k v = Some x -> tagged k x) ->
  forall l a, abandon_all f l = Some a ->
  completions_of s a =
  flat_map (fun e => match f (fst e) (snd e) with Some x => completions_of s x | None => [] end) (sview s l).
Proof.
  intros T. induction l as [|[k v] r IH]; intros a; simpl.
  - intros E; inversion E; reflexivity.
  - destruct (f k v) as [x|] eqn:Fx; [|discriminate].
    destruct (abandon_all f r) as [b|]; [|discriminate]. intros E; inversion E; subst.
    rewrite completions_app. rewrite (IH b eq_refl).
    destruct (N.eqb_spec k s) as [->|Nk]; simpl.
    + rewrite Fx. reflexivity.
    + rewrite (completions_tagged_ne s k x (T _ _ _ Fx) Nk). reflexivity.
Qed.

Lemma abandon_resp_tagged e k v x : abandon_resp k v e = Some x -> tagged k x.
Proof.
  unfold abandon_resp. destruct (dt_flush (s_req v)) as [[rq evs]|]; [|discriminate].
  destruct (if d_hasb (s_resp v) then dt_flush (s_resp v) else Some (s_resp v, [])) as [[rs evs2]|]; [|discriminate].
  intros E; inversion E; subst. apply tagged_completes.
Qed.

Lemma sm_frame_goaway client st1 st2 isreq last code st1' a1 st2' a2 s :
  same_view s st1 st2 ->
  sm_frame client st1 isreq (FGoAway last code) = Some (st1', a1) ->
  sm_frame client st2 isreq (FGoAway last code) = Some (st2', a2) ->
  same_view s st1' st2' /\ completions_of s a1 = completions_of s a2.
Proof.
  intros [V M]. simpl.
  destruct (abandon_all _ (filter _ (m_streams st1))) as [b1|] eqn:A1; [|discriminate].
  destruct (abandon_all _ (filter _ (m_streams st2))) as [b2|] eqn:A2; [|discriminate].
  intros E1 E2; inversion E1; inversion E2; subst. split.
  - split; simpl; [|reflexivity]. rewrite !sview_filter_le, V. reflexivity.
  - rewrite (abandon_all_view _ s (abandon_resp_tagged (EConn code)) _ _ A1).
    rewrite (abandon_all_view _ s (abandon_resp_tagged (EConn code)) _ _ A2).
    rewrite !sview_filter_gt, V. reflexivity.
Qed.

Lemma concerns_cases s isreq f :
  (concerns s (isreq, f) = true /\ (fsid f = Some s \/ exists last code, f = FGoAway last code)) \/
  (concerns s (isreq, f) = false /\ ((exists t, fsid f = Some t /\ t <> s) \/ f = FOther)).
Proof.
  unfold concerns. destruct f as [sid es fs|sid es data|sid code|last code|]; simpl;
    try (destruct (N.eqb_spec sid s) as [->|Ne]; [left; split; [reflexivity|left; reflexivity]
                                                 |right; split; [reflexivity|left; exists sid; split; [reflexivity|assumption]]]).
  - left; split; [reflexivity|right; eauto].
  - right; split; [reflexivity|right; reflexivity].
Qed.

Lemma stream_independent_gen client s : forall fs st1 st2 st1' a1 st2' a2,
  same_view s st1 st2 ->
  sm_run client st1 fs = Some (st1', a1) ->
  sm_run client st2 (filter (concerns s) fs) = Some (st2', a2) ->
  same_view s st1' st2' /\ completions_of s a1 = completions_of s a2.
Proof.
  induction fs as [|[isreq f] r IH]; intros st1 st2 st1' a1 st2' a2 V; simpl.
  - intros E1 E2; inversion E1; inversion E2; subst. auto.
  - destruct (sm_frame client st1 isreq f) as [[m1 b1]|] eqn:F1; [|discriminate].
    destruct (sm_run client m1 r) as [[m1' c1]|] eqn:R1; [|discriminate].
    intros E1; inversion E1; subst.
    destruct (concerns_cases s isreq f) as [[C K]|[C K]]; rewrite C; simpl.
    + destruct (sm_frame client st2 isreq f) as [[m2 b2]|] eqn:F2; [|discriminate].
      destruct (sm_run client m2 (filter (concerns s) r)) as [[m2' c2]|] eqn:R2; [|discriminate].
      intros E2; inversion E2; subst.
      assert (S : same_view s m1 m2 /\ completions_of s b1 = completions_of s b2).
      { destruct K as [Ft|(last & code & Ef)].
        - destruct (sm_frame_same _ _ _ _ _ _ _ _ _ _ V Ft F1 F2) as [V' Ea]. subst b2. auto.
        - subst f. eapply sm_frame_goaway; eauto. }
      destruct S as [V' Cb]. destruct (IH _ _ _ _ _ _ V' R1 R2) as [V'' Cc].
      split; [assumption|]. rewrite !completions_app. congruence.
    + intros R2.
      assert (S : same_view s m1 st1 /\ completions_of s b1 = []).
      { destruct K as [(t & Ft & Ne)|Ef].
        - eapply sm_frame_other; eauto.
        - subst f. simpl in F1. inversion F1; subst. split; [split; reflexivity|reflexivity]. }
      destruct S as [[V1 M1] Cb].
      assert (V' : same_view s m1 st2) by (destruct V; split; congruence).
      destruct (IH _ _ _ _ _ _ V' R1 R2) as [V'' Cc].
      split; [assumption|]. rewrite completions_app, Cb. exact Cc.
Qed.

(* for ALL frame lists (any number of streams, any interleaving, well-formed or not): both runs exist and
   stream s completes the same traces, and ends in the same state, as if only the frames concerning it
   (its own and GOAWAYs) had been on the connection *)
Lemma stream_independent_proof : forall client fs s,
  exists st1 a1 st2 a2,
    sm_run client sm_init fs = Some (st1, a1) /\
    sm_run client sm_init (filter (concerns s) fs) = Some (st2, a2) /\
    completions_of s a1 = completions_of s a2 /\
    m_get s (m_streams st1) = m_get s (m_streams st2).
Proof.
  intros client fs s.
  destruct (sm_run_ok client fs sm_init) as (st1 & a1 & E1 & _); [constructor|].
  destruct (sm_run_ok client (filter (concerns s) fs) sm_init) as (st2 & a2 & E2 & _); [constructor|].
  exists st1, a1, st2, a2. split; [assumption|]. split; [assumption|].
  destruct (stream_independent_gen client s fs sm_init sm_init _ _ _ _ (conj eq_refl eq_refl) E1 E2) as [[V _] C].
  split; [assumption|]. rewrite !m_get_sview, V. reflexivity.
Qed.

(* two interleavings with the same frames for s (and the same GOAWAYs relative to them) *)
Lemma interleaving_independent_proof : forall client fs fs' s st1 a1 st2 a2,
  filter (concerns s) fs = filter (concerns s) fs' ->
  sm_run client sm_init fs = Some (st1, a1) -> sm_run client sm_init fs' = Some (st2, a2) ->
  completions_of s a1 = completions_of s a2.
Proof.
  intros client fs fs' s st1 a1 st2 a2 Eq E1 E2.
  destruct (sm_run_ok client (filter (concerns s) fs) sm_init) as (st3 & a3 & E3 & _); [constructor|].
  destruct (stream_independent_gen client s fs sm_init sm_init _ _ _ _ (conj eq_refl eq_refl) E1 E3) as [_ C1].
  rewrite Eq in E3.
  destruct (stream_independent_gen client s fs' sm_init sm_init _ _ _ _ (conj eq_refl eq_refl) E2 E3) as [_ C2].
  congruence.
Qed.

(* ---------------------------------------------------------------------------------------- *)
(* http2RetryCollector                                                                      *)
(* ---------------------------------------------------------------------------------------- *)
Definition delivered (n : bytes) (r : rc) : list btrace := filter (fun t => bytes_eqb (t_name t) n) (r_out r).

(* an action that has nothing to do with test name n *)
Definition quiet (n : bytes) (a : cact) : Prop :=
  match a with
  | CNew m => m <> n
  | CComplete _ t => t_name t <> n
  | CTimesUp m => m <> n
  | CCancel => False
  end.

(* the waiting map is keyed by the trace's own test name, one entry per name *)
Definition rc_wf (r : rc) : Prop :=
  Forall (fun e => fst e = t_name (snd e)) (r_wait r) /\ NoDup (map fst (r_wait r)).

Lemma bytes_eqb_neq a b : a <> b -> bytes_eqb a b = false.
Proof. intros H. destruct (bytes_eqb_spec a b); [contradiction|reflexivity]. Qed.

Lemma w_get_del_same n l : w_get n (w_del n l) = None.
Proof.
  induction l as [|[k v] r IH]; simpl; [reflexivity|].
  destruct (bytes_eqb_spec k n); simpl; [exact IH|].
  rewrite bytes_eqb_neq by assumption. exact IH.
Qed.

Lemma w_get_del_other n m l : m <> n -> w_get n (w_del m l) = w_get n l.
Proof.
  intros Ne. induction l as [|[k v] r IH]; simpl; [reflexivity|].
  destruct (bytes_eqb_spec k m) as [->|Nk]; simpl.
  - rewrite bytes_eqb_neq by assumption. exact IH.
  - destruct (bytes_eqb k n); [reflexivity|exact IH].
Qed.

Lemma w_del_in e m l : In e (w_del m l) -> In e l /\ fst e <> m.
Proof.
  unfold w_del. rewrite filter_In. intros [I H]. split; [assumption|].
  destruct (bytes_eqb_spec (fst e) m); [discriminate|assumption].
Qed.

Lemma w_del_keys_in k m l : In k (map fst (w_del m l)) -> In k (map fst l) /\ k <> m.
Proof.
  rewrite !in_map_iff. intros (e & <- & I). apply w_del_in in I. destruct I as [I Ne].
  split; [exists e; auto|assumption].
Qed.

Lemma w_del_nodup m l : NoDup (map fst l) -> NoDup (map fst (w_del m l)).
Proof.
  induction l as [|[k v] r IH]; simpl; [constructor|].
  intros ND. inversion ND as [|? ? Nin ND']; subst.
  destruct (bytes_eqb k m); simpl; [apply IH; assumption|].
  constructor; [|apply IH; assumption]. intros I. apply w_del_keys_in in I. tauto.
Qed.

Lemma w_del_forall (P : bytes * btrace -> Prop) m l : Forall P l -> Forall P (w_del m l).
Proof. apply Forall_filter'. Qed.

Lemma w_get_in n l t : w_get n l = Some t -> In (n, t) l.
Proof.
  induction l as [|[k v] r IH]; simpl; [discriminate|].
  destruct (bytes_eqb_spec k n) as [->|]; [intros E; inversion E; auto|auto].
Qed.

Lemma rc_step_wf r a : rc_wf r -> rc_wf (rc_step r a).
Proof.
  intros [F ND]. destruct a as [n|s t|n|]; simpl.
  - split; simpl; [apply w_del_forall|apply w_del_nodup]; assumption.
  - destruct (retryable (t_err t)).
    + split; simpl.
      * constructor; [reflexivity|apply w_del_forall; assumption].
      * constructor; [|apply w_del_nodup; assumption]. intros I. apply w_del_keys_in in I. tauto.
    + destruct (w_get (t_name t) (r_wait r)); split; assumption.
  - destruct (w_get n (r_wait r)); [|split; assumption].
    split; simpl; [apply w_del_forall|apply w_del_nodup]; assumption.
  - split; constructor.
Qed.

Lemma rc_run_wf : forall l r, rc_wf r -> rc_wf (rc_run r l).
Proof. induction l as [|a l IH]; intros r W; simpl; [assumption|]. apply IH, rc_step_wf, W. Qed.

Lemma rc_init_wf : rc_wf rc_init.
Proof. split; constructor. Qed.

Lemma delivered_snoc n r w t :
  delivered n (mkRC w (r_out r ++ [t])) = delivered n r ++ (if bytes_eqb (t_name t) n then [t] else []).
Proof. unfold delivered. simpl. rewrite filter_app. reflexivity. Qed.

Lemma rc_quiet_step r a n : rc_wf r -> quiet n a ->
  w_get n (r_wait (rc_step r a)) = w_get n (r_wait r) /\ delivered n (rc_step r a) = delivered n r.
Proof.
  intros [F _] Q. destruct a as [m|s t|m|]; simpl in *.
  - split; [apply w_get_del_other; assumption|reflexivity].
  - destruct (retryable (t_err t)); simpl.
    + rewrite (bytes_eqb_neq _ _ Q). split; [apply w_get_del_other; assumption|reflexivity].
    + destruct (w_get (t_name t) (r_wait r)); [auto|].
      split; [reflexivity|]. rewrite delivered_snoc, (bytes_eqb_neq _ _ Q), app_nil_r. reflexivity.
  - destruct (w_get m (r_wait r)) as [t|] eqn:G; [|auto].
    split; [simpl; apply w_get_del_other; assumption|].
    rewrite delivered_snoc. apply w_get_in in G. rewrite Forall_forall in F. specialize (F _ G). simpl in F.
    rewrite <- F, (bytes_eqb_neq _ _ Q), app_nil_r. reflexivity.
  - contradiction.
Qed.

Lemma rc_quiet_run n : forall l r, rc_wf r -> Forall (quiet n) l ->
  w_get n (r_wait (rc_run r l)) = w_get n (r_wait r) /\ delivered n (rc_run r l) = delivered n r /\ rc_wf (rc_run r l).
Proof.
  induction l as [|a l IH]; intros r W Q; simpl; [auto|].
  inversion Q as [|? ? Qa Ql]; subst.
  destruct (rc_quiet_step r a n W Qa) as [G D].
  destruct (IH (rc_step r a) (rc_step_wf r a W) Ql) as (G' & D' & W').
  split; [congruence|split; [congruence|assumption]].
Qed.

Lemma no_key_no_name l n :
  Forall (fun e : bytes * btrace => fst e = t_name (snd e)) l -> ~ In n (map fst l) ->
  filter (fun t => bytes_eqb (t_name t) n) (map snd l) = [].
Proof.
  induction l as [|[k v] r IH]; simpl; [reflexivity|].
  intros F Nin. inversion F as [|? ? Fk Fr]; subst. simpl in Fk.
  rewrite <- Fk. rewrite bytes_eqb_neq by (intros E; apply Nin; left; exact E).
  apply IH; [assumption|intros I; apply Nin; right; exact I].
Qed.

Lemma unique_parked l n t :
  Forall (fun e : bytes * btrace => fst e = t_name (snd e)) l -> NoDup (map fst l) -> w_get n l = Some t ->
  filter (fun t => bytes_eqb (t_name t) n) (map snd l) = [t].
Proof.
  induction l as [|[k v] r IH]; simpl; [discriminate|].
  intros F ND. inversion F as [|? ? Fk Fr]; inversion ND as [|? ? Nin ND']; subst. simpl in Fk.
  destruct (bytes_eqb_spec k n) as [E|Ne].
  - intros G. rewrite <- Fk, E, bytes_eqb_refl. inversion G; subst v. f_equal.
    apply no_key_no_name; [assumption|rewrite <- E; assumption].
  - intros G. rewrite <- Fk. rewrite (bytes_eqb_neq _ _ Ne). apply IH; assumption.
Qed.

Lemma rc_run_app r a b : rc_run r (a ++ b) = rc_run (rc_run r a) b.
Proof. unfold rc_run. apply fold_left_app. Qed.

(* a refused (or gracefully shut down) attempt followed by a new attempt with the same test name: only the
   retry's trace is delivered for that name, whatever else happens on the connection in between *)
Lemma retry_yields_retry_trace_proof : forall r n s1 t1 mid mid2 s2 t2,
  rc_wf r -> retryable (t_err t1) = true -> t_name t1 = n -> t_name t2 = n -> retryable (t_err t2) = false ->
  Forall (quiet n) mid -> Forall (quiet n) mid2 ->
  delivered n (rc_run r (CComplete s1 t1 :: mid ++ CNew n :: mid2 ++ [CComplete s2 t2])) = delivered n r ++ [t2].
Proof.
  intros r n s1 t1 mid mid2 s2 t2 W R1 N1 N2 R2 Q1 Q2.
  change (CComplete s1 t1 :: mid ++ CNew n :: mid2 ++ [CComplete s2 t2])
    with ([CComplete s1 t1] ++ mid ++ [CNew n] ++ mid2 ++ [CComplete s2 t2]).
  rewrite !rc_run_app.
  set (r1 := rc_run r [CComplete s1 t1]).
  assert (W1 : rc_wf r1) by (apply rc_run_wf; assumption).
  assert (D1 : delivered n r1 = delivered n r) by (unfold r1; simpl; rewrite R1; reflexivity).
  destruct (rc_quiet_run n mid r1 W1 Q1) as (_ & D2 & W2).
  set (r2 := rc_run r1 mid) in *.
  set (r3 := rc_run r2 [CNew n]).
  assert (W3 : rc_wf r3) by (apply rc_run_wf; assumption).
  assert (G3 : w_get n (r_wait r3) = None) by (unfold r3; simpl; apply w_get_del_same).
  assert (D3 : delivered n r3 = delivered n r2) by reflexivity.
  destruct (rc_quiet_run n mid2 r3 W3 Q2) as (G4 & D4 & W4).
  set (r4 := rc_run r3 mid2) in *.
  simpl. rewrite R2, N2, G4, G3. rewrite delivered_snoc, N2, bytes_eqb_refl. congruence.
Qed.

(* without a retry the parked trace is delivered exactly once: when its timer fires, or when the
   connection ends *)
Lemma unretried_delivered_once_proof : forall r n s1 t1 mid fin,
  rc_wf r -> retryable (t_err t1) = true -> t_name t1 = n -> Forall (quiet n) mid ->
  fin = CTimesUp n \/ fin = CCancel ->
  delivered n (rc_run r (CComplete s1 t1 :: mid ++ [fin])) = delivered n r ++ [t1] /\
  w_get n (r_wait (rc_run r (CComplete s1 t1 :: mid ++ [fin]))) = None.
Proof.
  intros r n s1 t1 mid fin W R1 N1 Q1 Fin.
  change (CComplete s1 t1 :: mid ++ [fin]) with ([CComplete s1 t1] ++ mid ++ [fin]).
  rewrite !rc_run_app.
  set (r1 := rc_run r [CComplete s1 t1]).
  assert (W1 : rc_wf r1) by (apply rc_run_wf; assumption).
  assert (D1 : delivered n r1 = delivered n r) by (unfold r1; simpl; rewrite R1; reflexivity).
  assert (G1 : w_get n (r_wait r1) = Some t1).
  { unfold r1. simpl. rewrite R1. simpl. rewrite N1, bytes_eqb_refl. reflexivity. }
  destruct (rc_quiet_run n mid r1 W1 Q1) as (G2 & D2 & W2).
  set (r2 := rc_run r1 mid) in *.
  destruct Fin as [->| ->]; simpl.
  - rewrite G2, G1. split; [|simpl; apply w_get_del_same].
    rewrite delivered_snoc, N1, bytes_eqb_refl. congruence.
  - split; [|reflexivity].
    unfold delivered. simpl. rewrite filter_app. fold (delivered n r2). rewrite D2, D1. f_equal.
    destruct W2 as [F ND]. rewrite G1 in G2. subst n. apply unique_parked; assumption.
Qed.

Lemma collector_wf_proof : forall l, rc_wf (rc_run rc_init l).
Proof. intros l. apply rc_run_wf, rc_init_wf. Qed.
