From V Require Export C20_Model.
