(* C20_Props.v — the property theorems of C20 and nothing else.
   Histories are ARBITRARY lists of operations on one compressor / decompressor instance; byte
   strings are arbitrary.  The third-party codec is ANY reader / writer object with a view
   function satisfying the contract of C20_Spec.v (lib_contract / wlib_contract). *)
From V Require Import C20_Spec C20_Proofs C20_Names C20_Consts.
Open Scope N_scope.

(* Session independence, for each of the six encodings: whatever was done to the instance before
   (failed sessions on malformed input, Close, Close twice, reads without Reset, reads abandoned
   half-way), as long as it did not panic, `Reset s; ReadAll` returns exactly what a FRESH library
   reader returns on s: the decoded bytes, or an error iff a fresh reader fails.  A bad message never
   makes a later message fail or decode differently. *)
Theorem session_independent :
  forall inst dec view l_zero l_new l_reset l_read l_close,
  lib_contract inst dec view l_zero l_new l_reset l_read l_close ->
  forall k, kind_needs k dec view l_new l_reset ->
  forall h s,
  no_crash (d_run inst l_new l_reset l_read l_close (d_init inst l_zero k) h) ->
  exists r,
    d_run inst l_new l_reset l_read l_close (d_init inst l_zero k) (h ++ [DReset s; DRead None])
    = d_run inst l_new l_reset l_read l_close (d_init inst l_zero k) h
      ++ [OU (reset_result k (dec_of k dec s)); OR r]
    /\ fresh_read (dec_of k dec s) r.
Proof. exact session_independent_proof. Qed.
Print Assumptions session_independent.

(* No decompressor panics on any history whose first operation is a Reset — malformed sources
   included, Close / Read after a failed Reset included. *)
Theorem no_crash_after_reset :
  forall inst dec view l_zero l_new l_reset l_read l_close,
  lib_contract inst dec view l_zero l_new l_reset l_read l_close ->
  forall k, kind_needs k dec view l_new l_reset ->
  forall h, starts_with_reset h ->
  no_crash (d_run inst l_new l_reset l_read l_close (d_init inst l_zero k) h).
Proof. exact no_crash_proof. Qed.
Print Assumptions no_crash_after_reset.

(* ... in particular none that connect-go's pools produce (Reset, reads, Close, Reset(NoBody), ...) *)
Theorem pool_no_crash :
  forall inst dec view l_zero l_new l_reset l_read l_close,
  lib_contract inst dec view l_zero l_new l_reset l_read l_close ->
  forall k, kind_needs k dec view l_new l_reset ->
  forall h, pool_history h ->
  no_crash (d_run inst l_new l_reset l_read l_close (d_init inst l_zero k) h).
Proof.
  intros inst dec view l_zero l_new l_reset l_read l_close C k Hk h P.
  destruct (pool_starts_with_reset h P) as [->|S]; [intros o []|].
  exact (no_crash_proof inst dec view l_zero l_new l_reset l_read l_close C k Hk h S).
Qed.
Print Assumptions pool_no_crash.

(* Compressors: after ANY history that did not panic, `Reset d; Write*; Close` succeeds and leaves in d
   something that a fresh reader decodes to exactly the concatenation of the writes (empty included). *)
Theorem compress_session :
  forall winst dec wv w_zero w_reset w_write w_close,
  wlib_contract dec winst wv w_reset w_write w_close ->
  forall k ws h1, Forall is_write ws ->
  (forall u, In u (fst (c_run winst w_reset w_write w_close (c_init winst w_zero k) [] h1)) -> u <> UCrash) ->
  let r := c_run winst w_reset w_write w_close (c_init winst w_zero k) [] (h1 ++ CReset :: ws ++ [CClose]) in
  fst r = fst (c_run winst w_reset w_write w_close (c_init winst w_zero k) [] h1)
          ++ UOk :: repeat UOk (length ws) ++ [UOk] /\
  dec_of k dec (last (snd r) []) = Body (written ws) false.
Proof. exact compress_session_proof. Qed.
Print Assumptions compress_session.

(* a compressor whose first operation is a Reset (as in the pools) never panics *)
Theorem compress_no_crash :
  forall winst dec wv w_zero w_reset w_write w_close,
  wlib_contract dec winst wv w_reset w_write w_close ->
  forall k h u, In u (fst (c_run winst w_reset w_write w_close (c_init winst w_zero k) [] (CReset :: h))) -> u <> UCrash.
Proof. exact compress_no_crash_proof. Qed.
Print Assumptions compress_no_crash.

(* Round trip with reused instances on both sides: the output of a compressor session that follows ANY
   compressor history, fed to a decompressor that went through ANY history (neither panicked), decodes
   to what was written — for every byte string, the empty one included, for each of the six encodings. *)
Theorem round_trip :
  forall inst dec view l_zero l_new l_reset l_read l_close winst wv w_zero w_reset w_write w_close,
  lib_contract inst dec view l_zero l_new l_reset l_read l_close ->
  wlib_contract dec winst wv w_reset w_write w_close ->
  forall k, kind_needs k dec view l_new l_reset ->
  forall hc ws hd, Forall is_write ws ->
  (forall u, In u (fst (c_run winst w_reset w_write w_close (c_init winst w_zero k) [] hc)) -> u <> UCrash) ->
  no_crash (d_run inst l_new l_reset l_read l_close (d_init inst l_zero k) hd) ->
  let c := last (snd (c_run winst w_reset w_write w_close (c_init winst w_zero k) [] (hc ++ CReset :: ws ++ [CClose]))) [] in
  d_run inst l_new l_reset l_read l_close (d_init inst l_zero k) (hd ++ [DReset c; DRead None])
  = d_run inst l_new l_reset l_read l_close (d_init inst l_zero k) hd ++ [OU UOk; OR (ROk (written ws))].
Proof.
  intros inst dec view l_zero l_new l_reset l_read l_close winst wv w_zero w_reset w_write w_close
         C W k Hk hc ws hd F NCc NCd c.
  destruct (compress_session_proof winst dec wv w_zero w_reset w_write w_close W k ws hc F NCc) as (_ & D).
  fold c in D.
  destruct (session_independent_proof inst dec view l_zero l_new l_reset l_read l_close C k Hk hd c NCd)
    as (r & E & FR).
  rewrite D in E, FR. simpl in FR. subst r. exact E.
Qed.
Print Assumptions round_trip.

(* ... spelled out for "right after the same instance failed on malformed input": *)
Theorem bad_then_good :
  forall inst dec view l_zero l_new l_reset l_read l_close,
  lib_contract inst dec view l_zero l_new l_reset l_read l_close ->
  forall k, kind_needs k dec view l_new l_reset ->
  forall h bad good x,
  no_crash (d_run inst l_new l_reset l_read l_close (d_init inst l_zero k) (h ++ [DReset bad; DRead None])) ->
  dec_of k dec good = Body x false ->
  d_run inst l_new l_reset l_read l_close (d_init inst l_zero k) ((h ++ [DReset bad; DRead None]) ++ [DReset good; DRead None])
  = d_run inst l_new l_reset l_read l_close (d_init inst l_zero k) (h ++ [DReset bad; DRead None])
    ++ [OU UOk; OR (ROk x)].
Proof.
  intros inst dec view l_zero l_new l_reset l_read l_close C k Hk h bad good x NC D.
  destruct (session_independent_proof inst dec view l_zero l_new l_reset l_read l_close C k Hk _ good NC)
    as (r & E & FR).
  rewrite D in E, FR. simpl in FR. subst r. exact E.
Qed.
Print Assumptions bad_then_good.

(* The name tables of the five places, REGENERATED from the compiled code into C20_Consts.v on every run:
   every (name, algorithm) pair that any place asserts is the registered one ... *)
Theorem names_agree : forall p, In p all_pairs -> denotes_ok p.
Proof. exact names_agree_proof. Qed.
Print Assumptions names_agree.
(* ... so the same name never denotes two algorithms ... *)
Theorem names_functional : forall n a b, In (n, a) all_pairs -> In (n, b) all_pairs -> a = b.
Proof. exact names_functional_proof. Qed.
Print Assumptions names_functional.
(* ... every place knows all six names (the client: the five it can be asked to send with) ... *)
Theorem names_covered :
  covers pairs_compression 1 /\ covers pairs_tracer 1 /\ covers pairs_check 1 /\
  covers pairs_server 1 /\ covers pairs_client 2 /\ covers pairs_raw 1.
Proof. exact names_covered_proof. Qed.
Print Assumptions names_covered.
(* ... and the tables of C20_Model.v that the differential run compares the code with are those. *)
Theorem model_tables_are_the_codes : model_tables_match.
Proof. exact model_tables_match_proof. Qed.
Print Assumptions model_tables_are_the_codes.

(* ---- the hypotheses are inhabited: the stand-in codec used for extraction satisfies the contract ---- *)
Example contract_inhabited :
  forall loud closed_ok,
  lib_contract lview toy_dec (fun v => v) NoSrc toy_new (toy_reset closed_ok) (toy_read loud) toy_close.
Proof. exact toy_contract. Qed.
Example wcontract_inhabited : wlib_contract toy_dec wview toy_wv toy_wreset toy_wwrite toy_wclose.
Proof. exact toy_wcontract. Qed.
Example needs_inhabited : forall k, kind_needs k toy_dec (fun v : lview => v) toy_new (toy_reset (kind_closed_ok k)).
Proof. exact toy_needs. Qed.

(* ---- non-vacuity / necessity of premises ---- *)
Definition x := bs "hello".
Definition trun k := d_run lview toy_new (toy_reset (kind_closed_ok k)) (toy_read (kind_loud k)) toy_close (toy_d_init k).
(* zstd: reuse after Close re-creates the decoder *)
Example ex_zstd_reuse_after_close :
  trun KZstd [DReset (toy_enc x); DRead None; DClose; DRead None; DReset (toy_enc x); DRead None]
  = [OU UOk; OR (ROk x); OU UOk; OR (ROk []); OU UOk; OR (ROk x)].
Proof. vm_compute. reflexivity. Qed.
(* deflate: the parked sentinel answers until the next Reset *)
Example ex_deflate_sentinel :
  trun KDeflate [DReset [0]; DRead None; DClose; DReset (toy_enc x); DRead None]
  = [OU UErr; OR RErr; OU UErr; OU UOk; OR (ROk x)].
Proof. vm_compute. reflexivity. Qed.
(* gzip (repaired): Close after a failed first Reset is harmless *)
Example ex_gzip_close_after_failed_reset :
  trun KGzip [DReset [0]; DClose; DReset (toy_enc []); DRead None] = [OU UErr; OU UOk; OU UOk; OR (ROk [])].
Proof. vm_compute. reflexivity. Qed.
(* a body error, then a valid message; an empty payload round-trips *)
Example ex_bad_then_good :
  trun KBrotli [DReset (2 :: x); DRead None; DReset (toy_enc x); DRead None]
  = [OU UOk; OR RErr; OU UOk; OR (ROk x)].
Proof. vm_compute. reflexivity. Qed.
(* the premise of no_crash_after_reset is needed: the identity wrappers and brotli / snappy panic
   when read before any Reset (nil embedded interface / nil source) *)
Example ex_read_before_reset_panics :
  trun KIdent [DRead None] = [OR RCrash] /\ trun KIdent [DClose] = [OU UCrash] /\
  trun KSnappy [DRead None] = [OR RCrash] /\ trun KZstd [DRead None] = [OR RErr].
Proof. vm_compute. auto. Qed.
Example ex_pool_history :
  pool_history [DReset (toy_enc x); DRead (Some 3); DRead None; DClose; DReset []; DReset [0]].
Proof.
  apply (ph_session (toy_enc x) [DRead (Some 3); DRead None] [DReset [0]]).
  - repeat constructor; eexists; reflexivity.
  - apply ph_dropped_at_get.
Qed.
Example ex_compress :
  c_run wview toy_wreset toy_wwrite toy_wclose (toy_c_init KGzip) [] [CReset; CWrite x; CWrite []; CClose; CReset; CClose]
  = ([UOk; UOk; UOk; UOk; UOk; UOk], [[]; toy_enc x; toy_enc []]).
Proof. vm_compute. reflexivity. Qed.
Example ex_names : In (bs "br", 3%Z) all_pairs /\ In (bs "zstd", 4%Z) pairs_tracer /\ tracer_alg (bs "X-Gzip") = 0%Z.
Proof. vm_compute. intuition. Qed.
