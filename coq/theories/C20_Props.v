(* C20_Props.v — the property theorems of C20 and nothing else.
   Histories are ARBITRARY lists of operations on one compressor / decompressor instance; byte
   strings are arbitrary.  The third-party codec is ANY reader / writer object with a view
   function satisfying the contract of C20_Spec.v (lib_contract / wlib_contract). *)
From V Require Import C20_Spec C20_Proofs C20_Proofs2 C20_Names C20_Consts C20_Pair.
Open Scope N_scope.

(* Session independence, for each of the six encodings: whatever was done to the instance before
   (failed sessions on malformed input, Close, Close twice, reads without Reset, reads abandoned
   half-way), as long as it did not panic, `Reset s; ReadAll` returns exactly what a FRESH library
   reader returns on s: the decoded bytes, or an error iff a fresh reader fails.  A bad message never
   makes a later message fail or decode differently. *)
Theorem session_independent :
  forall inst dec view l_zero l_new l_reset l_read l_readn l_close,
  lib_contract inst dec view l_zero l_new l_reset l_read l_readn l_close ->
  forall k, kind_needs k dec view l_new l_reset ->
  forall h s,
  no_crash (d_run inst l_new l_reset l_read l_readn l_close (d_init inst l_zero k) h) ->
  exists r,
    d_run inst l_new l_reset l_read l_readn l_close (d_init inst l_zero k) (h ++ [DReset s; DRead None])
    = d_run inst l_new l_reset l_read l_readn l_close (d_init inst l_zero k) h
      ++ [OU (reset_result k (dec_of k dec s)); OR r]
    /\ fresh_read (dec_of k dec s) r.
Proof. exact session_independent_proof. Qed.
Print Assumptions session_independent.

(* No decompressor panics on any history whose first operation is a Reset — malformed sources
   included, Close / Read after a failed Reset included. *)
Theorem no_crash_after_reset :
  forall inst dec view l_zero l_new l_reset l_read l_readn l_close,
  lib_contract inst dec view l_zero l_new l_reset l_read l_readn l_close ->
  forall k, kind_needs k dec view l_new l_reset ->
  forall h, starts_with_reset h ->
  no_crash (d_run inst l_new l_reset l_read l_readn l_close (d_init inst l_zero k) h).
Proof. exact no_crash_proof. Qed.
Print Assumptions no_crash_after_reset.

(* ... in particular none that connect-go's pools produce (Reset, reads, Close, Reset(NoBody), ...) *)
Theorem pool_no_crash :
  forall inst dec view l_zero l_new l_reset l_read l_readn l_close,
  lib_contract inst dec view l_zero l_new l_reset l_read l_readn l_close ->
  forall k, kind_needs k dec view l_new l_reset ->
  forall h, pool_history h ->
  no_crash (d_run inst l_new l_reset l_read l_readn l_close (d_init inst l_zero k) h).
Proof.
  intros inst dec view l_zero l_new l_reset l_read l_readn l_close C k Hk h P.
  destruct (pool_starts_with_reset h P) as [->|S]; [intros o []|].
  exact (no_crash_proof inst dec view l_zero l_new l_reset l_read l_readn l_close C k Hk h S).
Qed.
Print Assumptions pool_no_crash.

(* Compressors: after ANY history that did not panic, `Reset d; Write*; Close` succeeds and leaves in d
   something that a fresh reader decodes to exactly the concatenation of the writes (empty included). *)
Theorem compress_session :
  forall winst dec wv w_zero w_reset w_write w_close,
  wlib_contract dec winst wv w_reset w_write w_close ->
  forall k ws h1, Forall is_write ws ->
  (forall u, In u (fst (c_run winst w_reset w_write w_close (c_init winst w_zero k) [] h1)) -> u <> UCrash) ->
  let r := c_run winst w_reset w_write w_close (c_init winst w_zero k) [] (h1 ++ CReset :: ws ++ [CClose]) in
  fst r = fst (c_run winst w_reset w_write w_close (c_init winst w_zero k) [] h1)
          ++ UOk :: repeat UOk (length ws) ++ [UOk] /\
  dec_of k dec (last (snd r) []) = Body (written ws) false.
Proof. exact compress_session_proof. Qed.
Print Assumptions compress_session.

(* a compressor whose first operation is a Reset (as in the pools) never panics *)
Theorem compress_no_crash :
  forall winst dec wv w_zero w_reset w_write w_close,
  wlib_contract dec winst wv w_reset w_write w_close ->
  forall k h u, In u (fst (c_run winst w_reset w_write w_close (c_init winst w_zero k) [] (CReset :: h))) -> u <> UCrash.
Proof. exact compress_no_crash_proof. Qed.
Print Assumptions compress_no_crash.

(* Round trip with reused instances on both sides: the output of a compressor session that follows ANY
   compressor history, fed to a decompressor that went through ANY history (neither panicked), decodes
   to what was written — for every byte string, the empty one included, for each of the six encodings. *)
Theorem round_trip :
  forall inst dec view l_zero l_new l_reset l_read l_readn l_close winst wv w_zero w_reset w_write w_close,
  lib_contract inst dec view l_zero l_new l_reset l_read l_readn l_close ->
  wlib_contract dec winst wv w_reset w_write w_close ->
  forall k, kind_needs k dec view l_new l_reset ->
  forall hc ws hd, Forall is_write ws ->
  (forall u, In u (fst (c_run winst w_reset w_write w_close (c_init winst w_zero k) [] hc)) -> u <> UCrash) ->
  no_crash (d_run inst l_new l_reset l_read l_readn l_close (d_init inst l_zero k) hd) ->
  let c := last (snd (c_run winst w_reset w_write w_close (c_init winst w_zero k) [] (hc ++ CReset :: ws ++ [CClose]))) [] in
  d_run inst l_new l_reset l_read l_readn l_close (d_init inst l_zero k) (hd ++ [DReset c; DRead None])
  = d_run inst l_new l_reset l_read l_readn l_close (d_init inst l_zero k) hd ++ [OU UOk; OR (ROk (written ws))].
Proof.
  intros inst dec view l_zero l_new l_reset l_read l_readn l_close winst wv w_zero w_reset w_write w_close
         C W k Hk hc ws hd F NCc NCd c.
  destruct (compress_session_proof winst dec wv w_zero w_reset w_write w_close W k ws hc F NCc) as (_ & D).
  fold c in D.
  destruct (session_independent_proof inst dec view l_zero l_new l_reset l_read l_readn l_close C k Hk hd c NCd)
    as (r & E & FR).
  rewrite D in E, FR. simpl in FR. subst r. exact E.
Qed.
Print Assumptions round_trip.

(* ... spelled out for "right after the same instance failed on malformed input": *)
Theorem bad_then_good :
  forall inst dec view l_zero l_new l_reset l_read l_readn l_close,
  lib_contract inst dec view l_zero l_new l_reset l_read l_readn l_close ->
  forall k, kind_needs k dec view l_new l_reset ->
  forall h bad good x,
  no_crash (d_run inst l_new l_reset l_read l_readn l_close (d_init inst l_zero k) (h ++ [DReset bad; DRead None])) ->
  dec_of k dec good = Body x false ->
  d_run inst l_new l_reset l_read l_readn l_close (d_init inst l_zero k) ((h ++ [DReset bad; DRead None]) ++ [DReset good; DRead None])
  = d_run inst l_new l_reset l_read l_readn l_close (d_init inst l_zero k) (h ++ [DReset bad; DRead None])
    ++ [OU UOk; OR (ROk x)].
Proof.
  intros inst dec view l_zero l_new l_reset l_read l_readn l_close C k Hk h bad good x NC D.
  destruct (session_independent_proof inst dec view l_zero l_new l_reset l_read l_readn l_close C k Hk _ good NC)
    as (r & E & FR).
  rewrite D in E, FR. simpl in FR. subst r. exact E.
Qed.
Print Assumptions bad_then_good.

(* (a) Close after a session on a source that decodes returns ok — the pool gets its instance back — after ANY
   earlier history, whatever reads (read loops, limited loops, single Read calls of any size, none at all)
   were made in between; none of those reads reports an error. *)
Theorem close_after_session :
  forall inst dec view l_zero l_new l_reset l_read l_readn l_close,
  lib_contract inst dec view l_zero l_new l_reset l_read l_readn l_close ->
  forall k, kind_needs k dec view l_new l_reset ->
  forall h s rs y,
  no_crash (d_run inst l_new l_reset l_read l_readn l_close (d_init inst l_zero k) h) ->
  dec_of k dec s = Body y false -> Forall is_read rs ->
  exists outs,
    length outs = length rs /\ Forall read_fine outs /\
    d_run inst l_new l_reset l_read l_readn l_close (d_init inst l_zero k) (h ++ DReset s :: rs ++ [DClose])
    = d_run inst l_new l_reset l_read l_readn l_close (d_init inst l_zero k) h ++ OU UOk :: outs ++ [OU UOk].
Proof.
  intros inst dec view l_zero l_new l_reset l_read l_readn l_close C k Hk h s rs y NC D F.
  destruct (session_in_pieces_proof inst dec view l_zero l_new l_reset l_read l_readn l_close C k Hk h s rs y NC D F)
    as (outs & rest & R1 & _ & R3 & R4 & _).
  exists outs. repeat split; assumption.
Qed.
Print Assumptions close_after_session.

(* (b) Reads in pieces concatenate to what a fresh reader decodes: after ANY earlier history, for ANY list of
   read operations after Reset s — single Read(p) calls with buffers of any size (0 and 1 included), limited
   and unlimited read loops, in any order — and for ANY way the library cuts its output into the single reads
   (lc_readn: some prefix, possibly empty, at most len(p) bytes; io.EOF with the last bytes or with a later
   empty read): no read reports an error, the bytes delivered are, in order, a prefix of the decoded bytes
   (nothing lost, duplicated or reordered); once io.EOF was reported, or an unlimited read loop was among
   the reads, they are exactly the decoded bytes. *)
Theorem reads_concatenate :
  forall inst dec view l_zero l_new l_reset l_read l_readn l_close,
  lib_contract inst dec view l_zero l_new l_reset l_read l_readn l_close ->
  forall k, kind_needs k dec view l_new l_reset ->
  forall h s rs y,
  no_crash (d_run inst l_new l_reset l_read l_readn l_close (d_init inst l_zero k) h) ->
  dec_of k dec s = Body y false -> Forall is_read rs ->
  exists outs rest,
    d_run inst l_new l_reset l_read l_readn l_close (d_init inst l_zero k) (h ++ DReset s :: rs)
    = d_run inst l_new l_reset l_read l_readn l_close (d_init inst l_zero k) h ++ OU UOk :: outs /\
    length outs = length rs /\ Forall read_fine outs /\
    y = delivered outs ++ rest /\
    (eof_seen outs -> rest = []) /\ (In (DRead None) rs -> rest = []).
Proof.
  intros inst dec view l_zero l_new l_reset l_read l_readn l_close C k Hk h s rs y NC D F.
  destruct (session_in_pieces_proof inst dec view l_zero l_new l_reset l_read l_readn l_close C k Hk h s rs y NC D F)
    as (outs & rest & _ & R2 & R3 & R4 & R5 & R6 & R7).
  exists outs, rest. repeat split; assumption.
Qed.
Print Assumptions reads_concatenate.

(* ... and a loop of single reads into non-empty buffers ends: with a library that makes progress (lib_progress:
   a read into a non-empty buffer delivers at least one byte while bytes are to come, and io.EOF once none are —
   io.Reader only discourages the opposite, so this is a separate hypothesis), more reads than decoded bytes
   always reach io.EOF, and what they delivered is exactly the decoded bytes. *)
Theorem read_loop_terminates :
  forall inst dec view l_zero l_new l_reset l_read l_readn l_close,
  lib_contract inst dec view l_zero l_new l_reset l_read l_readn l_close ->
  lib_progress inst view l_readn ->
  forall k, kind_needs k dec view l_new l_reset ->
  forall h s ns y,
  no_crash (d_run inst l_new l_reset l_read l_readn l_close (d_init inst l_zero k) h) ->
  dec_of k dec s = Body y false ->
  Forall (fun n => 0 < n) ns -> (length y < length ns)%nat ->
  exists outs,
    d_run inst l_new l_reset l_read l_readn l_close (d_init inst l_zero k) (h ++ DReset s :: map DReadN ns)
    = d_run inst l_new l_reset l_read l_readn l_close (d_init inst l_zero k) h ++ OU UOk :: outs /\
    Forall read_fine outs /\ eof_seen outs /\ delivered outs = y.
Proof.
  intros inst dec view l_zero l_new l_reset l_read l_readn l_close C PR k Hk.
  exact (read_loop_terminates_proof inst dec view l_zero l_new l_reset l_read l_readn l_close C PR k Hk).
Qed.
Print Assumptions read_loop_terminates.

(* (c) The projected outcomes (C20_Model.observe: what the differential run compares — every Reset in full, reads
   and Close of an instance positioned on a source of known class as "delivered what was to come" / ok / error,
   everything else as panicked / did not) do not depend on the library: for ANY two libraries satisfying the
   contract for the same format `dec`, and ANY history, the wrappers over them are projected alike.  The contract
   leaves open whether an object that never had a source panics when read or closed, and a panic is observable
   (ex_nosrc_matters), so for histories that do not begin with a Reset the two libraries must agree on that
   (nosrc_alike) ... *)
Theorem library_independent :
  forall dec
         inst1 view1 zero1 new1 reset1 read1 readn1 close1
         inst2 view2 zero2 new2 reset2 read2 readn2 close2,
  lib_contract inst1 dec view1 zero1 new1 reset1 read1 readn1 close1 ->
  lib_contract inst2 dec view2 zero2 new2 reset2 read2 readn2 close2 ->
  forall k, kind_needs k dec view1 new1 reset1 -> kind_needs k dec view2 new2 reset2 ->
  nosrc_alike view1 read1 readn1 close1 view2 read2 readn2 close2 ->
  forall h,
  observe (dec_of k dec) (DFresh, []) h (d_run inst1 new1 reset1 read1 readn1 close1 (d_init inst1 zero1 k) h)
  = observe (dec_of k dec) (DFresh, []) h (d_run inst2 new2 reset2 read2 readn2 close2 (d_init inst2 zero2 k) h).
Proof.
  intros dec inst1 view1 zero1 new1 reset1 read1 readn1 close1 inst2 view2 zero2 new2 reset2 read2 readn2 close2 C1 C2 k.
  exact (library_independent_proof dec inst1 view1 zero1 new1 reset1 read1 readn1 close1 C1
                                   inst2 view2 zero2 new2 reset2 read2 readn2 close2 C2 k).
Qed.
Print Assumptions library_independent.

(* ... and for the histories whose first operation is a Reset — all that connect-go's pools produce — nothing
   beyond the contract is asked. *)
Theorem library_independent_pool :
  forall dec
         inst1 view1 zero1 new1 reset1 read1 readn1 close1
         inst2 view2 zero2 new2 reset2 read2 readn2 close2,
  lib_contract inst1 dec view1 zero1 new1 reset1 read1 readn1 close1 ->
  lib_contract inst2 dec view2 zero2 new2 reset2 read2 readn2 close2 ->
  forall k, kind_needs k dec view1 new1 reset1 -> kind_needs k dec view2 new2 reset2 ->
  forall h, starts_with_reset h \/ (h <> [] /\ pool_history h) ->
  observe (dec_of k dec) (DFresh, []) h (d_run inst1 new1 reset1 read1 readn1 close1 (d_init inst1 zero1 k) h)
  = observe (dec_of k dec) (DFresh, []) h (d_run inst2 new2 reset2 read2 readn2 close2 (d_init inst2 zero2 k) h).
Proof.
  intros dec inst1 view1 zero1 new1 reset1 read1 readn1 close1 inst2 view2 zero2 new2 reset2 read2 readn2 close2
         C1 C2 k Hk1 Hk2 h Hh.
  apply (library_independent_reset_first_proof dec inst1 view1 zero1 new1 reset1 read1 readn1 close1 C1
                                                inst2 view2 zero2 new2 reset2 read2 readn2 close2 C2 k Hk1 Hk2).
  destruct Hh as [S|(NE & P)]; [exact S|].
  destruct (pool_starts_with_reset h P) as [->|S]; [congruence|exact S].
Qed.
Print Assumptions library_independent_pool.

(* The name tables of the five places, REGENERATED from the compiled code into C20_Consts.v on every run:
   every (name, algorithm) pair that any place asserts is the registered one ... *)
Theorem names_agree : forall p, In p all_pairs -> denotes_ok p.
Proof. exact names_agree_proof. Qed.
Print Assumptions names_agree.
(* ... so the same name never denotes two algorithms ... *)
Theorem names_functional : forall n a b, In (n, a) all_pairs -> In (n, b) all_pairs -> a = b.
Proof. exact names_functional_proof. Qed.
Print Assumptions names_functional.
(* ... every place knows all six names (the client: the five it can be asked to send with) ... *)
Theorem names_covered :
  covers pairs_compression 1 /\ covers pairs_tracer 1 /\ covers pairs_check 1 /\
  covers pairs_server 1 /\ covers pairs_client 2 /\ covers pairs_raw 1.
Proof. exact names_covered_proof. Qed.
Print Assumptions names_covered.
(* ... and the tables of C20_Model.v that the differential run compares the code with are those. *)
Theorem model_tables_are_the_codes : model_tables_match.
Proof. exact model_tables_match_proof. Qed.
Print Assumptions model_tables_are_the_codes.

(* ---- the hypotheses are inhabited: the stand-in codec used for extraction satisfies the contract ---- *)
Example contract_inhabited :
  forall loud eager closed_ok,
  lib_contract lview toy_dec (fun v => v) NoSrc toy_new (toy_reset closed_ok) (toy_read loud)
               (toy_readn loud eager) toy_close.
Proof. exact toy_contract. Qed.
Example progress_inhabited : forall loud eager, lib_progress lview (fun v => v) (toy_readn loud eager).
Proof. exact toy_progress. Qed.
Example wcontract_inhabited : wlib_contract toy_dec wview toy_wv toy_wreset toy_wwrite toy_wclose.
Proof. exact toy_wcontract. Qed.
Example needs_inhabited : forall k, kind_needs k toy_dec (fun v : lview => v) toy_new (toy_reset (kind_closed_ok k)).
Proof. exact toy_needs. Qed.

(* ---- non-vacuity / necessity of premises ---- *)
Definition x := bs "hello".
Definition trun k := d_run lview toy_new (toy_reset (kind_closed_ok k)) (toy_read (kind_loud k))
                            (toy_readn (kind_loud k) (kind_eager k)) toy_close (toy_d_init k).
(* zstd: reuse after Close re-creates the decoder *)
Example ex_zstd_reuse_after_close :
  trun KZstd [DReset (toy_enc x); DRead None; DClose; DRead None; DReset (toy_enc x); DRead None]
  = [OU UOk; OR (ROk x); OU UOk; OR (ROk []); OU UOk; OR (ROk x)].
Proof. vm_compute. reflexivity. Qed.
(* deflate: the parked sentinel answers until the next Reset *)
Example ex_deflate_sentinel :
  trun KDeflate [DReset [0]; DRead None; DClose; DReset (toy_enc x); DRead None]
  = [OU UErr; OR RErr; OU UErr; OU UOk; OR (ROk x)].
Proof. vm_compute. reflexivity. Qed.
(* gzip (repaired): Close after a failed first Reset is harmless *)
Example ex_gzip_close_after_failed_reset :
  trun KGzip [DReset [0]; DClose; DReset (toy_enc []); DRead None] = [OU UErr; OU UOk; OU UOk; OR (ROk [])].
Proof. vm_compute. reflexivity. Qed.
(* a body error, then a valid message; an empty payload round-trips *)
Example ex_bad_then_good :
  trun KBrotli [DReset (2 :: x); DRead None; DReset (toy_enc x); DRead None]
  = [OU UOk; OR RErr; OU UOk; OR (ROk x)].
Proof. vm_compute. reflexivity. Qed.
(* the premise of no_crash_after_reset is needed: the identity wrappers and brotli / snappy panic
   when read before any Reset (nil embedded interface / nil source) *)
Example ex_read_before_reset_panics :
  trun KIdent [DRead None] = [OR RCrash] /\ trun KIdent [DClose] = [OU UCrash] /\
  trun KSnappy [DRead None] = [OR RCrash] /\ trun KZstd [DRead None] = [OR RErr].
Proof. vm_compute. auto. Qed.
Example ex_pool_history :
  pool_history [DReset (toy_enc x); DRead (Some 3); DRead None; DClose; DReset []; DReset [0]].
Proof.
  apply (ph_session (toy_enc x) [DRead (Some 3); DRead None] [DReset [0]]).
  - repeat constructor; eexists; reflexivity.
  - apply ph_dropped_at_get.
Qed.
Example ex_compress :
  c_run wview toy_wreset toy_wwrite toy_wclose (toy_c_init KGzip) [] [CReset; CWrite x; CWrite []; CClose; CReset; CClose]
  = ([UOk; UOk; UOk; UOk; UOk; UOk], [[]; toy_enc x; toy_enc []]).
Proof. vm_compute. reflexivity. Qed.
Example ex_names : In (bs "br", 3%Z) all_pairs /\ In (bs "zstd", 4%Z) pairs_tracer /\ tracer_alg (bs "X-Gzip") = 0%Z.
Proof. vm_compute. intuition. Qed.

(* ---- reading in pieces on the stand-in: zero-length and one-byte reads, io.EOF with the last bytes
   (brotli stand-in: eager) and after them (gzip stand-in) ---- *)
Example ex_pieces_eof_after :
  trun KGzip [DReset (toy_enc [7; 8; 9]); DReadN 0; DReadN 1; DReadN 5; DReadN 5; DClose]
  = [OU UOk; OP (PRes [] SNil); OP (PRes [7] SNil); OP (PRes [8; 9] SNil); OP (PRes [] SEof); OU UOk].
Proof. vm_compute. reflexivity. Qed.
Example ex_pieces_eof_with :
  trun KBrotli [DReset (toy_enc [7; 8; 9]); DReadN 1; DRead (Some 1); DReadN 1; DReadN 1; DClose]
  = [OU UOk; OP (PRes [7] SNil); OR (ROk [8]); OP (PRes [9] SEof); OP (PRes [] SEof); OU UOk].
Proof. vm_compute. reflexivity. Qed.
(* the wrappers with a nil check answer (0, io.EOF) after Close (zstd) *)
Example ex_zstd_readn_after_close :
  trun KZstd [DReset (toy_enc x); DClose; DReadN 4] = [OU UOk; OU UOk; OP (PRes [] SEof)].
Proof. vm_compute. reflexivity. Qed.
(* nosrc_alike is inhabited (the stand-in with itself) and needed: two stand-ins that differ only in what
   a read on an object without a source does are both lawful and are told apart by [Read] before any Reset *)
Example nosrc_alike_inhabited :
  forall loud eager, nosrc_alike (fun v : lview => v) (toy_read loud) (toy_readn loud eager) toy_close
                                 (fun v : lview => v) (toy_read loud) (toy_readn loud eager) toy_close.
Proof. intros loud eager i1 i2 -> ->. simpl. repeat split; intros; tauto. Qed.
Example ex_nosrc_matters :
  observe (dec_of KSnappy toy_dec) (DFresh, []) [DRead None]
          (d_run lview toy_new (toy_reset true) (toy_read true) (toy_readn true false) toy_close (toy_d_init KSnappy) [DRead None])
  = [PPanic] /\
  observe (dec_of KSnappy toy_dec) (DFresh, []) [DRead None]
          (d_run lview toy_new (toy_reset true) (toy_read false) (toy_readn false false) toy_close (toy_d_init KSnappy) [DRead None])
  = [PAny].
Proof. vm_compute. auto. Qed.
(* the projection on a bad-then-good history *)
Example ex_observe :
  observe (dec_of KGzip toy_dec) (DFresh, [])
          [DClose; DReset [0]; DRead None; DReset (2 :: x); DReadN 2; DRead None; DReset (toy_enc x); DReadN 2; DRead None; DClose]
          (trun KGzip [DClose; DReset [0]; DRead None; DReset (2 :: x); DReadN 2; DRead None; DReset (toy_enc x); DReadN 2; DRead None; DClose])
  = [PAny; PFullU UErr; PAny; PFullU UOk; PAny; PAny; PFullU UOk; PFlag true; PFlag true; PFullU UOk].
Proof. vm_compute. reflexivity. Qed.

(* ---------- fourth wave: two instances from the same constructor ---------- *)
(* For ANY step function, ANY two states and ANY interleaving of the operations of two users: what each user
   observes of its instance is what it observes running its operations alone - operations on instance B never
   show on instance A.  (A place that handed both users ONE object would not be a pair machine: the harness
   compares every place that hands out instances with it.) *)
Theorem instances_independent : forall (pst pop pout : Type) (pstep : pst -> pop -> pst * list pout)
  (h : list (bool * pop)) (sa sb : pst),
  of_inst false (inst_run2 _ _ _ pstep sa sb h) = inst_run1 _ _ _ pstep sa (of_inst false h) /\
  of_inst true (inst_run2 _ _ _ pstep sa sb h) = inst_run1 _ _ _ pstep sb (of_inst true h).
Proof. exact instances_independent_proof. Qed.
Print Assumptions instances_independent.

(* instantiated with the history machine of c20.hist / c20.trhist: for any two histories and any schedule the
   results are those of the two histories run alone (so every theorem above holds per instance of a pair) *)
Theorem pair_is_two_single_runs : forall k sched a b h ra rb,
  merge_sched sched a b = Some h -> h_run k (h_init k) a = Some ra -> h_run k (h_init k) b = Some rb ->
  let r := inst_run2 _ _ _ (h_step1 k) (Some (h_init k)) (Some (h_init k)) h in
  houts (of_inst false r) = Some ra /\ houts (of_inst true r) = Some rb.
Proof. exact pair_is_two_single_runs_proof. Qed.
Print Assumptions pair_is_two_single_runs.
