(* C07_Spec.v — what suite expansion has to produce, written from the property text,
   proto/connectrpc/conformance/v1/suite.proto and docs/authoring_test_cases.md /
   docs/configuring_and_running_tests.md ("Test Case Permutations").  Nothing here follows
   the loop structure of the code: admission is a conjunction of per-directive conditions, a
   permutation is a record computed from (suite, config case, test case), grouping and the
   gRPC-peer filter are predicates.  Shared with the model: the record types, path_join
   (Go's path.Join, tested against the real one by the c07.join cases), the enum String()
   tables and constants regenerated from the compiled code. *)
From Coq Require Import Permutation.
From V Require Import C07_Model.
Open Scope N_scope.

(* ---- when does a permutation exist ---- *)

(* "the suite's mode admits the run mode": unspecified = both modes *)
Definition mode_admits (s : suite) (mode : N) : Prop := s_mode s = 0 \/ s_mode s = mode.

(* "If non-empty, the X to which this suite applies. If empty, this suite applies to all X." *)
Definition axis_admits (declared relevant : list N) (v : N) : Prop :=
  (relevant = [] /\ In v declared) \/ In v relevant.

Definition admits (s : suite) (c : case) : Prop :=
  axis_admits c07_all_protocols (s_protocols s) (c_protocol c) /\
  axis_admits c07_all_versions (s_versions s) (c_version c) /\
  axis_admits c07_all_codecs (s_codecs s) (c_codec c) /\
  axis_admits c07_all_compressions (s_compressions s) (c_compression c) /\
  (s_tls s = true -> c_tls c = true) /\            (* relies on TLS: only TLS cases *)
  c_certs c = s_certs s /\                          (* client certs exactly when relied on *)
  c_get c = s_get s /\                              (* Connect GET exactly when relied on *)
  c_limit c = s_limit s /\                          (* receive limit exactly when relied on *)
  c_cvm c = s_cvm s /\                              (* connect-version mode of the suite *)
  In (c_stream c) c07_all_streams.                  (* a declared stream type *)

(* ---- what the permutation looks like ---- *)

(* an axis is left open unless the suite names exactly one relevant value for it *)
Definition axis_fixed (relevant : list N) : bool := match relevant with [_] => true | _ => false end.

Definition axis_component (label value : bytes) : bytes := label ++ value.

(* suite name, one "Axis:value" per open axis in the documented order, TLS unless relied on,
   then the test name as written *)
Definition spec_components (s : suite) (c : case) (t : tcase) : list bytes :=
  [s_name s]
  ++ (if axis_fixed (s_versions s) then [] else [axis_component (bs "HTTPVersion:") (dec (c_version c))])
  ++ (if axis_fixed (s_protocols s) then [] else [axis_component (bs "Protocol:") (enum_name c07_protocol_names (c_protocol c))])
  ++ (if axis_fixed (s_codecs s) then [] else [axis_component (bs "Codec:") (enum_name c07_codec_names (c_codec c))])
  ++ (if axis_fixed (s_compressions s) then [] else [axis_component (bs "Compression:") (enum_name c07_compression_names (c_compression c))])
  ++ (if s_tls s then [] else [axis_component (bs "TLS:") (if c_tls c then bs "true" else bs "false")])
  ++ [t_name t].

Definition spec_name (s : suite) (c : case) (t : tcase) : bytes := path_join (spec_components s c t).

Definition spec_default_service : bytes := bs "connectrpc.conformance.v1.ConformanceService".
Definition spec_default_method (stream : N) : bytes :=
  if stream =? 1 then bs "Unary"
  else if stream =? 2 then bs "ClientStream"
  else if stream =? 3 then bs "ServerStream"
  else if (stream =? 4) || (stream =? 5) then bs "BidiStream"
  else [].

Definition spec_perm (s : suite) (c : case) (t : tcase) : perm :=
  mkPerm (spec_name s c t) (t_name t)
         (c_version c) (c_protocol c) (c_codec c) (c_compression c) (c_stream c)
         (if c_tls c then bs "PLACEHOLDER" else [])            (* server certificate marker *)
         (c_certs c)                                           (* client credentials marker *)
         (if is_nil (t_service t) then spec_default_service else t_service t)
         (if is_nil (t_service t) then spec_default_method (c_stream c) else t_method t)
         (1024 * 1024)
         (t_rawreq t) (t_rawresp t)
         (t_extras t).                                         (* the author's other fields, as written *)

(* the server process a permutation needs *)
Definition spec_instance (c : case) : inst := mkInst (c_protocol c) (c_version c) (c_tls c) (c_certs c).

(* ---- what makes the runner refuse a set of suites ---- *)
Definition suite_header_ok (s : suite) : Prop := s_name s <> [] /\ s_cases s <> [].

Definition suite_config_ok (s : suite) : Prop :=
  (s_certs s = true -> s_tls s = true) /\
  (s_get s = true \/ s_cvm s = 1 \/ s_cvm s = 2 ->
     s_protocols s <> [] /\ forall x, In x (s_protocols s) -> x = 1).

(* every test case is named and typed; one whose stream type is asked for has both or neither
   of service and method *)
Definition test_ok (c : case) (t : tcase) : Prop :=
  t_name t <> [] /\ t_stream t <> 0 /\
  (t_stream t = c_stream c -> (t_service t = [] <-> t_method t = [])).

(* ---- results ---- *)
Definition same_result (a b : res (list perm)) : Prop :=
  match a, b with
  | Err, Err => True
  | Ok x, Ok y => Permutation x y
  | _, _ => False
  end.

(* ---- grouping: every group is exactly the permutations of one server instance ---- *)
Definition grouped (order : list perm) (g : list (inst * list perm)) : Prop :=
  NoDup (map fst g) /\
  (forall k l, In (k, l) g -> l <> [] /\ l = filter (fun p => inst_eqb (server_instance p) k) order) /\
  (forall p, In p order -> exists l, In (server_instance p, l) g).

(* ---- the gRPC reference peers (comments of filterGRPCImplTestCases, docs "gRPC Implementations"):
   the gRPC client speaks only gRPC, the server also gRPC-Web; gRPC needs HTTP/2, gRPC-Web runs
   over HTTP/1.1 or HTTP/2; binary codec only; identity or gzip; no TLS; and the side played by the
   gRPC peer cannot send raw requests / raw responses *)
Definition grpc_applicable (cl sv : bool) (p : perm) : Prop :=
  (p_protocol p = 2 \/ (cl = false /\ p_protocol p = 3)) /\
  (p_protocol p = 2 -> p_version p = 2) /\
  (p_protocol p = 3 -> p_version p = 1 \/ p_version p = 2) /\
  p_codec p = 1 /\
  (p_compression p = 1 \/ p_compression p = 2) /\
  p_cert p = [] /\
  (cl = true -> p_rawreq p = false) /\
  (sv = true -> p_rawresp p = false).

(* a gRPC-peer variant is the permutation it was made from in every respect but the name: the
   request fields, and the fields of the test case that the assertion reads later (the alternative
   error codes, the expected response) or that shape the requests (expand_requests) *)
Definition same_but_name (p q : perm) : Prop :=
  p_simple q = p_simple p /\ p_version q = p_version p /\ p_protocol q = p_protocol p /\
  p_codec q = p_codec p /\ p_compression q = p_compression p /\ p_stream q = p_stream p /\
  p_cert q = p_cert p /\ p_creds q = p_creds p /\ p_service q = p_service p /\ p_method q = p_method p /\
  p_limit q = p_limit p /\ p_rawreq q = p_rawreq p /\ p_rawresp q = p_rawresp p /\
  x_other (p_extras q) = x_other (p_extras p) /\
  x_expand (p_extras q) = x_expand (p_extras p) /\
  x_expected (p_extras q) = x_expected (p_extras p).

Definition spec_marker (cl sv : bool) : bytes :=
  match cl, sv with
  | true, true => bs "(grpc impls)"
  | true, false => bs "(grpc client impl)"
  | false, true => bs "(grpc server impl)"
  | false, false => []
  end.

(* ---- parseTestSuites: raw payloads are tied to the mode ---- *)
Definition parse_ok (s : suite) (has_expected : bool) : Prop :=
  forall t, In t (s_cases s) ->
    (t_rawreq t = true -> s_mode s = 2) /\
    (t_rawresp t = true -> s_mode s = 1 /\ has_expected = true).
