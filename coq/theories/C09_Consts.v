(* C09_Consts.v - REGENERATED on every run from the compiled Go code by TestVerifConsts
   (harness/C09); do not edit. *)
From Coq Require Import ZArith NArith List.
Import ListNotations.
Definition c09_prefix_len : N := 4%N.
Definition c09_prefix_of_258 : list N := [0%N; 0%N; 1%N; 2%N].
Definition c09_max_client_response : N := 16777216%N.
Definition c09_max_server_response : N := 1048576%N.
