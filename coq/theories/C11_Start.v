(* C11_Start.v — executable model of the START phase of runTestCasesForServer over a real OS
   process (runCommand of process.go + os/exec): the two writes of WriteDelimitedMessage
   (length prefix, body) go into an io.Pipe whose other end a copy goroutine of os/exec drains
   into the child's stdin, an OS pipe that takes `cap` bytes unread.  What the child does with
   its stdin is a SCRIPT: it waits sc_delay ms, reads sc_reads bytes, and then lets go of its
   stdin by exiting or by closing it (or keeps it open, unread) — or it reads everything.
   Once nobody will read the OS pipe any more the copy goroutine stops (EPIPE); the runner's
   pending write on the io.Pipe is woken only if somebody closes the pipe's reading end:
     pl_on_exit      the cmd.Wait goroutine of runCommand does so after the child EXITED
                     (`_ = stdin.Close()` after cmd.Wait)                      — the code
     pl_on_copy_end  ... as soon as the copy into the child's stdin stops      — not the code
   Time in ms from the start of the process; the runner writes at `sd` (the starter's delay).
   No proofs here. *)
From V Require Export C11_Proc.
Open Scope N_scope.

Record plumbing := mkPl { pl_on_exit : bool; pl_on_copy_end : bool }.
Definition code_plumbing : plumbing := mkPl true false.        (* process.go as it is *)
Definition repaired_plumbing : plumbing := mkPl true true.     (* what bounded termination needs *)

Inductive srelease := RExit (code : N) | RClose.

Record schild := mkSc {
  sc_all : bool;                    (* reads its stdin to the end, then stays until it is told to stop *)
  sc_answers : bool;                (* ... and writes a valid response (with a certificate) *)
  sc_delay : N;
  sc_reads : N;
  sc_release : option srelease }.   (* None: keeps its stdin open without reading on *)

Inductive wres := WDone (t : N) | WFail (t : N) | WNever.

Definition wakes (pl : plumbing) (how : srelease) : bool :=
  pl.(pl_on_copy_end) || match how with RExit _ => pl.(pl_on_exit) | RClose => false end.

(* when the child lets go: a child that wants bytes first gets them when the runner writes *)
Definition release_time (sd : N) (sc : schild) : N :=
  if sc.(sc_reads) =? 0 then sc.(sc_delay) else N.max sc.(sc_delay) sd.

(* the request (len bytes in all) fits into what the child reads plus what the OS pipe buffers *)
Definition fits (cap len : N) (sc : schild) : bool := len <=? sc.(sc_reads) + cap.

Definition start_write (pl : plumbing) (cap len sd : N) (sc : schild) : wres :=
  if sc.(sc_all) then WDone sd
  else match sc.(sc_release) with
       | None => if fits cap len sc then WDone sd else WNever
       | Some how =>
         if (sc.(sc_reads) =? 0) && (release_time sd sc <=? sd)
         then (* it had let go before the first byte was written: the prefix is taken by the copy
                 goroutine, whose write fails; the body write finds nobody reading *)
              (if wakes pl how then WFail sd else WNever)
         else if fits cap len sc then WDone sd
         else if wakes pl how then WFail (release_time sd sc) else WNever
       end.

(* when the child is gone by itself, and its exit status *)
Definition self_exit (sd : N) (sc : schild) : option (N * N) :=
  if sc.(sc_all) then None
  else match sc.(sc_release) with
       | Some (RExit c) => Some (release_time sd sc, c)
       | _ => None
       end.

(* a start that fails: when failedToStart is reached (the write failed, or the read of the response
   failed: at once if the child is gone (EOF), when it goes, or after the response time-out rt) *)
Definition start_failed_at (pl : plumbing) (cap len sd rt : N) (sc : schild) : option N :=
  match start_write pl cap len sd sc with
  | WNever => None
  | WFail t => Some t
  | WDone t =>
    match self_exit sd sc with
    | Some (te, _) => Some (N.min (N.max t te) (t + rt))
    | None => Some (t + rt)
    end
  end.

(* the child as the stop phase finds it at time t: `ch` says how it reacts if it is still there *)
Definition child_at (sd t : N) (sc : schild) (ch : child) : child :=
  match self_exit sd sc with
  | Some (te, c) => if te <=? t then mkChild (Some c) ch.(ch_term) ch.(ch_close) ch.(ch_killable) ch.(ch_holds) else ch
  | None => ch
  end.

(* when runTestCasesForServer returns on a failed start: failedToStart, then the deferred
   abort(); result() *)
Definition start_fault_return (pl : plumbing) (P : params) (cap len sd rt : N) (sc : schild) (ch : child) : option N :=
  match start_failed_at pl cap len sd rt sc with
  | None => None
  | Some t =>
    match (cmd_stop P (child_at sd t sc ch)).(pr_ret) with
    | Some s => Some (t + s)
    | None => None
    end
  end.

(* the start succeeds: the child reads the request and answers *)
Definition start_succeeds (sc : schild) : bool := sc.(sc_all) && sc.(sc_answers).

(* ---------- case decoding ---------- *)
(* (all answers delay reads release code len cap sd n): release 0 keeps stdin open, 1 exits with
   `code`, 2 closes its stdin and stays until SIGTERM *)
Record sscript := mkSs { ss_child : schild; ss_len : N; ss_cap : N; ss_sd : N; ss_n : nat }.
Definition un_sscript (s : sx) : option sscript :=
  match s with
  | L [I al; I an; I d; I k; I rel; I code; I len; I cap; I sd; I n] =>
    if ((al <? 0) || (1 <? al) || (an <? 0) || (1 <? an) || (d <? 0) || (k <? 0) || (rel <? 0) || (2 <? rel)
        || (code <? 0) || (125 <? code) || (len <? 1) || (cap <? 0) || (sd <? 0) || (n <? 0) || (8 <? n))%Z
    then None
    else Some (mkSs (mkSc (negb (al =? 0)%Z) (negb (an =? 0)%Z) (Z.to_N d) (Z.to_N k)
                          (if (rel =? 0)%Z then None else if (rel =? 1)%Z then Some (RExit (Z.to_N code)) else Some RClose))
                    (Z.to_N len) (Z.to_N cap) (Z.to_N sd) (Z.to_nat n))
  | _ => None
  end.
