(* C11_Props.v — the property theorems of C11 and nothing else.
   `run_batch false sv cs` is runTestCasesForServer (as repaired: `break` where the pinned
   code returned from inside the send loop) for the batch cs under the fault script sv/cs:
   sv says what the server process does, each case carries what the client runner does
   for it.  Batches and scripts are ARBITRARY; run_batch is a structurally recursive total
   function (no fuel), which is the model-level statement of "the batch ends". *)
From Coq Require Import String.
From V Require Import C11_Spec C11_Proofs C11_ProcProofs C11_StartProofs C11_PrinterProofs C11_InProcProofs.
Open Scope nat_scope.

(* exactly one outcome for every case of the batch, none for anything else *)
Theorem one_outcome_each : forall sv cs n,
  distinct cs -> well_named cs ->
  (In n (names cs) -> count n (r_log (run_batch false sv cs)) = 1) /\
  (~ In n (names cs) -> count n (r_log (run_batch false sv cs)) = 0).
Proof. exact one_outcome_each_proof. Qed.
Print Assumptions one_outcome_each.

(* ... and it is the specified one: setup error for the whole batch after a fault before
   the loop, own verdict before the fault point, the fault's setup error from it on *)
Theorem outcome_as_specified : forall sv cs i c,
  distinct cs -> well_named cs -> nth_error cs i = Some c ->
  final (c_name c) (r_log (run_batch false sv cs)) = Some (expected sv cs i c).
Proof. exact outcome_as_specified_proof. Qed.
Print Assumptions outcome_as_specified.

(* affected cases are setup errors: never passes, never plain failures, never missing.
   sv ranges over BOTH ways a server can be gone after s_dead sends: exit status 0 (s_clean
   = true, result() is nil) and an error — see also dead_server_either_flavour below *)
Theorem setup_on_fault : forall sv cs i c,
  distinct cs -> well_named cs -> nth_error cs i = Some c ->
  prefault sv = true \/ fault_point sv cs <= i ->
  exists k, final (c_name c) (r_log (run_batch false sv cs)) = Some k /\ is_setup k = true /\
            k = (if prefault sv then KSetup else fault_kind sv cs).
Proof. exact setup_on_fault_proof. Qed.
Print Assumptions setup_on_fault.

(* cases answered before the fault keep the verdict of their own answer — whenever the
   answer arrives (c_delay) and whatever happens to the others *)
Theorem keep_verdict : forall sv cs i c,
  distinct cs -> well_named cs -> nth_error cs i = Some c ->
  prefault sv = false -> i < fault_point sv cs ->
  final (c_name c) (r_log (run_batch false sv cs)) = Some (verdict (c_ans c)).
Proof. exact keep_verdict_proof. Qed.
Print Assumptions keep_verdict.

(* no hypotheses at all: even with duplicate names in the batch or a client runner that
   reports results under wrong names, no case of the batch is without an outcome *)
Theorem never_missing : forall sv cs c,
  In c cs ->
  1 <= count (c_name c) (r_log (run_batch false sv cs)) /\
  final (c_name c) (r_log (run_batch false sv cs)) <> None.
Proof. exact never_missing_proof. Qed.
Print Assumptions never_missing.

(* every wait is matched: no callback is outstanding when the function returns *)
Theorem no_callback_outstanding : forall sv cs, r_pend (run_batch false sv cs) = [].
Proof. exact no_callback_outstanding_proof. Qed.
Print Assumptions no_callback_outstanding.

(* the server is asked to stop iff one was started, it is not running at return, and the
   process ends exactly once (by itself or by the abort), on every path *)
Theorem stop_requested : forall sv cs,
  let r := run_batch false sv cs in
  r_started r = s_start sv /\
  (s_start sv = true -> 1 <= r_aborts r /\ r_alive r = false /\ r_ends r = 1) /\
  (s_start sv = false -> r_aborts r = 0 /\ r_ends r = 0).
Proof. exact stop_requested_proof. Qed.
Print Assumptions stop_requested.

(* stderr of a reference server: a line is recorded for case n iff it reads "n: m" with n in
   the batch; every other non-blank line is passed through verbatim, in order; nothing else *)
Theorem sideband_attribution : forall er sv cs,
  let r := run_batch er sv cs in
  (s_start sv = true /\ s_refsrv sv = true ->
     (forall n m, In (n, m) (r_sbs r) <->
                  exists line, In line (lines_keep (s_stderr sv)) /\ side_of (names cs) line n m) /\
     (forall line, In line (r_fwd r) <->
                  In line (lines_keep (s_stderr sv)) /\ ~ blank line /\ ~ attributed (names cs) line) /\
     subseq (r_fwd r) (lines_keep (s_stderr sv))) /\
  (s_start sv = false \/ s_refsrv sv = false -> r_sbs r = [] /\ r_fwd r = []).
Proof. exact sideband_attribution_proof. Qed.
Print Assumptions sideband_attribution.

(* ... where the lines are what one expects *)
Theorem lines_spec : forall s, lines_of s (lines_keep s).
Proof. exact lines_spec_proof. Qed.
Print Assumptions lines_spec.

(* the fault point without recursion: k leading cases are accepted, the k-th is not *)
Theorem sends_ok_spec : forall cs k,
  sends_ok cs = k <->
  (forall j c, j < k -> nth_error cs j = Some c -> c_send c = true) /\ k <= length cs /\
  (forall c, nth_error cs k = Some c -> c_send c = false).
Proof. exact sends_ok_spec_proof. Qed.
Print Assumptions sends_ok_spec.

(* a server that exits with status 0 is as dead as one that crashes: same outcomes, same
   everything (whenDone's action cancels the batch context whatever the result is) *)
Theorem dead_server_either_flavour : forall er st wf rp tls dd rs rc se cl cs,
  run_batch er (mkServer st wf rp tls dd rs rc se cl) cs =
  run_batch er (mkServer st wf rp tls dd rs rc se (negb cl)) cs.
Proof. exact flavour_irrelevant_proof. Qed.
Print Assumptions dead_server_either_flavour.

(* process.go, cmdProcess: for EVERY child behaviour (exits at once, late, ignores SIGTERM,
   reacts or not to the forced close of its pipes, cannot even be killed, leaves a descendant
   holding the pipe, had exited before) and ALL durations with a WaitDelay: abort(); result()
   returns after at most the two waits of abort's goroutine; by then + WaitDelay the child is
   gone or has been sent SIGKILL; if WaitDelay is not longer than the two waits this holds
   already when result() returns, and a child that can be killed IS gone by then; the pipes
   are closed by force at most once *)
Theorem abort_bounded : forall P ch,
  p_giveup P = true -> (0 < p_wd P)%N ->
  let r := cmd_stop P ch in
  returns_by (pr_ret r) (p_grace P + p_grace2 P)%N /\
  returns_by (pr_ret r) (stop_deadline P) /\
  (ch_pre ch <> None \/ gone_by (child_end P ch) (stop_deadline P) = true \/
   kill_sent_by P ch (stop_deadline P) = true) /\
  ((p_wd P <= p_grace P + p_grace2 P)%N -> pr_dead r = true \/ pr_killed r = true) /\
  ((p_wd P <= p_grace P + p_grace2 P)%N -> ch_killable ch = true -> pr_dead r = true) /\
  pr_force r <= 1.
Proof. exact abort_bounded_proof. Qed.
Print Assumptions abort_bounded.

(* ... instantiated with the durations of the compiled code (C11_Consts.v, regenerated on
   every run): not provable any more when runCommand sets no WaitDelay *)
Theorem abort_bounded_code : forall ch,
  let r := cmd_stop (code_params c11_wait_delay_ms) ch in
  returns_by (pr_ret r) (c11_grace_ms + c11_grace2_ms)%N /\
  (pr_dead r = true \/ pr_killed r = true) /\
  (ch_killable ch = true -> pr_dead r = true).
Proof. exact abort_bounded_code_proof. Qed.
Print Assumptions abort_bounded_code.

(* localProcess: result() gives up after one period *)
Theorem local_bounded : forall P lc,
  let r := local_stop P lc in
  returns_by (pr_ret r) (p_grace P) /\ (local_stop_again P lc <= p_grace P)%N /\ pr_force r = 0.
Proof. exact local_bounded_proof. Qed.
Print Assumptions local_bounded.

(* runTestCasesForServer: for every batch, every fault script and every kind of server process
   the time spent in its abort(); result() pairs (one on the early paths, two otherwise) is
   bounded — no WaitDelay needed for that *)
Theorem batch_stop_bounded : forall P pk sv cs, p_giveup P = true ->
  returns_by (batch_stop_time P pk (run_batch false sv cs))
             (N.max (p_grace P + p_grace2 P) (p_grace P + p_grace P)).
Proof. exact batch_stop_bounded_proof. Qed.
Print Assumptions batch_stop_bounded.

(* ---- the start phase over a real OS process: writing the request to the child's stdin ----
   (C11_Start.v: the two writes of WriteDelimitedMessage on the io.Pipe that os/exec copies into the
   child's stdin.)  For EVERY plumbing, request size, OS pipe capacity, starter delay, response time-out,
   durations with a time-out on the second wait, and EVERY child stdin script in which the child takes the
   whole request, or the request fits unread and the child keeps its stdin, or the child lets go of its
   stdin in a way the plumbing notices: runTestCasesForServer returns from a failed start within
   (the later of the starter's delay and the child's own delay) + the response time-out + the two waits of
   abort's goroutine.  Not covered (lets_go fails): a child that keeps its stdin open without reading a
   request larger than the pipe takes — the write blocks, in the code too; the runner's own requests are
   a few KB. *)
Theorem start_fault_bounded : forall pl P cap len sd rt sc ch,
  p_giveup P = true -> lets_go pl cap len sc ->
  returns_by (start_fault_return pl P cap len sd rt sc ch)
             (N.max sd (sc_delay sc) + rt + (p_grace P + p_grace2 P))%N.
Proof. exact start_fault_bounded_proof. Qed.
Print Assumptions start_fault_bounded.

(* ... the plumbing of process.go as it is (the pipe's reading end is closed after cmd.Wait, i.e. after
   the child EXITED) is enough for every child that lets go of its stdin by exiting: dead before the first
   byte is written, after reading k bytes, after any delay, with a request of any size *)
Theorem start_fault_bounded_code : forall P cap len sd rt sc ch,
  p_giveup P = true ->
  (sc_all sc = true \/ (fits cap len sc = true /\ sc_release sc = None) \/ exists c, sc_release sc = Some (RExit c)) ->
  returns_by (start_fault_return code_plumbing P cap len sd rt sc ch)
             (N.max sd (sc_delay sc) + rt + (p_grace P + p_grace2 P))%N.
Proof. exact start_fault_bounded_code_proof. Qed.
Print Assumptions start_fault_bounded_code.

(* the write itself: done or failed, between the moment the runner writes and the moment the child lets go *)
Theorem start_write_returns : forall pl cap len sd sc, lets_go pl cap len sc ->
  exists t, (start_write pl cap len sd sc = WDone t \/ start_write pl cap len sd sc = WFail t) /\
            (sd <= t)%N /\ (t <= N.max sd (sc_delay sc))%N.
Proof. exact start_write_returns_proof. Qed.
Print Assumptions start_write_returns.

(* ... and a plumbing that closes the reading end on neither occasion never wakes the writer of a request
   that a child which had let go before the write did not take (seed C11-16: `stdin.Close()` after cmd.Wait
   removed) *)
Theorem unwoken_write_never : forall cap len sd sc how,
  sc_all sc = false -> sc_release sc = Some how -> sc_reads sc = 0%N -> (sc_delay sc <= sd)%N ->
  start_write (mkPl false false) cap len sd sc = WNever.
Proof. exact unwoken_write_never_proof. Qed.
Print Assumptions unwoken_write_never.

(* ---- glue: the printer in front of the stderr parser, and the size limits handed across files ---- *)
(* internal/printer.go, safePrinter.PrefixPrintf as a lock-step machine (Lock, write prefix ++ ": ",
   write the formatted message, newline if missing, Unlock - one atomic step each): whatever the
   goroutines' programs and under EVERY schedule, once all calls have returned the stream is the
   concatenation of whole lines "prefix: message" of exactly the submitted calls (each once), and it
   falls into exactly those lines when no prefix / message contains a newline *)
Theorem printer_lines_atomic : forall progs sched,
  let s := prun false sched (pinit progs) in
  pfinished s = true ->
  exists done, Permutation.Permutation done (concat progs) /\
               ps_out s = concat (map line_of done) /\
               (Forall clean (concat progs) -> lines_keep (ps_out s) = map line_of done ++ [[]]).
Proof. exact printer_lines_atomic_proof. Qed.
Print Assumptions printer_lines_atomic.

(* ... so the runner's parser records (n, m) iff a SUBMITTED call's own line reads "n: m" with n in the
   batch, and passes through exactly the submitted lines that are neither blank nor attributed:
   feedback printed for one case is never attributed to another, under every schedule *)
Theorem printer_feedback_attributed : forall progs sched batch,
  let s := prun false sched (pinit progs) in
  pfinished s = true -> Forall clean (concat progs) ->
  (forall n m, In (n, m) (fst (parse_stderr batch (ps_out s))) <->
               exists c, In c (concat progs) /\ side_of batch (line_of c) n m) /\
  (forall l, In l (snd (parse_stderr batch (ps_out s))) <->
             exists c, In c (concat progs) /\ l = line_of c /\ ~ blank l /\ ~ attributed batch l).
Proof. exact printer_feedback_attributed_proof. Qed.
Print Assumptions printer_feedback_attributed.

(* the two response-size limits (regenerated from client_runner.go / server_runner.go): the server's
   limit is the smaller one; each reader asks for the body iff the announced size is within ITS limit;
   a server response announcing more than the server limit fails the start at the prefix - every case
   a setup error, exactly once, whatever follows the prefix (also for sizes the client reader would
   take); one within the limit that is delivered lets every case keep its own verdict *)
Theorem limits_wired :
  (c11_max_server_response < c11_max_client_response)%N /\
  (forall size, asks_for_body RdServerResponse size = false <-> (c11_max_server_response < size)%N) /\
  (forall size, asks_for_body RdClientOutput size = false <-> (c11_max_client_response < size)%N) /\
  (forall size body tls cs i c, distinct cs -> well_named cs -> nth_error cs i = Some c ->
     (c11_max_server_response < size)%N ->
     asks_for_body RdServerResponse size = false /\
     final (c_name c) (r_log (run_batch false (limit_server size body tls) cs)) = Some KSetup /\
     count (c_name c) (r_log (run_batch false (limit_server size body tls) cs)) = 1) /\
  (forall size tls cs i c, distinct cs -> well_named cs -> nth_error cs i = Some c ->
     (size <= c11_max_server_response)%N -> (forall c', In c' cs -> c_send c' = true) ->
     final (c_name c) (r_log (run_batch false (limit_server size true tls) cs)) = Some (verdict (c_ans c))).
Proof. exact limits_wired_proof. Qed.
Print Assumptions limits_wired.

(* ---- non-vacuity ---- *)
Definition cse (n : string) (ok : bool) (a : ans) (d : nat) : case := mkCase (bs n) ok a d (bs n) [].
Arguments cse n%string ok a d.
Definition srv (dead : option nat) : server := mkServer true WOk (RValid false) false dead false false [] false.
Definition srv0 (dead : option nat) : server := mkServer true WOk (RValid false) false dead false false [] true.
Definition kinds (r : result) (ns : list bytes) : list (option okind) := map (fun n => final n (r_log r)) ns.
Definition a := bs "a". Definition b := bs "b". Definition c := bs "c".

(* hypotheses are inhabited *)
Example ex_hyps : distinct [cse "a" true APass 0; cse "b" true AFail 9] /\ well_named [cse "a" true APass 0; cse "b" true AFail 9].
Proof. split; [repeat constructor; simpl; intuition discriminate|repeat constructor]. Qed.

(* the server dies after the first send while a's answer is still outstanding: a keeps its
   own verdict, b and c are setup errors *)
Example ex_dies_after_1 :
  kinds (run_batch false (srv (Some 1)) [cse "a" true AFail 9; cse "b" true APass 0; cse "c" true APass 0]) [a; b; c]
  = [Some KFail; Some KSetup; Some KSetup].
Proof. vm_compute. reflexivity. Qed.

(* the client pipe breaks at the second send *)
Example ex_pipe_closed :
  kinds (run_batch false (srv None) [cse "a" true APass 1; cse "b" false APass 0; cse "c" true APass 0]) [a; b; c]
  = [Some KPass; Some KCouldNotRun; Some KCouldNotRun].
Proof. vm_compute. reflexivity. Qed.

(* tie: the dead server is noticed before the refused send *)
Example ex_tie :
  kinds (run_batch false (srv (Some 1)) [cse "a" true APass 0; cse "b" false APass 0]) [a; b] = [Some KPass; Some KSetup].
Proof. vm_compute. reflexivity. Qed.

(* both sides of `affected` occur; TLS without certificate affects everything *)
Example ex_nocert :
  kinds (run_batch false (mkServer true WOk (RValid false) true None false false [] false) [cse "a" true APass 0]) [a] = [Some KSetup].
Proof. vm_compute. reflexivity. Qed.

(* failRemaining matters: a client that reports a's result under b's name leaves a to it *)
Example ex_misreport :
  let r := run_batch false (srv None) [mkCase (bs "a") true APass 0 (bs "b") []; cse "b" true AFail 0] in
  (kinds r [a; b], count (bs "b") (r_log r)) = ([Some KNoResult; Some KFail], 2).
Proof. vm_compute. reflexivity. Qed.

(* the pinned code (return from inside the loop) refutes one_outcome_each: a has no outcome
   at return and its callback is still outstanding — DESIGN.md section 9, #17 *)
Example pinned_code_refuted :
  let r := run_batch true (srv (Some 1)) [cse "a" true APass 9; cse "b" true APass 0] in
  (kinds r [a; b], length (r_pend r)) = ([None; Some KSetup], 1).
Proof. vm_compute. reflexivity. Qed.

(* side-band: attributed, foreign name, nested ": ", blank, unterminated *)
Example ex_sideband :
  let r := run_batch false (mkServer true WOk (RValid false) false None true false
             (bs "a: m1" ++ [10%N] ++ bs "zz: m2" ++ [10%N] ++ bs "  " ++ [10%N] ++ bs " b: x: y ") false)
             [cse "a" true APass 0; cse "b" true APass 0] in
  (r_sbs r, r_fwd r) = ([(bs "a", bs "m1"); (bs "b", bs "x: y")], [bs "zz: m2" ++ [10%N]]).
Proof. vm_compute. reflexivity. Qed.

(* the server exits with status 0 after two of four requests: the other two are setup errors *)
Example ex_clean_exit_after_2 :
  kinds (run_batch false (srv0 (Some 2)) [cse "a" true APass 0; cse "b" true AFail 0; cse "c" true APass 0; cse "d" true APass 0])
        [a; b; c; bs "d"] = [Some KPass; Some KFail; Some KSetup; Some KSetup].
Proof. vm_compute. reflexivity. Qed.

(* ---- process.go ---- *)
Definition P5 (wd : N) (giveup : bool) : params := mkP 5000 5000 wd giveup.
Definition stubborn : child := mkChild None TIgnore None true false.    (* ignores SIGTERM *)
Definition stuck : child := mkChild None TIgnore None false false.      (* cannot even be killed *)
Definition proj (r : pres) := (pr_ret r, pr_class r, pr_dead r, pr_killed r, pr_force r).

(* killed when WaitDelay is over; the forced close is not reached (first wins the tie) *)
Example ex_stubborn : proj (cmd_stop (P5 4000 true) stubborn) = (Some 4000%N, CSignal, true, true, 0).
Proof. vm_compute. reflexivity. Qed.
(* a stuck process: closed by force once, given up after both periods *)
Example ex_stuck : proj (cmd_stop (P5 5000 true) stuck) = (Some 10000%N, CGaveUp, false, true, 1).
Proof. vm_compute. reflexivity. Qed.
(* exits one second after the signal with status 7; with status 0 after cmd.Cancel: context.Canceled *)
Example ex_late : proj (cmd_stop (P5 5000 true) (mkChild None (TExit 1000 7) None true false)) = (Some 1000%N, CExit, true, false, 0)
               /\ pr_class (cmd_stop (P5 5000 true) (mkChild None (TExit 0 0) None true false)) = CCanceled.
Proof. vm_compute. split; reflexivity. Qed.
(* a descendant holds the pipe: cmd.Wait returns when os/exec closes it *)
Example ex_holder : proj (cmd_stop (P5 5000 true) (mkChild None (TExit 0 3) None true true)) = (Some 5000%N, CExit, true, false, 0).
Proof. vm_compute. reflexivity. Qed.
(* reacts to the forced close only *)
Example ex_close : proj (cmd_stop (P5 0 true) (mkChild None TIgnore (Some 2000%N) false false)) = (Some 7000%N, CCanceled, true, false, 1).
Proof. vm_compute. reflexivity. Qed.
(* had exited with status 0 before anybody asked: result() is nil *)
Example ex_pre : proj (cmd_stop (P5 5000 true) (mkChild (Some 0%N) TIgnore None true false)) = (Some 0%N, CNil, true, false, 0).
Proof. vm_compute. reflexivity. Qed.

(* ONE timer for both waits (the second wait then has no time-out): abort_bounded fails —
   result() never returns for a stuck process *)
Example shared_timer_refuted : pr_ret (cmd_stop (P5 5000 false) stuck) = None.
Proof. vm_compute. reflexivity. Qed.
(* no WaitDelay: abort_bounded fails — result() returns after both periods with the
   process alive and never sent SIGKILL *)
Example no_wait_delay_refuted : proj (cmd_stop (P5 0 true) stubborn) = (Some 10000%N, CGaveUp, false, false, 1).
Proof. vm_compute. reflexivity. Qed.

(* localProcess that never returns: 5 s in result(), and 5 s again in the deferred one *)
Example ex_local_stuck :
  stop_time (P5 0 true) (PLocal (mkLc false None false)) 2 = Some 10000%N /\
  pr_class (local_stop (P5 0 true) (mkLc false None false)) = CDeadline.
Proof. vm_compute. split; reflexivity. Qed.

(* the start phase.  A child that exits with status 3 at once, without reading; the starter hands the
   process over one second later; a 256 KiB request: the write fails at 1000 and the function returns
   then (the child is gone: result() at once) — with the code's plumbing *)
Definition dead_child : schild := mkSc false false 0 0 (Some (RExit 3)).
Definition sigterm_child : child := mkChild None (TExit 0 0) None true false.
Example ex_dead_before_write :
  start_write code_plumbing 65536 262200 1000 dead_child = WFail 1000 /\
  start_fault_return code_plumbing (P5 5000 true) 65536 262200 1000 10000 dead_child sigterm_child = Some 1000%N.
Proof. vm_compute. split; reflexivity. Qed.
(* it sleeps 2 s without reading and exits: the write of the big request is blocked until then; a small
   request is taken by the OS pipe at once and the response read ends when the child goes *)
Example ex_sleeps_then_exits :
  start_write code_plumbing 65536 262200 0 (mkSc false false 2000 0 (Some (RExit 3))) = WFail 2000 /\
  start_fault_return code_plumbing (P5 5000 true) 65536 40 0 10000 (mkSc false false 2000 0 (Some (RExit 3))) sigterm_child
    = Some 2000%N.
Proof. vm_compute. split; reflexivity. Qed.
(* reads 100 bytes of a big request, then exits *)
Example ex_reads_some : start_write code_plumbing 65536 262200 1000 (mkSc false false 0 100 (Some (RExit 0))) = WFail 1000.
Proof. vm_compute. reflexivity. Qed.
(* lets_go is inhabited in all three ways *)
Example ex_lets_go :
  lets_go code_plumbing 65536 40 (mkSc true true 0 0 None) /\ lets_go code_plumbing 65536 40 (mkSc false false 0 0 None) /\
  lets_go code_plumbing 65536 262200 dead_child.
Proof. split; [left; reflexivity|split; [right; left; split; reflexivity|right; right; exists (RExit 3); split; reflexivity]]. Qed.
(* seed C11-16 (nobody closes the reading end after the exit): the writer is never woken, the function
   never returns *)
Example seeded_plumbing_refuted :
  start_fault_return (mkPl false false) (P5 5000 true) 65536 262200 1000 10000 dead_child sigterm_child = None.
Proof. vm_compute. reflexivity. Qed.
(* KNOWN FINDING (class request-write-unbounded): a child that CLOSES its stdin unread and stays alive.
   With the code's plumbing the pending write is never woken (cmd.Wait does not return while the child
   lives, abort is only reached after the write); a plumbing that closes the reading end when the copy into
   the child's stdin stops would fail the write at once; a small request written BEFORE the child closes
   is taken by the OS pipe and the start fails after the response time-out *)
Definition closes_stdin : schild := mkSc false false 0 0 (Some RClose).
Example code_plumbing_close_alive_refuted :
  start_fault_return code_plumbing (P5 5000 true) 65536 262200 0 10000 closes_stdin sigterm_child = None /\
  start_fault_return code_plumbing (P5 5000 true) 65536 40 1000 10000 closes_stdin sigterm_child = None /\
  start_fault_return repaired_plumbing (P5 5000 true) 65536 262200 0 10000 closes_stdin sigterm_child = Some 0%N /\
  start_fault_return code_plumbing (P5 5000 true) 65536 40 0 10000 (mkSc false false 2000 0 (Some RClose)) sigterm_child
    = Some 10000%N.
Proof. vm_compute. repeat split; reflexivity. Qed.

(* ---- the printer ---- *)
Definition pcl (p m : string) : pcall := mkCall (bs p) (bs m).
Arguments pcl p%string m%string.
(* two goroutines, any of the 3 schedules below: whole lines; the parser attributes each to its own case *)
Example ex_printer_interleaved :
  ps_out (prun false [0; 1; 0; 1; 0; 1; 0; 1; 1; 1; 1] (pinit [[pcl "S/a" "x"]; [pcl "S/b" "y"]]))
    = bs "S/a: x" ++ [10%N] ++ bs "S/b: y" ++ [10%N] /\
  ps_out (prun false [1; 1; 0; 0; 1; 0; 1; 0; 0; 0; 0] (pinit [[pcl "S/a" "x"]; [pcl "S/b" "y"]]))
    = bs "S/b: y" ++ [10%N] ++ bs "S/a: x" ++ [10%N] /\
  fst (parse_stderr [bs "S/a"; bs "S/b"] (ps_out (prun false [1; 1; 0; 0; 1; 0; 1; 0; 0; 0; 0] (pinit [[pcl "S/a" "x"]; [pcl "S/b" "y"]]))))
    = [(bs "S/b", bs "y"); (bs "S/a", bs "x")].
Proof. vm_compute. repeat split; reflexivity. Qed.
(* a test name with format verbs is copied verbatim *)
Example ex_printer_percent :
  line_of (pcl "S/100%d %s %%" "expected 1; got 2") = bs "S/100%d %s %%: expected 1; got 2" ++ [10%N] /\
  clean (pcl "S/100%d %s %%" "expected 1; got 2").
Proof. split; [vm_compute; reflexivity|]. split; vm_compute; intuition discriminate. Qed.
(* seed C11-18: the variant that lets go of the mutex between prefix and message interleaves - the line
   of S/b is attributed to S/a, the rest of S/a's line is passed through as ordinary output *)
Example split_lock_refuted :
  let s := prun true [0; 0; 1; 1; 1; 1; 1; 0; 0; 0] (pinit [[pcl "S/a" "x"]; [pcl "S/b" "y"]]) in
  pfinished s = true /\ ps_out s = bs "S/a: S/b: y" ++ [10%N] ++ bs "x" ++ [10%N] /\
  parse_stderr [bs "S/a"; bs "S/b"] (ps_out s) = ([(bs "S/a", bs "S/b: y")], [bs "x" ++ [10%N]]).
Proof. vm_compute. repeat split; reflexivity. Qed.

(* ---- the limits ---- *)
(* the window between the two limits is inhabited: 2 MiB is refused by the server-response reader at the
   prefix and taken by the client-output reader *)
Example ex_limit_window :
  asks_for_body RdServerResponse 2097152 = false /\ asks_for_body RdClientOutput 2097152 = true /\
  asks_for_body RdServerResponse c11_max_server_response = true /\
  asks_for_body RdServerResponse (c11_max_server_response + 1) = false /\
  server_resp 2097152 true = RBad /\ server_resp 1048576 true = RValid true.
Proof. vm_compute. repeat split; reflexivity. Qed.

(* ---- an in-process server that gives up; whenDone (fourth wave: seeds C11-24, C04-23) ---- *)
(* runInProcess's goroutine as a list of actions: the error line is appended to what the stderr reader gets iff
   it is printed after the function returned and BEFORE the pipes are closed; printed after, it is lost for good *)
Theorem inprocess_print_order : forall im e pre post,
  im_err im = Some e ->
  (In ARunImpl pre -> ~ In AClosePipes pre ->
     ip_stream (ip_run im (pre ++ [APrintErr])) = ip_stream (ip_run im pre) ++ err_line e) /\
  (In AClosePipes pre ->
     ip_stream (ip_run im (pre ++ APrintErr :: post)) = ip_stream (ip_run im pre)).
Proof. exact inprocess_print_order_proof. Qed.
Print Assumptions inprocess_print_order.

(* process.go's order: the reader gets the server's own output, then the error line; then the end of the stream;
   `done` is closed after that *)
Theorem inprocess_stream : forall own err,
  inproc_stream (mkImpl own err) = own ++ match err with Some e => err_line e | None => [] end /\
  ip_open (ip_run (mkImpl own err) code_order) = false /\
  ip_done (ip_run (mkImpl own err) code_order) = true.
Proof. exact inprocess_stream_proof. Qed.
Print Assumptions inprocess_stream.

(* for EVERY batch and fault script over an in-process reference server that wrote whole lines and returned an
   error: the error line is a line of its own on the stream and is handed to the error printer (unless it is blank
   or looks like feedback for a case of the batch) *)
Theorem inprocess_error_is_printed : forall er sv cs bodies e,
  s_start sv = true -> s_refsrv sv = true ->
  s_stderr sv = inproc_stream (mkImpl (whole_lines bodies) (Some e)) ->
  Forall no_nl bodies -> no_nl e ->
  ~ blank (err_line e) -> ~ attributed (names cs) (err_line e) ->
  lines_keep (s_stderr sv) = map (fun b => b ++ [10%N]) bodies ++ [err_line e; []] /\
  In (err_line e) (r_fwd (run_batch er sv cs)).
Proof. exact inprocess_error_is_printed_proof. Qed.
Print Assumptions inprocess_error_is_printed.

(* whenDone calls its action whatever the result: the end of a server that exits with status 0 is noticed like any other
   (with dead_server_either_flavour: the cases after it are setup errors) *)
Theorem clean_exit_is_noticed : forall clean dead, noticed_dead WdAlways clean dead = dead.
Proof. exact clean_exit_is_noticed_proof. Qed.
Print Assumptions clean_exit_is_noticed.

(* the hypotheses are inhabited by the scripted server of the harness; seed C11-24 (error printed by a deferred
   function that runs after the pipes were closed): the line is lost; seed C04-23 (whenDone only on error): a clean
   exit after 1 of 3 requests goes unnoticed, the remaining cases PASS instead of being setup errors *)
Example ex_inprocess_scripted :
  let sv := mkServer true WOk RBad false None true false (inproc_stream (mkImpl (own_lines 1) (Some scripted_error))) false in
  own_lines 1 = whole_lines [bs "verif: own line 0"] /\
  r_fwd (run_batch false sv (plain_cases 2)) = [bs "verif: own line 0" ++ [10%N]; err_line scripted_error] /\
  no_nl scripted_error /\ ~ blank (err_line scripted_error).
Proof.
  cbv zeta. split; [vm_compute; reflexivity|]. split; [vm_compute; reflexivity|]. split.
  - vm_compute. intuition discriminate.
  - unfold blank. vm_compute. discriminate.
Qed.
Example seeded_print_order_refuted :
  ip_stream (ip_run (mkImpl (own_lines 1) (Some scripted_error)) seeded_order) = own_lines 1 /\
  ip_stream (ip_run (mkImpl (own_lines 1) (Some scripted_error)) code_order) = own_lines 1 ++ err_line scripted_error.
Proof. vm_compute. split; reflexivity. Qed.
Example whendone_on_error_only_refuted :
  let sv v := mkServer true WOk (RValid false) false (noticed_dead v true (Some 1%nat)) false false [] true in
  one_count KPass (plain_cases 3) (run_batch false (sv WdOnError) (plain_cases 3)) = 3%nat /\
  one_count KPass (plain_cases 3) (run_batch false (sv WdAlways) (plain_cases 3)) = 1%nat /\
  one_count KSetup (plain_cases 3) (run_batch false (sv WdAlways) (plain_cases 3)) = 2%nat.
Proof. vm_compute. repeat split; reflexivity. Qed.
