From V Require Import C11_Spec C11_Proofs.
