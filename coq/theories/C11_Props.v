(* C11_Props.v — the property theorems of C11 and nothing else.
   `run_batch false sv cs` is runTestCasesForServer (as repaired: `break` where the pinned
   code returned from inside the send loop) for the batch cs under the fault script sv/cs:
   sv says what the server process does, each case carries what the client runner does
   for it.  Batches and scripts are ARBITRARY; run_batch is a structurally recursive total
   function (no fuel), which is the model-level statement of "the batch ends". *)
From Coq Require Import String.
From V Require Import C11_Spec C11_Proofs.
Open Scope nat_scope.

(* exactly one outcome for every case of the batch, none for anything else *)
Theorem one_outcome_each : forall sv cs n,
  distinct cs -> well_named cs ->
  (In n (names cs) -> count n (r_log (run_batch false sv cs)) = 1) /\
  (~ In n (names cs) -> count n (r_log (run_batch false sv cs)) = 0).
Proof. exact one_outcome_each_proof. Qed.
Print Assumptions one_outcome_each.

(* ... and it is the specified one: setup error for the whole batch after a fault before
   the loop, own verdict before the fault point, the fault's setup error from it on *)
Theorem outcome_as_specified : forall sv cs i c,
  distinct cs -> well_named cs -> nth_error cs i = Some c ->
  final (c_name c) (r_log (run_batch false sv cs)) = Some (expected sv cs i c).
Proof. exact outcome_as_specified_proof. Qed.
Print Assumptions outcome_as_specified.

(* affected cases are setup errors: never passes, never plain failures, never missing *)
Theorem setup_on_fault : forall sv cs i c,
  distinct cs -> well_named cs -> nth_error cs i = Some c ->
  prefault sv = true \/ fault_point sv cs <= i ->
  exists k, final (c_name c) (r_log (run_batch false sv cs)) = Some k /\ is_setup k = true /\
            k = (if prefault sv then KSetup else fault_kind sv cs).
Proof. exact setup_on_fault_proof. Qed.
Print Assumptions setup_on_fault.

(* cases answered before the fault keep the verdict of their own answer — whenever the
   answer arrives (c_delay) and whatever happens to the others *)
Theorem keep_verdict : forall sv cs i c,
  distinct cs -> well_named cs -> nth_error cs i = Some c ->
  prefault sv = false -> i < fault_point sv cs ->
  final (c_name c) (r_log (run_batch false sv cs)) = Some (verdict (c_ans c)).
Proof. exact keep_verdict_proof. Qed.
Print Assumptions keep_verdict.

(* no hypotheses at all: even with duplicate names in the batch or a client runner that
   reports results under wrong names, no case of the batch is without an outcome *)
Theorem never_missing : forall sv cs c,
  In c cs ->
  1 <= count (c_name c) (r_log (run_batch false sv cs)) /\
  final (c_name c) (r_log (run_batch false sv cs)) <> None.
Proof. exact never_missing_proof. Qed.
Print Assumptions never_missing.

(* every wait is matched: no callback is outstanding when the function returns *)
Theorem no_callback_outstanding : forall sv cs, r_pend (run_batch false sv cs) = [].
Proof. exact no_callback_outstanding_proof. Qed.
Print Assumptions no_callback_outstanding.

(* the server is asked to stop iff one was started, it is not running at return, and the
   process ends exactly once (by itself or by the abort), on every path *)
Theorem stop_requested : forall sv cs,
  let r := run_batch false sv cs in
  r_started r = s_start sv /\
  (s_start sv = true -> 1 <= r_aborts r /\ r_alive r = false /\ r_ends r = 1) /\
  (s_start sv = false -> r_aborts r = 0 /\ r_ends r = 0).
Proof. exact stop_requested_proof. Qed.
Print Assumptions stop_requested.

(* stderr of a reference server: a line is recorded for case n iff it reads "n: m" with n in
   the batch; every other non-blank line is passed through verbatim, in order; nothing else *)
Theorem sideband_attribution : forall er sv cs,
  let r := run_batch er sv cs in
  (s_start sv = true /\ s_refsrv sv = true ->
     (forall n m, In (n, m) (r_sbs r) <->
                  exists line, In line (lines_keep (s_stderr sv)) /\ side_of (names cs) line n m) /\
     (forall line, In line (r_fwd r) <->
                  In line (lines_keep (s_stderr sv)) /\ ~ blank line /\ ~ attributed (names cs) line) /\
     subseq (r_fwd r) (lines_keep (s_stderr sv))) /\
  (s_start sv = false \/ s_refsrv sv = false -> r_sbs r = [] /\ r_fwd r = []).
Proof. exact sideband_attribution_proof. Qed.
Print Assumptions sideband_attribution.

(* ... where the lines are what one expects *)
Theorem lines_spec : forall s, lines_of s (lines_keep s).
Proof. exact lines_spec_proof. Qed.
Print Assumptions lines_spec.

(* the fault point without recursion: k leading cases are accepted, the k-th is not *)
Theorem sends_ok_spec : forall cs k,
  sends_ok cs = k <->
  (forall j c, j < k -> nth_error cs j = Some c -> c_send c = true) /\ k <= length cs /\
  (forall c, nth_error cs k = Some c -> c_send c = false).
Proof. exact sends_ok_spec_proof. Qed.
Print Assumptions sends_ok_spec.

(* ---- non-vacuity ---- *)
Definition cse (n : string) (ok : bool) (a : ans) (d : nat) : case := mkCase (bs n) ok a d (bs n) [].
Arguments cse n%string ok a d.
Definition srv (dead : option nat) : server := mkServer true WOk (RValid false) false dead false false [].
Definition kinds (r : result) (ns : list bytes) : list (option okind) := map (fun n => final n (r_log r)) ns.
Definition a := bs "a". Definition b := bs "b". Definition c := bs "c".

(* hypotheses are inhabited *)
Example ex_hyps : distinct [cse "a" true APass 0; cse "b" true AFail 9] /\ well_named [cse "a" true APass 0; cse "b" true AFail 9].
Proof. split; [repeat constructor; simpl; intuition discriminate|repeat constructor]. Qed.

(* the server dies after the first send while a's answer is still outstanding: a keeps its
   own verdict, b and c are setup errors *)
Example ex_dies_after_1 :
  kinds (run_batch false (srv (Some 1)) [cse "a" true AFail 9; cse "b" true APass 0; cse "c" true APass 0]) [a; b; c]
  = [Some KFail; Some KSetup; Some KSetup].
Proof. vm_compute. reflexivity. Qed.

(* the client pipe breaks at the second send *)
Example ex_pipe_closed :
  kinds (run_batch false (srv None) [cse "a" true APass 1; cse "b" false APass 0; cse "c" true APass 0]) [a; b; c]
  = [Some KPass; Some KCouldNotRun; Some KCouldNotRun].
Proof. vm_compute. reflexivity. Qed.

(* tie: the dead server is noticed before the refused send *)
Example ex_tie :
  kinds (run_batch false (srv (Some 1)) [cse "a" true APass 0; cse "b" false APass 0]) [a; b] = [Some KPass; Some KSetup].
Proof. vm_compute. reflexivity. Qed.

(* both sides of `affected` occur; TLS without certificate affects everything *)
Example ex_nocert :
  kinds (run_batch false (mkServer true WOk (RValid false) true None false false []) [cse "a" true APass 0]) [a] = [Some KSetup].
Proof. vm_compute. reflexivity. Qed.

(* failRemaining matters: a client that reports a's result under b's name leaves a to it *)
Example ex_misreport :
  let r := run_batch false (srv None) [mkCase (bs "a") true APass 0 (bs "b") []; cse "b" true AFail 0] in
  (kinds r [a; b], count (bs "b") (r_log r)) = ([Some KNoResult; Some KFail], 2).
Proof. vm_compute. reflexivity. Qed.

(* the pinned code (return from inside the loop) refutes one_outcome_each: a has no outcome
   at return and its callback is still outstanding — DESIGN.md section 9, #17 *)
Example pinned_code_refuted :
  let r := run_batch true (srv (Some 1)) [cse "a" true APass 9; cse "b" true APass 0] in
  (kinds r [a; b], length (r_pend r)) = ([None; Some KSetup], 1).
Proof. vm_compute. reflexivity. Qed.

(* side-band: attributed, foreign name, nested ": ", blank, unterminated *)
Example ex_sideband :
  let r := run_batch false (mkServer true WOk (RValid false) false None true false
             (bs "a: m1" ++ [10%N] ++ bs "zz: m2" ++ [10%N] ++ bs "  " ++ [10%N] ++ bs " b: x: y "))
             [cse "a" true APass 0; cse "b" true APass 0] in
  (r_sbs r, r_fwd r) = ([(bs "a", bs "m1"); (bs "b", bs "x: y")], [bs "zz: m2" ++ [10%N]]).
Proof. vm_compute. reflexivity. Qed.
