(* C10_Spec.v — what property C10 promises, stated over what an observer of the runner sees
   (what sendRequest returned, which callbacks were invoked with what, isRunning, what
   waitForResponses does) and over what the client wrote; no reference to pendingOps, the
   mutexes or the reader's internal phases beyond "the reader has exited". *)
From V Require Export C10_Model.
Open Scope N_scope.

(* ---------- observations ---------- *)
(* how often request i's callback has been invoked *)
Definition times_fired (i : N) (s : st) : nat := length (fired_of i s.(fired)).

(* sendRequest for request i returned nil / returned an error / has not been called *)
Definition accepted (s : st) (i : N) : Prop := s.(phase_of) i = Ret None.
Definition refused (s : st) (i : N) : Prop := exists e, s.(phase_of) i = Ret (Some e).
Definition not_called (s : st) (i : N) : Prop := s.(phase_of) i = Idle.
(* sendRequest for request i is past its c.err check and has not yet got sendMu *)
Definition at_the_door (s : st) (i : N) : Prop := s.(phase_of) i = Checked.
(* sendRequest for request i has registered the request and is inside WriteDelimitedMessage *)
Definition in_its_write (s : st) (i : N) : Prop := s.(phase_of) i = Writing.
(* ... was refused as a duplicate of a pending test name *)
Definition refused_as_duplicate (s : st) (i : N) : Prop := s.(phase_of) i = Ret (Some EDup).

(* the reader goroutine has exited (the `done` channel is closed): what waitForResponses waits for *)
Definition reader_exited (s : st) : Prop := s.(rd) = RDone.

(* the reader left its loop because of a client failure (anything but a clean end of output) *)
Definition reader_failed (s : st) : Prop :=
  exists r, r <> REof /\ (s.(rd) = RStop1 r \/ s.(rd) = RStop2 r).

(* ---------- what the client wrote ---------- *)
(* everything the script's client writes to its stdout, in order *)
Fixpoint written (h : list action) : bytes :=
  match h with
  | [] => []
  | COut bs :: r => bs ++ written r
  | _ :: r => written r
  end.

(* the client's output contains a well-formed frame (4-byte big-endian length, then that many
   bytes) whose body is a response naming test n with marker tag *)
Definition client_wrote (h : list action) (n : name) (tag : bytes) : Prop :=
  exists pre pfx m post,
    written h = pre ++ pfx ++ m ++ post /\
    length pfx = 4%nat /\ be_decode pfx 0 = N.of_nat (length m) /\
    decode m = Some (n, tag).

(* ---------- the canonical way out of any state ---------- *)
(* the client process ends (environment; with or without an error), the writer that was in flight
   gets its error, the reader sees the end of the output and cleans up *)
Definition wind_down (failed : bool) (s : st) : list action :=
  ProcExit failed false ::
  match s.(mu) with Some i => [WriteFail i (wfail_for (s.(req_of) i))] | None => [] end ++ [RStep; RClose; RDrain].

Definition run_from (s : st) (h : list action) : st := fold_left step h s.

(* the reader is past the point after which nothing new can be accepted: it failed, or it has
   closed the send side on its way out, or it has exited *)
Definition reader_gone (s : st) : Prop :=
  reader_failed s \/ (exists r, s.(rd) = RStop2 r) \/ reader_exited s.

(* ---------- the size limits (seed C10-15) ---------- *)
(* a state whose unconsumed client output is b *)
Definition with_buf (s : st) (b : bytes) : st :=
  mkSt s.(err) s.(closed) s.(term) s.(mu) s.(pending) s.(rname) s.(req_of) s.(phase_of) s.(fired) s.(rd) s.(seen)
       b s.(out_open) s.(in_open) s.(alive) s.(aborted) s.(noticed) s.(status) s.(wait_ret).

(* request i's callback got the response (n, tag); the reader goes on with `rest`; nothing else changed:
   every other pending test is still pending, no failure is recorded, the client is not aborted *)
Definition delivered_to (s s' : st) (i : N) (n tag rest : bytes) : Prop :=
  s'.(fired) = s.(fired) ++ [(i, OResp n tag)] /\ s'.(rd) = RRun /\ s'.(buf) = rest /\
  s'.(pending) = remove_name n s.(pending) /\ s'.(err) = s.(err) /\ s'.(term) = s.(term) /\ s'.(aborted) = s.(aborted).

