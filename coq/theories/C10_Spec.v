From V Require Export C10_Model.
