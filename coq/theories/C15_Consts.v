(* C15_Consts.v - REGENERATED on every run from the compiled Go code by TestVerifConsts
   (harness/C15); do not edit. *)
From Coq Require Import ZArith NArith List.
Import ListNotations.
(* client read, client write, server read, server write *)
Definition go_hpack_allowed : list N := [4294967295; 4294967295; 4294967295; 4294967295]%N.
Definition go_hpack_initial : list N := [4294967295; 4294967295; 4294967295; 4294967295]%N.
