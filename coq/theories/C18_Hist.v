(* C18_Hist.v — proofs about histories: the converted structures and the message objects are
   used further after a conversion / an encoding.
     conversions_do_not_alias_proof   explicit memory (C18_Model 2b): a conversion only reads its
                                      source, allocates what it returns, and the result reads the
                                      same whatever happens to all other memory afterwards;
     codec_stateless_proof            the result of every Marshal of a history is that of a fresh
                                      message holding the current value;
     detail_bytes_verbatim_proof      the six error conversions hand the detail bytes on as they
                                      are: they commute with ANY function on the bytes. *)
From Coq Require Import Lia.
From V Require Import C18_Spec C18_Proofs.

(* ---------------------------------------------------------------------- *)
(* 1. explicit memory                                                      *)
(* ---------------------------------------------------------------------- *)
Definition ids (m : hmap) : list nat :=
  flat_map (fun ks => match snd ks with SNil => [] | SRef id _ => [id] end) m.
Definition same_arr (h h' : heap) (id : nat) : Prop := forall i, cells h' id i = cells h id i.
Definition inv (lo : nat) (h : heap) (m : hmap) : Prop :=
  NoDup (ids m) /\ Forall (fun id => lo <= id < next h)%nat (ids m) /\ (lo <= next h)%nat.
Definition src_below (lo : nat) (src : hmap) : Prop :=
  Forall (fun ks => match snd ks with SNil => True | SRef id _ => (id < lo)%nat end) src.

Lemma same_arr_refl h id : same_arr h h id.
Proof. intros i; reflexivity. Qed.
Lemma same_arr_trans h1 h2 h3 id : same_arr h1 h2 id -> same_arr h2 h3 id -> same_arr h1 h3 id.
Proof. intros A B i. rewrite B. apply A. Qed.

Lemma sl_val_same h h' s :
  (forall id n, s = SRef id n -> same_arr h h' id) -> sl_val h' s = sl_val h s.
Proof.
  destruct s as [|id n]; [reflexivity|]. intros H. simpl. apply map_ext. intros i. apply (H id n eq_refl).
Qed.

Lemma image_same h h' m : (forall id, In id (ids m) -> same_arr h h' id) -> image h' m = image h m.
Proof.
  induction m as [|[k s] m IH]; intros H; [reflexivity|]. simpl. f_equal.
  - f_equal. apply sl_val_same. intros id n ->. apply H. simpl. left. reflexivity.
  - apply IH. intros id Hid. apply H. unfold ids. simpl. apply in_or_app. right. exact Hid.
Qed.

Lemma upd_other c id0 i0 x id : id <> id0 -> forall i, upd c id0 i0 x id i = c id i.
Proof. intros N i. unfold upd. destruct (Nat.eqb_spec id id0); [contradiction|reflexivity]. Qed.

Lemma upd_same c id i x : upd c id i x id i = x.
Proof. unfold upd. rewrite !Nat.eqb_refl. reflexivity. Qed.

Lemma upd_val c id n x : map (upd c id n x id) (seq 0 (S n)) = map (c id) (seq 0 n) ++ [x].
Proof.
  rewrite seq_S, map_app. simpl. f_equal.
  - apply map_ext_in. intros i Hi. apply in_seq in Hi. unfold upd.
    rewrite Nat.eqb_refl. destruct (Nat.eqb_spec i n); [lia|reflexivity].
  - unfold upd. rewrite !Nat.eqb_refl. reflexivity.
Qed.

Lemma image_cons h k s m : image h ((k, s) :: m) = (k, sl_val h s) :: image h m.
Proof. reflexivity. Qed.

Lemma ids_cons k s m : ids ((k, s) :: m) = match s with SNil => [] | SRef id _ => [id] end ++ ids m.
Proof. reflexivity. Qed.

(* m[k] = append(m[k], x) on separated memory is md_append on the values *)
Lemma hm_add_ok lo k x : forall m h h' m',
  inv lo h m -> hm_add k x h m = (h', m') ->
  image h' m' = md_append k [x] (image h m) /\ inv lo h' m' /\ (next h <= next h')%nat /\
  (forall id, In id (ids m') -> In id (ids m) \/ id = next h) /\
  (forall id, ~ In id (ids m) -> id <> next h -> same_arr h h' id).
Proof.
  induction m as [|[k' s] m IH]; intros h h' m' (ND & BD & LO) E.
  - simpl in E. inversion E; subst; clear E. simpl. rewrite upd_same.
    split; [reflexivity|]. split.
    { split; [|split]; simpl; [constructor; [intros []|constructor]|constructor; [lia|constructor]|lia]. }
    split; [lia|]. split; [intros id [<-|[]]; right; reflexivity|].
    intros id _ N i. simpl. apply upd_other. exact N.
  - simpl in E. simpl image. simpl md_append. destruct (bytes_eqb k k') eqn:Ek.
    + destruct s as [|id n]; simpl in E; inversion E; subst; clear E.
      * (* nil slice: a new array *)
        rewrite ids_cons in *. simpl in ND, BD.
        assert (Hm : image {| cells := upd (cells h) (next h) 0 x; next := S (next h) |} m = image h m).
        { apply image_same. intros id Hid i. simpl. apply upd_other.
          rewrite Forall_forall in BD. specialize (BD id Hid). lia. }
        rewrite !image_cons. simpl sl_val. rewrite upd_same, Hm. split; [reflexivity|]. split.
        { split; [|split]; simpl.
          - constructor; [|exact ND]. intros Hin. rewrite Forall_forall in BD. specialize (BD _ Hin). lia.
          - constructor; [cbv beta; lia|]. eapply Forall_impl; [|exact BD]. simpl. intros; lia.
          - lia. }
        split; [simpl; lia|]. split.
        { intros id [<-|Hin]; [right; reflexivity|left; exact Hin]. }
        intros id _ N i. simpl. apply upd_other. exact N.
      * (* extended in place *)
        rewrite ids_cons in *. simpl in ND, BD. inversion ND as [|? ? Hnot ND']; subst.
        inversion BD as [|? ? Hb BD']; subst.
        assert (Hm : image {| cells := upd (cells h) id n x; next := next h |} m = image h m).
        { apply image_same. intros id' Hid i. simpl. apply upd_other. intros ->. contradiction. }
        rewrite !image_cons. unfold sl_val at 1 2. cbn [cells]. rewrite upd_val, Hm. split; [reflexivity|]. split.
        { split; [|split]; simpl; [constructor; assumption|constructor; assumption|exact LO]. }
        split; [simpl; lia|]. split.
        { intros id' Hin. left. exact Hin. }
        intros id' N _ i. simpl. apply upd_other. intros ->. apply N. left. reflexivity.
    + destruct (hm_add k x h m) as [h1 m1] eqn:E1. inversion E; subst; clear E.
      rewrite ids_cons in ND, BD.
      assert (ND' : NoDup (ids m)). { destruct s; simpl in ND; [exact ND|inversion ND; assumption]. }
      assert (BDm : Forall (fun id => lo <= id < next h)%nat (ids m)).
      { apply Forall_app in BD. apply BD. }
      destruct (IH h h' m1 (conj ND' (conj BDm LO)) E1) as (I1 & (ND1 & BD1 & LO1) & NX & INC & FR).
      assert (Hs : sl_val h' s = sl_val h s).
      { apply sl_val_same. intros id n ->. simpl in ND, BD. inversion ND; subst. inversion BD; subst.
        apply FR; [assumption|lia]. }
      rewrite !image_cons. rewrite Hs, I1. split; [reflexivity|]. split.
      { split; [|split]; [| |exact LO1]; rewrite ids_cons.
        - destruct s as [|id n]; [exact ND1|]. simpl. constructor; [|exact ND1].
          simpl in ND, BD. inversion ND; subst. inversion BD; subst.
          intros Hin. destruct (INC _ Hin) as [Hin'| ->]; [contradiction|lia].
        - apply Forall_app. split; [|exact BD1]. destruct s as [|id n]; [constructor|].
          simpl in BD. inversion BD; subst. constructor; [cbv beta; lia|constructor]. }
      split; [exact NX|]. split.
      { intros id Hin. rewrite ids_cons in Hin. apply in_app_or in Hin. destruct Hin as [Hin|Hin].
        - left. rewrite ids_cons. apply in_or_app. left. exact Hin.
        - destruct (INC _ Hin) as [H1|H1]; [left; rewrite ids_cons; apply in_or_app; right; exact H1|right; exact H1]. }
      intros id N1 N2. apply FR; [|exact N2]. intros Hin. apply N1. rewrite ids_cons. apply in_or_app. right. exact Hin.
Qed.

Lemma below_same lo h h' m :
  inv lo h m -> (forall id, ~ In id (ids m) -> id <> next h -> same_arr h h' id) ->
  forall id, (id < lo)%nat -> same_arr h h' id.
Proof.
  intros (_ & BD & LO) FR id Hid. apply FR; [|lia].
  intros Hin. rewrite Forall_forall in BD. specialize (BD _ Hin). lia.
Qed.

Lemma add_all_ok lo k (f : bytes -> bytes) : forall vs h m h' m',
  inv lo h m ->
  fold_left (fun st v => hm_add k (f v) (fst st) (snd st)) vs (h, m) = (h', m') ->
  inv lo h' m' /\
  image h' m' = fold_left (fun vm v => md_append k [f v] vm) vs (image h m) /\
  (next h <= next h')%nat /\ (forall id, (id < lo)%nat -> same_arr h h' id).
Proof.
  induction vs as [|v vs IH]; intros h m h' m' I E; simpl in E.
  - inversion E; subst. repeat split; try apply I; auto using same_arr_refl.
  - destruct (hm_add k (f v) h m) as [h1 m1] eqn:E1.
    destruct (hm_add_ok lo k (f v) m h h1 m1 I E1) as (I1 & V1 & NX & _ & FR).
    destruct (IH h1 m1 h' m' V1 E) as (V2 & I2 & NX2 & FR2).
    split; [exact V2|]. split; [simpl; rewrite <- I1; exact I2|]. split; [lia|].
    intros id Hid. eapply same_arr_trans; [eapply below_same; eauto|apply FR2; exact Hid].
Qed.

Lemma hm_touch_ok lo k h : forall m,
  inv lo h m -> inv lo h (hm_touch k m) /\ image h (hm_touch k m) = md_append k [] (image h m).
Proof.
  intros m I. assert (Hids : ids (hm_touch k m) = ids m /\ image h (hm_touch k m) = md_append k [] (image h m)).
  { clear I. induction m as [|[k' s] m [IH1 IH2]]; [split; reflexivity|].
    cbn [hm_touch]. destruct (bytes_eqb k k') eqn:E.
    - split; [reflexivity|]. rewrite !image_cons. cbn [md_append]. rewrite E, app_nil_r. reflexivity.
    - split; [rewrite !ids_cons, IH1; reflexivity|]. rewrite !image_cons. cbn [md_append]. rewrite E, IH2. reflexivity. }
  destruct Hids as [H1 H2]. split; [|exact H2]. unfold inv. rewrite H1. exact I.
Qed.

Section NoSharing.
  Variable touch : bool.
  Variable keyf : bytes -> bytes.
  Variable valf : bytes -> bytes -> bytes.

  Lemma conv_h_ok lo h0 : forall src h m h' m',
    (forall id, (id < lo)%nat -> same_arr h0 h id) -> src_below lo src -> inv lo h m ->
    conv_h false touch keyf valf src (h, m) = (h', m') ->
    inv lo h' m' /\ image h' m' = conv_v touch keyf valf (image h0 src) (image h m) /\
    (next h <= next h')%nat /\ (forall id, (id < lo)%nat -> same_arr h0 h' id).
  Proof.
    induction src as [|[n s] src IH]; intros h m h' m' S0 SB I E.
    - simpl in E. inversion E; subst. repeat split; try apply I; auto.
    - unfold conv_h in E. simpl in E. inversion SB as [|? ? Hs SB']; subst. simpl in Hs.
      assert (Hv : sl_val h s = sl_val h0 s).
      { apply sl_val_same. intros id len ->. apply S0. exact Hs. }
      set (k := keyf n) in *.
      set (m0 := if touch then hm_touch k m else m) in *.
      assert (I0 : inv lo h m0 /\ image h m0 = (if touch then md_append k [] (image h m) else image h m)).
      { unfold m0. destruct touch; [apply hm_touch_ok; exact I|split; [exact I|reflexivity]]. }
      destruct I0 as [I0 Im0].
      assert (EQ : conv_one false touch keyf valf (h, m) (n, s) =
                   fold_left (fun st v => hm_add k (valf k v) (fst st) (snd st)) (sl_val h s) (h, m0)) by reflexivity.
      rewrite EQ in E. clear EQ.
      destruct (fold_left (fun st v => hm_add k (valf k v) (fst st) (snd st)) (sl_val h s) (h, m0)) as [h1 m1] eqn:E1.
      destruct (add_all_ok lo k (valf k) (sl_val h s) h m0 h1 m1 I0 E1) as (I1 & V1 & NX & FR).
      assert (S1 : forall id, (id < lo)%nat -> same_arr h0 h1 id).
      { intros id Hid. eapply same_arr_trans; [apply S0; exact Hid|apply FR; exact Hid]. }
      destruct (IH h1 m1 h' m' S1 SB' I1 E) as (I2 & V2 & NX2 & FR2).
      split; [exact I2|]. split; [|split; [lia|exact FR2]].
      rewrite V2, V1, Im0, Hv. unfold conv_v. simpl. fold k. destruct touch; reflexivity.
  Qed.

  (* A conversion that stores no slice it was handed, run on a source that lies in memory
     allocated before the call (ids below next h0): *)
  Lemma conversions_do_not_alias_proof h0 src h1 A :
    src_below (next h0) src ->
    conv_h false touch keyf valf src (h0, []) = (h1, A) ->
    (* it only reads what existed before the call, the source in particular *)
    (forall id, (id < next h0)%nat -> same_arr h0 h1 id) /\
    (* the destination holds what the value-level conversion gives for the values of the source *)
    image h1 A = conv_v touch keyf valf (image h0 src) [] /\
    (* every array of the destination was allocated by the call, no two value lists share one *)
    (next h0 <= next h1)%nat /\ Forall (fun id => next h0 <= id < next h1)%nat (ids A) /\ NoDup (ids A) /\
    (* so the destination reads the same whatever happens afterwards to all other memory: to the
       source's arrays (below next h0) and to anything allocated later, a sibling destination say *)
    (forall h', (forall id, (next h0 <= id < next h1)%nat -> same_arr h1 h' id) -> image h' A = image h1 A).
  Proof.
    intros SB E.
    assert (I : inv (next h0) h0 []). { split; [constructor|split; [constructor|lia]]. }
    destruct (conv_h_ok (next h0) h0 src h0 [] h1 A (fun id _ => same_arr_refl h0 id) SB I E)
      as ((ND & BD & LO) & V & NX & FR).
    split; [exact FR|]. split; [exact V|]. split; [exact NX|]. split; [exact BD|]. split; [exact ND|].
    intros h' H. apply image_same. intros id Hid. apply H. rewrite Forall_forall in BD. apply BD. exact Hid.
  Qed.
End NoSharing.

(* what the later steps of a history can touch: append() through a slice writes to that slice's
   array or to a new one, nowhere else *)
Lemma sl_append_writes h s x h' s' :
  sl_append h s x = (h', s') ->
  (next h <= next h')%nat /\
  forall id, (match s with SRef id0 _ => id <> id0 | SNil => id <> next h end) -> same_arr h h' id.
Proof.
  destruct s as [|id0 n]; simpl; intros E; inversion E; subst; clear E; simpl.
  - split; [lia|]. intros id N i. simpl. apply upd_other. exact N.
  - split; [lia|]. intros id N i. simpl. apply upd_other. exact N.
Qed.

(* the value-level conversion is the one of the model, for each of the five functions *)
Lemma md_append_app k : forall m l1 l2, md_append k (l1 ++ l2) m = md_append k l2 (md_append k l1 m).
Proof.
  induction m as [|[k' vs] m IH]; intros l1 l2; simpl.
  - assert (R : bytes_eqb k k = true) by (apply bytes_eqb_eq; reflexivity). rewrite R. reflexivity.
  - destruct (bytes_eqb k k') eqn:E; simpl; rewrite E; [rewrite app_assoc; reflexivity|rewrite IH; reflexivity].
Qed.

Lemma md_append_each_gen k (f : bytes -> bytes) : forall vs acc m,
  fold_left (fun m v => md_append k [f v] m) vs (md_append k acc m) = md_append k (acc ++ map f vs) m.
Proof.
  induction vs as [|v vs IH]; intros acc m; simpl.
  - rewrite app_nil_r. reflexivity.
  - rewrite <- md_append_app, IH, <- app_assoc. reflexivity.
Qed.
Lemma md_append_each k (f : bytes -> bytes) vs m :
  fold_left (fun m v => md_append k [f v] m) vs (md_append k [] m) = md_append k (map f vs) m.
Proof. apply (md_append_each_gen k f vs [] m). Qed.

Lemma conv_v_add_headers src dest : conv_v false canonical_key val_id src dest = add_headers src dest.
Proof. reflexivity. Qed.
Lemma conv_v_add_trailers src dest : conv_v false trailer_key val_id src dest = add_trailers src dest.
Proof. reflexivity. Qed.
Lemma conv_v_md_of_proto b64enc b64dec hs :
  conv_v true lower (fn_val b64enc b64dec 3) hs [] = md_of_proto b64dec hs.
Proof.
  unfold conv_v, md_of_proto. generalize (@nil (bytes * list bytes)) as m.
  induction hs as [|h hs IH]; intros m; [reflexivity|]. simpl. rewrite <- IH. f_equal.
  unfold md_step. cbv zeta. rewrite md_append_each. f_equal.
  change (fn_val b64enc b64dec 3) with (fun k v => if is_bin k then decode_or_raw b64dec v else v).
  cbv beta. destruct (is_bin (lower (fst h))); [reflexivity|apply map_id].
Qed.

(* a Go map read by ConvertToProtoHeader / ConvertMetadataToProtoHeader: keys are unique *)
Lemma md_append_fresh k vs : forall m, ~ In k (map fst m) -> md_append k vs m = m ++ [(k, vs)].
Proof.
  induction m as [|[k' vs'] m IH]; intros N; [reflexivity|]. simpl in *.
  destruct (bytes_eqb k k') eqn:E.
  - apply bytes_eqb_eq in E. subst. exfalso. apply N. left. reflexivity.
  - rewrite IH; [reflexivity|]. intros H. apply N. right. exact H.
Qed.

Lemma conv_v_of_map (valf : bytes -> bytes -> bytes) : forall (m : md) dest,
  NoDup (map fst dest ++ map fst m) ->
  conv_v true (fun k => k) valf m dest = dest ++ map (fun kv => (fst kv, map (valf (fst kv)) (snd kv))) m.
Proof.
  induction m as [|[k vs] m IH]; intros dest ND; simpl.
  - rewrite app_nil_r. reflexivity.
  - unfold conv_v in *. simpl. rewrite md_append_each.
    assert (Nk : ~ In k (map fst dest)).
    { intros H. simpl in ND. apply NoDup_remove_2 in ND. apply ND. apply in_or_app. left. exact H. }
    rewrite md_append_fresh by exact Nk. rewrite IH.
    + rewrite <- app_assoc. reflexivity.
    + rewrite map_app. simpl. rewrite <- app_assoc. simpl.
      simpl in ND. apply NoDup_remove_1 in ND as ND1.
      apply NoDup_remove_2 in ND as ND2.
      (* move k from the front of the second part to the end of the first *)
      clear IH Nk. revert ND1 ND2. generalize (map fst dest) as a, (map fst m) as b. intros a b ND1 ND2.
      induction a as [|x a IHa]; simpl in *; [constructor; assumption|].
      inversion ND1; subst. constructor.
      * intros H. apply in_app_or in H. destruct H as [H|[H|H]].
        -- apply H1. apply in_or_app. left. exact H.
        -- subst. apply ND2. left. reflexivity.
        -- apply H1. apply in_or_app. right. exact H.
      * apply IHa; [assumption|]. intros H. apply ND2. right. exact H.
Qed.

Lemma conv_v_proto_of_md b64enc b64dec (m : md) :
  NoDup (map fst m) -> conv_v true (fun k => k) (fn_val b64enc b64dec 4) m [] = proto_of_md b64enc m.
Proof.
  intros ND. rewrite conv_v_of_map by exact ND. simpl. unfold proto_of_md. apply map_ext.
  intros [k vs]. cbn [fst snd].
  change (fn_val b64enc b64dec 4) with (fun k v => if is_bin k then b64enc v else v).
  cbv beta. destruct (is_bin k); [reflexivity|]. rewrite map_id. reflexivity.
Qed.

Lemma conv_v_convert_to_proto_header (m : md) :
  NoDup (map fst m) -> conv_v true (fun k => k) val_id m [] = convert_to_proto_header m.
Proof.
  intros ND. rewrite conv_v_of_map by exact ND. simpl. unfold convert_to_proto_header.
  rewrite <- (map_id m) at 2. apply map_ext. intros [k vs]. simpl. unfold val_id. rewrite map_id. reflexivity.
Qed.

(* ---------------------------------------------------------------------- *)
(* 2. codec histories                                                      *)
(* ---------------------------------------------------------------------- *)
Lemma codec_stateless_proof wire (marshal : pmsg -> wire) (unmarshal : wire -> codec_result) :
  forall ops o,
  run_hist wire marshal unmarshal false ops o =
  map (fun m => Some (unmarshal (marshal m))) (values_at_marshal ops (o_cur o)).
Proof.
  induction ops as [|[m| |] ops IH]; intros o; simpl; [reflexivity|rewrite IH; reflexivity|rewrite IH; reflexivity|].
  rewrite IH. reflexivity.
Qed.

Lemma codec_hist_roundtrip_proof wire marshal_bin unmarshal_bin marshal_json unmarshal_json json_unknown :
  @bin_contract wire marshal_bin unmarshal_bin ->
  json_contract marshal_json unmarshal_json json_unknown ->
  forall ops o, Forall (fun m => ~ has_unknown m) (values_at_marshal ops (o_cur o)) ->
  run_hist wire (strict_proto_marshal wire marshal_bin) (strict_proto_unmarshal wire unmarshal_bin) false ops o =
    map (fun m => Some (COk m)) (values_at_marshal ops (o_cur o)) /\
  run_hist wire (strict_json_marshal wire marshal_json) (strict_json_unmarshal wire unmarshal_json) false ops o =
    map (fun m => Some (COk m)) (values_at_marshal ops (o_cur o)).
Proof.
  intros HB HJ ops o HF. rewrite !codec_stateless_proof.
  split; apply map_ext_in; intros m Hm; rewrite Forall_forall in HF; specialize (HF m Hm);
    destruct (codec_roundtrip_proof wire marshal_bin unmarshal_bin marshal_json unmarshal_json json_unknown HB HJ m HF) as [E1 E2];
    [rewrite E1|rewrite E2]; reflexivity.
Qed.

(* 2b. the outputs of a history, kept and read again after the last call *)
Lemma run_keep_fresh wire (marshal : pmsg -> wire) :
  forall ops cur h0 s,
  run_keep wire marshal false ops cur (h0, s) =
  (h0 ++ map marshal (values_at_marshal ops cur),
   seq (length h0) (length (values_at_marshal ops cur))).
Proof.
  induction ops as [|[m| |] ops IH]; intros cur h0 s; simpl.
  - rewrite app_nil_r. reflexivity.
  - apply IH.
  - apply IH.
  - rewrite IH. rewrite <- app_assoc. simpl. rewrite app_length. simpl.
    rewrite PeanoNat.Nat.add_1_r. reflexivity.
Qed.

Lemma reread_cells W R (f : W -> R) : forall (l pre : list W),
  map (fun i => option_map f (nth_error (pre ++ l) i)) (seq (length pre) (length l)) =
  map (fun w => Some (f w)) l.
Proof.
  induction l as [|x l IH]; intros pre; simpl; [reflexivity|].
  rewrite nth_error_app2 by apply le_n. rewrite PeanoNat.Nat.sub_diag. simpl. f_equal.
  specialize (IH (pre ++ [x])). rewrite <- app_assoc in IH. simpl in IH.
  rewrite app_length in IH. simpl in IH. rewrite PeanoNat.Nat.add_1_r in IH. exact IH.
Qed.

Lemma codec_outputs_are_values_any wire (marshal : pmsg -> wire) (unmarshal : wire -> codec_result) :
  forall ops cur,
  reread_outputs wire marshal unmarshal false ops cur =
  map (fun m => Some (unmarshal (marshal m))) (values_at_marshal ops cur).
Proof.
  intros ops cur. unfold reread_outputs. rewrite run_keep_fresh.
  rewrite <- (map_length marshal (values_at_marshal ops cur)).
  rewrite (reread_cells _ _ unmarshal (map marshal (values_at_marshal ops cur)) []).
  rewrite map_map. reflexivity.
Qed.

Lemma codec_outputs_are_values_proof :
  (forall wire (marshal : pmsg -> wire) unmarshal ops cur,
     reread_outputs wire marshal unmarshal false ops cur =
     map (fun m => Some (unmarshal (marshal m))) (values_at_marshal ops cur)) /\
  (forall wire marshal_bin unmarshal_bin marshal_json unmarshal_json json_unknown,
     @bin_contract wire marshal_bin unmarshal_bin ->
     json_contract marshal_json unmarshal_json json_unknown ->
     forall ops cur, Forall (fun m => ~ has_unknown m) (values_at_marshal ops cur) ->
     reread_outputs wire (strict_proto_marshal wire marshal_bin) (strict_proto_unmarshal wire unmarshal_bin) false ops cur =
       map (fun m => Some (COk m)) (values_at_marshal ops cur) /\
     reread_outputs wire (strict_json_marshal wire marshal_json) (strict_json_unmarshal wire unmarshal_json) false ops cur =
       map (fun m => Some (COk m)) (values_at_marshal ops cur)).
Proof.
  split; [exact codec_outputs_are_values_any|].
  intros wire mb ub mj uj ju HB HJ ops cur HF. rewrite !codec_outputs_are_values_any.
  split; apply map_ext_in; intros m Hm; rewrite Forall_forall in HF; specialize (HF m Hm);
    destruct (codec_roundtrip_proof wire mb ub mj uj ju HB HJ m HF) as [E1 E2];
    [rewrite E1|rewrite E2]; reflexivity.
Qed.

(* ---------------------------------------------------------------------- *)
(* 3. detail bytes are handed on, never looked at                          *)
(* ---------------------------------------------------------------------- *)
Definition map_vals (f : bytes -> bytes) (ds : list any) : list any := map (fun a => (fst a, f (snd a))) ds.
Definition perr_map (f : bytes -> bytes) (e : perr) : perr := PErr (p_code e) (p_msg e) (map_vals f (p_details e)).
Definition cerr_map (f : bytes -> bytes) (c : cerr) : cerr := CErr (c_code c) (c_msg c) (map_vals f (c_details c)).
Definition gstat_map (f : bytes -> bytes) (s : gstat) : gstat := GStat (g_code s) (g_msg s) (map_vals f (g_details s)).

Lemma new_details_i ds : new_details new_detail_i ds = Some ds.
Proof. induction ds as [|a ds IH]; [reflexivity|]. simpl. rewrite IH. reflexivity. Qed.

Lemma detail_bytes_verbatim_proof :
  (* under the contract of connect-go: whatever the bytes are *)
  (forall new_detail d_type d_bytes, detail_contract new_detail d_type d_bytes -> forall e,
     map d_bytes (c_details (connect_of_proto new_detail e)) = map snd (p_details e) /\
     map snd (p_details (proto_of_connect d_type d_bytes (connect_of_proto new_detail e))) = map snd (p_details e)) /\
  (forall d_type d_bytes c, map snd (p_details (proto_of_connect d_type d_bytes c)) = map d_bytes (c_details c)) /\
  (* the conversions commute with any function on the bytes: nothing is decoded or re-encoded *)
  (forall f e, c_of_p (perr_map f e) = cerr_map f (c_of_p e)) /\
  (forall f c, p_of_c (cerr_map f c) = perr_map f (p_of_c c)) /\
  (forall f e, grpc_of_proto (perr_map f e) = option_map (gstat_map f) (grpc_of_proto e)) /\
  (forall f s, proto_of_grpc (GrpcStatus (gstat_map f s)) = perr_map f (proto_of_grpc (GrpcStatus s))) /\
  (forall f t s, proto_of_grpc (GrpcWrapped t (gstat_map f s)) = perr_map f (proto_of_grpc (GrpcWrapped t s))).
Proof.
  split; [|split; [|split; [|split; [|split; [|split]]]]].
  - intros new_detail d_type d_bytes HC e.
    assert (V := connect_view_proof new_detail d_type d_bytes HC e). unfold cerr_view in V.
    injection V as _ _ Vd.
    assert (Hb : map d_bytes (c_details (connect_of_proto new_detail e)) = map snd (p_details e)).
    { apply (f_equal (map snd)) in Vd. rewrite !map_map in Vd. simpl in Vd. exact Vd. }
    split; [exact Hb|]. unfold proto_of_connect. simpl. rewrite map_map. simpl. exact Hb.
  - intros. unfold proto_of_connect. simpl. rewrite map_map. reflexivity.
  - intros f e. unfold c_of_p, connect_of_proto, perr_map, cerr_map. simpl. rewrite !new_details_i. reflexivity.
  - intros f c. unfold p_of_c, proto_of_connect, perr_map, cerr_map, map_vals, d_type_i, d_bytes_i. simpl.
    rewrite !map_map. reflexivity.
  - intros f e. unfold grpc_of_proto, perr_map. simpl. destruct (to_u32 (p_code e) =? 0)%Z; reflexivity.
  - intros f s. reflexivity.
  - intros f t s. reflexivity.
Qed.
