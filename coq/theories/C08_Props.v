(* C08_Props.v — the property theorems of C08 and nothing else.
   Each is closed by `exact <lemma>` and followed by Print Assumptions. *)
From V Require Import C08_Spec C08_Proofs.

(* A pattern set matches a name exactly when some pattern globs it. *)
Theorem trie_match_iff : forall ps name,
  match_pattern (build ps) name = true <-> some_glob ps name.
Proof. exact trie_match_iff_proof. Qed.
Print Assumptions trie_match_iff.

(* run iff some --run pattern (or none given) and no --skip pattern *)
Theorem accept_iff : forall run skip name,
  accept run skip name = true <-> (run = [] \/ some_glob run name) /\ ~ some_glob skip name.
Proof. exact accept_iff_proof. Qed.
Print Assumptions accept_iff.

(* every supplied pattern that globs none of the names is in the reported unmatched set *)
Theorem unmatched_sound : forall ps names p,
  In p ps -> (forall n, In n names -> ~ globs p n) ->
  In (path_str (split_name p)) (unmatched (build ps) names).
Proof. exact unmatched_sound_proof. Qed.
Print Assumptions unmatched_sound.

(* ... and the run is rejected, whichever of the four lists the pattern came from *)
Theorem unmatched_rejected : forall failing flaky run skip names,
  (exists p, In p (failing ++ flaky ++ run ++ skip) /\ forall n, In n names -> ~ globs p n) ->
  run_checks failing flaky run skip names <> None.
Proof. exact unmatched_rejected_proof. Qed.
Print Assumptions unmatched_rejected.

(* a name matched as both known-failing and known-flaky is rejected *)
Theorem conflict_rejected : forall failing flaky run skip names,
  (exists n, In n names /\ some_glob failing n /\ some_glob flaky n) ->
  run_checks failing flaky run skip names <> None.
Proof. exact conflict_rejected_proof. Qed.
Print Assumptions conflict_rejected.

(* the names the validation works on are ALL permutations: every base name, and the marked name of
   every case a gRPC reference peer in use supports *)
Theorem perm_names_complete : forall suites refc refs su proto cs c,
  In (su, proto, cs) suites -> In c cs ->
  In (base_name su c) (perm_names suites refc refs) /\
  (forall cg sg, (cg = true \/ sg = true) -> (cg = true -> refc = true) -> (sg = true -> refs = true) ->
     grpc_supported proto cg sg = true ->
     In (marked_name cg sg su c) (perm_names suites refc refs)).
Proof. exact perm_names_complete_proof. Qed.
Print Assumptions perm_names_complete.

(* ... so a marked gRPC-peer name matched as both known-failing and known-flaky is rejected too *)
Theorem conflict_rejected_all_perms : forall failing flaky run skip suites refc refs,
  (exists n, In n (perm_names suites refc refs) /\ some_glob failing n /\ some_glob flaky n) ->
  run_checks_perms failing flaky run skip suites refc refs <> None.
Proof. exact conflict_rejected_all_perms_proof. Qed.
Print Assumptions conflict_rejected_all_perms.

Theorem unmatched_rejected_all_perms : forall failing flaky run skip suites refc refs,
  (exists p, In p (failing ++ flaky ++ run ++ skip) /\
             forall n, In n (perm_names suites refc refs) -> ~ globs p n) ->
  run_checks_perms failing flaky run skip suites refc refs <> None.
Proof. exact unmatched_rejected_all_perms_proof. Qed.
Print Assumptions unmatched_rejected_all_perms.

(* every pattern supplied by repeated flags, @files or both takes part, in order *)
Theorem collect_all : forall args, args_to_patterns args = concat (map expand_arg args).
Proof. exact collect_all_proof. Qed.
Print Assumptions collect_all.

Theorem file_lines : forall data p,
  In p (parse_pattern_file data) <->
  exists line, In line (split_on 10 data) /\ p = trim_space line /\ p <> [] /\ hd 0 p <> 35.
Proof. exact file_lines_proof. Qed.
Print Assumptions file_lines.

(* ---- non-vacuity: concrete instances on both sides of the iffs ---- *)
Example ex_adjacent_dstar : match_pattern (build [bs "a/**/**"]) (bs "a") = true.
Proof. vm_compute. reflexivity. Qed.
Example ex_star_exactly_one :
  match_pattern (build [bs "a/*/c"]) (bs "a/b/c") = true /\
  match_pattern (build [bs "a/*/c"]) (bs "a/c") = false /\
  match_pattern (build [bs "a/*/c"]) (bs "a/b/b/c") = false.
Proof. vm_compute. auto. Qed.
Example ex_glob_holds : globs (bs "Suite/**/case") (bs "Suite/HTTPVersion:1/TLS:false/case").
Proof.
  unfold globs. vm_compute. apply g_lit; [discriminate|discriminate|].
  apply g_dstar1, g_dstar1, g_dstar0, g_lit; [discriminate|discriminate|constructor].
Qed.
Example ex_unmatched :
  unmatched (build [bs "a/b"; bs "x/**"]) [bs "a/b"] = [bs "x/**"].
Proof. vm_compute. reflexivity. Qed.
Example ex_conflict :
  run_checks [bs "a/b"] [bs "a/*"] [] [] [bs "a/b"] = Some Ambiguous.
Proof. vm_compute. reflexivity. Qed.
Example ex_conflict_marked_only :
  run_checks_perms [bs "**/(grpc server impl)/**"] [bs "g/**"] [] []
                   [(bs "g", 2, [bs "x"]); (bs "c", 1, [bs "y"])] false true = Some Ambiguous /\
  run_checks_perms [bs "**/(grpc server impl)/**"] [bs "c/**"] [] []
                   [(bs "g", 2, [bs "x"]); (bs "c", 1, [bs "y"])] false true = None.
Proof. vm_compute. auto. Qed.
Example ex_collect :
  args_to_patterns [Lit (bs "p1"); AtFile (bs " x
#c

y"); Lit (bs "p4")] = [bs "p1"; bs "x"; bs "y"; bs "p4"].
Proof. vm_compute. reflexivity. Qed.

(* Recorded, not claimed: the converse of unmatched_sound is false by design of the
   first-hit counters — a pattern that does match can still be reported. *)
Example unmatched_complete_refuted :
  exists ps names p, In p ps /\ (exists n, In n names /\ match_pattern (build [p]) n = true)
                     /\ In p (unmatched (build ps) names).
Proof.
  exists [bs "a/b"; bs "a/*"], [bs "a/b"], (bs "a/*"). vm_compute.
  split; [auto|]. split; [|auto]. exists (bs "a/b"). vm_compute. auto.
Qed.
