(* C01_Spec.v — what property C01 promises, in the words of the property text and of the
   specifications of the composed properties (C06_Spec, C07_Spec, C08_Spec, C04_Spec); no
   reference to loops, maps, tries or the outcome table.

   "With the shipped reference configurations, the runner reports zero unexpected failures
    ... for every permutation of every embedded test suite across all supported HTTP
    versions, protocols, codecs, compressions, stream types and TLS modes.  The shipped
    known-failing lists stay exact: empty for the reference client and server, and for the
    gRPC peers every listed case fails and no unlisted case fails." *)
From V Require Export C01_Model.
From V Require Import C07_Spec.
From V Require C06_Spec C08_Spec C04_Spec.
Open Scope N_scope.

(* ---- "every permutation of every embedded test suite": which permutations exist ---- *)
(* a permutation of the library: a suite the mode admits, one of its test cases, a config case the
   configuration denotes (C06_Spec.spec_member) and the suite's directives allow (C07_Spec.admits),
   of the test's stream type *)
Definition base_perm (cfg : C06_Model.config) (ss : list suite) (mode : N) (p : perm) : Prop :=
  exists s t c, In s ss /\ In t (s_cases s) /\ C06_Spec.spec_member cfg c /\
    mode_admits s mode /\ admits s (conv c) /\ t_stream t = C06_Model.c_stream c /\
    p = spec_perm s (conv c) t.

(* what a run executes: every permutation against the reference peer, and, where the gRPC reference
   peer can play that side (C07_Spec.grpc_applicable), once more against it under the marked name *)
Definition expected_perm (cfg : C06_Model.config) (ss : list suite) (cl sv : bool) (q : perm) : Prop :=
  base_perm cfg ss (run_mode cl sv) q \/
  exists p, base_perm cfg ss (run_mode cl sv) p /\
    ((cl = true /\ grpc_applicable true false p /\ q = rename true false p) \/
     (sv = true /\ grpc_applicable false true p /\ q = rename false true p) \/
     (cl = true /\ sv = true /\ grpc_applicable true true p /\ q = rename true true p)).

(* ---- "the known-failing lists stay exact" ---- *)
Definition passed (r : C04_Model.res) : Prop := r = C04_Model.Ok.
(* the case ran and its result was a failure (assertion failure or error result from the client);
   set-up errors and cases that could not be run are not "failing cases" *)
Definition ran_and_failed (r : C04_Model.res) : Prop :=
  exists k, r = C04_Model.Fail false k /\ k <> C04_Model.ECouldNotRun.

(* every pattern of the list matches at least one executed permutation, every listed permutation
   failed, every unlisted one passed *)
Definition list_exact (ps names : list bytes) (out : bytes -> C04_Model.res) : Prop :=
  (forall p, In p ps -> exists n, In n names /\ C08_Spec.globs p n) /\
  (forall n, In n names -> (C08_Spec.some_glob ps n <-> ran_and_failed (out n))) /\
  (forall n, In n names -> (~ C08_Spec.some_glob ps n <-> passed (out n))).
