(* C07_Props.v — the property theorems of C07 and nothing else.
   Each is closed by `exact <proof>` and followed by Print Assumptions.
   ss = the suites in the order the Go map range visits them (any order), cs = the config cases
   (a list standing for a set), mode = the run mode; all three are universally quantified. *)
From Coq Require Import Permutation.
From V Require Import C07_Model C07_Spec C07_Proofs C07_Names.
Open Scope N_scope.

(* A permutation exists exactly when the suite's mode admits the run mode, every directive admits
   the config case, and the test's stream type is the case's; and it is the permutation the
   specification computes (name spelling the open axes, request fields of the case, defaults). *)
Theorem perm_iff : forall ss cs mode L, new_library ss cs mode = Ok L ->
  forall p, In p L <->
    exists s t c, In s ss /\ In t (s_cases s) /\ In c cs /\
                  mode_admits s mode /\ admits s c /\ t_stream t = c_stream c /\ p = spec_perm s c t.
Proof. exact perm_iff_proof. Qed.
Print Assumptions perm_iff.

(* full names are pairwise distinct ... *)
Theorem names_unique : forall ss cs mode L, new_library ss cs mode = Ok L -> NoDup (map p_name L).
Proof. exact names_unique_proof. Qed.
Print Assumptions names_unique.

(* ... so a name identifies one permutation *)
Theorem name_determines_permutation : forall ss cs mode L, new_library ss cs mode = Ok L ->
  forall p q, In p L -> In q L -> p_name p = p_name q -> p = q.
Proof. exact name_determines_permutation_proof. Qed.
Print Assumptions name_determines_permutation.

(* stable across runs: any other iteration order of the suite map and any other listing of the
   same config-case set gives the same outcome (both rejected, or the same set of permutations) *)
Theorem order_independent : forall ss ss' cs cs' mode,
  Permutation ss ss' -> (forall c, In c cs <-> In c cs') ->
  same_result (new_library ss cs mode) (new_library ss' cs' mode).
Proof. exact order_independent_proof. Qed.
Print Assumptions order_independent.

(* field by field: name, axes, TLS markers, default service and method, receive limit, server instance *)
Theorem request_fields : forall ss cs mode L, new_library ss cs mode = Ok L ->
  forall p, In p L ->
    exists s t c, In s ss /\ In t (s_cases s) /\ In c cs /\ admits s c /\
      p_name p = spec_name s c t /\ p_simple p = t_name t /\
      p_version p = c_version c /\ p_protocol p = c_protocol c /\ p_codec p = c_codec c /\
      p_compression p = c_compression c /\ p_stream p = c_stream c /\ p_stream p = t_stream t /\
      (p_cert p <> [] <-> c_tls c = true) /\ (p_creds p = true <-> c_certs c = true) /\
      (t_service t = [] -> p_service p = spec_default_service /\ p_method p = spec_default_method (p_stream p)) /\
      (t_service t <> [] -> p_service p = t_service t /\ p_method p = t_method t) /\
      p_limit p = 1048576 /\
      server_instance p = spec_instance c.
Proof. exact request_fields_proof. Qed.
Print Assumptions request_fields.

(* grouping, for every order in which the range over lib.testCases may visit the permutations:
   the groups have distinct keys, each group is non-empty and is exactly the permutations whose
   server instance is its key, and every permutation's instance has a group *)
Theorem groups : forall order, grouped order (group_cases order).
Proof. exact groups_proof. Qed.
Print Assumptions groups.

(* hence: exactly one server instance per permutation, its own *)
Theorem grouped_once : forall order g, grouped order g ->
  forall p, In p order ->
    (exists l, In (server_instance p, l) g /\ In p l) /\
    (forall k l, In (k, l) g -> In p l -> k = server_instance p).
Proof. exact grouped_once_proof. Qed.
Print Assumptions grouped_once.

(* the gRPC-peer filter keeps exactly the applicable permutations (declared protocols), renamed *)
Theorem grpc_filter_iff : forall cl sv l,
  (forall p, In p l -> In (p_protocol p) c07_all_protocols) ->
  forall q, In q (grpc_filter cl sv l) <->
    (cl = false /\ sv = false /\ In q l) \/
    ((cl = true \/ sv = true) /\ exists p, In p l /\ grpc_applicable cl sv p /\ q = rename cl sv p).
Proof. exact grpc_filter_iff_proof. Qed.
Print Assumptions grpc_filter_iff.

Theorem marker_name : forall cl sv p pre,
  p_name p = pre ++ p_simple p ->
  p_name (rename cl sv p) = pre ++ spec_marker cl sv ++ 47 :: p_simple p /\
  p_simple (rename cl sv p) = p_simple p /\
  server_instance (rename cl sv p) = server_instance p.
Proof. exact marker_name_proof. Qed.
Print Assumptions marker_name.

Theorem all_permutations_members : forall cl sv order q,
  In q (all_permutations cl sv order) <->
    In q order \/ (cl = true /\ In q (grpc_filter true false order))
    \/ (sv = true /\ In q (grpc_filter false true order))
    \/ (cl = true /\ sv = true /\ In q (grpc_filter true true order)).
Proof. exact all_permutations_proof. Qed.
Print Assumptions all_permutations_members.

(* a library is built exactly when: every suite is named and non-empty, suite names are distinct,
   every suite the mode admits is consistently configured and its test cases are named, typed and
   have both-or-neither of service/method, the expected permutations have distinct names, and
   there is at least one; everything else is rejected (an error, never a partial library) *)
Theorem library_built_iff : forall ss cs mode L,
  new_library ss cs mode = Ok L <->
    Forall suite_header_ok ss /\ NoDup (map s_name ss) /\
    (forall s, In s ss -> mode_admits s mode -> suite_config_ok s /\
        forall c, In c cs -> admits s c -> forall t, In t (s_cases s) -> test_ok c t) /\
    L = expected mode ss cs /\ NoDup (map p_name L) /\ L <> [].
Proof. exact library_built_iff_proof. Qed.
Print Assumptions library_built_iff.

(* raw requests only in server-mode suites, raw responses only in client-mode suites with an
   explicit expected response *)
Theorem parse_mode : forall s he, parse_allows s he = true <-> parse_ok s he.
Proof. exact parse_mode_proof. Qed.
Print Assumptions parse_mode.

(* the axis-value names the code prints (tables regenerated from the compiled enums) are pairwise
   distinct, decided by computation on the finite tables ... *)
Theorem axis_names_injective :
  (forall a b, In a (declared c07_protocol_names) -> In b (declared c07_protocol_names) ->
     enum_name c07_protocol_names a = enum_name c07_protocol_names b -> a = b) /\
  (forall a b, In a (declared c07_codec_names) -> In b (declared c07_codec_names) ->
     enum_name c07_codec_names a = enum_name c07_codec_names b -> a = b) /\
  (forall a b, In a (declared c07_compression_names) -> In b (declared c07_compression_names) ->
     enum_name c07_compression_names a = enum_name c07_compression_names b -> a = b) /\
  (forall a b, In a declared_versions -> In b declared_versions -> dec a = dec b -> a = b).
Proof. exact axis_names_injective_proof. Qed.
Print Assumptions axis_names_injective.

(* ... hence the name components are an injective function of exactly the open axes (and the test
   name) on the cases a suite admits: equal components, same test stream type => the same config case.
   _partial: stated on the component list; the last step through path.Join (components of suite and
   test names free of "/", "." and "..") is not proved. *)
Theorem components_injective_partial : forall s c c' t t',
  admits s c -> admits s c' -> case_declared c -> case_declared c' ->
  t_stream t = c_stream c -> t_stream t' = c_stream c' ->
  spec_components s c t = spec_components s c' t' ->
  t_name t = t_name t' /\ (t_stream t = t_stream t' -> c = c').
Proof. exact components_injective_proof. Qed.
Print Assumptions components_injective_partial.

(* ---- non-vacuity ---- *)
Definition ex_tc := mkT (bs "unary/success") 1 [] [] false false.
Definition ex_suite := mkSuite (bs "Basic") 0 [] [2] [1] [] 0 false false false false [ex_tc].
Definition ex_cases :=
  [ mkCase 2 1 1 1 1 false false false false 0; mkCase 2 2 1 2 1 true false false false 0;
    mkCase 1 1 1 1 1 false false false false 0 (* HTTP/1.1: not relevant *);
    mkCase 2 1 1 1 3 false false false false 0 (* server stream: no such test *) ].

Example ex_library :
  option_map (map p_name) (match new_library [ex_suite] ex_cases 1 with Ok l => Some l | Err => None end) =
  Some [ bs "Basic/Protocol:PROTOCOL_CONNECT/Compression:COMPRESSION_IDENTITY/TLS:false/unary/success";
         bs "Basic/Protocol:PROTOCOL_GRPC/Compression:COMPRESSION_GZIP/TLS:true/unary/success" ].
Proof. vm_compute. reflexivity. Qed.

(* both sides of the iff occur: the first case is admitted, the third is not *)
Example ex_admitted : admits ex_suite (mkCase 2 1 1 1 1 false false false false 0).
Proof. unfold admits, axis_admits; simpl. intuition. Qed.
Example ex_not_admitted : ~ admits ex_suite (mkCase 1 1 1 1 1 false false false false 0).
Proof. unfold admits, axis_admits; simpl. intros (_ & [[H _]|[H|[]]] & _); discriminate. Qed.

Example ex_fields :
  match new_library [ex_suite] ex_cases 1 with
  | Ok (p :: _) => (p_service p, p_method p, p_cert p, p_limit p, server_instance p) =
                   (bs "connectrpc.conformance.v1.ConformanceService", bs "Unary", [], 1048576, mkInst 1 2 false false)
  | _ => False
  end.
Proof. vm_compute. reflexivity. Qed.

(* rejected inputs: two suites that differ only in mode; equal test names across stream types;
   a repeated relevant value; client certs without TLS; nothing applies *)
Example ex_same_name_different_mode :
  new_library [ex_suite; mkSuite (bs "Basic") 2 [] [2] [1] [] 0 false false false false [ex_tc]] ex_cases 1 = Err.
Proof. vm_compute. reflexivity. Qed.
Example ex_equal_names_across_stream_types :
  new_library [mkSuite (bs "S") 0 [] [2] [1] [] 0 false false false false
                 [mkT (bs "t") 1 [] [] false false; mkT (bs "t") 3 [] [] false false]] ex_cases 1 = Err.
Proof. vm_compute. reflexivity. Qed.
Example ex_repeated_relevant_value :
  new_library [mkSuite (bs "S") 0 [1; 1] [2] [1] [] 0 false false false false [ex_tc]] ex_cases 1 = Err.
Proof. vm_compute. reflexivity. Qed.
Example ex_certs_without_tls :
  new_library [mkSuite (bs "S") 0 [] [2] [1] [] 0 false true false false [ex_tc]] ex_cases 1 = Err.
Proof. vm_compute. reflexivity. Qed.
Example ex_nothing_applies : new_library [ex_suite] [] 1 = Err.
Proof. vm_compute. reflexivity. Qed.

(* the gRPC pairings of the example library: only the plain-text gRPC-over-HTTP/2 permutation... there is
   none here (the gRPC one uses TLS), the Connect one never applies *)
Example ex_grpc_none :
  match new_library [ex_suite] ex_cases 1 with Ok l => length (all_permutations true true l) | Err => 0%nat end = 2%nat.
Proof. vm_compute. reflexivity. Qed.
Example ex_grpc_some :
  map p_name (grpc_filter false true
    [mkPerm (bs "S/TLS:false/t") (bs "t") 2 3 1 2 1 [] false [] [] 0 false false]) = [bs "S/TLS:false/(grpc server impl)/t"].
Proof. vm_compute. reflexivity. Qed.
Example ex_applicable : grpc_applicable false true (mkPerm (bs "S/TLS:false/t") (bs "t") 2 3 1 2 1 [] false [] [] 0 false false).
Proof. unfold grpc_applicable; simpl. intuition congruence. Qed.
