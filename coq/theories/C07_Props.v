(* C07_Props.v — the property theorems of C07 and nothing else.
   Each is closed by `exact <proof>` and followed by Print Assumptions.
   ss = the suites in the order the Go map range visits them (any order), cs = the config cases
   (a list standing for a set), mode = the run mode; all three are universally quantified. *)
From Coq Require Import Permutation Sorted.
From V Require Import C07_Model C07_Spec C07_Proofs C07_Names C07_Join C07_Unique C07_Order.
Open Scope N_scope.

(* A permutation exists exactly when the suite's mode admits the run mode, every directive admits
   the config case, and the test's stream type is the case's; and it is the permutation the
   specification computes (name spelling the open axes, request fields of the case, defaults). *)
Theorem perm_iff : forall ss cs mode L, new_library ss cs mode = Ok L ->
  forall p, In p L <->
    exists s t c, In s ss /\ In t (s_cases s) /\ In c cs /\
                  mode_admits s mode /\ admits s c /\ t_stream t = c_stream c /\ p = spec_perm s c t.
Proof. exact perm_iff_proof. Qed.
Print Assumptions perm_iff.

(* full names are pairwise distinct ... *)
Theorem names_unique : forall ss cs mode L, new_library ss cs mode = Ok L -> NoDup (map p_name L).
Proof. exact names_unique_proof. Qed.
Print Assumptions names_unique.

(* ... so a name identifies one permutation *)
Theorem name_determines_permutation : forall ss cs mode L, new_library ss cs mode = Ok L ->
  forall p q, In p L -> In q L -> p_name p = p_name q -> p = q.
Proof. exact name_determines_permutation_proof. Qed.
Print Assumptions name_determines_permutation.

(* stable across runs: any other iteration order of the suite map and any other listing of the
   same config-case set gives the same outcome (both rejected, or the same set of permutations) *)
Theorem order_independent : forall ss ss' cs cs' mode,
  Permutation ss ss' -> (forall c, In c cs <-> In c cs') ->
  same_result (new_library ss cs mode) (new_library ss' cs' mode).
Proof. exact order_independent_proof. Qed.
Print Assumptions order_independent.

(* field by field: name, axes, TLS markers, default service and method, receive limit, server instance *)
Theorem request_fields : forall ss cs mode L, new_library ss cs mode = Ok L ->
  forall p, In p L ->
    exists s t c, In s ss /\ In t (s_cases s) /\ In c cs /\ admits s c /\
      p_name p = spec_name s c t /\ p_simple p = t_name t /\
      p_version p = c_version c /\ p_protocol p = c_protocol c /\ p_codec p = c_codec c /\
      p_compression p = c_compression c /\ p_stream p = c_stream c /\ p_stream p = t_stream t /\
      (p_cert p <> [] <-> c_tls c = true) /\ (p_creds p = true <-> c_certs c = true) /\
      (t_service t = [] -> p_service p = spec_default_service /\ p_method p = spec_default_method (p_stream p)) /\
      (t_service t <> [] -> p_service p = t_service t /\ p_method p = t_method t) /\
      p_limit p = 1048576 /\
      server_instance p = spec_instance c.
Proof. exact request_fields_proof. Qed.
Print Assumptions request_fields.

(* grouping, for every order in which the range over lib.testCases may visit the permutations:
   the groups have distinct keys, each group is non-empty and is exactly the permutations whose
   server instance is its key, and every permutation's instance has a group *)
Theorem groups : forall order, grouped order (group_cases order).
Proof. exact groups_proof. Qed.
Print Assumptions groups.

(* hence: exactly one server instance per permutation, its own *)
Theorem grouped_once : forall order g, grouped order g ->
  forall p, In p order ->
    (exists l, In (server_instance p, l) g /\ In p l) /\
    (forall k l, In (k, l) g -> In p l -> k = server_instance p).
Proof. exact grouped_once_proof. Qed.
Print Assumptions grouped_once.

(* the gRPC-peer filter keeps exactly the applicable permutations (declared protocols), renamed *)
Theorem grpc_filter_iff : forall cl sv l,
  (forall p, In p l -> In (p_protocol p) c07_all_protocols) ->
  forall q, In q (grpc_filter cl sv l) <->
    (cl = false /\ sv = false /\ In q l) \/
    ((cl = true \/ sv = true) /\ exists p, In p l /\ grpc_applicable cl sv p /\ q = rename cl sv p).
Proof. exact grpc_filter_iff_proof. Qed.
Print Assumptions grpc_filter_iff.

(* ... and a variant is the original except for the name: every request field, the alternative error
   codes, the expected response and the expand directives are the original's (for ANY input list) *)
Theorem grpc_variant_is_original_but_name : forall cl sv l q,
  cl = true \/ sv = true -> In q (grpc_filter cl sv l) ->
  exists p, In p l /\ p_name q = add_marker (p_name p) (p_simple p) cl sv /\ same_but_name p q.
Proof. exact grpc_variant_is_original_but_name_proof. Qed.
Print Assumptions grpc_variant_is_original_but_name.

Theorem marker_name : forall cl sv p pre,
  p_name p = pre ++ p_simple p ->
  p_name (rename cl sv p) = pre ++ spec_marker cl sv ++ 47 :: p_simple p /\
  p_simple (rename cl sv p) = p_simple p /\
  server_instance (rename cl sv p) = server_instance p.
Proof. exact marker_name_proof. Qed.
Print Assumptions marker_name.

Theorem all_permutations_members : forall cl sv order q,
  In q (all_permutations cl sv order) <->
    In q order \/ (cl = true /\ In q (grpc_filter true false order))
    \/ (sv = true /\ In q (grpc_filter false true order))
    \/ (cl = true /\ sv = true /\ In q (grpc_filter true true order)).
Proof. exact all_permutations_proof. Qed.
Print Assumptions all_permutations_members.

(* every run the library hands out is a permutation of it or such a permutation under a marked name *)
Theorem all_permutations_variants : forall cl sv order q,
  In q (all_permutations cl sv order) ->
  In q order \/ exists p, In p order /\ same_but_name p q /\
     exists cl' sv', (cl' = true \/ sv' = true) /\ p_name q = add_marker (p_name p) (p_simple p) cl' sv'.
Proof. exact all_permutations_variants_proof. Qed.
Print Assumptions all_permutations_variants.

(* the fields of a test case besides the request are carried into each of its permutations as written *)
Theorem permutation_carries_extras : forall ss cs mode L, new_library ss cs mode = Ok L ->
  forall p, In p L -> exists s t, In s ss /\ In t (s_cases s) /\ p_simple p = t_name t /\ p_extras p = t_extras t.
Proof. exact permutation_carries_extras_proof. Qed.
Print Assumptions permutation_carries_extras.

(* a library is built exactly when: every suite is named and non-empty, suite names are distinct,
   every suite the mode admits is consistently configured and its test cases are named, typed and
   have both-or-neither of service/method, the expected permutations have distinct names, and
   there is at least one; everything else is rejected (an error, never a partial library) *)
Theorem library_built_iff : forall ss cs mode L,
  new_library ss cs mode = Ok L <->
    Forall suite_header_ok ss /\ NoDup (map s_name ss) /\
    (forall s, In s ss -> mode_admits s mode -> suite_config_ok s /\
        forall c, In c cs -> admits s c -> forall t, In t (s_cases s) -> test_ok c t) /\
    L = expected mode ss cs /\ NoDup (map p_name L) /\ L <> [].
Proof. exact library_built_iff_proof. Qed.
Print Assumptions library_built_iff.

(* raw requests only in server-mode suites, raw responses only in client-mode suites with an
   explicit expected response *)
Theorem parse_mode : forall s he, parse_allows s he = true <-> parse_ok s he.
Proof. exact parse_mode_proof. Qed.
Print Assumptions parse_mode.

(* the axis-value names the code prints (tables regenerated from the compiled enums) are pairwise
   distinct, decided by computation on the finite tables ... *)
Theorem axis_names_injective :
  (forall a b, In a (declared c07_protocol_names) -> In b (declared c07_protocol_names) ->
     enum_name c07_protocol_names a = enum_name c07_protocol_names b -> a = b) /\
  (forall a b, In a (declared c07_codec_names) -> In b (declared c07_codec_names) ->
     enum_name c07_codec_names a = enum_name c07_codec_names b -> a = b) /\
  (forall a b, In a (declared c07_compression_names) -> In b (declared c07_compression_names) ->
     enum_name c07_compression_names a = enum_name c07_compression_names b -> a = b) /\
  (forall a b, In a declared_versions -> In b declared_versions -> dec a = dec b -> a = b).
Proof. exact axis_names_injective_proof. Qed.
Print Assumptions axis_names_injective.

(* ... hence the name components are an injective function of exactly the open axes (and the test
   name) on the cases a suite admits: equal components, same test stream type => the same config case *)
Theorem components_injective : forall s c c' t t',
  admits s c -> admits s c' -> case_declared c -> case_declared c' ->
  t_stream t = c_stream c -> t_stream t' = c_stream c' ->
  spec_components s c t = spec_components s c' t' ->
  t_name t = t_name t' /\ (t_stream t = t_stream t' -> c = c').
Proof. exact components_injective_proof. Qed.
Print Assumptions components_injective.

(* path.Join / path.Clean (the model the c07.join cases compare with Go's on every run): on a
   non-empty list of well-formed segments (non-empty, no "/", not "." or "..") Join is plain
   "/"-joining, splitting at "/" gives the segments back, and so Join is injective there *)
Theorem path_join_segments : forall l, l <> [] -> Forall good_seg l ->
  path_join l = join 47 l /\ split_on 47 (path_join l) = l.
Proof. exact path_join_segments_proof. Qed.
Print Assumptions path_join_segments.

Theorem path_join_injective : forall l l', l <> [] -> l' <> [] ->
  Forall good_seg l -> Forall good_seg l' -> path_join l = path_join l' -> l = l'.
Proof. exact path_join_injective_proof. Qed.
Print Assumptions path_join_injective.

(* "Its full name is unique", constructively (no duplicate check of the library is used): for any
   list of suites with pairwise distinct, well-formed names (one segment each, not a gRPC marker),
   whose test names are clean relative paths ("unary/success"; every segment well formed) and
   distinct within their suite, and whose relevant lists hold declared enum numbers (suite_declared),
   the full name determines the suite, the config case (all ten fields) and the test case - for ANY
   admitted config cases: nothing is asked of the config-case set or of the run mode. *)
Theorem full_name_injective : forall ss, NoDup (map s_name ss) ->
  Forall wf_suite ss -> Forall suite_declared ss ->
  forall s s' c c' t t', In s ss -> In s' ss -> In t (s_cases s) -> In t' (s_cases s') ->
  admits s c -> admits s' c' -> t_stream t = c_stream c -> t_stream t' = c_stream c' ->
  spec_name s c t = spec_name s' c' t' -> s = s' /\ c = c' /\ t = t'.
Proof. exact full_name_injective_suites_proof. Qed.
Print Assumptions full_name_injective.

(* For ANY names (hostile ones included: "/" in a suite name, empty / "." / ".." segments that
   path.Clean rewrites, test names repeated across stream types, repeated relevant values): if two
   different (suite, config case, test case) triples admitted by the mode and the directives get the
   same full name, no library is built - the collision is the duplicate-definition error, never a
   silent merge of two permutations under one name. *)
Theorem colliding_names_rejected : forall ss cs mode s s' c c' t t',
  In s ss -> In s' ss -> mode_admits s mode -> mode_admits s' mode ->
  In c cs -> In c' cs -> admits s c -> admits s' c' ->
  In t (s_cases s) -> In t' (s_cases s') -> t_stream t = c_stream c -> t_stream t' = c_stream c' ->
  (s, c, t) <> (s', c', t') ->
  spec_name s c t = spec_name s' c' t' ->
  new_library ss cs mode = Err.
Proof. exact colliding_names_rejected_proof. Qed.
Print Assumptions colliding_names_rejected.

(* gRPC-peer variants: if the names of a list of permutations are pairwise distinct and well formed
   (segments well formed and none of them a marker, the name ends in the segments of the simple
   name), then ALL names allPermutations hands out - unmarked, "(grpc client impl)", "(grpc server
   impl)", "(grpc impls)" - are pairwise distinct: no permutation is issued under a name another
   one already has ... *)
Theorem grpc_names_distinct : forall L, NoDup (map p_name L) -> Forall name_wf L ->
  forall cl sv, NoDup (map p_name (all_permutations cl sv L)).
Proof. exact grpc_names_distinct_proof. Qed.
Print Assumptions grpc_names_distinct.

(* ... and every library built from well-formed suites is such a list *)
Theorem library_grpc_names_distinct : forall ss cs mode L, new_library ss cs mode = Ok L ->
  Forall wf_suite ss -> Forall suite_declared ss ->
  Forall name_wf L /\ forall cl sv, NoDup (map p_name (all_permutations cl sv L)).
Proof. exact library_grpc_names_distinct_suites_proof. Qed.
Print Assumptions library_grpc_names_distinct.

(* stable across runs, output ORDER.  The only place where the code sorts: serverInstancesSlice(lib,
   sorted=true) sort.Slice's the keys of casesByServer; its less function is a total order, so for
   every visiting order of the map the sorted slice is the same list, and it is the only sorted
   arrangement of the keys (whatever sorting algorithm produced it) *)
Theorem instances_sorted_stable : forall order order', Permutation order order' ->
  sorted_instances order = sorted_instances order' /\
  forall out, Permutation out (map fst (group_cases order')) -> StronglySorted inst_le out ->
    out = sorted_instances order.
Proof. exact instances_sorted_stable_proof. Qed.
Print Assumptions instances_sorted_stable.

(* nothing else is sorted: allPermutations returns the permutations in the visiting order of the map
   (then the marked copies); as a multiset it does not depend on that order ... *)
Theorem all_permutations_stable : forall cl sv order order', Permutation order order' ->
  Permutation (all_permutations cl sv order) (all_permutations cl sv order') /\
  (exists rest, all_permutations cl sv order = order ++ rest) /\
  all_permutations false false order = order.
Proof. exact all_permutations_stable_proof. Qed.
Print Assumptions all_permutations_stable.

(* ... and so do the groups: the same keys, and under each key the same permutations, listed in
   the visiting order (`groups`: = filter ... order) *)
Theorem groups_stable : forall order order', Permutation order order' ->
  (forall k, In k (map fst (group_cases order)) <-> In k (map fst (group_cases order'))) /\
  (forall k l l', In (k, l) (group_cases order) -> In (k, l') (group_cases order') -> Permutation l l').
Proof. exact groups_stable_proof. Qed.
Print Assumptions groups_stable.

(* ---- non-vacuity ---- *)
Definition ex_tc := mkT (bs "unary/success") 1 [] [] false false no_extras.
Definition ex_suite := mkSuite (bs "Basic") 0 [] [2] [1] [] 0 false false false false [ex_tc].
Definition ex_cases :=
  [ mkCase 2 1 1 1 1 false false false false 0; mkCase 2 2 1 2 1 true false false false 0;
    mkCase 1 1 1 1 1 false false false false 0 (* HTTP/1.1: not relevant *);
    mkCase 2 1 1 1 3 false false false false 0 (* server stream: no such test *) ].

Example ex_library :
  option_map (map p_name) (match new_library [ex_suite] ex_cases 1 with Ok l => Some l | Err => None end) =
  Some [ bs "Basic/Protocol:PROTOCOL_CONNECT/Compression:COMPRESSION_IDENTITY/TLS:false/unary/success";
         bs "Basic/Protocol:PROTOCOL_GRPC/Compression:COMPRESSION_GZIP/TLS:true/unary/success" ].
Proof. vm_compute. reflexivity. Qed.

(* both sides of the iff occur: the first case is admitted, the third is not *)
Example ex_admitted : admits ex_suite (mkCase 2 1 1 1 1 false false false false 0).
Proof. unfold admits, axis_admits; simpl. intuition. Qed.
Example ex_not_admitted : ~ admits ex_suite (mkCase 1 1 1 1 1 false false false false 0).
Proof. unfold admits, axis_admits; simpl. intros (_ & [[H _]|[H|[]]] & _); discriminate. Qed.

Example ex_fields :
  match new_library [ex_suite] ex_cases 1 with
  | Ok (p :: _) => (p_service p, p_method p, p_cert p, p_limit p, server_instance p) =
                   (bs "connectrpc.conformance.v1.ConformanceService", bs "Unary", [], 1048576, mkInst 1 2 false false)
  | _ => False
  end.
Proof. vm_compute. reflexivity. Qed.

(* rejected inputs: two suites that differ only in mode; equal test names across stream types;
   a repeated relevant value; client certs without TLS; nothing applies *)
Example ex_same_name_different_mode :
  new_library [ex_suite; mkSuite (bs "Basic") 2 [] [2] [1] [] 0 false false false false [ex_tc]] ex_cases 1 = Err.
Proof. vm_compute. reflexivity. Qed.
Example ex_equal_names_across_stream_types :
  new_library [mkSuite (bs "S") 0 [] [2] [1] [] 0 false false false false
                 [mkT (bs "t") 1 [] [] false false no_extras; mkT (bs "t") 3 [] [] false false no_extras]] ex_cases 1 = Err.
Proof. vm_compute. reflexivity. Qed.
Example ex_repeated_relevant_value :
  new_library [mkSuite (bs "S") 0 [1; 1] [2] [1] [] 0 false false false false [ex_tc]] ex_cases 1 = Err.
Proof. vm_compute. reflexivity. Qed.
Example ex_certs_without_tls :
  new_library [mkSuite (bs "S") 0 [] [2] [1] [] 0 false true false false [ex_tc]] ex_cases 1 = Err.
Proof. vm_compute. reflexivity. Qed.
Example ex_nothing_applies : new_library [ex_suite] [] 1 = Err.
Proof. vm_compute. reflexivity. Qed.

(* the gRPC pairings of the example library: only the plain-text gRPC-over-HTTP/2 permutation... there is
   none here (the gRPC one uses TLS), the Connect one never applies *)
Example ex_grpc_none :
  match new_library [ex_suite] ex_cases 1 with Ok l => length (all_permutations true true l) | Err => 0%nat end = 2%nat.
Proof. vm_compute. reflexivity. Qed.
Example ex_grpc_some :
  map p_name (grpc_filter false true
    [mkPerm (bs "S/TLS:false/t") (bs "t") 2 3 1 2 1 [] false [] [] 0 false false no_extras]) = [bs "S/TLS:false/(grpc server impl)/t"].
Proof. vm_compute. reflexivity. Qed.
Example ex_variant_keeps_other_codes :
  map (fun q => x_other (p_extras q))
      (grpc_filter false true [mkPerm (bs "S/TLS:false/t") (bs "t") 2 3 1 2 1 [] false [] [] 0 false false
                                      (mkX [13; 2] [7] (Some (bs "e")))]) = [[13; 2]].
Proof. vm_compute. reflexivity. Qed.
Example ex_applicable : grpc_applicable false true (mkPerm (bs "S/TLS:false/t") (bs "t") 2 3 1 2 1 [] false [] [] 0 false false no_extras).
Proof. unfold grpc_applicable; simpl. intuition congruence. Qed.

(* ---- names: well-formedness is inhabited by the shipped style of names; the hostile classes ---- *)
Example ex_wf_suite : wf_suite ex_suite.
Proof.
  unfold wf_suite, wf_test. split; [apply name_segb_iff; vm_compute; reflexivity|]. split.
  - repeat constructor; apply name_segb_iff; vm_compute; reflexivity.
  - repeat constructor. simpl. tauto.
Qed.
Example ex_suite_declared : suite_declared ex_suite.
Proof. repeat split; intros x H; vm_compute in H; vm_compute; tauto. Qed.
Example ex_join_plain : path_join [[]; bs "Basic"; bs "TLS:false"; bs "unary/success"] = bs "Basic/TLS:false/unary/success".
Proof. vm_compute. reflexivity. Qed.

(* hostile names that collide, each rejected: a segment Clean rewrites ("./t" = "t", "x/../t" = "t"),
   a suite name with "/" ("A" + "b/c" = "A/b" + "c") *)
Definition ex_fixed (name : bytes) (tcs : list tcase) := mkSuite name 0 [1] [2] [1] [1] 0 true false false false tcs.
Definition ex_tls_case := mkCase 2 1 1 1 1 true false false false 0.
Example ex_dot_segment_rejected :
  spec_name (ex_fixed (bs "S") []) ex_tls_case (mkT (bs "t") 1 [] [] false false no_extras) =
  spec_name (ex_fixed (bs "S") []) ex_tls_case (mkT (bs "./t") 1 [] [] false false no_extras) /\
  new_library [ex_fixed (bs "S") [mkT (bs "t") 1 [] [] false false no_extras; mkT (bs "./t") 1 [] [] false false no_extras]] [ex_tls_case] 1 = Err /\
  new_library [ex_fixed (bs "S") [mkT (bs "t") 1 [] [] false false no_extras; mkT (bs "x/../t") 1 [] [] false false no_extras]] [ex_tls_case] 1 = Err.
Proof. vm_compute. repeat split. Qed.
Example ex_slash_in_suite_name_rejected :
  new_library [ex_fixed (bs "A") [mkT (bs "b/c") 1 [] [] false false no_extras]; ex_fixed (bs "A/b") [mkT (bs "c") 1 [] [] false false no_extras]] [ex_tls_case] 1 = Err /\
  (exists lib, new_library [ex_fixed (bs "A") [mkT (bs "b/c") 1 [] [] false false no_extras]] [ex_tls_case] 1 = Ok lib) /\
  (exists lib, new_library [ex_fixed (bs "A/b") [mkT (bs "c") 1 [] [] false false no_extras]] [ex_tls_case] 1 = Ok lib).
Proof. vm_compute. repeat split; eexists; reflexivity. Qed.

(* the one collision class that is NOT rejected: a test-name (or suite-name) segment that is a gRPC
   marker.  The library is built (its own names are distinct), but the name issued for the run of
   "S/TLS:false/t" against the gRPC server is the name "S/TLS:false/(grpc server impl)/t" of another
   permutation.  The c07.lib cases carry the number of names issued twice; see the notes. *)
Definition ex_marker_suite := mkSuite (bs "S") 0 [2] [2] [1] [1] 0 false false false false
  [mkT (bs "t") 1 [] [] false false no_extras; mkT (bs "(grpc server impl)/t") 1 [] [] false false no_extras].
Example ex_marker_collision_not_rejected :
  match new_library [ex_marker_suite] [mkCase 2 2 1 1 1 false false false false 0] 1 with
  | Ok lib => NoDup (map p_name lib) /\ dup_count (map p_name (all_permutations false true lib)) = 1%nat /\
            ~ Forall wf_suite [ex_marker_suite]
  | Err => False
  end.
Proof.
  vm_compute. split; [|split; [reflexivity|]].
  - repeat constructor; simpl; intuition discriminate.
  - intros H. inversion H as [|? ? (_ & F & _) _]; subst. inversion F as [|? ? _ F2]; subst.
    inversion F2 as [|? ? W _]; subst. inversion W as [|? ? (_ & M) _]; subst. apply M. right; right; left; reflexivity.
Qed.

(* output order: the lists differ between two visiting orders, the sets do not *)
Definition ex_p1 := mkPerm (bs "S/a") (bs "a") 1 1 1 1 1 [] false [] [] 0 false false no_extras.
Definition ex_p2 := mkPerm (bs "S/b") (bs "b") 2 1 1 1 1 [] false [] [] 0 false false no_extras.
Definition ex_p3 := mkPerm (bs "S/c") (bs "c") 2 1 1 1 1 [] false [] [] 0 false false no_extras.
Example ex_order_shows :
  all_permutations false false [ex_p1; ex_p2] <> all_permutations false false [ex_p2; ex_p1] /\
  map fst (group_cases [ex_p1; ex_p2]) <> map fst (group_cases [ex_p2; ex_p1]) /\
  map snd (group_cases [ex_p2; ex_p3]) <> map snd (group_cases [ex_p3; ex_p2]) /\
  sorted_instances [ex_p2; ex_p1] = sorted_instances [ex_p1; ex_p2] /\
  sorted_instances [ex_p1; ex_p2] = [mkInst 1 1 false false; mkInst 1 2 false false].
Proof. vm_compute. repeat split; discriminate. Qed.
Example ex_less_total_order_cases :
  map (fun ab => inst_less (fst ab) (snd ab))
    [ (mkInst 3 1 true true, mkInst 1 2 false false); (mkInst 1 2 false false, mkInst 3 1 true true);
      (mkInst 1 1 false false, mkInst 1 1 true false); (mkInst 1 1 true false, mkInst 1 1 true true);
      (mkInst 1 1 true true, mkInst 1 1 true false) ] = [true; false; true; true; false].
Proof. vm_compute. reflexivity. Qed.
