From V Require Import C09_Spec.
