(* C09_Proofs.v — the read loop has a closed form that does not mention the schedule;
   everything else follows from it. *)
From Coq Require Import Lia.
From V Require Import C09_Spec.
Open Scope N_scope.

Lemma prefix_len_is_4 : c09_prefix_len = 4.
Proof. reflexivity. Qed.

Lemma cap_spec need avail : cap need avail = Nat.min (N.to_nat need) avail.
Proof. unfold cap. destruct (N.ltb_spec need (N.of_nat avail)); lia. Qed.

(* ---------- list arithmetic ---------- *)
Lemma firstn_firstn_skipn {A} (a b : nat) (d : list A) :
  firstn a d ++ firstn b (skipn a d) = firstn (a + b) d.
Proof.
  revert d; induction a as [|a IH]; intros d; [reflexivity|].
  destruct d as [|x d]; simpl; [now rewrite firstn_nil|]. now rewrite IH.
Qed.

Lemma skipn_skipn' {A} (a b : nat) (d : list A) : skipn b (skipn a d) = skipn (a + b) d.
Proof.
  revert d; induction a as [|a IH]; intros d; [reflexivity|].
  destruct d as [|x d]; simpl; [now rewrite skipn_nil|]. apply IH.
Qed.

Lemma skipn_nil_iff {A} (n : nat) (d : list A) : skipn n d = [] <-> (length d <= n)%nat.
Proof.
  revert d; induction n as [|n IH]; intros [|x d]; simpl; try (split; [intros; lia|reflexivity]).
  - split; [discriminate|lia].
  - rewrite IH. lia.
Qed.

(* ---------- the closed form of timeoutDelimitedReader.read ---------- *)
Definition conv_eof (e : ioerr) (n : nat) : ioerr :=
  match e with EEOF => if (0 <? n)%nat then EUnexpected else EEOF | _ => e end.

(* what a read of `need` more bytes must produce from data d, whatever the schedule *)
Definition loop_post (need : N) (got d : bytes) (eg : bool) (tl : tail_t) (r : rn) : Prop :=
  if need <=? N.of_nat (length d)
  then exists sch', r = RnDone (got ++ firstn (N.to_nat need) d) (mk_src (skipn (N.to_nat need) d) sch' eg tl)
  else match tail_err tl with
       | Some e => exists sch', r = RnErr (conv_eof e (length got + length d)) (length got + length d) (mk_src [] sch' eg tl)
       | None => r = RnStall (length got + length d)
       end.

Lemma read_loop_closed : forall fuel need got d sch eg t,
  (length sch + length d < fuel)%nat ->
  loop_post need got d eg t (read_loop fuel need got (mk_src d sch eg t)).
Proof.
  induction fuel as [|f IH]; intros need got d sch eg t Hf; [lia|].
  cbn [read_loop]. unfold src_read. cbn [s_data s_sched s_eager s_tail].
  destruct (N.eqb_spec need 0) as [->|Hn0].
  - (* numBytes = 0: one Read with an empty buffer *)
    unfold loop_post. replace (0 <=? N.of_nat (length d)) with true by (symmetry; apply N.leb_le; lia).
    cbn. exists sch. now rewrite app_nil_r.
  - destruct d as [|x d'].
    + (* no data left *)
      unfold loop_post. cbn [length]. replace (need <=? N.of_nat 0) with false by (symmetry; apply N.leb_gt; lia).
      destruct t; cbn [tail_err].
      * replace (N.of_nat (length (@nil N)) =? need) with false by (symmetry; apply N.eqb_neq; cbn; lia).
        exists sch. rewrite app_nil_r, Nat.add_0_r. reflexivity.
      * rewrite Nat.add_0_r. reflexivity.
      * replace (N.of_nat (length (@nil N)) =? need) with false by (symmetry; apply N.eqb_neq; cbn; lia).
        exists sch. rewrite app_nil_r, Nat.add_0_r. reflexivity.
    + set (d := x :: d') in *.
      assert (Hd1 : (1 <= length d)%nat) by (subst d; cbn [length]; lia).
      set (k := match sch with [] => length d | k :: _ => Nat.min k (length d) end).
      assert (Hk : (k <= length d)%nat) by (subst k; destruct sch; lia).
      assert (Hk0 : sch = [] -> k = length d) by (intros ->; reflexivity).
      rewrite cap_spec. set (m := Nat.min (N.to_nat need) k).
      assert (Hlen : length (firstn m d) = m) by (rewrite firstn_length; lia).
      rewrite Hlen.
      destruct (N.eqb_spec (N.of_nat m) need) as [Hm|Hm].
      * (* this Read completes the unit: any error is ignored *)
        unfold loop_post. replace (need <=? N.of_nat (length d)) with true by (symmetry; apply N.leb_le; lia).
        exists (tl sch). replace (N.to_nat need) with m by lia. reflexivity.
      * assert (Hlt : (m < N.to_nat need)%nat) by lia.
        assert (Hmk : m = k) by lia.
        destruct (skipn m d) as [|y rest] eqn:Hrest.
        -- (* all data consumed, still short *)
           apply (f_equal (@length N)) in Hrest as Hl. rewrite skipn_length in Hl. cbn [length] in Hl.
           assert (Hmd : m = length d) by lia.
           assert (Hfd : firstn m d = d) by (rewrite Hmd; apply firstn_all).
           unfold loop_post. replace (need <=? N.of_nat (length d)) with false by (symmetry; apply N.leb_gt; lia).
           rewrite Hfd.
           destruct eg.
           ++ destruct t; cbn [tail_err].
              ** exists (tl sch). rewrite app_length. reflexivity.
              ** (* stalls: the next Read blocks *)
                 specialize (IH (need - N.of_nat m) (got ++ d) [] (List.tl sch) true TBlock).
                 unfold loop_post in IH. cbn [length tail_err] in IH.
                 replace (need - N.of_nat m <=? N.of_nat 0) with false in IH by (symmetry; apply N.leb_gt; lia).
                 rewrite IH; [|destruct sch; cbn [length List.tl] in Hf |- *; lia]. rewrite app_length. f_equal; lia.
              ** exists (tl sch). rewrite app_length. reflexivity.
           ++ specialize (IH (need - N.of_nat m) (got ++ d) [] (List.tl sch) false t).
              unfold loop_post in IH. cbn [length] in IH.
              replace (need - N.of_nat m <=? N.of_nat 0) with false in IH by (symmetry; apply N.leb_gt; lia).
              assert (Hfu : (length (List.tl sch) + 0 < f)%nat) by (destruct sch; cbn [length List.tl] in Hf |- *; lia).
              specialize (IH Hfu). rewrite app_length, Nat.add_0_r in IH.
              destruct (tail_err t); exact IH.
        -- (* more data remains: loop *)
           assert (Hml : (m < length d)%nat).
           { destruct (Nat.lt_ge_cases m (length d)); [assumption|].
             assert (skipn m d = []) by (apply skipn_nil_iff; lia). congruence. }
           assert (Hsch : sch <> []) by (intros E; specialize (Hk0 E); lia).
           rewrite <- Hrest.
           specialize (IH (need - N.of_nat m) (got ++ firstn m d) (skipn m d) (List.tl sch) eg t).
           assert (Hfu : (length (List.tl sch) + length (skipn m d) < f)%nat).
           { rewrite skipn_length. destruct sch; [congruence|]. cbn [length List.tl] in Hf |- *. lia. }
           specialize (IH Hfu). unfold loop_post in *. rewrite skipn_length in IH.
           destruct (N.leb_spec need (N.of_nat (length d))) as [Hle|Hgt].
           ++ replace (need - N.of_nat m <=? N.of_nat (length d - m)) with true in IH by (symmetry; apply N.leb_le; lia).
              destruct IH as [sch' IH]. exists sch'. rewrite IH.
              rewrite <- app_assoc, firstn_firstn_skipn, skipn_skipn'.
              replace (m + N.to_nat (need - N.of_nat m))%nat with (N.to_nat need) by lia. reflexivity.
           ++ replace (need - N.of_nat m <=? N.of_nat (length d - m)) with false in IH by (symmetry; apply N.leb_gt; lia).
              rewrite app_length, Hlen in IH.
              replace (length got + m + (length d - m))%nat with (length got + length d)%nat in IH by lia.
              exact IH.
Qed.

Lemma read_n_closed want d sch eg t :
  loop_post want [] d eg t (read_n want (mk_src d sch eg t)).
Proof. unfold read_n, read_fuel. apply read_loop_closed. cbn. lia. Qed.

Lemma loop_post_not_fuel need got d eg t r : loop_post need got d eg t r -> r <> RnFuel.
Proof.
  unfold loop_post. destruct (need <=? N.of_nat (length d)).
  - intros [? ->]; discriminate.
  - destruct (tail_err t); [intros [? ->]|intros ->]; discriminate.
Qed.

(* ---------- io.ReadFull does the same as timeoutDelimitedReader.read ---------- *)
Lemma src_read_len need s c err s' : src_read need s = RData c err s' -> N.of_nat (length c) <= need.
Proof.
  unfold src_read. destruct (N.eqb_spec need 0) as [->|Hn].
  - intros E; inversion E; subst; cbn; lia.
  - destruct (s_data s) as [|x d'] eqn:Hd.
    + destruct (tail_err (s_tail s)); intros E; inversion E; subst; cbn; lia.
    + intros E; inversion E; subst. rewrite firstn_length, cap_spec. lia.
Qed.

Lemma read_full_loop_S f need got s :
  read_full_loop (S f) need got s =
  if need =? 0 then RnDone got s
  else match src_read need s with
  | RBlock => RnStall (length got)
  | RData c err s' =>
    let got' := got ++ c in
    let need' := need - N.of_nat (length c) in
    match err with
    | None => read_full_loop f need' got' s'
    | Some e =>
      if need' =? 0 then RnDone got' s'
      else RnErr (match e with
                  | EEOF => if (0 <? length got')%nat then EUnexpected else EEOF
                  | _ => e end) (length got') s'
    end
  end.
Proof. reflexivity. Qed.

Lemma read_full_eq : forall fuel need got s,
  read_loop fuel need got s <> RnFuel ->
  read_full_loop (S fuel) need got s = read_loop fuel need got s.
Proof.
  induction fuel as [|f IH]; intros need got s Hnf; [cbn in Hnf; congruence|].
  rewrite read_full_loop_S. cbn [read_loop] in Hnf |- *.
  destruct (N.eqb_spec need 0) as [->|Hn].
  - unfold src_read. cbn. now rewrite app_nil_r.
  - destruct (src_read need s) as [|c err s'] eqn:Hr; [reflexivity|].
    pose proof (src_read_len _ _ _ _ _ Hr) as Hc. cbv zeta.
    destruct (N.eqb_spec (N.of_nat (length c)) need) as [Hm|Hm].
    + replace (need - N.of_nat (length c)) with 0 by lia.
      destruct err; [reflexivity|]. rewrite read_full_loop_S. reflexivity.
    + destruct (N.eqb_spec (need - N.of_nat (length c)) 0) as [E|_]; [lia|].
      destruct err; [reflexivity|]. apply IH. exact Hnf.
Qed.

Lemma read_full_same want s : read_full want s = read_n want s.
Proof.
  unfold read_full, read_n. apply read_full_eq.
  destruct s as [d sch eg t]. eapply loop_post_not_fuel. apply read_loop_closed.
  unfold read_fuel; cbn; lia.
Qed.

(* ---------- one message ---------- *)
Definition short_post (t : tail_t) (in_body : bool) (n : nat) (x : N) (eg : bool) (r : rm) : Prop :=
  match t with
  | TBlock => r = MTimeout in_body n x
  | TEOF => exists sch', r = MErr (if in_body || (0 <? n)%nat then MUnexpected else MEOF) (mk_src [] sch' eg t)
  | TFail => exists sch', r = MErr MIO (mk_src [] sch' eg t)
  end.

Definition step_post (max : option N) (d : bytes) (eg : bool) (t : tail_t) (r : rm) : Prop :=
  match take 4 d with
  | TkShort n => short_post t false n 4 eg r
  | TkDone p rest =>
    let size := be_decode p 0 in
    if over max size then exists sch', r = MErr MOversize (mk_src rest sch' eg t)
    else match take size rest with
         | TkShort n => short_post t true n size eg r
         | TkDone m rest' => exists sch', r = Msg m (mk_src rest' sch' eg t)
         end
  end.

Lemma read_msg_post max d sch eg t : step_post (Some max) d eg t (read_msg max (mk_src d sch eg t)).
Proof.
  unfold step_post, read_msg, take. rewrite prefix_len_is_4.
  pose proof (read_n_closed 4 d sch eg t) as H1. unfold loop_post in H1.
  destruct (4 <=? N.of_nat (length d)).
  - destruct H1 as [sch1 ->]. cbn [app over].
    destruct (max <? be_decode (firstn (N.to_nat 4) d) 0); [exists sch1; reflexivity|].
    set (size := be_decode (firstn (N.to_nat 4) d) 0). set (rest := skipn (N.to_nat 4) d).
    pose proof (read_n_closed size rest sch1 eg t) as H2. unfold loop_post in H2.
    destruct (size <=? N.of_nat (length rest)).
    + destruct H2 as [sch2 ->]. exists sch2. reflexivity.
    + unfold short_post. destruct t; cbn [tail_err] in H2.
      * destruct H2 as [sch2 ->]. exists sch2. unfold conv_eof. cbn [length Nat.add orb]. destruct (0 <? length rest)%nat; reflexivity.
      * rewrite H2. reflexivity.
      * destruct H2 as [sch2 ->]. exists sch2. reflexivity.
  - unfold short_post. destruct t; cbn [tail_err] in H1.
    + destruct H1 as [sch1 ->]. exists sch1. unfold conv_eof. cbn [length Nat.add orb]. destruct (0 <? length d)%nat; reflexivity.
    + rewrite H1. reflexivity.
    + destruct H1 as [sch1 ->]. exists sch1. reflexivity.
Qed.

Lemma decode_next_post d sch eg t : step_post None d eg t (decode_next (mk_src d sch eg t)).
Proof.
  unfold step_post, decode_next, take. rewrite prefix_len_is_4, read_full_same.
  pose proof (read_n_closed 4 d sch eg t) as H1. unfold loop_post in H1.
  destruct (4 <=? N.of_nat (length d)).
  - destruct H1 as [sch1 ->]. cbn [app over]. rewrite read_full_same.
    set (size := be_decode (firstn (N.to_nat 4) d) 0). set (rest := skipn (N.to_nat 4) d).
    pose proof (read_n_closed size rest sch1 eg t) as H2. unfold loop_post in H2.
    destruct (size <=? N.of_nat (length rest)).
    + destruct H2 as [sch2 ->]. exists sch2. reflexivity.
    + unfold short_post. destruct t; cbn [tail_err] in H2.
      * destruct H2 as [sch2 ->]. exists sch2. unfold conv_eof. cbn [length Nat.add orb]. destruct (0 <? length rest)%nat; reflexivity.
      * rewrite H2. reflexivity.
      * destruct H2 as [sch2 ->]. exists sch2. reflexivity.
  - unfold short_post. destruct t; cbn [tail_err] in H1.
    + destruct H1 as [sch1 ->]. exists sch1. unfold conv_eof. cbn [length Nat.add orb]. destruct (0 <? length d)%nat; reflexivity.
    + rewrite H1. reflexivity.
    + destruct H1 as [sch1 ->]. exists sch1. reflexivity.
Qed.

(* ---------- the whole stream ---------- *)
Lemma all_loop_spec (mx : option N) (next : src -> rm) :
  (forall d sch eg t, step_post mx d eg t (next (mk_src d sch eg t))) ->
  forall fuel d sch eg t, read_all_loop fuel next (mk_src d sch eg t) = spec_read fuel mx t d.
Proof.
  intros Hstep. induction fuel as [|f IH]; intros d sch eg t; [reflexivity|].
  cbn [read_all_loop spec_read]. specialize (Hstep d sch eg t). unfold step_post in Hstep.
  destruct (take 4 d) as [p rest|n].
  - cbv zeta in Hstep. destruct (over mx (be_decode p 0)).
    + destruct Hstep as [sch' ->]. reflexivity.
    + destruct (take (be_decode p 0) rest) as [m rest'|n].
      * destruct Hstep as [sch' ->]. rewrite IH. reflexivity.
      * unfold short_post in Hstep. unfold short_outcome.
        destruct t; [destruct Hstep as [sch' ->]|rewrite Hstep|destruct Hstep as [sch' ->]]; reflexivity.
  - unfold short_post in Hstep. unfold short_outcome.
    destruct t; [destruct Hstep as [sch' ->]|rewrite Hstep|destruct Hstep as [sch' ->]]; reflexivity.
Qed.

(* THE chunking theorem: for every byte string, schedule, error-delivery mode and
   ending, the reader's result is the schedule-free expected one. *)
Lemma any_sched_proof : forall max d sch eg t,
  read_all max (mk_src d sch eg t) = expected (Some max) t d.
Proof. intros. unfold read_all, expected. apply all_loop_spec. intros; apply read_msg_post. Qed.

Lemma decoder_any_sched_proof : forall d sch eg t,
  decode_all (mk_src d sch eg t) = expected None t d.
Proof. intros. unfold decode_all, expected. apply all_loop_spec. intros; apply decode_next_post. Qed.

(* ---------- consequences for well-formed streams (schedule-free reasoning) ---------- *)
Ltac Zify.zify_post_hook ::= Z.to_euclidean_division_equations.

Lemma be_decode_be32 n : n < 4294967296 -> be_decode (be32 n) 0 = n.
Proof. intros H. unfold be32. cbn [be_decode]. lia. Qed.

Lemma be32_be_decode a b c e :
  a < 256 -> b < 256 -> c < 256 -> e < 256 -> be32 (be_decode [a; b; c; e] 0) = [a; b; c; e].
Proof. intros. cbn [be_decode]. unfold be32. repeat f_equal; lia. Qed.

Lemma be32_length n : length (be32 n) = 4%nat.
Proof. reflexivity. Qed.

Lemma take_app a b : take (N.of_nat (length a)) (a ++ b) = TkDone a b.
Proof.
  unfold take. rewrite app_length.
  replace (N.of_nat (length a) <=? N.of_nat (length a + length b)) with true by (symmetry; apply N.leb_le; lia).
  rewrite Nat2N.id, firstn_app, Nat.sub_diag, firstn_all, skipn_app, Nat.sub_diag, skipn_all.
  cbn. now rewrite app_nil_r.
Qed.

Lemma take_short want d : N.of_nat (length d) < want -> take want d = TkShort (length d).
Proof. intros H. unfold take. now replace (want <=? N.of_nat (length d)) with false by (symmetry; apply N.leb_gt; lia). Qed.

Definition fits (max : option N) (m : bytes) : Prop :=
  N.of_nat (length m) < 4294967296 /\ over max (N.of_nat (length m)) = false.

Lemma spec_read_frame fuel max t m rest :
  fits max m ->
  spec_read (S fuel) max t (write_msg m ++ rest) =
  let (ms, e) := spec_read fuel max t rest in (m :: ms, e).
Proof.
  intros [Hlt Hov]. cbn [spec_read]. unfold write_msg. rewrite <- app_assoc.
  change 4 with (N.of_nat (length (be32 (N.of_nat (length m))))) at 1. rewrite take_app.
  cbv zeta. rewrite be_decode_be32 by exact Hlt. rewrite Hov, take_app. reflexivity.
Qed.

Lemma spec_read_frames max t : forall msgs fuel suffix,
  Forall (fits max) msgs ->
  spec_read (length msgs + fuel) max t (write_all msgs ++ suffix) =
  let (ms, e) := spec_read fuel max t suffix in (msgs ++ ms, e).
Proof.
  induction msgs as [|m msgs IH]; intros fuel suffix HF.
  - cbn. destruct (spec_read fuel max t suffix); reflexivity.
  - inversion HF as [|? ? Hm Hms]; subst. unfold write_all. cbn [map concat length Nat.add].
    rewrite <- app_assoc. rewrite spec_read_frame by exact Hm.
    fold (write_all msgs). rewrite IH by exact Hms.
    destruct (spec_read fuel max t suffix); reflexivity.
Qed.

Lemma write_all_length msgs : (length msgs <= length (write_all msgs))%nat.
Proof.
  induction msgs as [|m msgs IH]; [cbn; lia|].
  unfold write_all in *. cbn [map concat]. unfold write_msg at 1. rewrite !app_length, be32_length. cbn [length]. lia.
Qed.

Lemma expected_frames max t msgs suffix :
  Forall (fits max) msgs ->
  exists f, expected max t (write_all msgs ++ suffix) =
            let (ms, e) := spec_read (S f) max t suffix in (msgs ++ ms, e).
Proof.
  intros HF. unfold expected.
  pose proof (write_all_length msgs) as Hl.
  exists (length (write_all msgs ++ suffix) - length msgs)%nat.
  replace (S (length (write_all msgs ++ suffix))) with
    (length msgs + S (length (write_all msgs ++ suffix) - length msgs))%nat
    by (rewrite app_length; lia).
  apply spec_read_frames. exact HF.
Qed.

(* a stream that stops after j bytes of the frame of m *)
Lemma spec_read_partial f max t m j :
  fits max m -> (j < length (write_msg m))%nat ->
  spec_read (S f) max t (firstn j (write_msg m)) =
  ([], short_outcome t (4 <=? j)%nat (if (j <? 4)%nat then j else (j - 4)%nat)
                     (if (j <? 4)%nat then 4 else N.of_nat (length m))).
Proof.
  intros [Hlt Hov] Hj. cbn [spec_read]. unfold write_msg in *. rewrite app_length, be32_length in Hj.
  destruct (Nat.ltb_spec j 4) as [H4|H4].
  - rewrite take_short.
    + rewrite firstn_length, app_length, be32_length.
      replace (Nat.min j (4 + length m)) with j by lia.
      replace (4 <=? j)%nat with false by (symmetry; apply Nat.leb_gt; lia). reflexivity.
    + rewrite firstn_length, app_length, be32_length. lia.
  - rewrite firstn_app, be32_length.
    rewrite (firstn_all2 (be32 (N.of_nat (length m)))) by (rewrite be32_length; lia).
    change 4 with (N.of_nat (length (be32 (N.of_nat (length m))))) at 1. rewrite take_app.
    cbv zeta. rewrite be_decode_be32 by exact Hlt. rewrite Hov.
    rewrite take_short by (rewrite firstn_length; lia).
    rewrite firstn_length. replace (Nat.min (j - 4) (length m)) with (j - 4)%nat by lia.
    replace (4 <=? j)%nat with true by (symmetry; apply Nat.leb_le; lia). reflexivity.
Qed.

Lemma fits_some max m : N.of_nat (length m) <= max -> max < 4294967296 -> fits (Some max) m.
Proof. intros H1 H2. split; [lia|]. cbn. apply N.ltb_ge. exact H1. Qed.

Lemma Forall_fits max msgs :
  Forall (fun m => N.of_nat (length m) <= max) msgs -> max < 4294967296 -> Forall (fits (Some max)) msgs.
Proof. intros H Hm. eapply Forall_impl; [|exact H]. intros m Hle. now apply fits_some. Qed.

Lemma roundtrip_any_sched_proof : forall max msgs sch eg,
  Forall (fun m => N.of_nat (length m) <= max) msgs -> max < 4294967296 ->
  read_all max (mk_src (write_all msgs) sch eg TEOF) = (msgs, FErr MEOF 0).
Proof.
  intros max msgs sch eg HF Hm. rewrite any_sched_proof.
  destruct (expected_frames (Some max) TEOF msgs [] (Forall_fits _ _ HF Hm)) as [f E].
  rewrite app_nil_r in E. rewrite E. cbn. now rewrite app_nil_r.
Qed.

Lemma truncation_proof : forall max msgs m j sch eg,
  Forall (fun m => N.of_nat (length m) <= max) msgs -> N.of_nat (length m) <= max -> max < 4294967296 ->
  (0 < j < length (write_msg m))%nat ->
  read_all max (mk_src (write_all msgs ++ firstn j (write_msg m)) sch eg TEOF) = (msgs, FErr MUnexpected 0).
Proof.
  intros max msgs m j sch eg HF Hmm Hm Hj. rewrite any_sched_proof.
  destruct (expected_frames (Some max) TEOF msgs (firstn j (write_msg m)) (Forall_fits _ _ HF Hm)) as [f E].
  rewrite E, spec_read_partial by (try apply fits_some; lia || assumption).
  rewrite app_nil_r. unfold short_outcome.
  destruct (Nat.ltb_spec j 4); [|replace (4 <=? j)%nat with true by (symmetry; apply Nat.leb_le; lia); reflexivity].
  replace (0 <? j)%nat with true by (symmetry; apply Nat.ltb_lt; lia). now rewrite orb_true_r.
Qed.

Lemma oversize_early_proof : forall max msgs size rest sch eg t,
  Forall (fun m => N.of_nat (length m) <= max) msgs -> max < size -> size < 4294967296 ->
  read_all max (mk_src (write_all msgs ++ be32 size ++ rest) sch eg t) = (msgs, FErr MOversize (length rest)).
Proof.
  intros max msgs size rest sch eg t HF Hlt Hsz. rewrite any_sched_proof.
  destruct (expected_frames (Some max) t msgs (be32 size ++ rest) (Forall_fits _ _ HF ltac:(lia))) as [f E].
  rewrite E. cbn [spec_read].
  change 4 with (N.of_nat (length (be32 size))) at 1. rewrite take_app. cbv zeta.
  rewrite be_decode_be32 by exact Hsz. cbn [over].
  replace (max <? size) with true by (symmetry; apply N.ltb_lt; exact Hlt). now rewrite app_nil_r.
Qed.

Lemma stall_reports_proof : forall max msgs m j sch eg,
  Forall (fun m => N.of_nat (length m) <= max) msgs -> N.of_nat (length m) <= max -> max < 4294967296 ->
  (j < length (write_msg m))%nat ->
  read_all max (mk_src (write_all msgs ++ firstn j (write_msg m)) sch eg TBlock) =
  (msgs, FTimeout (4 <=? j)%nat (if (j <? 4)%nat then j else (j - 4)%nat)
                  (if (j <? 4)%nat then 4 else N.of_nat (length m))).
Proof.
  intros max msgs m j sch eg HF Hmm Hm Hj. rewrite any_sched_proof.
  destruct (expected_frames (Some max) TBlock msgs (firstn j (write_msg m)) (Forall_fits _ _ HF Hm)) as [f E].
  rewrite E, spec_read_partial by (try apply fits_some; lia || assumption).
  now rewrite app_nil_r.
Qed.

Lemma zero_length_ok_proof : forall max a b sch eg,
  Forall (fun m => N.of_nat (length m) <= max) (a ++ b) -> max < 4294967296 ->
  read_all max (mk_src (write_all (a ++ [] :: b)) sch eg TEOF) = (a ++ [] :: b, FErr MEOF 0).
Proof.
  intros max a b sch eg HF Hm. apply roundtrip_any_sched_proof; [|exact Hm].
  apply Forall_app in HF as [Ha Hb]. apply Forall_app. split; [exact Ha|].
  constructor; [cbn; lia|exact Hb].
Qed.

(* the decoder of the peers (no limit) and the runner's reader agree unless the limit strikes *)
Lemma spec_nolimit fuel max t : forall d r,
  spec_read fuel (Some max) t d = r -> (forall n, snd r <> FErr MOversize n) ->
  spec_read fuel None t d = r.
Proof.
  induction fuel as [|f IH]; intros d r E Hno; [exact E|].
  cbn [spec_read] in *. destruct (take 4 d) as [p rest|n]; [|exact E].
  cbv zeta in *. cbn [over] in *. destruct (max <? be_decode p 0).
  - subst r. exfalso. eapply Hno. reflexivity.
  - destruct (take (be_decode p 0) rest) as [m rest'|n]; [|exact E].
    destruct (spec_read f (Some max) t rest') as [ms e] eqn:E'.
    rewrite (IH rest' (ms, e) E'); [exact E|]. subst r. exact Hno.
Qed.

Lemma peer_decoder_same_proof : forall max s,
  (forall n, snd (read_all max s) <> FErr MOversize n) -> decode_all s = read_all max s.
Proof.
  intros max [d sch eg t] Hno. rewrite decoder_any_sched_proof, any_sched_proof.
  unfold expected. apply (spec_nolimit _ max); [reflexivity|].
  intros n. specialize (Hno n). rewrite any_sched_proof in Hno. exact Hno.
Qed.

(* ---------- JSON variant, relative to the scanner oracle ---------- *)
Lemma app_eq_prefix {A} (a b c e : list A) :
  a ++ b = c ++ e -> (length a <= length c)%nat -> a = firstn (length a) c.
Proof.
  revert c; induction a as [|x a IH]; intros c H Hl; [reflexivity|].
  destruct c as [|y c]; [cbn in Hl; lia|]. cbn in H. inversion H; subst.
  cbn. f_equal. apply IH; [assumption|cbn in Hl; lia].
Qed.

Lemma app_eq_split {A} (a b c e : list A) :
  a ++ b = c ++ e -> (length c <= length a)%nat -> exists r, a = c ++ r /\ e = r ++ b.
Proof.
  revert a; induction c as [|y c IH]; intros a H Hl.
  - exists a. split; [reflexivity|]. symmetry; exact H.
  - destruct a as [|x a]; [cbn in Hl; lia|]. cbn in H. inversion H; subst.
    destruct (IH a H2 ltac:(cbn in Hl; lia)) as (r & -> & ->). exists r. split; reflexivity.
Qed.

Section JsonProofs.
  Variable scan : bytes -> scan_res.
  Hypothesis Hskip : scanner_skips_newline scan.

  Definition nls (l : bytes) : Prop := Forall (eq 10) l.

  Lemma scan_nls l x : nls l -> scan (l ++ x) = scan x.
  Proof.
    induction 1 as [|c l <- _ IH]; [reflexivity|]. cbn. destruct Hskip as [_ H]. now rewrite H.
  Qed.

  Lemma nls_firstn k l : nls l -> nls (firstn k l).
  Proof. intros H. revert k; induction H as [|c l' Hc Hl' IH]; intros [|k]; cbn; try constructor; auto. apply IH. Qed.

  Lemma nls_non_space l : nls l -> non_space l = false.
  Proof. induction 1 as [|c l <- _ IH]; [reflexivity|]. cbn. exact IH. Qed.

  Lemma src_read_big d sch eg t :
    d <> [] ->
    (exists m, (1 <= m <= length d)%nat /\ (sch = [] -> m = length d \/ (0 < length (skipn m d))%nat) /\
      src_read big_buf (mk_src d sch eg t) =
      RData (firstn m d)
            (match skipn m d with [] => if eg then tail_err t else None | _ => None end)
            (mk_src (skipn m d) (tl sch) eg t)) \/
    (exists m, m = 0%nat /\ sch <> [] /\
      src_read big_buf (mk_src d sch eg t) = RData [] None (mk_src d (tl sch) eg t)).
  Proof.
    intros Hd. unfold src_read. cbn [s_data s_sched s_eager s_tail]. change (big_buf =? 0) with false. cbv iota.
    destruct d as [|x d']; [congruence|]. set (d := x :: d') in *.
    assert (Hd1 : (1 <= length d)%nat) by (subst d; cbn [length]; lia).
    rewrite cap_spec.
    set (k := match sch with [] => length d | k :: _ => Nat.min k (length d) end).
    set (m := Nat.min (N.to_nat big_buf) k).
    assert (Hbig : (1 <= N.to_nat big_buf)%nat) by (unfold big_buf; lia).
    destruct (Nat.eq_dec m 0) as [E|E].
    - right. exists 0%nat. split; [reflexivity|]. split.
      + intros ->. subst m k. lia.
      + rewrite E. reflexivity.
    - left. exists m. split; [subst m k; destruct sch; lia|]. split; [|reflexivity].
      intros ->. subst m k. rewrite skipn_length. lia.
  Qed.

  (* reading one value v that is (after newlines) at the front of buffer + data *)
  Lemma json_loop_value v (Hv : scanner_ok scan v) eg t :
    forall fuel buf d sch lasterr l more,
    nls l -> buf ++ d = (l ++ v) ++ more ->
    (length sch + length d + 1 < fuel)%nat ->
    (lasterr = None \/ d = []) ->
    exists sch' rest d', json_loop scan fuel buf (mk_src d sch eg t) lasterr = JVal v rest (mk_src d' sch' eg t)
                         /\ rest ++ d' = more.
  Proof.
    destruct Hv as [Hc Hp].
    induction fuel as [|f IH]; intros buf d sch lasterr l more Hl E Hf Hle; [lia|].
    cbn [json_loop].
    destruct (Nat.le_gt_cases (length (l ++ v)) (length buf)) as [Hlen|Hlen].
    - destruct (app_eq_split _ _ _ _ E Hlen) as (r & -> & ->).
      rewrite <- !app_assoc, scan_nls by exact Hl. rewrite Hc. exists sch, r, d. split; reflexivity.
    - assert (Hb : buf = firstn (length buf) (l ++ v)) by (eapply app_eq_prefix; [exact E|lia]).
      assert (Hs : scan buf = SNeedMore).
      { rewrite Hb, firstn_app, scan_nls by (apply nls_firstn; exact Hl).
        rewrite app_length in Hlen.
        destruct (Nat.le_gt_cases (length buf) (length l)) as [H1|H1].
        - replace (length buf - length l)%nat with 0%nat by lia. cbn. apply Hskip.
        - apply Hp. lia. }
      rewrite Hs.
      assert (Hd : d <> []).
      { intros ->. rewrite app_nil_r in E. apply (f_equal (@length N)) in E. rewrite app_length in E. lia. }
      destruct Hle as [->|Hle]; [|congruence].
      destruct (src_read_big d sch eg t Hd) as [(m & Hm & Hm0 & ->)|(m & _ & Hsch & ->)].
      + apply (IH (buf ++ firstn m d) (skipn m d) (tl sch) _ l more Hl).
        * rewrite <- app_assoc, firstn_skipn. exact E.
        * rewrite skipn_length. destruct sch; cbn [length tl] in *; [|lia].
          destruct (Hm0 eq_refl); [lia|]. rewrite skipn_length in *. lia.
        * destruct (skipn m d); [right; reflexivity|left; reflexivity].
      + rewrite app_nil_r. apply (IH buf d (tl sch) None l more Hl E); [|left; reflexivity].
        destruct sch; [congruence|]. cbn [length tl] in *. lia.
  Qed.

  (* nothing but newlines left: a clean end *)
  Lemma json_loop_end eg :
    forall fuel buf d sch lasterr,
    nls (buf ++ d) -> (length sch + length d + 1 < fuel)%nat ->
    (lasterr = None \/ (lasterr = Some EEOF /\ d = [])) ->
    exists s', json_loop scan fuel buf (mk_src d sch eg TEOF) lasterr = JErr MEOF s'.
  Proof.
    induction fuel as [|f IH]; intros buf d sch lasterr Hn Hf Hle; [lia|].
    cbn [json_loop].
    assert (Hb : nls buf) by (apply Forall_app in Hn; tauto).
    assert (Hs : scan buf = SNeedMore).
    { rewrite <- (app_nil_r buf), scan_nls by exact Hb. apply Hskip. }
    rewrite Hs. destruct Hle as [->|[-> ->]].
    - destruct d as [|x d'].
      + unfold src_read. cbn. rewrite app_nil_r.
        destruct f as [|f']; [lia|]. cbn [json_loop]. rewrite Hs, nls_non_space by exact Hb. eauto.
      + destruct (src_read_big (x :: d') sch eg TEOF ltac:(discriminate)) as [(m & Hm & Hm0 & ->)|(m & _ & Hsch & ->)].
        * apply IH.
          -- rewrite <- app_assoc, firstn_skipn. exact Hn.
          -- rewrite skipn_length. destruct sch; cbn [length tl] in *; [|lia].
             destruct (Hm0 eq_refl); [lia|]. rewrite skipn_length in *. lia.
          -- destruct (skipn m (x :: d')); [|left; reflexivity].
             destruct eg; [right; split; reflexivity|left; reflexivity].
        * rewrite app_nil_r. apply IH; [exact Hn| |left; reflexivity].
          destruct sch; [congruence|]. cbn [length tl] in *. lia.
    - rewrite nls_non_space by exact Hb. eauto.
  Qed.

  Lemma json_all_values eg : forall vs fuel buf d sch l,
    Forall (scanner_ok scan) vs -> nls l -> buf ++ d = l ++ json_write_all vs ->
    (length vs < fuel)%nat ->
    json_all_loop scan fuel buf (mk_src d sch eg TEOF) = (vs, JFErr MEOF).
  Proof.
    induction vs as [|v vs IH]; intros fuel buf d sch l HF Hl E Hf; (destruct fuel as [|f]; [lia|]); cbn [json_all_loop]; unfold json_next.
    - cbn in E. rewrite app_nil_r in E.
      destruct (json_loop_end eg (S (S (read_fuel (mk_src d sch eg TEOF)))) buf d sch None) as [s' ->];
        [rewrite E; exact Hl|unfold read_fuel; cbn; lia|left; reflexivity|reflexivity].
    - inversion HF as [|? ? Hv Hvs]; subst.
      unfold json_write_all in E. cbn [map concat] in E. unfold json_write at 1 in E.
      fold (json_write_all vs) in E. rewrite <- app_assoc, app_assoc in E.
      destruct (json_loop_value v Hv eg TEOF (S (S (read_fuel (mk_src d sch eg TEOF)))) buf d sch None l _ Hl E)
        as (sch' & rest & d' & -> & E'); [unfold read_fuel; cbn; lia|left; reflexivity|].
      rewrite (IH f rest d' sch' [10] Hvs); [reflexivity|constructor; [reflexivity|constructor]|exact E'|cbn [length] in Hf; lia].
  Qed.

  Lemma json_write_all_length vs : (length vs <= length (json_write_all vs))%nat.
  Proof.
    induction vs as [|v vs IH]; [cbn; lia|].
    unfold json_write_all in *. cbn [map concat]. unfold json_write at 1. rewrite !app_length. cbn [length]. lia.
  Qed.

  Lemma json_roundtrip_any_sched_proof : forall vs sch eg,
    Forall (scanner_ok scan) vs ->
    json_all scan (mk_src (json_write_all vs) sch eg TEOF) = (vs, JFErr MEOF).
  Proof.
    intros vs sch eg HF. unfold json_all. cbn [s_data].
    apply (json_all_values eg vs _ [] _ sch []); [exact HF|constructor|reflexivity|].
    pose proof (json_write_all_length vs). lia.
  Qed.
End JsonProofs.

(* ---------- a clean end is reported only at a frame boundary (any byte string) ---------- *)
Lemma take_done want d g r :
  take want d = TkDone g r -> d = g ++ r /\ N.of_nat (length g) = want.
Proof.
  unfold take. destruct (N.leb_spec want (N.of_nat (length d))) as [H|H]; [|discriminate].
  intros E; inversion E; subst. split; [symmetry; apply firstn_skipn|].
  rewrite firstn_length. lia.
Qed.

Lemma clean_end_only_at_boundary_spec max : forall fuel d ms n,
  Forall (fun b => b < 256) d ->
  spec_read fuel max TEOF d = (ms, FErr MEOF n) -> d = write_all ms /\ n = 0%nat.
Proof.
  induction fuel as [|f IH]; intros d ms n Hb E; [discriminate|].
  cbn [spec_read] in E. destruct (take 4 d) as [p r|k] eqn:Ht.
  - cbv zeta in E. destruct (over max (be_decode p 0)); [discriminate|].
    apply take_done in Ht as [-> Hp].
    destruct (take (be_decode p 0) r) as [m r'|k] eqn:Ht2; [|discriminate].
    apply take_done in Ht2 as [-> Hm].
    destruct (spec_read f max TEOF r') as [ms' e] eqn:E'. inversion E; subst.
    apply Forall_app in Hb as [Hbp Hb]. apply Forall_app in Hb as [_ Hb].
    destruct (IH r' ms' n Hb E') as [-> ->]. split; [|reflexivity].
    unfold write_all. cbn [map concat]. unfold write_msg at 2. rewrite <- app_assoc. f_equal.
    rewrite Hm.
    destruct p as [|a [|b [|c [|e [|? ?]]]]]; cbn [length] in Hp; try lia.
    inversion Hbp as [|? ? Ha Q1]; inversion Q1 as [|? ? Hb' Q2]; inversion Q2 as [|? ? Hc Q3];
      inversion Q3 as [|? ? He _]; subst.
    symmetry. apply be32_be_decode; assumption.
  - unfold short_outcome in E. cbn [orb] in E.
    unfold take in Ht. destruct (4 <=? N.of_nat (length d)); [discriminate|]. inversion Ht; subst.
    destruct (length d) eqn:Hl; [|discriminate]. inversion E; subst.
    destruct d; [split; reflexivity|discriminate].
Qed.

Lemma clean_end_is_eof_proof : forall max d sch eg ms n,
  Forall (fun b => b < 256) d ->
  read_all max (mk_src d sch eg TEOF) = (ms, FErr MEOF n) -> d = write_all ms /\ n = 0%nat.
Proof.
  intros max d sch eg ms n Hb E. rewrite any_sched_proof in E.
  eapply clean_end_only_at_boundary_spec; eassumption.
Qed.
