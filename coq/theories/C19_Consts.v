(* C19_Consts.v - REGENERATED on every run from the compiled Go code by TestVerifConsts
   (harness/C19); do not edit. *)
From Coq Require Import ZArith NArith List.
Import ListNotations.
Definition c19_server_receive_limit : Z := 204800%Z.
Definition c19_client_receive_limit : Z := 1048576%Z.
Definition c19_pad_field_numbers : list Z := [2; 2; 2; 2; 3]%Z.
Definition c19_server_read_limiters : list Z := [0]%Z.
Definition c19_client_read_limiters : list Z := [0]%Z.
